#!/bin/bash
# run every registered check (quick tier by default) and summarise
cd "$(dirname "$0")"
TIER=${1:-quick}
ids=$(/venv/bin/python -c "import json;print(' '.join(c['property_id'] for c in json.load(open('MANIFEST.json'))['checks']))")
rc=0
for id in $ids; do
  ./check $id --tier $TIER | tail -3
  r=${PIPESTATUS[0]}
  [ $r -ne 0 ] && rc=1 && echo "  -> $id exit $r"
done
exit $rc
