"""Run the checks against a seeded change:  seed_eval.py <seeded-dir> [check ids...]

Applies seeded/<name>/patch.diff to /repo (git apply), runs the named checks (default: the property the change breaks,
from meta.json), records which of them report a VIOLATION, and restores /repo (git checkout -- .)."""
import json
import os
import subprocess
import sys

VERIF = os.path.dirname(os.path.dirname(os.path.abspath(__file__)))
sd = os.path.abspath(sys.argv[1])
meta = json.load(open(os.path.join(sd, "meta.json")))
ids = sys.argv[2:] or [meta["property"]]
REPO = os.environ.get("FQE_REPO", "/repo")
assert subprocess.run(["git", "-C", REPO, "status", "--porcelain", "--untracked-files=no"], stdout=subprocess.PIPE,
                      text=True).stdout.strip() == "", "/repo has uncommitted changes"
subprocess.run(["git", "-C", REPO, "apply", os.path.abspath(os.path.join(sd, "patch.diff"))], check=True)
out = {}
try:
    for pid in ids:
        r = subprocess.run([os.path.join(VERIF, "check"), pid], cwd=VERIF, stdout=subprocess.PIPE, stderr=subprocess.STDOUT, text=True)
        lines = [l for l in r.stdout.splitlines() if l.startswith(("VIOLATION", "check "))]
        out[pid] = {"exit": r.returncode, "lines": lines[-2:]}
        print(pid, r.returncode, " | ".join(lines[-2:])[:300], flush=True)
finally:
    subprocess.run(["git", "-C", REPO, "checkout", "--", "."], check=True)
    for tr in ("cbits.py", "omp.py", "guards.py", "persist.py", "pyint.py"):
        subprocess.run(["/venv/bin/python", os.path.join(VERIF, "harness", "translate", tr)])
det = meta.get("detected_by") or {}
for pid, o in out.items():
    det[pid] = {"quick_exit": o["exit"], "violation_line": next((l for l in o["lines"] if l.startswith("VIOLATION")), None)}
meta["detected_by"] = det
json.dump(meta, open(os.path.join(sd, "meta.json"), "w"), indent=1)
print("@@SEED@@" + json.dumps(out))
