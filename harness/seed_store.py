#!/venv/bin/python
"""seed_store.py <ID> [root] [offset] — copy the confirmed seeded changes of /tmp/seed/<ID>/_seed/{1,2} into /verif/seeded/<ID>-<n>/."""
import json, os, shutil, sys
pid = sys.argv[1]
root = sys.argv[2] if len(sys.argv) > 2 else "/tmp/seed"
offset = int(sys.argv[3]) if len(sys.argv) > 3 else 0          # second round: seeded/<ID>-3, ...
for n in (1, 2):
    cf = f"{root}/{pid}.confirm{n}.json"
    sd = f"{root}/{pid}/_seed/{n}"
    if not os.path.exists(cf) or not os.path.getsize(cf):
        print(pid, n, "no confirmation"); continue
    c = json.load(open(cf))
    if not c.get("confirmed"):
        print(pid, n, "NOT confirmed", {k: c.get(k) for k in ("demo_clean_rc", "demo_changed_rc", "suite_ok", "suite_missing")}); continue
    dst = f"/verif/seeded/{pid}-{n + offset}"
    os.makedirs(dst, exist_ok=True)
    for f in ("patch.diff", "demo.py", "notes.md"):
        if os.path.exists(f"{sd}/{f}"):
            shutil.copy(f"{sd}/{f}", f"{dst}/{f}")
    meta_path = f"{dst}/meta.json"
    old = json.load(open(meta_path)) if os.path.exists(meta_path) else {}
    meta = {"property": pid, "source": "independent sub-agent given only the property text and a scratch worktree",
            "files": c["files"], "needs_to_manifest": "see notes.md",
            "confirmed": {"demo_on_clean_tree_exit": c["demo_clean_rc"], "demo_on_changed_tree_exit": c["demo_changed_rc"],
                          "pinned_suite_on_changed_tree": "466/466 stable tests pass",
                          "how": "harness/seed_confirm.py in the scratch worktree (build, demo, apply, rebuild, demo, full suite vs BASELINE.json, restore)"},
            "detected_by": old.get("detected_by")}
    json.dump(meta, open(meta_path, "w"), indent=1)
    print(pid, n, "stored")
