"""omp.py — inventory of every `#pragma omp` in src/fqe/lib/*.c, emitted as Generated/OmpInventory.lean.

Second table (`bodies`): for the statement each pragma governs, which variables declared OUTSIDE that statement are
written directly inside it (arrays / dereferenced pointers, and plain scalars), and which functions are called.
Props/C10.lean proves from it that no shared scalar is written inside any parallel construct and that the table equals
the reviewed one.

For each pragma: file, enclosing function, the normalised pragma text, and the header of the loop it governs (loop
variable and bound expression) or `-` for a bare `parallel` region / `atomic` / `critical`.  Also the numeric constants
the batching arithmetic depends on.  Props/C10.lean proves that every inventory entry is one of the reviewed loops
(`decide`): a new pragma, a pragma moved to another loop, a changed schedule or reduction clause changes the generated
list and the obligation stops checking."""
import os
import re
import sys

REPO = os.environ.get("FQE_REPO", "/repo")
LIB = os.path.join(REPO, "src", "fqe", "lib")
OUT = os.path.join(os.path.dirname(os.path.dirname(os.path.dirname(os.path.abspath(__file__)))),
                   "lean", "FqeVerif", "Generated", "OmpInventory.lean")


def strip_comments(src):
    src = re.sub(r"/\*.*?\*/", lambda m: "\n" * m.group(0).count("\n"), src, flags=re.S)
    return re.sub(r"//[^\n]*", "", src)


def functions(src):
    """yield (name, start_line, end_line) of top-level function bodies"""
    depth, name, start = 0, None, None
    lines = src.split("\n")
    sig = re.compile(r"^\s*(?:static\s+)?(?:inline\s+)?[A-Za-z_][\w\s\*]*?\b([A-Za-z_]\w*)\s*\($")
    pending = None
    for i, line in enumerate(lines):
        if depth == 0:
            m = re.match(r"^(?:static\s+)?(?:inline\s+)?(?:const\s+)?[A-Za-z_]\w*(?:\s+\w+)*[\s\*]+([A-Za-z_]\w*)\s*\(", line)
            if m and not line.strip().startswith(("if", "for", "while", "return", "#")):
                pending = m.group(1)
        opens, closes = line.count("{"), line.count("}")
        if depth == 0 and opens and pending:
            name, start = pending, i
        depth += opens - closes
        if depth == 0 and name and closes:
            yield name, start, i
            name, pending = None, None


TYPES = {"const","unsigned","signed","int","long","short","double","float","char","size_t","uint64_t","int64_t","int32_t","uint32_t","bool","_Bool","complex","struct","static","register","volatile"}
ASSIGN = re.compile(r"(\+\+|--|<<=|>>=|[-+*/%|&^]?=)(?!=)")

def governed(lines, k):
    """text of the statement starting at line k (for-loop with body, or a block)"""
    text = "\n".join(lines[k:])
    i = 0
    while text[i].isspace(): i += 1
    start = i
    def match(i, o, c):
        d = 0
        while True:
            if text[i] == o: d += 1
            elif text[i] == c:
                d -= 1
                if d == 0: return i
            i += 1
    if text.startswith("for", i):
        i = text.index("(", i); i = match(i, "(", ")") + 1
    while text[i].isspace(): i += 1
    if text[i] == "{":
        i = match(i, "{", "}") + 1
    elif text.startswith("for", i):
        # nested unbraced for
        j = text.index("(", i); j = match(j, "(", ")") + 1
        while text[j].isspace(): j += 1
        i = match(j, "{", "}") + 1 if text[j] == "{" else text.index(";", j) + 1
    else:
        i = text.index(";", i) + 1
    return text[start:i]

def split_top(s, sep):
    out, d, cur = [], 0, ""
    for ch in s:
        if ch in "([{": d += 1
        elif ch in ")]}": d -= 1
        if ch == sep and d == 0:
            out.append(cur); cur = ""
        else: cur += ch
    out.append(cur)
    return out

def analyse(body):
    body = re.sub(r"^\s*#[^\n]*$", "", body, flags=re.M)       # pragma lines inside a region
    declared = set()
    tseq = r"(?:(?:const|unsigned|signed|int|long|short|double|float|char|size_t|uint64_t|int64_t|int32_t|uint32_t|bool|_Bool|complex|static|register|volatile|struct\s+\w+)\b\s*)+"
    for m in re.finditer(r"(?:^|[;{}(])\s*(" + tseq + r")", body):
        i = m.end()
        # declarators up to ';' at depth 0 (or ')' closing a for header without init list)
        d, j = 0, i
        while j < len(body):
            ch = body[j]
            if ch in "([{": d += 1
            elif ch in ")]}":
                if d == 0: break
                d -= 1
            elif ch == ";" and d == 0: break
            j += 1
        for dcl in split_top(body[i:j], ","):
            t = dcl.strip()
            t = re.sub(r"^[\s\*\(]+", "", t)
            t = re.sub(r"^(?:const|restrict)\s+", "", t)
            mm = re.match(r"([A-Za-z_]\w*)", t)
            if mm and mm.group(1) not in TYPES:
                declared.add(mm.group(1))
    writes, scalars = set(), set()
    # find assignment operators and walk left to get the lvalue
    for m in ASSIGN.finditer(body):
        op = m.group(1)
        i = m.start() - 1
        if op in ("++", "--"):
            # postfix: lvalue to the left; prefix: to the right
            j = m.end()
            rm = re.match(r"\s*([A-Za-z_]\w*)", body[j:])
            left = body[:m.start()].rstrip()
            if not (left and (left[-1].isalnum() or left[-1] in "_])")) and rm:
                name = rm.group(1); sub = body[j + rm.end():].lstrip().startswith("[")
                (writes if sub else scalars).add(name); continue
        # skip if this '=' is part of <=, >=, !=, ==
        if op == "=" and m.start() > 0 and body[m.start() - 1] in "<>!=": continue
        while i >= 0 and body[i].isspace(): i -= 1
        sub = False
        while i >= 0 and body[i] == "]":
            d = 0
            while True:
                if body[i] == "]": d += 1
                elif body[i] == "[":
                    d -= 1
                    if d == 0: break
                i -= 1
            i -= 1; sub = True
            while i >= 0 and body[i].isspace(): i -= 1
        j = i
        while j >= 0 and (body[j].isalnum() or body[j] == "_"): j -= 1
        name = body[j + 1:i + 1]
        if not name or name[0].isdigit(): continue
        # member access a->b / a.b: take the base as written object
        k = j
        while k >= 0 and body[k].isspace(): k -= 1
        deref = k >= 0 and body[k] == "*" 
        if k >= 1 and body[k-1:k+1] == "->" or (k >= 0 and body[k] == "."):
            continue
        (writes if (sub or deref) else scalars).add(name)
    calls = set(re.findall(r"([A-Za-z_]\w*(?:->\w+)?)\s*\(", body)) - {"for", "if", "while", "sizeof", "switch", "return"}
    calls = {c for c in calls if c not in TYPES}
    shared_w = sorted(w for w in writes if w not in declared)
    shared_s = sorted(s for s in scalars if s not in declared)
    return shared_w, shared_s, sorted(calls)


def main():
    entries = []
    bodies = []
    for fn in sorted(os.listdir(LIB)):
        if not fn.endswith(".c") or fn.startswith("_"):
            continue
        src = strip_comments(open(os.path.join(LIB, fn)).read())
        lines = src.split("\n")
        funcs = list(functions(src))
        for i, line in enumerate(lines):
            m = re.match(r"^\s*#\s*pragma\s+omp\s+(.*?)\s*$", line)
            if not m:
                continue
            pragma = re.sub(r"\s+", " ", m.group(1).strip().rstrip("\\").strip())
            # continuation lines
            j = i
            while lines[j].rstrip().endswith("\\"):
                j += 1
                pragma += " " + re.sub(r"\s+", " ", lines[j].strip().rstrip("\\").strip())
            func = next((n for n, s, e in funcs if s <= i <= e), "?")
            loop = "-"
            if re.search(r"\bfor\b", pragma):
                k = j + 1
                while k < len(lines) and not lines[k].strip():
                    k += 1
                lm = re.match(r"^\s*for\s*\(([^=;]*)=\s*([^;]+);\s*([^;]+);", lines[k])
                ids = re.findall(r"[A-Za-z_]\w*", lm.group(1)) if lm else []
                ids = [x for x in ids if x not in ("const", "int", "unsigned", "long", "size_t", "int64_t", "uint64_t", "int32_t")]
                if not lm or not ids:
                    raise SyntaxError(f"{fn}:{k + 1}: cannot read the loop governed by '#pragma omp {pragma}'")
                loop = f"{ids[0]} from {lm.group(2).strip()} while {re.sub(r'\s+', ' ', lm.group(3).strip())}"
            entries.append((fn, func, pragma, loop))
            try:
                w_, s_, c_ = analyse(governed(lines, j + 1))
            except (ValueError, IndexError) as exc:
                raise SyntaxError(f"{fn}:{j + 2}: cannot delimit the statement governed by '#pragma omp {pragma}' ({exc})")
            bodies.append((fn, func, w_, s_, c_))
    consts = {}
    for fn, pat in (("macros.h", r"#define\s+ZAXPY_STRIDE\s+(\d+)"), ("fqe_data.c", r"#define\s+STATES_PER_SET\s+(\d+)")):
        m = re.search(pat, open(os.path.join(LIB, fn)).read())
        if not m:
            raise SyntaxError(f"constant not found in {fn}")
        consts[pat.split("\\s+")[1]] = int(m.group(1))
    text = ["/-\n  GENERATED by harness/translate/omp.py from src/fqe/lib/*.c.  Do not edit: regenerated on every check run.\n-/",
            "namespace GenOmp", "",
            "/-- (file, function, pragma, governed loop) for every `#pragma omp` in the C sources -/",
            "def inventory : List (String × String × String × String) := ["]
    text.append(",\n".join(f'  ("{a}", "{b}", "{c}", "{d}")' for a, b, c, d in entries))
    text.append("]")
    text.append("")
    text.append("/-- per construct, in the same order: (file, function, shared arrays written directly (`x[..] = `, `*x = `),\n"
                "    shared scalars written directly, functions called) inside the governed statement; `shared` = not declared\n"
                "    inside that statement.  Writes through pointers declared inside the statement are not tracked. -/")
    text.append("def bodies : List (String × String × List String × List String × List String) := [")
    q = lambda l: "[" + ", ".join('"%s"' % x for x in l) + "]"
    text.append(",\n".join(f'  ("{a}", "{b}", {q(c)}, {q(d)}, {q(e)})' for a, b, c, d, e in bodies))
    text.append("]")
    text.append("")
    for k, v in sorted(consts.items()):
        text.append(f"def {k} : Nat := {v}")
    text.append("")
    text.append("end GenOmp")
    out = "\n".join(text) + "\n"
    old = open(OUT).read() if os.path.exists(OUT) else None
    if old != out:
        os.makedirs(os.path.dirname(OUT), exist_ok=True)
        with open(OUT, "w") as fh:
            fh.write(out)


if __name__ == "__main__":
    try:
        main()
    except SyntaxError as e:
        print(f"omp translator: {e}")
        sys.exit(1)
