"""cbits.py — translate the bit helpers of src/fqe/lib/bitstring.h and the Gosper loop body of
bitstring.c into Lean definitions over `BitVec 64` (Generated/BitsC.lean).

The meaning given to C: `uint64_t` arithmetic is `BitVec 64` (wrap-around); `int` parameters are
`Nat` positions; a shift by a count >= 64 is undefined behaviour, so every shift count is also
emitted into `<fn>_shifts` and Props/C05.lean proves each `< 64`; `__builtin_popcountll` is the
number of set bits (`Model.countBits` of the value).  Anything the parser does not understand makes
the translator fail, which the check reports as a broken obligation.
"""
import os
import re
import sys

REPO = os.environ.get("FQE_REPO", "/repo")
OUT = os.path.join(os.path.dirname(os.path.dirname(os.path.dirname(os.path.abspath(__file__)))),
                   "lean", "FqeVerif", "Generated", "BitsC.lean")

TOK = re.compile(r"\s*(?:(\d+)(ull|ULL|u|U)?|([A-Za-z_][A-Za-z_0-9]*)|(<<=|>>=|\|=|&=|\^=|<<|>>|[-+*/~&|^()=;,!<>]))")


def tokenize(s):
    out, pos = [], 0
    s = s.strip()
    while pos < len(s):
        m = TOK.match(s, pos)
        if not m:
            raise SyntaxError(f"cannot tokenize at: {s[pos:pos+30]!r}")
        if m.group(1) is not None:
            out.append(("num", int(m.group(1))))
        elif m.group(3) is not None:
            out.append(("id", m.group(3)))
        else:
            out.append(("op", m.group(4)))
        pos = m.end()
    return out


class Parser:
    """precedence: | < ^ < & < shift < additive < multiplicative < unary"""

    def __init__(self, toks, env):
        self.t, self.i, self.env, self.shifts = toks, 0, env, []

    def peek(self):
        return self.t[self.i] if self.i < len(self.t) else (None, None)

    def eat(self, kind=None, val=None):
        k, v = self.peek()
        if (kind and k != kind) or (val is not None and v != val):
            raise SyntaxError(f"expected {kind} {val}, got {k} {v}")
        self.i += 1
        return v

    def binlevel(self, ops, sub):
        e = sub()
        while self.peek() in [("op", o) for o in ops]:
            o = self.eat()
            r = sub()
            e = self.mk(o, e, r)
        return e

    def mk(self, o, l, r):
        lean = {"|": "|||", "^": "^^^", "&": "&&&", "+": "+", "-": "-", "*": "*", "/": "/"}
        if o in ("<<", ">>"):
            # the count is an int expression (a Nat in the model)
            self.shifts.append(r[1] if r[0] == "nat" else f"({r[1]}).toNat")
            cnt = r[1] if r[0] == "nat" else f"({r[1]}).toNat"
            return ("bv", f"({self.bv(l)} {'<<<' if o == '<<' else '>>>'} {cnt})")
        return ("bv", f"({self.bv(l)} {lean[o]} {self.bv(r)})")

    def bv(self, e):
        if e[0] == "bv":
            return e[1]
        if e[0] == "lit":
            return f"{e[1]}#64"
        raise SyntaxError(f"int expression used as uint64: {e}")

    def expr(self):
        return self.binlevel(["|"], lambda: self.binlevel(["^"], lambda: self.binlevel(["&"], lambda: self.binlevel(
            ["<<", ">>"], lambda: self.binlevel(["+", "-"], lambda: self.binlevel(["*", "/"], self.unary))))))

    def unary(self):
        k, v = self.peek()
        if (k, v) == ("op", "~"):
            self.eat()
            return ("bv", f"(~~~ {self.bv(self.unary())})")
        if (k, v) == ("op", "-"):
            self.eat()
            return ("bv", f"(- {self.bv(self.unary())})")
        if (k, v) == ("op", "("):
            self.eat()
            e = self.expr()
            self.eat("op", ")")
            return e
        if k == "num":
            self.eat()
            return ("lit", v)
        if k == "id":
            self.eat()
            if v not in self.env:
                raise SyntaxError(f"unknown identifier {v}")
            return (self.env[v], v)
        raise SyntaxError(f"unexpected token {k} {v}")


def function_body(src, name):
    m = re.search(r"inline\s+int\s+" + name + r"\s*\(([^)]*)\)\s*\{", src)
    if not m:
        raise SyntaxError(f"function {name} not found")
    depth, i = 1, m.end()
    while depth:
        if src[i] == "{":
            depth += 1
        elif src[i] == "}":
            depth -= 1
        i += 1
    return m.group(1), src[m.end():i - 1]


def translate_fn(src, name, lean_name):
    params, body = function_body(src, name)
    env, args = {}, []
    for p in params.split(","):
        p = p.strip()
        m = re.match(r"(const\s+)?(uint64_t|int)\s+(\w+)$", p)
        if not m:
            raise SyntaxError(f"parameter {p!r}")
        env[m.group(3)] = "bv" if m.group(2) == "uint64_t" else "nat"
        args.append(f"({m.group(3)} : {'BitVec 64' if m.group(2) == 'uint64_t' else 'Nat'})")
    lines, shifts = [], []
    stmts = [s.strip() for s in body.replace("\n", " ").split(";") if s.strip()]
    ret = None
    for st in stmts:
        m = re.match(r"(\w+)\s*(&=|\|=|\^=)\s*(.*)$", st)
        if m:
            var, op, rhs = m.groups()
            P = Parser(tokenize(rhs), env)
            e = P.expr()
            if P.i != len(P.t):
                raise SyntaxError(f"trailing tokens in {st!r}")
            shifts += P.shifts
            lop = {"&=": "&&&", "|=": "|||", "^=": "^^^"}[op]
            lines.append(f"  let {var} := {var} {lop} {P.bv(e)}")
            continue
        m = re.match(r"return\s+count_bits\s*\(\s*(\w+)\s*\)$", st)
        if m:
            ret = f"  popcount {m.group(1)}"
            continue
        raise SyntaxError(f"statement not understood in {name}: {st!r}")
    if ret is None:
        raise SyntaxError(f"no return in {name}")
    defn = f"def {lean_name} {' '.join(args)} : Nat :=\n" + "\n".join(lines) + "\n" + ret + "\n"
    nat_args = [a for a in args]
    sh = f"def {lean_name}_shifts {' '.join(nat_args)} : List Nat := [{', '.join(shifts)}]\n"
    return defn + "\n" + sh


def translate_macro(src, name, lean_name):
    m = re.search(r"#define\s+" + name + r"\(b,pos\)\s+(.*)", src)
    if not m:
        raise SyntaxError(f"macro {name} not found")
    P = Parser(tokenize(m.group(1)), {"b": "bv", "pos": "nat"})
    e = P.expr()
    if P.i != len(P.t):
        raise SyntaxError(f"trailing tokens in macro {name}")
    return (f"def {lean_name} (b : BitVec 64) (pos : Nat) : BitVec 64 := {P.bv(e)}\n\n"
            f"def {lean_name}_shifts (b : BitVec 64) (pos : Nat) : List Nat := [{', '.join(P.shifts)}]\n")


def translate_gosper(csrc):
    m = re.search(r"while\s*\(\s*combo\s*<\s*\(1ull\s*<<\s*norb\)\s*\)\s*\{(.*?)\n\s*\}", csrc, re.S)
    if not m:
        raise SyntaxError("Gosper loop not found")
    init = re.search(r"uint64_t\s+combo\s*=\s*(.*?);", csrc)
    if not init:
        raise SyntaxError("Gosper initial value not found")
    env = {"combo": "bv", "nele": "nat", "norb": "nat"}
    lines = []
    stmts = [s.strip() for s in m.group(1).replace("\n", " ").split(";") if s.strip()]
    if stmts[0].replace(" ", "") != "*out++=combo":
        raise SyntaxError(f"loop must start by storing combo, got {stmts[0]!r}")
    for st in stmts[1:]:
        mm = re.match(r"const\s+uint64_t\s+(\w+)\s*=\s*(.*)$", st)
        if mm:
            var, rhs = mm.groups()
            P = Parser(tokenize(rhs), env)
            e = P.expr()
            assert P.i == len(P.t)
            env[var] = "bv"
            lines.append(f"  let {var} := {P.bv(e)}")
            continue
        mm = re.match(r"combo\s*(=|>>=|\|=|&=)\s*(.*)$", st)
        if mm:
            op, rhs = mm.groups()
            P = Parser(tokenize(rhs), env)
            e = P.expr()
            assert P.i == len(P.t)
            if op == "=":
                lines.append(f"  let combo := {P.bv(e)}")
            elif op == ">>=":
                if e[0] != "lit":
                    raise SyntaxError("shift count of combo must be a literal")
                lines.append(f"  let combo := combo >>> {e[1]}")
            else:
                lines.append(f"  let combo := combo {'|||' if op == '|=' else '&&&'} {P.bv(e)}")
            continue
        raise SyntaxError(f"Gosper statement not understood: {st!r}")
    P = Parser(tokenize(init.group(1)), env)
    e = P.expr()
    out = "def gosper_next (combo : BitVec 64) : BitVec 64 :=\n" + "\n".join(lines) + "\n  combo\n\n"
    out += f"def gosper_init (nele : Nat) : BitVec 64 := {P.bv(e)}\n\n"
    out += "def gosper_bound (norb : Nat) : BitVec 64 := (1#64 <<< norb)\n"
    return out


def c_macro_expr(text, env):
    """nested CHECK_BIT / SET_BIT / UNSET_BIT calls over identifiers -> Lean term"""
    text = text.strip()
    m = re.match(r"(CHECK_BIT|SET_BIT|UNSET_BIT)\((.*)\)$", text)
    if m:
        inner = m.group(2)
        depth, cut = 0, None
        for k, ch in enumerate(inner):
            if ch == "(":
                depth += 1
            elif ch == ")":
                depth -= 1
            elif ch == "," and depth == 0:
                cut = k
        if cut is None:
            raise SyntaxError(f"macro call {text!r}")
        a, b = inner[:cut], inner[cut + 1:].strip()
        if env.get(b) != "nat":
            raise SyntaxError(f"position {b!r} is not an int parameter")
        fn = {"CHECK_BIT": "check_bit", "SET_BIT": "set_bit", "UNSET_BIT": "unset_bit"}[m.group(1)]
        return f"({fn} {c_macro_expr(a, env)} {b})"
    if re.match(r"\w+$", text) and env.get(text) == "bv":
        return text
    raise SyntaxError(f"expression {text!r}")


def c_cond(text, env):
    parts = [t.strip() for t in text.split("&&")]
    out = []
    for t in parts:
        neg = t.startswith("!")
        if neg:
            t = t[1:].strip()
        m = re.match(r"(\w+)\s*==\s*(\w+)$", t)
        if m and env.get(m.group(1)) == "nat" and env.get(m.group(2)) == "nat":
            term = f"decide ({m.group(1)} = {m.group(2)})"
        elif t.startswith("CHECK_BIT("):
            term = f"(!({c_macro_expr(t, env)} == 0#64))"      # a uint64_t in a boolean context
        else:
            raise SyntaxError(f"condition term {t!r}")
        out.append(f"(!{term})" if neg else term)
    return "(" + " && ".join(out) + ")"


def translate_build_mapping(src):
    """the body of the loop over the strings in build_mapping_strings (fci_graph.c): which table entry, if any, one
    string contributes to the map (iorb <- jorb); `string_to_index(x, Z_matrix, norb)` is rendered as x (the
    address table is the subject of C05_address)"""
    m = re.search(r"void\s+build_mapping_strings\s*\(", src)
    if not m:
        raise SyntaxError("build_mapping_strings not found")
    i = src.index("{", m.end())
    depth, j = 1, i + 1
    while depth:
        depth += {"{": 1, "}": -1}.get(src[j], 0)
        j += 1
    body = re.sub(r"\s+", " ", src[i:j])
    pat = (r"uint64_t cstring = strings\[stringno\]; "
           r"if \((?P<c1>.*?)\) \{ if \(!count\) \{ "
           r"\(\*cmap\)\[0\] = string_to_index\((?P<e0>.*?), Z_matrix, norb\); "
           r"\(\*cmap\)\[1\] = string_to_index\( ?(?P<e1>.*?), Z_matrix, norb\); "
           r"\(\*cmap\)\[2\] = (?P<fn>\w+)\((?P<args>[^()]*)\) % 2 == 0 \? 1 : -1; \+\+cmap; \} \+\+counter; \} "
           r"else if \((?P<c2>.*?)\) \{ if \(!count\) \{ "
           r"const int cid = string_to_index\((?P<e3>.*?), Z_matrix, norb\); "
           r"\(\*cmap\)\[0\] = cid; \(\*cmap\)\[1\] = cid; \(\*cmap\)\[2\] = 1; \+\+cmap; \} \+\+counter; \} \}")
    mm = re.search(pat, body)
    if not mm:
        raise SyntaxError("the loop body of build_mapping_strings no longer has the reviewed shape")
    if not re.search(r"const int iorb = exc_deexc\[mapno\]\[0\]; const int jorb = exc_deexc\[mapno\]\[1\];", body):
        raise SyntaxError("iorb / jorb are no longer the two int entries of exc_deexc[mapno]")
    env = {"cstring": "bv", "iorb": "nat", "jorb": "nat"}
    if mm.group("fn") != "count_bits_between":
        raise SyntaxError("sign is no longer taken from count_bits_between")
    args = [a.strip() for a in mm.group("args").split(",")]
    if len(args) != 3 or env.get(args[0]) != "bv" or env.get(args[1]) != "nat" or env.get(args[2]) != "nat":
        raise SyntaxError("arguments of count_bits_between")
    e0, e1, e3 = (c_macro_expr(mm.group(k), env) for k in ("e0", "e1", "e3"))
    return ("/-- `fci_graph.c`, `build_mapping_strings`: the entry one string contributes to the map `iorb <- jorb`\n"
            "    (`none` = nothing); `string_to_index(x, …)` is rendered as `x` -/\n"
            "def build_mapping_entry (cstring : BitVec 64) (iorb jorb : Nat) : Option (BitVec 64 × BitVec 64 × Int) :=\n"
            f"  if {c_cond(mm.group('c1'), env)} then\n"
            f"    some ({e0}, {e1}, if count_bits_between {' '.join(args)} % 2 = 0 then (1 : Int) else -1)\n"
            f"  else if {c_cond(mm.group('c2'), env)} then some ({e3}, {e3}, (1 : Int))\n"
            "  else none\n")


def translate_make_mapping_each(src):
    """`make_mapping_each` of fci_graph.c (the operator-string maps behind every sparse apply): the two mask loops,
    the admission test and the two descending loops that accumulate the parity, matched against the reviewed shape;
    the helper names, the arrays they run over and the loop directions are read from the source"""
    m = re.search(r"int\s+make_mapping_each\s*\(", src)
    if not m:
        raise SyntaxError("make_mapping_each not found")
    i = src.index("{", m.end())
    depth, j = 1, i + 1
    while depth:
        depth += {"{": 1, "}": -1}.get(src[j], 0)
        j += 1
    body = re.sub(r"\s+", " ", src[i:j])
    up = r"for \(int (?P<v{n}>\w+) = 0; (?P=v{n}) != (?P<len{n}>\w+)_length; \+\+(?P=v{n})\)"
    down = r"for \(int (?P<v{n}>\w+) = (?P<len{n}>\w+)_length ?- ?1; (?P=v{n}) >= 0; --(?P=v{n})\)"
    pat = (r"\{ uint64_t dag_mask = 0; " + up.format(n=1) +
           r" \{ dag_mask = (?P<m1>\w+)\(dag_mask, (?P<a1>\w+)\[(?P=v1)\]\); \} "
           r"uint64_t undag_mask = 0; " + up.format(n=2) +
           r" \{ undag_mask = (?P<m2>\w+)\(undag_mask, (?P<a2>\w+)\[(?P=v2)\]\); "
           r"dag_mask = (?P<m3>\w+)\(dag_mask, (?P<a3>\w+)\[(?P=v2)\]\); \} "
           r"int count = 0; for \(int i = 0; i < length; \+\+i\) \{ uint64_t current = strings\[i\]; "
           r"const uint64_t dag_masked = current & dag_mask; const uint64_t undag_masked = current & undag_mask; "
           r"const bool check = !dag_masked && !\(undag_masked \^ undag_mask\); if \(check\) \{ int parity = 0; " +
           down.format(n=3) +
           r" \{ parity \+= (?P<f3>\w+)\(current, (?P<a4>\w+)\[(?P=v3)\]\); current = (?P<m4>\w+)\(current, (?P<a5>\w+)\[(?P=v3)\]\); \} " +
           down.format(n=4) +
           r" \{ parity \+= (?P<f4>\w+)\(current, (?P<a6>\w+)\[(?P=v4)\]\); current = (?P<m5>\w+)\(current, (?P<a7>\w+)\[(?P=v4)\]\); \} "
           r"out\[count \* 3\] = i; out\[count \* 3 \+ 1\] = current; out\[count \* 3 \+ 2\] = parity % 2; \+\+count; \} \} return count; \}")
    mm = re.search(pat, body)
    if not mm:
        raise SyntaxError("make_mapping_each no longer has the reviewed shape")
    g = mm.groupdict()
    mac = {"SET_BIT": "set_bit", "UNSET_BIT": "unset_bit"}
    for k in ("m1", "m2", "m3", "m4", "m5"):
        if g[k] not in mac:
            raise SyntaxError(f"unknown macro {g[k]}")
    for k in ("f3", "f4"):
        if g[k] != "count_bits_above":
            raise SyntaxError(f"parity is no longer accumulated with count_bits_above ({g[k]})")
    for a, b in (("a1", "len1"), ("a2", "len2"), ("a3", "len2"), ("a4", "len3"), ("a5", "len3"), ("a6", "len4"), ("a7", "len4")):
        if g[a] != g[b] or g[a] not in ("dag", "undag"):
            raise SyntaxError(f"loop over {g[b]} indexes {g[a]}")
    return (
        "/-- `fci_graph.c`, `make_mapping_each`: the two masks `(dag_mask, undag_mask)` after the two mask loops -/\n"
        "def mme_masks (dag undag : List Nat) : BitVec 64 × BitVec 64 :=\n"
        f"  let dag_mask := {g['a1']}.foldl (fun dag_mask x => {mac[g['m1']]} dag_mask x) 0#64\n"
        f"  {g['a2']}.foldl (fun (st : BitVec 64 × BitVec 64) x => ({mac[g['m3']]} st.1 x, {mac[g['m2']]} st.2 x)) (dag_mask, 0#64)\n\n"
        "/-- the admission test and the two descending loops for one string: `(target string, parity % 2)` -/\n"
        "def mme_entry (current : BitVec 64) (dag undag : List Nat) : Option (BitVec 64 × Nat) :=\n"
        "  let masks := mme_masks dag undag\n"
        "  let dag_masked := current &&& masks.1\n"
        "  let undag_masked := current &&& masks.2\n"
        "  if (dag_masked == 0#64) && ((undag_masked ^^^ masks.2) == 0#64) then\n"
        f"    let st := {g['a4']}.reverse.foldl (fun (st : BitVec 64 × Nat) x => ({mac[g['m4']]} st.1 x, st.2 + {g['f3']} st.1 x)) (current, 0)\n"
        f"    let st := {g['a6']}.reverse.foldl (fun (st : BitVec 64 × Nat) x => ({mac[g['m5']]} st.1 x, st.2 + {g['f4']} st.1 x)) st\n"
        "    some (st.1, st.2 % 2)\n"
        "  else none\n")


def translate_make_mapping_each_set(src):
    """`make_mapping_each_set` of fci_graph.c (the k-fold annihilation maps between sectors): the body executed for one
    annihilation mask (its occupied positions `occ`, ascending) and one source string, matched against the reviewed
    shape; helper names, index expressions and the loop direction are read from the source"""
    m = re.search(r"void\s+make_mapping_each_set\s*\(", src)
    if not m:
        raise SyntaxError("make_mapping_each_set not found")
    i = src.index("{", m.end())
    depth, j = 1, i + 1
    while depth:
        depth += {"{": 1, "}": -1}.get(src[j], 0)
        j += 1
    body = re.sub(r"\s+", " ", src[i:j])
    pat = (r"const uint64_t source = istrings\[i\]; if \(\(\(source & mask\) \^ mask\) == 0\) \{ "
           r"int parity = (?P<f1>\w+)\(source, occ\[dn - 1\]\) \* dn; "
           r"uint64_t target = (?P<m1>\w+)\(source, occ\[dn - 1\]\); "
           r"for \(int d = dn - 2; d >= 0; --d\) \{ "
           r"parity \+= \(d \+ 1\) \* (?P<f2>\w+)\(source, occ\[d\], occ\[d ?\+ ?1\]\); "
           r"target = (?P<m2>\w+)\(target, occ\[d\]\); \} "
           r"down\[0 \+ 3 \* \(count \+ nsize \* c\)\] = source; down\[1 \+ 3 \* \(count \+ nsize \* c\)\] = target; "
           r"down\[2 \+ 3 \* \(count \+ nsize \* c\)\] = parity; "
           r"up\[0 \+ 3 \* \(count \+ nsize \* c\)\] = target; up\[1 \+ 3 \* \(count \+ nsize \* c\)\] = source; "
           r"up\[2 \+ 3 \* \(count \+ nsize \* c\)\] = parity; \+\+count; \}")
    mm = re.search(pat, body)
    if not mm:
        raise SyntaxError("make_mapping_each_set no longer has the reviewed shape")
    if not re.search(r"const uint64_t mask = comb\[c\]; int occ\[16\]; assert\(count_bits\(mask\) == dn && dn < 16\); get_occupation\(occ, mask\);", body):
        raise SyntaxError("make_mapping_each_set: occ is no longer the occupation list of the mask")
    g = mm.groupdict()
    mac = {"SET_BIT": "set_bit", "UNSET_BIT": "unset_bit"}
    if g["m1"] not in mac or g["m2"] not in mac:
        raise SyntaxError("unknown macro in make_mapping_each_set")
    if g["f1"] != "count_bits_above" or g["f2"] != "count_bits_between":
        raise SyntaxError("parity helpers of make_mapping_each_set changed")
    return (
        "/-- `fci_graph.c`, `make_mapping_each_set`: what one source string contributes for one annihilation mask with\n"
        "    occupied positions `occ` (ascending, `dn` of them): `(target, parity count)`; `none` = not admitted -/\n"
        "def mmes_entry (source mask : BitVec 64) (occ : List Nat) (dn : Nat) : Option (BitVec 64 × Nat) :=\n"
        "  if ((source &&& mask) ^^^ mask) == 0#64 then\n"
        f"    let parity := {g['f1']} source (occ.getD (dn - 1) 0) * dn\n"
        f"    let target := {mac[g['m1']]} source (occ.getD (dn - 1) 0)\n"
        "    let st := (List.range (dn - 1)).reverse.foldl (fun (st : BitVec 64 × Nat) d =>\n"
        f"      ({mac[g['m2']]} st.1 (occ.getD d 0), st.2 + (d + 1) * {g['f2']} source (occ.getD d 0) (occ.getD (d + 1) 0))) (target, parity)\n"
        "    some (st.1, st.2)\n"
        "  else none\n")


def void_function_body(src, name):
    m = re.search(r"(?:inline\s+)?void\s+" + name + r"\s*\(([^)]*)\)\s*\{", src)
    if not m:
        raise SyntaxError(f"function {name} not found")
    depth, i = 1, m.end()
    while depth:
        if src[i] == "{":
            depth += 1
        elif src[i] == "}":
            depth -= 1
        i += 1
    return src[m.end():i - 1]


def translate_z_matrix(src, binom_h):
    """`calculate_Z_matrix` (fci_graph.c) and the literal table of `initialize_binom` (binom.h).  Reviewed shape: two
    nested counting loops defining k and ll, an int64 accumulator over a third loop whose body adds a difference of two
    table reads, a store; then a block with k = nele and one loop of stores.  Every bound, index and value expression is
    emitted over `Int` (C `int` arithmetic; all values stay below 65 * 65)."""
    def need(cond, what):
        if not cond:
            raise SyntaxError(f"calculate_Z_matrix: reviewed shape not found: {what}")
    body = void_function_body(src, "calculate_Z_matrix")
    m = re.search(r"#define\s+NB_\s+(\d+)", body)
    need(m is not None, "#define NB_ <n>")
    nb = int(m.group(1))
    ident = r"[A-Za-z_0-9 +\-*()]+?"
    pat = (r"for\s*\(int km = 0; km < (?P<kmb>" + ident + r"); \+\+km\)\s*\{\s*"
           r"for\s*\(int llm = 0; llm < (?P<llmb>" + ident + r"); \+\+llm\)\s*\{\s*"
           r"const int k = (?P<k>" + ident + r");\s*const int ll = (?P<ll>" + ident + r");\s*int64_t tmp = 0;\s*"
           r"for\s*\(int m = (?P<mlo>" + ident + r"); m < (?P<mhi>" + ident + r"); \+\+m\)\s*\{\s*"
           r"tmp \+= binom\[(?P<ip>" + ident + r")\] - binom\[(?P<im>" + ident + r")\];\s*\}\s*"
           r"out\[(?P<o1>" + ident + r")\] = \(int32_t\)tmp;\s*\}\s*\}\s*"
           r"\{\s*int k = (?P<k2>" + ident + r");\s*for\s*\(int ll = (?P<l2lo>" + ident + r"); ll < (?P<l2hi>" + ident + r"); \+\+ll\)\s*\{\s*"
           r"out\[(?P<o2>" + ident + r")\] = (?P<v2>" + ident + r");\s*\}\s*\}")
    g = re.search(pat, body)
    need(g is not None, "the two loop nests of calculate_Z_matrix")
    need(re.search(r"uint64_t\s*\*\s*binom = safe_malloc\(binom, NB_ \* NB_\);\s*initialize_binom\(binom\);", body) is not None,
         "binom = safe_malloc(NB_ * NB_); initialize_binom(binom)")

    def lean(e):
        e = e.strip().replace("NB_", str(nb))
        need(re.fullmatch(r"[A-Za-z_0-9 +\-*()]+", e) is not None, f"plain integer expression, got {e!r}")
        return re.sub(r"(?<![A-Za-z_0-9])(\d+)(?![A-Za-z_0-9])", r"(\1 : Int)", e)
    d = {k_: lean(v) for k_, v in g.groupdict().items()}
    entries = re.findall(r"binom\[\s*(\d+)\*(\d+)\+\s*(\d+)\]\s*=\s*(\d+)ull;", binom_h)
    need(len(entries) > 0 and all(int(e[1]) == nb for e in entries), "binom[n*NB_+k] = <v>ull; assignments with the stride of NB_")
    stray = re.sub(r"binom\[\s*\d+\*\d+\+\s*\d+\]\s*=\s*\d+ull;", "", void_function_body(binom_h, "initialize_binom"))
    need(stray.strip() == "", f"initialize_binom contains something else than literal assignments: {stray.strip()[:60]!r}")
    rows = {}
    for n, st, k, v in entries:
        need(int(k) < nb, "column index below the stride")
        rows.setdefault(int(n), {})[int(k)] = int(v)
    need(sorted(rows) == list(range(len(rows))), "rows 0 .. n assigned without a gap")
    for n in rows:
        need(sorted(rows[n]) == list(range(len(rows[n]))), f"row {n}: columns 0 .. k assigned without a gap")
    need(len(entries) == sum(len(r) for r in rows.values()), "no entry assigned twice")
    table_defs = "".join(f"def binomRow{n} : List Nat := [{', '.join(str(rows[n][k]) for k in range(len(rows[n])))}]\n" for n in sorted(rows))
    table = ", ".join(f"binomRow{n}" for n in sorted(rows))
    return ("/-- `calculate_Z_matrix` (fci_graph.c): bounds, indices and values of its loops, as read from the source -/\n"
            f"def cz_stride : Int := ({nb} : Int)\n"
            f"def cz_km_bound (norb nele : Int) : Int := {d['kmb']}\n"
            f"def cz_llm_bound (norb nele : Int) : Int := {d['llmb']}\n"
            f"def cz_k (km : Int) : Int := {d['k']}\n"
            f"def cz_ll (llm k : Int) : Int := {d['ll']}\n"
            f"def cz_m_lo (norb nele k ll : Int) : Int := {d['mlo']}\n"
            f"def cz_m_hi (norb nele k ll : Int) : Int := {d['mhi']}\n"
            f"def cz_idx_plus (nele k m : Int) : Int := {d['ip']}\n"
            f"def cz_idx_minus (nele k m : Int) : Int := {d['im']}\n"
            f"def cz_out1 (norb k ll : Int) : Int := {d['o1']}\n"
            f"def cz2_k (norb nele : Int) : Int := {d['k2']}\n"
            f"def cz2_lo (norb nele : Int) : Int := {d['l2lo']}\n"
            f"def cz2_hi (norb nele : Int) : Int := {d['l2hi']}\n"
            f"def cz2_out (norb k ll : Int) : Int := {d['o2']}\n"
            f"def cz2_val (nele ll : Int) : Int := {d['v2']}\n"
            "/-- the literal assignments `binom[n*stride + k] = v` of `initialize_binom` (binom.h): row n lists the values\n"
            "    assigned at columns 0, 1, ... of that row (the translator refuses gaps and double assignments) -/\n"
            + table_defs +
            f"def binomRows : List (List Nat) := [{table}]\n")


def main():
    h = open(os.path.join(REPO, "src/fqe/lib/bitstring.h")).read()
    c = open(os.path.join(REPO, "src/fqe/lib/bitstring.c")).read()
    # the GNU branch must be the popcount builtin
    if not re.search(r"inline\s+int\s+count_bits\s*\(const\s+uint64_t\s+cstring\)\s*\{\s*#ifdef __GNUC__\s*"
                     r"return\s+__builtin_popcountll\(cstring\);", h):
        raise SyntaxError("count_bits is no longer __builtin_popcountll(cstring) under __GNUC__")
    parts = ["/-\n  GENERATED by harness/translate/cbits.py from src/fqe/lib/bitstring.h and bitstring.c.\n"
             "  Do not edit: regenerated on every check run.\n-/\n"
             "import FqeVerif.Model.Bits\nset_option linter.unusedVariables false\nnamespace GenC\n\n"
             "/-- meaning of `__builtin_popcountll` -/\n"
             "def popcount (x : BitVec 64) : Nat := Model.countBits x.toNat\n"]
    parts.append(translate_fn(h, "count_bits_between", "count_bits_between"))
    parts.append(translate_fn(h, "count_bits_above", "count_bits_above"))
    parts.append(translate_macro(h, "CHECK_BIT", "check_bit"))
    parts.append(translate_macro(h, "SET_BIT", "set_bit"))
    parts.append(translate_macro(h, "UNSET_BIT", "unset_bit"))
    parts.append(translate_gosper(c))
    parts.append(translate_build_mapping(open(os.path.join(REPO, "src/fqe/lib/fci_graph.c")).read()))
    parts.append(translate_make_mapping_each(open(os.path.join(REPO, "src/fqe/lib/fci_graph.c")).read()))
    parts.append(translate_make_mapping_each_set(open(os.path.join(REPO, "src/fqe/lib/fci_graph.c")).read()))
    parts.append(translate_z_matrix(open(os.path.join(REPO, "src/fqe/lib/fci_graph.c")).read(),
                                    open(os.path.join(REPO, "src/fqe/lib/binom.h")).read()))
    parts.append("end GenC\n")
    text = "\n".join(parts)
    old = open(OUT).read() if os.path.exists(OUT) else None
    if old != text:
        os.makedirs(os.path.dirname(OUT), exist_ok=True)
        with open(OUT, "w") as fh:
            fh.write(text)


if __name__ == "__main__":
    try:
        main()
    except SyntaxError as e:
        print(f"cbits translator: {e}")
        sys.exit(1)
