"""skeleton_update.py <props file> <def name> <source file> <function> — after a *reviewed* change of a transcribed
function, copy its regenerated branch skeleton (Generated/GuardInventory.lean) into the reviewed constant of the
Props file.  Run by hand only; prints the diff of the two skeletons."""
import sys, json, difflib, os
HERE = os.path.dirname(os.path.dirname(os.path.dirname(os.path.abspath(__file__))))


def lean_list_at(text, start):
    i = text.index("[", start)
    depth, j, instr = 0, i, False
    while True:
        ch = text[j]
        if instr:
            if ch == "\\":
                j += 1
            elif ch == '"':
                instr = False
        else:
            if ch == '"':
                instr = True
            elif ch == "[":
                depth += 1
            elif ch == "]":
                depth -= 1
                if depth == 0:
                    return i, j + 1
        j += 1


props, name, src, fn = sys.argv[1:5]
g = open(os.path.join(HERE, "lean/FqeVerif/Generated/GuardInventory.lean")).read()
k = g.index(f'("{src}", "{fn}", [')
a, b = lean_list_at(g, k + len(f'("{src}", "{fn}", '))
new = g[a:b]
p = os.path.join(HERE, "lean/FqeVerif/Props", props)
s = open(p).read()
k = s.index(f"def {name} : List String :=")
a2, b2 = lean_list_at(s, k)
old = s[a2:b2]
for l in difflib.unified_diff(json.loads(old), json.loads(new), lineterm="", n=1):
    print(l)
open(p, "w").write(s[:a2] + new + s[b2:])
