"""guards.py — inventory of every guard (`raise` under a condition, `assert`) in the modules C14 is anchored in,
emitted as Generated/GuardInventory.lean.

For each guard: file, enclosing function, kind (`raise` / `assert`), exception class, and the source text of the condition
that triggers it (for a `raise`: the tests of the enclosing `if`/`elif` chain, innermost first, `not (...)` for else
branches; for an `assert`: the asserted expression).  Props/C14.lean proves (`decide`) that the regenerated table equals
the reviewed one, so a guard that disappears, moves, changes its exception class or changes its condition breaks an
obligation of C14 even when no test notices."""
import ast
import os
import sys

REPO = os.environ.get("FQE_REPO", "/repo")
FILES = ["src/fqe/wavefunction.py", "src/fqe/util.py", "src/fqe/fqe_decorators.py", "src/fqe/wick.py",
         "src/fqe/fqe_ops/fqe_ops_utils.py", "src/fqe/hamiltonians/general_hamiltonian.py",
         "src/fqe/hamiltonians/diagonal_hamiltonian.py", "src/fqe/hamiltonians/diagonal_coulomb.py",
         "src/fqe/hamiltonians/restricted_hamiltonian.py", "src/fqe/hamiltonians/sparse_hamiltonian.py",
         "src/fqe/_fqe_control.py"]
OUT = os.path.join(os.path.dirname(os.path.dirname(os.path.dirname(os.path.abspath(__file__)))),
                   "lean", "FqeVerif", "Generated", "GuardInventory.lean")


def esc(s):
    return s.replace("\\", "\\\\").replace('"', '\\"').replace("\n", " ")


def collect(path):
    src = open(os.path.join(REPO, path)).read()
    tree = ast.parse(src)
    out = []

    def visit(node, func, conds):
        for child in ast.iter_child_nodes(node):
            if isinstance(child, (ast.FunctionDef, ast.AsyncFunctionDef)):
                visit(child, (func + "." if func else "") + child.name, [])
            elif isinstance(child, ast.ClassDef):
                visit(child, (func + "." if func else "") + child.name, [])
            elif isinstance(child, ast.If):
                test = ast.unparse(child.test)
                for st in child.body:
                    visit_stmt(st, func, [test] + conds)
                for st in child.orelse:
                    visit_stmt(st, func, [f"not ({test})"] + conds)
            else:
                visit_stmt(child, func, conds, descend=False)
                visit(child, func, conds)

    def visit_stmt(st, func, conds, descend=True):
        if isinstance(st, ast.Raise):
            exc = st.exc
            name = "?"
            if isinstance(exc, ast.Call):
                name = ast.unparse(exc.func)
            elif exc is not None:
                name = ast.unparse(exc)
            out.append((path, func or "<module>", "raise", name, " && ".join(conds[:2]) if conds else "unconditional"))
        elif isinstance(st, ast.Assert):
            out.append((path, func or "<module>", "assert", "AssertionError", ast.unparse(st.test)))
        elif descend:
            if isinstance(st, ast.If):
                test = ast.unparse(st.test)
                for s2 in st.body:
                    visit_stmt(s2, func, [test] + conds)
                for s2 in st.orelse:
                    visit_stmt(s2, func, [f"not ({test})"] + conds)
            elif isinstance(st, (ast.FunctionDef, ast.AsyncFunctionDef, ast.ClassDef)):
                visit(st, (func + "." if func else "") + st.name, [])
            else:
                for s2 in ast.iter_child_nodes(st):
                    if isinstance(s2, ast.stmt):
                        visit_stmt(s2, func, conds)
                    elif isinstance(s2, ast.ExceptHandler):
                        for s3 in s2.body:
                            visit_stmt(s3, func, ["except " + (ast.unparse(s2.type) if s2.type else "")] + conds)

    for top in tree.body:
        visit_stmt(top, "", [])
    return out


# functions whose branch structure is transcribed by a Lean decision model (Model/Evolve.lean route / in-place
# refusal / scalar sites, Model/Algo.lean series loops, Model/Guards.lean, the classification cascade of C06)
DECISION_FUNCS = [("src/fqe/wavefunction.py", "Wavefunction.time_evolve"),
                  ("src/fqe/wavefunction.py", "Wavefunction.apply"),
                  ("src/fqe/wavefunction.py", "Wavefunction.apply_generated_unitary"),
                  ("src/fqe/wavefunction.py", "Wavefunction._evolve_individual_nbody"),
                  ("src/fqe/fqe_decorators.py", "build_hamiltonian"),
                  ("src/fqe/fqe_decorators.py", "process_rank2_matrix"),
                  ("src/fqe/fqe_decorators.py", "check_diagonal_coulomb"),
                  ("src/fqe/hamiltonians/sparse_hamiltonian.py", "SparseHamiltonian.is_individual")]


def decisions(path, qualname):
    """the tests of every if / elif / while / conditional expression and every `break`, `for ... else` of one function,
    in source order"""
    tree = ast.parse(open(os.path.join(REPO, path)).read())
    target = None

    def find(node, prefix):
        nonlocal target
        for child in ast.iter_child_nodes(node):
            if isinstance(child, (ast.FunctionDef, ast.ClassDef)):
                name = (prefix + "." if prefix else "") + child.name
                if name == qualname and isinstance(child, ast.FunctionDef):
                    target = child
                find(child, name)
    find(tree, "")
    if target is None:
        raise SyntaxError(f"{path}: function {qualname} not found")
    out = []

    def walk(st):
        if isinstance(st, ast.If):
            out.append("if " + ast.unparse(st.test))
            for s2 in st.body:
                walk(s2)
            if st.orelse:
                out.append("else")
                for s2 in st.orelse:
                    walk(s2)
            out.append("endif")
        elif isinstance(st, (ast.For, ast.While)):
            out.append(("for " + ast.unparse(st.target) + " in " + ast.unparse(st.iter)) if isinstance(st, ast.For)
                       else "while " + ast.unparse(st.test))
            for s2 in st.body:
                walk(s2)
            if st.orelse:
                out.append("loop-else")
                for s2 in st.orelse:
                    walk(s2)
            out.append("endloop")
        elif isinstance(st, ast.Break):
            out.append("break")
        elif isinstance(st, ast.Raise):
            out.append("raise " + (ast.unparse(st.exc.func) if isinstance(st.exc, ast.Call) else ast.unparse(st.exc) if st.exc else ""))
        elif isinstance(st, ast.Return):
            out.append("return")
        elif isinstance(st, (ast.FunctionDef, ast.ClassDef)):
            return
        else:
            for s2 in ast.iter_child_nodes(st):
                if isinstance(s2, ast.stmt):
                    walk(s2)
    for st in target.body:
        walk(st)
    return out


def main():
    entries = []
    for f in FILES:
        if not os.path.exists(os.path.join(REPO, f)):
            raise SyntaxError(f"{f}: file not found")
        entries += collect(f)
    text = ["/-\n  GENERATED by harness/translate/guards.py from the Python sources.  Do not edit: regenerated on every check run.\n-/",
            "namespace GenGuards", "",
            "/-- (file, function, kind, exception class, triggering condition) for every guard of the anchored modules -/",
            "def inventory : List (String × String × String × String × String) := ["]
    text.append(",\n".join(f'  ("{esc(a)}", "{esc(b)}", "{esc(c)}", "{esc(d)}", "{esc(e)}")' for a, b, c, d, e in entries))
    text.append("]")
    text.append("")
    text.append("/-- branch skeleton (tests of if / loops, break, raise, return in source order) of the functions whose control\n"
                "    flow is transcribed by a Lean decision model -/")
    text.append("def decisionSkeleton : List (String × String × List String) := [")
    rows = []
    for f, q in DECISION_FUNCS:
        rows.append(f'  ("{esc(f)}", "{esc(q)}", [' + ", ".join(f'"{esc(x)}"' for x in decisions(f, q)) + "])")
    text.append(",\n".join(rows))
    text.append("]")
    text.append("")
    text.append("end GenGuards")
    out = "\n".join(text) + "\n"
    old = open(OUT).read() if os.path.exists(OUT) else None
    if old != out:
        with open(OUT, "w") as fh:
            fh.write(out)
    return len(entries)


if __name__ == "__main__":
    try:
        n = main()
    except SyntaxError as e:
        print(f"guards translator: {e}")
        sys.exit(1)
