"""persist.py — the shape of Wavefunction.save / Wavefunction.read as an ordered event list, emitted as
Generated/PersistShape.lean.

Events, in source order: `default:<arg>=<expr>` (parameter defaults, evaluated when the module is imported),
`cwd` (a call of os.getcwd() in the body, i.e. at call time), `open:<mode>`, `load` / `dump` (pickle calls),
`assign:self.<attr>` (every store into the receiver) — each written to Lean as the pair (kind, detail), `loop{` / `}` around for/while bodies, `try{`/`}`.
Props/C15.lean proves from the regenerated lists the structural premises of its theorems: `read` loads exactly once,
outside any loop, before the first store into the receiver; `save` dumps exactly once and never stores into the
receiver; the default directory is resolved at call time."""
import ast
import os
import sys

REPO = os.environ.get("FQE_REPO", "/repo")
SRC = "src/fqe/wavefunction.py"
OUT = os.path.join(os.path.dirname(os.path.dirname(os.path.dirname(os.path.abspath(__file__)))),
                   "lean", "FqeVerif", "Generated", "PersistShape.lean")


def events_of(func):
    ev = []
    args = func.args
    names = [a.arg for a in args.args]
    defaults = [None] * (len(names) - len(args.defaults)) + list(args.defaults)
    for n, dflt in zip(names, defaults):
        if dflt is not None:
            ev.append(f"default:{n}={ast.unparse(dflt)}")

    def expr_events(node):
        for sub in ast.walk(node):
            if isinstance(sub, ast.Call):
                name = ast.unparse(sub.func)
                if name.endswith("getcwd"):
                    ev.append("cwd")
                elif name == "open" or name.endswith(".open"):
                    mode = ast.unparse(sub.args[1]) if len(sub.args) > 1 else "'r'"
                    ev.append(f"open:{mode}")
                elif name.endswith(".load") or name.endswith(".loads"):
                    ev.append("load")
                elif name.endswith(".dump") or name.endswith(".dumps"):
                    ev.append("dump")

    def target_events(t):
        base = t
        while isinstance(base, (ast.Subscript, ast.Attribute)):
            if isinstance(base, ast.Attribute) and isinstance(base.value, ast.Name) and base.value.id == "self":
                ev.append(f"assign:self.{base.attr}")
                return
            base = base.value

    def stmt(st):
        if isinstance(st, (ast.For, ast.While)):
            expr_events(st.iter if isinstance(st, ast.For) else st.test)
            ev.append("loop{")
            for s2 in st.body:
                stmt(s2)
            ev.append("}")
            for s2 in st.orelse:
                stmt(s2)
        elif isinstance(st, ast.With):
            for item in st.items:
                expr_events(item.context_expr)
            for s2 in st.body:
                stmt(s2)
        elif isinstance(st, ast.If):
            expr_events(st.test)
            for s2 in st.body + st.orelse:
                stmt(s2)
        elif isinstance(st, ast.Try):
            ev.append("try{")
            for s2 in st.body:
                stmt(s2)
            ev.append("}")
            for h in st.handlers:
                ev.append("except{")
                for s2 in h.body:
                    stmt(s2)
                ev.append("}")
            for s2 in st.orelse + st.finalbody:
                stmt(s2)
        elif isinstance(st, (ast.Assign, ast.AugAssign, ast.AnnAssign)):
            if getattr(st, "value", None) is not None:
                expr_events(st.value)
            for t in (st.targets if isinstance(st, ast.Assign) else [st.target]):
                target_events(t)
        elif isinstance(st, ast.Expr):
            if isinstance(st.value, ast.Constant):
                return            # docstring
            expr_events(st.value)
            # method calls that mutate the receiver: self.x.update(...), self.__dict__.update, setattr(self, ...)
            if isinstance(st.value, ast.Call):
                name = ast.unparse(st.value.func)
                if name.startswith("self.") and name.split(".")[-1] in ("update", "append", "clear", "pop", "setdefault",
                                                                        "set_wfn", "__setstate__"):
                    ev.append(f"assign:{'.'.join(name.split('.')[:2])}")
                if name == "setattr" and st.value.args and ast.unparse(st.value.args[0]) == "self":
                    ev.append("assign:self.<setattr>")
        elif isinstance(st, ast.Return):
            if st.value is not None:
                expr_events(st.value)
        else:
            for s2 in ast.iter_child_nodes(st):
                if isinstance(s2, ast.stmt):
                    stmt(s2)
    for st in func.body:
        stmt(st)
    return ev


def main():
    tree = ast.parse(open(os.path.join(REPO, SRC)).read())
    found = {}
    for node in ast.walk(tree):
        if isinstance(node, ast.ClassDef) and node.name == "Wavefunction":
            for f in node.body:
                if isinstance(f, ast.FunctionDef) and f.name in ("read", "save"):
                    found[f.name] = events_of(f)
    if set(found) != {"read", "save"}:
        raise SyntaxError("Wavefunction.read / Wavefunction.save not found")
    def q(l):
        def pair(x):
            kind, _, detail = x.partition(":")
            esc = lambda t: t.replace("\\", "\\\\").replace('"', '\\"')
            return '("%s", "%s")' % (esc(kind), esc(detail))
        return "[" + ", ".join(pair(x) for x in l) + "]"
    out = ("/-\n  GENERATED by harness/translate/persist.py from src/fqe/wavefunction.py.  Do not edit: regenerated on every check run.\n-/\n"
           "namespace GenPersist\n\n"
           f"def readEvents : List (String × String) := {q(found['read'])}\n\n"
           f"def saveEvents : List (String × String) := {q(found['save'])}\n\n"
           "end GenPersist\n")
    old = open(OUT).read() if os.path.exists(OUT) else None
    if old != out:
        with open(OUT, "w") as fh:
            fh.write(out)


if __name__ == "__main__":
    try:
        main()
    except SyntaxError as e:
        print(f"persist translator: {e}")
        sys.exit(1)
