"""pyint.py — translate the integer-level Python helpers of the library into Lean definitions over `Int`
(Generated/PyInt.lean), by walking their `ast`.

Targets (file, function): the bit helpers of bitstring.py, the sector arithmetic of util.py and the sector-list
constructors of _fqe_control.py.  The theorems of Lemmas/PyInt.lean then relate the *generated* definitions to the
hand-written Model (Model/Bits.lean, Model/Sectors.lean) for all inputs, so an edit of one of these Python functions
that changes its meaning breaks a proof obligation (and the correspondence run supplies the failing input).

Meaning given to Python (the prelude Lemmas/PyPrelude.lean): `int` is `Int`; `& | ^ ~` are Mathlib's two's-complement
`Int.land / lor / xor / lnot`; `<<` is `Int` shift (a negative count raises in Python — no translated caller passes
one, positions come from `Nat`); `//` and `%` are floor division / modulus (`Int.fdiv`, `Int.fmod`);
`bin(x).count('1')` is the number of set bits of `|x|`; `range(a, b)` is the list a, a+1, …, b-1; `int(x)` of an int is
x; `raise` makes the function return `none`; a local that is only assigned under conditions carries a definedness
flag, and a read of it when the flag is false is `none` as well (UnboundLocalError).  `if use_accelerated_code:` takes
the `else` branch (this file describes the reference path; the C path is cbits.py's business).  The final
`wavefunction.Wavefunction(param, broken=[...])` call of the constructors is rendered as the pair (param, broken).
Anything outside this subset makes the translator fail, which the check reports as a broken obligation.
"""
import ast
import os
import sys

REPO = os.environ.get("FQE_REPO", "/repo")
OUT = os.path.join(os.path.dirname(os.path.dirname(os.path.dirname(os.path.abspath(__file__)))),
                   "lean", "FqeVerif", "Generated", "PyInt.lean")

TARGETS = [
    ("src/fqe/bitstring.py", ["count_bits", "get_bit", "set_bit", "unset_bit", "count_bits_above", "count_bits_below",
                              "count_bits_between", "reverse_integer_index"]),
    ("src/fqe/util.py", ["alpha_beta_electrons", "validate_config", "init_bitstring_groundstate",
                         "map_broken_symmetry"]),
    ("src/fqe/_fqe_control.py", ["get_spin_conserving_wavefunction", "get_number_conserving_wavefunction"]),
]

BINOPS = {ast.BitAnd: "pyAnd", ast.BitOr: "pyOr", ast.BitXor: "pyXor", ast.LShift: "pyShl", ast.RShift: "pyShr",
          ast.FloorDiv: "pyFloorDiv", ast.Mod: "pyMod"}
ARITH = {ast.Add: "+", ast.Sub: "-", ast.Mult: "*"}
CMP = {ast.Lt: "<", ast.LtE: "≤", ast.Gt: ">", ast.GtE: "≥", ast.Eq: "=", ast.NotEq: "≠"}


class Unsupported(Exception):
    pass


class FnTranslator:
    def __init__(self, fn, known):
        self.fn = fn
        self.known = known          # names of translated functions -> may_raise flag
        self.may_raise = False
        self.params = []
        for a in fn.args.args:
            ann = ast.unparse(a.annotation) if a.annotation is not None else "int"
            if ann in ("int",):
                ty = "Int"
            elif ann in ("List[int]",):
                ty = "List Int"
            else:
                raise Unsupported(f"{fn.name}: parameter {a.arg}: annotation {ann}")
            self.params.append((a.arg, ty))
        if fn.args.vararg or fn.args.kwarg or fn.args.kwonlyargs:
            raise Unsupported(f"{fn.name}: star arguments")
        self.lists = set()          # local names that hold lists being built
        self.transparent = set()    # dict names whose lookups are rendered as their argument
        self.cond_counter = 0

    # ---- expressions -------------------------------------------------------------------------
    def expr(self, e, env):
        """returns (lean term, list of definedness flags that must hold)"""
        if isinstance(e, ast.Constant):
            if isinstance(e.value, bool) or not isinstance(e.value, int):
                raise Unsupported(f"constant {e.value!r}")
            return f"({e.value} : Int)", []
        if isinstance(e, ast.Name):
            if e.id not in env:
                raise Unsupported(f"{self.fn.name}: unknown name {e.id}")
            flag = env[e.id]
            return e.id, ([] if flag is True else [flag])
        if isinstance(e, ast.BinOp):
            l, fl = self.expr(e.left, env)
            r, fr = self.expr(e.right, env)
            if type(e.op) in BINOPS:
                return f"({BINOPS[type(e.op)]} {l} {r})", fl + fr
            if type(e.op) in ARITH:
                return f"({l} {ARITH[type(e.op)]} {r})", fl + fr
            raise Unsupported(f"operator {type(e.op).__name__}")
        if isinstance(e, ast.UnaryOp):
            v, f = self.expr(e.operand, env)
            if isinstance(e.op, ast.Invert):
                return f"(pyNot {v})", f
            if isinstance(e.op, ast.USub):
                return f"(-{v})", f
            raise Unsupported(f"unary {type(e.op).__name__}")
        if isinstance(e, ast.Tuple) or isinstance(e, ast.List):
            parts, flags = [], []
            for x in e.elts:
                t, f = self.expr(x, env)
                parts.append(t)
                flags += f
            if not parts:
                raise Unsupported("empty tuple")
            return "(" + ", ".join(parts) + ")", flags
        if isinstance(e, ast.Call) and isinstance(e.func, ast.Attribute) and e.func.attr == "count" \
                and len(e.args) == 1 and isinstance(e.args[0], ast.Constant) and e.args[0].value == "1" \
                and isinstance(e.func.value, ast.Call) and ast.unparse(e.func.value.func) == "bin" \
                and len(e.func.value.args) == 1 and not e.keywords:
            t, f = self.expr(e.func.value.args[0], env)              # bin(E).count('1')
            return f"(pyBinCountOnes {t})", f
        if isinstance(e, ast.Call):
            fname = ast.unparse(e.func)
            if e.keywords:
                raise Unsupported(f"keyword call {fname}")
            args, flags = [], []
            for x in e.args:
                t, f = self.expr(x, env)
                args.append(t)
                flags += f
            if fname == "int" and len(args) == 1:
                return args[0], flags
            if fname == "abs" and len(args) == 1:
                return f"(pyAbs {args[0]})", flags
            if fname == "min" and len(args) == 2:
                return f"(pyMin {args[0]} {args[1]})", flags
            if fname == "max" and len(args) == 2:
                return f"(pyMax {args[0]} {args[1]})", flags
            if fname in ("math.comb", "comb") and len(args) == 2:
                return f"(pyBinom {args[0]} {args[1]})", flags
            if fname in self.known:
                if self.known[fname]:
                    raise Unsupported(f"{self.fn.name}: call of raising function {fname} inside an expression")
                return "(" + " ".join([fname] + args) + ")", flags
            raise Unsupported(f"{self.fn.name}: call {fname}")
        if isinstance(e, ast.Subscript) and isinstance(e.value, ast.Name) and e.value.id in self.transparent:
            # a lookup in the address table: rendered as its argument (the table itself is the subject of C05_address)
            return self.expr(e.slice, env)
        if isinstance(e, ast.IfExp):
            c, fc = self.cond(e.test, env)
            a, fa = self.expr(e.body, env)
            b, fb = self.expr(e.orelse, env)
            return f"(if {c} then {a} else {b})", fc + fa + fb
        raise Unsupported(f"{self.fn.name}: expression {ast.dump(e)[:80]}")

    def cond(self, e, env):
        """a test -> (Lean Bool term, flags)"""
        if isinstance(e, ast.Compare):
            if len(e.ops) != 1:
                raise Unsupported("chained comparison")
            l, fl = self.expr(e.left, env)
            r, fr = self.expr(e.comparators[0], env)
            return f"decide ({l} {CMP[type(e.ops[0])]} {r})", fl + fr
        if isinstance(e, ast.BoolOp):
            parts, flags = [], []
            for v in e.values:
                t, f = self.cond(v, env)
                parts.append(t)
                flags += f
            op = " || " if isinstance(e.op, ast.Or) else " && "
            return "(" + op.join(parts) + ")", flags
        if isinstance(e, ast.UnaryOp) and isinstance(e.op, ast.Not):
            t, f = self.cond(e.operand, env)
            return f"(!{t})", f
        if isinstance(e, ast.Name) and e.id in self.lists:
            return f"(!{e.id}.isEmpty)", []                           # truth value of a list
        if isinstance(e, (ast.Call, ast.Name, ast.BinOp)):
            t, f = self.expr(e, env)                                  # truth value of an int
            return f"decide ({t} ≠ (0 : Int))", f
        raise Unsupported(f"{self.fn.name}: test {ast.unparse(e)}")

    def guard(self, flags, body):
        flags = [f for f in dict.fromkeys(flags)]
        if not flags:
            return body
        self.may_raise = True
        return f"if !({' && '.join(flags)}) then none else\n  {body}"

    # ---- statements --------------------------------------------------------------------------
    def block(self, stmts, env, ind="  "):
        """translate a statement list to a Lean term (continuation style)"""
        if not stmts:
            # falling off the end: `return None`
            return self.ret("()")
        s, rest = stmts[0], stmts[1:]
        if isinstance(s, ast.Expr) and isinstance(s.value, ast.Constant) and isinstance(s.value.value, str):
            return self.block(rest, env, ind)                        # docstring
        if isinstance(s, ast.Return):
            if s.value is None:
                return self.ret("()")
            # the constructors end in wavefunction.Wavefunction(param, broken=[...])
            if isinstance(s.value, ast.Call) and ast.unparse(s.value.func) == "wavefunction.Wavefunction":
                a, f = self.expr(s.value.args[0], env)
                kw = {k.arg: ast.literal_eval(k.value) for k in s.value.keywords}
                if set(kw) != {"broken"} or len(s.value.args) != 1:
                    raise Unsupported("Wavefunction call shape")
                br = "[" + ", ".join('"%s"' % b for b in kw["broken"]) + "]"
                return self.guard(f, self.ret(f"({a}, {br})"))
            t, f = self.expr(s.value, env)
            return self.guard(f, self.ret(t))
        if isinstance(s, ast.Raise):
            self.may_raise = True
            return "none"
        if isinstance(s, ast.Assign):
            if len(s.targets) != 1:
                raise Unsupported("multiple targets")
            tgt = s.targets[0]
            if isinstance(tgt, ast.Name):
                if isinstance(s.value, (ast.List, ast.Dict)) and not (getattr(s.value, "elts", None) or getattr(s.value, "keys", None)):
                    self.lists.add(tgt.id)
                    env2 = dict(env)
                    env2[tgt.id] = True
                    return f"let {tgt.id} := []\n{ind}" + self.block(rest, env2, ind)
                t, f = self.expr(s.value, env)
                env2 = dict(env)
                env2[tgt.id] = True
                return self.guard(f, f"let {tgt.id} := {t}\n{ind}" + self.block(rest, env2, ind))
            raise Unsupported(f"assignment target {ast.unparse(tgt)}")
        if isinstance(s, ast.If):
            if ast.unparse(s.test) in ("use_accelerated_code",) or ast.unparse(s.test).startswith("use_accelerated_code and"):
                return self.block(list(s.orelse) + rest, env, ind)   # reference path
            c, fc = self.cond(s.test, env)
            # `if c: raise` / `if c: return e`
            if not s.orelse and len(s.body) == 1 and isinstance(s.body[0], (ast.Raise, ast.Return)):
                then = self.block(s.body, env, ind)
                return self.guard(fc, f"if {c} then {then} else\n{ind}" + self.block(rest, env, ind))
            # `if c: x = e; y = e'` (no else): conditional rebinding with definedness flags
            if not s.orelse and all(isinstance(b, ast.Assign) and len(b.targets) == 1 and isinstance(b.targets[0], ast.Name)
                                    for b in s.body):
                self.cond_counter += 1
                cn = f"c{self.cond_counter}"
                out = f"let {cn} := {c}\n{ind}"
                env2 = dict(env)
                benv = dict(env)            # environment inside the branch
                flags = list(fc)
                for b in s.body:
                    name = b.targets[0].id
                    t, f = self.expr(b.value, benv)
                    flags += f
                    old = name if name in env2 else "(0 : Int)"
                    out += f"let {name} := if {cn} then {t} else {old}\n{ind}"
                    benv[name] = True
                    prev = env2.get(name, None)
                    if prev is True:
                        env2[name] = True
                    elif prev is None:
                        env2[name] = cn
                    else:
                        env2[name] = f"({prev} || {cn})"
                return self.guard(flags, out + self.block(rest, env2, ind))
            raise Unsupported(f"{self.fn.name}: if-statement shape at line {s.lineno}")
        if isinstance(s, ast.For):
            if s.orelse or not isinstance(s.target, ast.Name):
                raise Unsupported("for shape")
            v = s.target.id
            it = s.iter
            # for v in range(a, b): <assignments>; L.append(e)  |  D[k] = e
            if isinstance(it, ast.Call) and ast.unparse(it.func) == "range" and len(it.args) == 2:
                a, fa = self.expr(it.args[0], env)
                b, fb = self.expr(it.args[1], env)
                benv = dict(env)
                benv[v] = True
                lets = ""
                body = list(s.body)
                last = body.pop()
                for st in body:
                    if not (isinstance(st, ast.Assign) and len(st.targets) == 1 and isinstance(st.targets[0], ast.Name)):
                        raise Unsupported("loop body statement")
                    t, f = self.expr(st.value, benv)
                    if f:
                        raise Unsupported("conditionally bound name inside loop body")
                    lets += f"let {st.targets[0].id} := {t}; "
                    benv[st.targets[0].id] = True
                if isinstance(last, ast.Expr) and isinstance(last.value, ast.Call) and isinstance(last.value.func, ast.Attribute) \
                        and last.value.func.attr == "append" and isinstance(last.value.func.value, ast.Name):
                    acc = last.value.func.value.id
                    item, f = self.expr(last.value.args[0], benv)
                elif isinstance(last, ast.Assign) and isinstance(last.targets[0], ast.Subscript) \
                        and isinstance(last.targets[0].value, ast.Name):
                    acc = last.targets[0].value.id
                    k, f1 = self.expr(last.targets[0].slice, benv)
                    val, f2 = self.expr(last.value, benv)
                    item, f = f"({k}, {val})", f1 + f2
                else:
                    raise Unsupported("loop must end in append or a dict store")
                if f or acc not in self.lists:
                    raise Unsupported("loop accumulator")
                return self.guard(fa + fb, f"let {acc} := {acc} ++ (pyRange {a} {b}).map (fun {v} => {lets}{item})\n{ind}"
                                  + self.block(rest, env, ind))
            # for i in <list parameter>: acc = f(acc, i)
            if isinstance(it, ast.Name) and dict(self.params).get(it.id) == "List Int" and len(s.body) == 1 \
                    and isinstance(s.body[0], ast.Assign) and isinstance(s.body[0].targets[0], ast.Name):
                acc = s.body[0].targets[0].id
                benv = dict(env)
                benv[v] = True
                t, f = self.expr(s.body[0].value, benv)
                if f or env.get(acc) is not True:
                    raise Unsupported("fold accumulator")
                return f"let {acc} := {it.id}.foldl (fun {acc} {v} => {t}) {acc}\n{ind}" + self.block(rest, env, ind)
            raise Unsupported(f"{self.fn.name}: for-loop shape at line {s.lineno}")
        raise Unsupported(f"{self.fn.name}: statement {type(s).__name__} at line {s.lineno}")

    def block_emit(self, stmts, env, acc, ind="  "):
        """body of a `for x in xs:` loop that appends at most one item to `acc` per iteration:
        the item as an `Option` (none = nothing appended)"""
        if not stmts:
            return "none"
        s, rest = stmts[0], stmts[1:]
        if isinstance(s, ast.Assign) and len(s.targets) == 1 and isinstance(s.targets[0], ast.Name):
            t, f = self.expr(s.value, env)
            if f:
                raise Unsupported("conditionally bound name in loop body")
            env2 = dict(env)
            env2[s.targets[0].id] = True
            return f"let {s.targets[0].id} := {t}\n{ind}" + self.block_emit(rest, env2, acc, ind)
        if isinstance(s, ast.Expr) and isinstance(s.value, ast.Call) and isinstance(s.value.func, ast.Attribute) \
                and s.value.func.attr == "append" and ast.unparse(s.value.func.value) == acc:
            if rest:
                raise Unsupported("statements after append")
            t, f = self.expr(s.value.args[0], env)
            if f:
                raise Unsupported("conditionally bound name in appended item")
            return f"some {t}"
        if isinstance(s, ast.If):
            if rest:
                raise Unsupported("statements after the if-chain of a loop body")
            c, fc = self.cond(s.test, env)
            if fc:
                raise Unsupported("conditionally bound name in loop test")
            return (f"if {c} then\n{ind}  " + self.block_emit(list(s.body), env, acc, ind + "  ") +
                    f"\n{ind}else\n{ind}  " + self.block_emit(list(s.orelse), env, acc, ind + "  "))
        raise Unsupported(f"loop body statement {type(s).__name__} at line {s.lineno}")

    def ret(self, t):
        return f"@@RET@@({t})"

    def translate(self):
        env = {p: True for p, _ in self.params}
        body = self.block(list(self.fn.body), env)
        if self.may_raise:
            body = body.replace("@@RET@@", "some ")
        else:
            body = body.replace("@@RET@@", "")
        ps = " ".join(f"({p} : {t})" for p, t in self.params)
        return f"def {self.fn.name} {ps} :=\n  {body}\n"


# (file, class, method, loop variable, accumulator, address-table names, Lean name, parameter order)
LOOP_TARGETS = [
    ("src/fqe/fci_graph.py", "FciGraph", "_build_mapping", "string", "value", ["index"], "build_mapping_entry",
     ["string", "iorb", "jorb"]),
]


def find_loop(fn, var):
    for node in ast.walk(fn):
        if isinstance(node, ast.For) and isinstance(node.target, ast.Name) and node.target.id == var:
            return node
    raise Unsupported(f"{fn.name}: no loop over {var}")


def translate_make_mapping_each(tree):
    """the reference branch of FciGraph.make_mapping_each (fci_graph.py): mask loops, admission test, the two reversed
    loops accumulating the parity - matched statement by statement; helper names, lists, the `not in` guard and the
    loop directions are read from the source"""
    cdef = next((n for n in tree.body if isinstance(n, ast.ClassDef) and n.name == "FciGraph"), None)
    fn = next((n for n in (cdef.body if cdef else []) if isinstance(n, ast.FunctionDef) and n.name == "make_mapping_each"), None)
    if fn is None:
        raise Unsupported("FciGraph.make_mapping_each not found")
    branch = next((n for n in fn.body if isinstance(n, ast.If) and ast.unparse(n.test) == "use_accelerated_code"), None)
    if branch is None:
        raise Unsupported("make_mapping_each: no `if use_accelerated_code` branch")
    st = list(branch.orelse)
    src = [ast.unparse(x) for x in st]

    def need(cond, what):
        if not cond:
            raise Unsupported("make_mapping_each: reviewed shape broken at " + what)
    need(len(st) == 6, "statement count")
    need(src[0] == "dag_mask = 0" and src[2] == "undag_mask = 0" and src[4] == "count = 0", "initialisations")
    l1, l2, l3 = st[1], st[3], st[5]
    need(isinstance(l1, ast.For) and ast.unparse(l1.iter) in ("dag", "undag") and len(l1.body) == 1 and isinstance(l1.body[0], ast.If)
         and not l1.body[0].orelse and len(l1.body[0].body) == 1, "first mask loop")
    v1 = l1.target.id
    g = l1.body[0]
    need(isinstance(g.test, ast.Compare) and len(g.test.ops) == 1 and isinstance(g.test.ops[0], (ast.NotIn, ast.In))
         and ast.unparse(g.test.left) == v1 and ast.unparse(g.test.comparators[0]) in ("dag", "undag"), "guard of the first mask loop")
    guard_neg = isinstance(g.test.ops[0], ast.NotIn)
    guard_list = ast.unparse(g.test.comparators[0])
    a1 = g.body[0]
    need(isinstance(a1, ast.Assign) and ast.unparse(a1.targets[0]) == "dag_mask" and isinstance(a1.value, ast.Call)
         and [ast.unparse(x) for x in a1.value.args] == ["dag_mask", v1], "first mask update")
    f1 = ast.unparse(a1.value.func)
    need(isinstance(l2, ast.For) and ast.unparse(l2.iter) in ("dag", "undag") and len(l2.body) == 1, "second mask loop")
    v2 = l2.target.id
    a2 = l2.body[0]
    need(isinstance(a2, ast.Assign) and ast.unparse(a2.targets[0]) == "undag_mask" and isinstance(a2.value, ast.Call)
         and [ast.unparse(x) for x in a2.value.args] == ["undag_mask", v2], "second mask update")
    f2 = ast.unparse(a2.value.func)
    need(isinstance(l3, ast.For) and ast.unparse(l3.iter) == "range(length)" and len(l3.body) == 3, "string loop")
    need(ast.unparse(l3.body[0]) == f"current = int(strings[{l3.target.id}])", "current")
    need(ast.unparse(l3.body[1]) == "check = current & dag_mask == 0 and current & undag_mask ^ undag_mask == 0", "admission test")
    body = l3.body[2]
    need(isinstance(body, ast.If) and ast.unparse(body.test) == "check" and not body.orelse and len(body.body) == 5, "admitted block")
    need(ast.unparse(body.body[0]) == "parity = 0", "parity initialisation")
    loops = []
    for lp in body.body[1:3]:
        need(isinstance(lp, ast.For) and isinstance(lp.iter, ast.Call) and ast.unparse(lp.iter.func) == "reversed"
             and ast.unparse(lp.iter.args[0]) in ("dag", "undag") and len(lp.body) == 2, "parity loop")
        v = lp.target.id
        p_, c_ = lp.body
        need(isinstance(p_, ast.AugAssign) and isinstance(p_.op, ast.Add) and ast.unparse(p_.target) == "parity"
             and isinstance(p_.value, ast.Call) and [ast.unparse(x) for x in p_.value.args] == ["current", v], "parity update")
        need(isinstance(c_, ast.Assign) and ast.unparse(c_.targets[0]) == "current" and isinstance(c_.value, ast.Call)
             and [ast.unparse(x) for x in c_.value.args] == ["current", v], "string update")
        loops.append((ast.unparse(lp.iter.args[0]), ast.unparse(p_.value.func), ast.unparse(c_.value.func)))
    need(ast.unparse(body.body[3]) == f"result[count, :] = ({l3.target.id}, current, parity % 2)", "stored entry")
    need(ast.unparse(body.body[4]) == "count += 1", "count")
    for name in (f1, f2, loops[0][1], loops[0][2], loops[1][1], loops[1][2]):
        need(name in ("set_bit", "unset_bit", "count_bits_above"), f"helper {name}")
    gcond = f"(!({guard_list}.contains {v1}))" if guard_neg else f"({guard_list}.contains {v1})"
    return (
        f"/-- `src/fqe/fci_graph.py`, `FciGraph.make_mapping_each` (line {fn.lineno}), reference branch: the two masks -/\n"
        "def mme_masks (dag undag : List Int) : Int × Int :=\n"
        f"  let dag_mask := {ast.unparse(l1.iter)}.foldl (fun dag_mask {v1} => if {gcond} then {f1} dag_mask {v1} else dag_mask) (0 : Int)\n"
        f"  let undag_mask := {ast.unparse(l2.iter)}.foldl (fun undag_mask {v2} => {f2} undag_mask {v2}) (0 : Int)\n"
        "  (dag_mask, undag_mask)\n\n"
        "/-- the admission test and the two reversed loops for one string: `(target string, parity % 2)` -/\n"
        "def mme_entry (current : Int) (dag undag : List Int) : Option (Int × Int) :=\n"
        "  let masks := mme_masks dag undag\n"
        "  if decide (pyAnd current masks.1 = (0 : Int)) && decide (pyXor (pyAnd current masks.2) masks.2 = (0 : Int)) then\n"
        f"    let st := {loops[0][0]}.reverse.foldl (fun (st : Int × Int) i => ({loops[0][2]} st.1 i, st.2 + {loops[0][1]} st.1 i)) (current, (0 : Int))\n"
        f"    let st := {loops[1][0]}.reverse.foldl (fun (st : Int × Int) i => ({loops[1][2]} st.1 i, st.2 + {loops[1][1]} st.1 i)) st\n"
        "    some (st.1, pyMod st.2 (2 : Int))\n"
        "  else none\n")


def translate_make_mapping_each_set(tree):
    """the reference implementation of the k-fold annihilation maps (nested function `make_mapping_each_set` of
    FciGraphSet._sectors_link, fci_graph_set.py): the body of the loop over the source strings for one mask, matched
    statement by statement"""
    fn = None
    for node in ast.walk(tree):
        if isinstance(node, ast.FunctionDef) and node.name == "make_mapping_each_set":
            fn = node
    if fn is None:
        raise Unsupported("make_mapping_each_set not found in fci_graph_set.py")

    def need(cond, what):
        if not cond:
            raise Unsupported("make_mapping_each_set: reviewed shape broken at " + what)
    outer = next((n for n in fn.body if isinstance(n, ast.For) and ast.unparse(n.iter) == "range(msize)"), None)
    need(outer is not None, "loop over the masks")
    osrc = [ast.unparse(x) for x in outer.body]
    need(osrc[0] == f"mask = int(combmap[{outer.target.id}])" and osrc[1] == "ops = integer_index(mask)", "mask and its occupation list")
    inner = next((n for n in outer.body if isinstance(n, ast.For) and ast.unparse(n.iter) == "istrings"), None)
    need(inner is not None and len(inner.body) == 8, "loop over the source strings")
    b = inner.body
    sb = [ast.unparse(x) for x in b]
    need(sb[0] == f"source = int({inner.target.id})", "source")
    need(isinstance(b[1], ast.If) and ast.unparse(b[1].test) == "source & mask ^ mask != 0" and ast.unparse(b[1].body[0]) == "continue"
         and not b[1].orelse, "admission test")
    need(isinstance(b[2], ast.Assign) and ast.unparse(b[2].targets[0]) == "parity" and isinstance(b[2].value, ast.BinOp)
         and isinstance(b[2].value.op, ast.Mult) and isinstance(b[2].value.left, ast.Call)
         and [ast.unparse(x) for x in b[2].value.left.args] == ["source", "ops[-1]"] and ast.unparse(b[2].value.right) == "len(ops)", "initial parity")
    f1 = ast.unparse(b[2].value.left.func)
    need(isinstance(b[3], ast.Assign) and ast.unparse(b[3].targets[0]) == "target" and isinstance(b[3].value, ast.Call)
         and [ast.unparse(x) for x in b[3].value.args] == ["source", "ops[-1]"], "initial target")
    m1 = ast.unparse(b[3].value.func)
    lp = b[4]
    need(isinstance(lp, ast.For) and ast.unparse(lp.iter) == "reversed(range(len(ops) - 1))" and len(lp.body) == 2, "descending loop")
    v = lp.target.id
    p_, t_ = lp.body
    need(isinstance(p_, ast.AugAssign) and isinstance(p_.op, ast.Add) and ast.unparse(p_.target) == "parity"
         and isinstance(p_.value, ast.BinOp) and isinstance(p_.value.op, ast.Mult) and ast.unparse(p_.value.left) == f"{v} + 1"
         and isinstance(p_.value.right, ast.Call)
         and [ast.unparse(x) for x in p_.value.right.args] == ["source", f"ops[{v}]", f"ops[{v} + 1]"], "parity update")
    f2 = ast.unparse(p_.value.right.func)
    need(isinstance(t_, ast.Assign) and ast.unparse(t_.targets[0]) == "target" and isinstance(t_.value, ast.Call)
         and [ast.unparse(x) for x in t_.value.args] == ["target", f"ops[{v}]"], "target update")
    m2 = ast.unparse(t_.value.func)
    need(sb[5] == "mapping_down[anni, count, :] = (source, target, parity)" and sb[6] == "mapping_up[anni, count, :] = (target, source, parity)"
         and sb[7] == "count += 1", "stored entries")
    for name, allowed in ((f1, ("count_bits_above",)), (f2, ("count_bits_between",)), (m1, ("unset_bit", "set_bit")), (m2, ("unset_bit", "set_bit"))):
        need(name in allowed, f"helper {name}")
    return (
        f"/-- `src/fqe/fci_graph_set.py`, `make_mapping_each_set` (line {fn.lineno}): what one source string contributes for one\n"
        "    annihilation mask with occupation list `ops`: `(target, parity count)`; `none` = not admitted -/\n"
        "def mmes_entry (source mask : Int) (ops : List Int) : Option (Int × Int) :=\n"
        "  if decide (pyXor (pyAnd source mask) mask ≠ (0 : Int)) then none else\n"
        f"  let parity := {f1} source (ops.getD (ops.length - 1) 0) * (ops.length : Int)\n"
        f"  let target := {m1} source (ops.getD (ops.length - 1) 0)\n"
        "  let st := (List.range (ops.length - 1)).reverse.foldl (fun (st : Int × Int) iop =>\n"
        f"    ({m2} st.1 (ops.getD iop 0), st.2 + ((iop : Int) + 1) * {f2} source (ops.getD iop 0) (ops.getD (iop + 1) 0))) (target, parity)\n"
        "  some (st.1, st.2)\n")


def translate_z_matrix(tree):
    """`_get_Z_matrix` (fci_graph.py), reference branch: two loop nests that assign entries of Z.  The reviewed shape is
         for k in range(A): for ll in range(B): Z[I] = sum(E for m in range(C))
         k = K
         for ll in range(D): Z[J] = F
       Each range, index and value expression is translated; the theorem `py_z_matrix` relates them to Model.zEntry."""
    fn = next((n for n in tree.body if isinstance(n, ast.FunctionDef) and n.name == "_get_Z_matrix"), None)
    if fn is None:
        raise Unsupported("fci_graph.py: _get_Z_matrix not found")

    def need(cond, what):
        if not cond:
            raise Unsupported(f"_get_Z_matrix: reviewed shape not found: {what}")
    branch = next((n for n in fn.body if isinstance(n, ast.If) and n.orelse and "_calculate_Z_matrix" in ast.unparse(n.body[0])), None)
    need(branch is not None, "if <accelerated>: _calculate_Z_matrix(...) else: ...")
    body = branch.orelse
    need(len(body) == 3 and isinstance(body[0], ast.For) and isinstance(body[1], ast.Assign) and isinstance(body[2], ast.For),
         "for / assignment / for in the reference branch")
    dummy = ast.parse("def z(norb: int, nele: int): pass").body[0]
    tr = FnTranslator(dummy, {})

    def rng(call, env):
        need(isinstance(call, ast.Call) and ast.unparse(call.func) == "range" and not call.keywords and len(call.args) in (1, 2), "range(a, b)")
        args = [ast.Constant(0)] + call.args if len(call.args) == 1 else call.args
        a, fa = tr.expr(args[0], env)
        b, fb = tr.expr(args[1], env)
        need(not fa and not fb, "total range bounds")
        return f"pyRange {a} {b}"

    def index(target, env):
        need(isinstance(target, ast.Subscript) and isinstance(target.value, ast.Name) and target.value.id == "Z"
             and isinstance(target.slice, ast.Tuple) and len(target.slice.elts) == 2, "Z[row, col] = ...")
        r, fr = tr.expr(target.slice.elts[0], env)
        c, fc = tr.expr(target.slice.elts[1], env)
        need(not fr and not fc, "total index")
        return f"({r}, {c})"
    env0 = {"norb": True, "nele": True}
    outer = body[0]
    need(isinstance(outer.target, ast.Name) and outer.target.id == "k" and not outer.orelse and len(outer.body) == 1
         and isinstance(outer.body[0], ast.For), "for k in range(...): for ll in ...")
    rows1 = rng(outer.iter, env0)
    inner = outer.body[0]
    env1 = dict(env0, k=True)
    need(isinstance(inner.target, ast.Name) and inner.target.id == "ll" and not inner.orelse and len(inner.body) == 1
         and isinstance(inner.body[0], ast.Assign) and len(inner.body[0].targets) == 1, "for ll in range(...): Z[...] = ...")
    cols1 = rng(inner.iter, env1)
    env2 = dict(env1, ll=True)
    asg = inner.body[0]
    idx1 = index(asg.targets[0], env2)
    v = asg.value
    need(isinstance(v, ast.Call) and ast.unparse(v.func) == "sum" and len(v.args) == 1 and not v.keywords
         and isinstance(v.args[0], ast.GeneratorExp) and len(v.args[0].generators) == 1, "sum(<expr> for m in range(...))")
    gen = v.args[0].generators[0]
    need(isinstance(gen.target, ast.Name) and not gen.ifs and not gen.is_async, "plain generator")
    mvar = gen.target.id
    srange = rng(gen.iter, env2)
    elt, fe = tr.expr(v.args[0].elt, dict(env2, **{mvar: True}))
    need(not fe, "total summand")
    mid = body[1]
    need(len(mid.targets) == 1 and isinstance(mid.targets[0], ast.Name) and mid.targets[0].id == "k", "k = <expr>")
    kval, fk = tr.expr(mid.value, env0)
    need(not fk, "total k")
    last = body[2]
    need(isinstance(last.target, ast.Name) and last.target.id == "ll" and not last.orelse and len(last.body) == 1
         and isinstance(last.body[0], ast.Assign) and len(last.body[0].targets) == 1, "for ll in range(...): Z[...] = ...")
    cols2 = rng(last.iter, env0)
    idx2 = index(last.body[0].targets[0], env2)
    val2, f2 = tr.expr(last.body[0].value, env2)
    need(not f2, "total value")
    return (f"/-- `src/fqe/fci_graph.py`, `_get_Z_matrix` (line {fn.lineno}), reference branch: the ranges of the two loop nests, the\n"
            "    index each iteration assigns and the value it assigns (`math.comb` = PyPrelude.pyBinom) -/\n"
            f"def z1_rows (norb nele : Int) : List Int := {rows1}\n"
            f"def z1_cols (norb nele k : Int) : List Int := {cols1}\n"
            f"def z1_index (norb nele k ll : Int) : Int × Int := {idx1}\n"
            f"def z1_value (norb nele k ll : Int) : Int := pySum ({srange}) (fun {mvar} => {elt})\n"
            f"def z2_k (norb nele : Int) : Int := {kval}\n"
            f"def z2_cols (norb nele : Int) : List Int := {cols2}\n"
            f"def z2_index (norb nele k ll : Int) : Int × Int := {idx2}\n"
            f"def z2_value (norb nele k ll : Int) : Int := {val2}\n")


def translate_string_address(tree):
    """`FciGraph._build_string_address`: reviewed shape `Z = _get_Z_matrix(norb, nele)` followed by
    `return sum(Z[i, occupation[i]] for i in range(nele))` (compared textually through ast.unparse); emitted as a sum over
    `pyRange 0 nele` of the matrix entry at (i, occupation[i]), the matrix being a parameter."""
    cdef = next((n for n in tree.body if isinstance(n, ast.ClassDef) and n.name == "FciGraph"), None)
    fn = next((n for n in (cdef.body if cdef else []) if isinstance(n, ast.FunctionDef) and n.name == "_build_string_address"), None)
    if fn is None:
        raise Unsupported("fci_graph.py: FciGraph._build_string_address not found")
    body = [n for n in fn.body if not (isinstance(n, ast.Expr) and isinstance(n.value, ast.Constant))]
    got = [ast.unparse(n) for n in body]
    want = ["Z = _get_Z_matrix(norb, nele)", "return sum((Z[i, occupation[i]] for i in range(nele)))"]
    if got != want:
        raise Unsupported(f"_build_string_address: reviewed shape not found: {got}")
    if [a.arg for a in fn.args.args] != ["self", "nele", "norb", "occupation"]:
        raise Unsupported("_build_string_address: parameters")
    return (f"/-- `src/fqe/fci_graph.py`, `FciGraph._build_string_address` (line {fn.lineno}): `sum(Z[i, occupation[i]] for i in range(nele))`,\n"
            "    `Z` = the matrix of `_get_Z_matrix(norb, nele)` as a function of (row, column); an index beyond the list is\n"
            "    Python's IndexError (`none`) -/\n"
            "def string_address (Z : Int → Int → Int) (nele norb : Int) (occupation : List Int) : Option Int :=\n"
            "  if (pyRange (0 : Int) nele).all (fun i => decide (i.toNat < occupation.length)) then\n"
            "    some (pySum (pyRange (0 : Int) nele) (fun i => Z i (occupation.getD i.toNat 0)))\n"
            "  else none\n")


def main():
    chunks = []
    known = {}
    summary = []
    for rel, names in TARGETS:
        path = os.path.join(REPO, rel)
        tree = ast.parse(open(path).read())
        fns = {n.name: n for n in tree.body if isinstance(n, ast.FunctionDef)}
        for name in names:
            if name not in fns:
                raise Unsupported(f"{rel}: function {name} not found")
            tr = FnTranslator(fns[name], known)
            text = tr.translate()
            known[name] = tr.may_raise
            chunks.append(f"/-- `{rel}`, `{name}` (line {fns[name].lineno}) -/\n" + text)
            summary.append((name, tr.may_raise))
    for rel, cls, meth, var, acc, tables, lean_name, order in LOOP_TARGETS:
        tree = ast.parse(open(os.path.join(REPO, rel)).read())
        cdef = next((n for n in tree.body if isinstance(n, ast.ClassDef) and n.name == cls), None)
        fn = next((n for n in (cdef.body if cdef else []) if isinstance(n, ast.FunctionDef) and n.name == meth), None)
        if fn is None:
            raise Unsupported(f"{rel}: {cls}.{meth} not found")
        loop = find_loop(fn, var)
        dummy = ast.parse("def %s(%s): pass" % (lean_name, ", ".join(f"{o}: int" for o in order))).body[0]
        tr = FnTranslator(dummy, known)
        tr.transparent = set(tables)
        body = tr.block_emit(list(loop.body), {o: True for o in order}, acc)
        ps = " ".join(f"({o} : Int)" for o in order)
        chunks.append(f"/-- `{rel}`, `{cls}.{meth}` (line {fn.lineno}): what one iteration of the loop over `{var}` appends to\n"
                      f"    `{acc}` (`none` = nothing); lookups in {tables} are rendered as their argument -/\n"
                      f"def {lean_name} {ps} : Option (Int × Int × Int) :=\n  {body}\n")
        summary.append((lean_name, False))
    chunks.append(translate_make_mapping_each(ast.parse(open(os.path.join(REPO, "src/fqe/fci_graph.py")).read())))
    summary.append(("mme_entry", False))
    chunks.append(translate_make_mapping_each_set(ast.parse(open(os.path.join(REPO, "src/fqe/fci_graph_set.py")).read())))
    summary.append(("mmes_entry", False))
    chunks.append(translate_z_matrix(ast.parse(open(os.path.join(REPO, "src/fqe/fci_graph.py")).read())))
    summary.append(("z_matrix", False))
    chunks.append(translate_string_address(ast.parse(open(os.path.join(REPO, "src/fqe/fci_graph.py")).read())))
    summary.append(("string_address", True))
    hdr = ("/-\n  GENERATED by harness/translate/pyint.py from the Python sources of /repo (bitstring.py, util.py,\n"
           "  _fqe_control.py).  Do not edit: regenerated on every check run.\n-/\n"
           "import FqeVerif.Lemmas.PyPrelude\nset_option linter.unusedVariables false\nnamespace GenPy\nopen PyPrelude\n\n")
    text = hdr + "\n".join(chunks) + "\nend GenPy\n"
    old = open(OUT).read() if os.path.exists(OUT) else None
    if old != text:
        with open(OUT, "w") as f:
            f.write(text)
    print(f"pyint: {len(summary)} functions translated ({sum(1 for _, r in summary if r)} may raise) -> {OUT}")


if __name__ == "__main__":
    try:
        main()
    except (Unsupported, SyntaxError, OSError) as exc:
        print(f"pyint: TRANSLATION FAILED: {exc}", file=sys.stderr)
        sys.exit(3)
