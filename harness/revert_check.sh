#!/bin/bash
# For every repaired defect ("fixed" entry of known_findings.json): revert the fix: commit in the tree named by
# FQE_REPO (default /repo), run the owning check, expect a VIOLATION (exit 1), restore the tree.
# Meant to be run on a snapshot:  vp run --with-repo -- bash -c 'FQE_REPO=$VP_RUN_REPO bash harness/revert_check.sh'
cd "$(dirname "$0")/.."
REPO=${FQE_REPO:-/repo}
export FQE_REPO=$REPO
/venv/bin/python - <<'PY' > /tmp/revert_list.$$
import json
seen=set()
for e in json.load(open('known_findings.json')):
    if e.get('status')=='fixed' and (e['property'],e['commit']) not in seen:
        seen.add((e['property'],e['commit'])); print(e['property'], e['commit'])
PY
fail=0
while read prop commit; do
  git -C $REPO checkout -q -- . 
  if ! git -C $REPO show $commit | git -C $REPO apply -R 2>/dev/null; then echo "REVERT $prop $commit: patch does not reverse-apply (later fix touches the same lines)"; continue; fi
  out=$(./check $prop 2>&1 | grep -E "^VIOLATION|^check " | tr '\n' ' ')
  if echo "$out" | grep -q "^VIOLATION"; then echo "REVERT $prop $commit: detected   $out" | cut -c1-260; else echo "REVERT $prop $commit: MISSED   $out" | cut -c1-260; fail=1; fi
  git -C $REPO checkout -q -- .
done < /tmp/revert_list.$$
rm -f /tmp/revert_list.$$
exit $fail
