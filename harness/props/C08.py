"""C08 — wavefunction arithmetic = arithmetic on the coefficient vector.

Random histories over a pool of wavefunctions with two different sector sets; after every step every
pool member is compared (exactly, Gaussian-integer data) with the model pool whose values are
computed by the Lean driver (vaxpy / vdot / inner / vmaxnormsq / apply with a scalar)."""
import copy
from fractions import Fraction

import numpy

import fqe_util as U
from lean_driver import fmt_vec, fmt_c, parse_vec, parse_c


def to_entries(model):
    return [(a, b, complex(float(v[0]), float(v[1]))) for (a, b), v in sorted(model.items())
            if v != (0, 0)]


def exact(model):
    return {k: (Fraction(v[0]), Fraction(v[1])) for k, v in model.items()}


def same(w, model):
    got = U.wfn_dict(w)
    for det, z in got.items():
        e = model.get(det, (0, 0))
        if abs(z.real - float(e[0])) > 1e-9 * max(1.0, abs(float(e[0]))) or abs(z.imag - float(e[1])) > 1e-9 * max(1.0, abs(float(e[1]))):
            return False
    return all(det in got or e == (0, 0) for det, e in model.items())


def run(ctx):
    fqe = ctx.fqe
    import props.C01 as C01
    d, rng = ctx.driver, ctx.rng
    quick = ctx.tier == "quick"
    nhist = 25 if quick else 1500
    for h in range(nhist):
        norb = rng.choice([1, 2, 2, 3])
        # two sector sets A and B
        sets = []
        for _ in range(2):
            kind = rng.choice(["single", "multi", "spinbroken"])
            w = C01.make_wfn(ctx, kind, norb, rng)
            sets.append(w)
        pool, model, keyset = [], [], []
        for i in range(4):
            base = sets[i % 2]
            w = copy.deepcopy(base)
            U.random_fill(w, rng, zero_p=0.3)
            pool.append(w)
            model.append({(a, b): (Fraction(c.real), Fraction(c.imag)) for a, b, c in U.wfn_entries(w)})
            keyset.append(i % 2)
        log = []
        nsteps = rng.randint(20, 40)
        for step in range(nsteps):
            op = rng.choice(["axpy", "axpy", "add", "sub", "iadd", "scale", "dot", "vdot", "norm", "max",
                             "get", "set", "setwfn", "emptycopy", "deepcopy", "deepcopy-container", "mismatch"])
            i, j = rng.randrange(4), rng.randrange(4)
            s = U.gint(rng, zero_p=0.1)
            entry = {"op": op, "i": i, "j": j, "s": [complex(s).real, complex(s).imag]}
            log.append(entry)
            ok, what = True, ""
            try:
                if op in ("axpy", "add", "sub", "iadd", "mismatch"):
                    if op == "mismatch":
                        others = [x for x in range(4) if keyset[x] != keyset[i]]
                        if not others:
                            continue
                        j = others[0]
                    compatible = set(pool[i].sectors()) == set(pool[j].sectors())
                    before_i, before_j = copy.deepcopy(U.wfn_dict(pool[i])), copy.deepcopy(U.wfn_dict(pool[j]))
                    try:
                        if op in ("axpy", "mismatch"):
                            pool[i].ax_plus_y(s, pool[j])
                            res = ("inplace", None)
                        elif op == "iadd":
                            pool[i] += pool[j]
                            s = 1
                            res = ("inplace", None)
                        elif op == "add":
                            res = ("new", pool[i] + pool[j])
                            s = 1
                        else:
                            res = ("new", pool[i] - pool[j])
                            s = -1
                        raised = False
                    except ValueError:
                        raised = True
                    if not compatible:
                        ctx.count("mismatch-rejected" if raised else "mismatch-accepted")
                        if not raised:
                            ok, what = False, "operands with different sector sets were combined"
                        elif U.wfn_dict(pool[i]) != before_i or U.wfn_dict(pool[j]) != before_j:
                            ok, what = False, "operands changed by a refused operation"
                    elif raised:
                        ok, what = False, "compatible operands refused"
                    else:
                        # model: s * x_j + x_i
                        r = parse_vec(d.ask(f"vaxpy {fmt_c(s)} {fmt_vec(to_entries(model[j]))} {fmt_vec(to_entries(model[i]))}"))
                        if res[0] == "inplace":
                            model[i] = r
                        else:
                            # add/sub: s * x_j + x_i, result is a new object; operands untouched
                            if not same(res[1], r):
                                ok, what = False, f"{op} result differs from vector arithmetic"
                            k = rng.randrange(4)
                            if keyset[k] == keyset[i]:
                                pool[k] = res[1]
                                model[k] = r
                elif op == "scale":
                    pool[i].scale(s)
                    model[i] = parse_vec(d.ask(f"vaxpy {fmt_c(s)} {fmt_vec(to_entries(model[i]))} 0"))
                elif op in ("dot", "vdot"):
                    f = fqe.dot if op == "dot" else fqe.vdot
                    got = complex(f(pool[i], pool[j]))
                    req = ("vdot " if op == "dot" else "inner ") + fmt_vec(to_entries(model[i])) + " " + fmt_vec(to_entries(model[j]))
                    e = parse_c(d.ask(req))
                    if abs(got.real - float(e[0])) > 1e-9 * max(1.0, abs(float(e[0]))) or abs(got.imag - float(e[1])) > 1e-9 * max(1.0, abs(float(e[1]))):
                        ok, what = False, f"{op} = {got}, exact {e}"
                elif op == "norm":
                    got = pool[i].norm()
                    e = parse_c(d.ask(f"inner {fmt_vec(to_entries(model[i]))} {fmt_vec(to_entries(model[i]))}"))
                    if abs(got * got - float(e[0])) > 1e-9 * max(1.0, float(e[0])):
                        ok, what = False, f"norm^2 = {got * got}, exact {e[0]}"
                elif op == "max":
                    got = complex(pool[i].max_element())
                    e = Fraction(d.ask(f"vmaxnormsq {fmt_vec(to_entries(model[i]))}"))
                    if abs(got.real ** 2 + got.imag ** 2 - float(e)) > 1e-9 * max(1.0, float(e)):
                        ok, what = False, f"max_element = {got}, largest |c|^2 = {e}"
                        entry["coeffs"] = [[a, b, [float(v[0]), float(v[1])]] for (a, b), v in model[i].items()]
                elif op in ("get", "set"):
                    dets = U.wfn_dets(pool[i])
                    det = rng.choice(dets)
                    if op == "get":
                        got = complex(pool[i][det])
                        e = model[i].get(det, (0, 0))
                        if abs(got.real - float(e[0])) > 1e-9 * max(1.0, abs(float(e[0]))) or abs(got.imag - float(e[1])) > 1e-9 * max(1.0, abs(float(e[1]))):
                            ok, what = False, f"getitem {det} = {got}, exact {e}"
                    else:
                        v = complex(U.gint(rng))
                        pool[i][det] = v
                        model[i] = dict(model[i])
                        model[i][det] = (Fraction(v.real), Fraction(v.imag))
                elif op == "setwfn":
                    strat = rng.choice(["zero", "ones", "from_data"])
                    if strat == "from_data":
                        data = {}
                        for key in pool[i].sectors():
                            shp = pool[i].sector(key).coeff.shape
                            arr = numpy.array([[U.gint(rng) for _ in range(shp[1])] for _ in range(shp[0])],
                                              dtype=numpy.complex128).reshape(shp)
                            # the caller's array may be real-valued, integer, or Fortran-ordered: the state is the
                            # complex vector with these values all the same (later complex writes / scalings and
                            # the kernels must see an ordinary complex coefficient array)
                            form = rng.choice(["complex", "complex", "fortran", "real", "int"])
                            if form == "fortran":
                                arr = numpy.asfortranarray(arr)
                            elif form == "real":
                                arr = numpy.ascontiguousarray(arr.real)
                            elif form == "int":
                                arr = numpy.ascontiguousarray(arr.real).astype(numpy.int64)
                            ctx.count(f"setwfn:raw-data-form:{form}")
                            data[key] = arr
                        pool[i].set_wfn(strategy="from_data", raw_data=data)
                        if any(data[k] is pool[i].sector(k).coeff for k in data):
                            pass
                    else:
                        pool[i].set_wfn(strategy=strat)
                    if strat == "zero":
                        model[i] = {}
                    elif strat == "ones":
                        model[i] = {det: (Fraction(1), Fraction(0)) for det in U.wfn_dets(pool[i])}
                    else:
                        model[i] = {}
                        for key in pool[i].sectors():
                            sec = pool[i].sector(key)
                            for ia, a in enumerate(sec._core.string_alpha_all()):
                                for ib, b in enumerate(sec._core.string_beta_all()):
                                    z = complex(data[key][ia, ib])
                                    model[i][(int(a), int(b))] = (Fraction(z.real), Fraction(z.imag))
                        # later mutation of the caller's arrays must not leak into the wavefunction
                        for key in data:
                            data[key][...] = 99
                        # whatever the layout of the caller's arrays, the state is usable by every public operation:
                        # the qubit export (a C kernel on the accelerated path) sees the same vector
                        if max(k[0] for k in pool[i].sectors()) >= 0:
                            try:
                                vq = fqe.to_cirq(pool[i])
                                n2 = sum(float(a * a + b * b) for a, b in model[i].values())
                                if abs(float(numpy.vdot(vq, vq).real) - n2) > 1e-9 * max(1.0, n2):
                                    ok, what = False, f"to_cirq after set_wfn(from_data, {form}): norm^2 {numpy.vdot(vq, vq).real} != {n2}"
                            except Exception as exc:
                                ok, what = False, f"to_cirq after set_wfn(from_data, {form} array) raised {type(exc).__name__}: {str(exc)[:120]}"
                elif op == "emptycopy":
                    pool[j] = pool[i].empty_copy()
                    model[j] = {}
                    keyset[j] = keyset[i]
                elif op == "deepcopy":
                    pool[j] = copy.deepcopy(pool[i])
                    model[j] = dict(model[i])
                    keyset[j] = keyset[i]
                elif op == "deepcopy-container":
                    # one deepcopy call over a container of several wavefunctions (a list of guess vectors, a
                    # (bra, ket) pair, a dict of states): every member is copied for itself, also when two members
                    # carry the same sector labels, and the copies share no storage with each other or the sources
                    shape = rng.choice(["list", "tuple", "dict"])
                    members = list(range(4))
                    rng.shuffle(members)
                    members = members[:rng.choice([2, 3, 4])]
                    if shape == "dict":
                        cp = copy.deepcopy({f"s{k}": pool[k] for k in members})
                        cps = [cp[f"s{k}"] for k in members]
                    else:
                        cp = copy.deepcopy([pool[k] for k in members] if shape == "list" else tuple(pool[k] for k in members))
                        cps = list(cp)
                    for k, c in zip(members, cps):
                        if not same(c, model[k]):
                            ok, what = False, f"deepcopy of a {shape} of wavefunctions: copy of member {k} differs from its source"
                            break
                    if ok:
                        cps[0].scale(2.0)
                        for k, c in list(zip(members, cps))[1:]:
                            if not same(c, model[k]):
                                ok, what = False, f"deepcopy of a {shape}: scaling one copy changed another copy"
                                break
                    if ok:
                        for k, c in zip(members, cps):
                            pool[k] = c
                        model[members[0]] = parse_vec(d.ask(f"vaxpy {fmt_c(2)} {fmt_vec(to_entries(model[members[0]]))} 0"))
            except Exception as exc:
                ok, what = False, f"{op} raised {type(exc).__name__}: {exc}"
            # frame check: every pool member equals its model
            if ok:
                for k in range(4):
                    if not same(pool[k], model[k]):
                        ok, what = False, f"after {op}: pool[{k}] differs from the model vector"
                        break
            ctx.case(("step", h, step), sample=entry if step == 3 and h < 3 else None)
            ctx.count(f"op:{op}")
            if not ok:
                sig = f"arith:{op}"
                if op == "max":
                    sig = "arith:max_element"
                ctx.disagree(sig, what, {"history": log, "norb": norb, "h": h,
                                         "sectors": [sorted(w.sectors()) for w in sets]})
                break


    # ---- equal sector keys over different numbers of orbitals: different spaces, must be refused (a 1 x 1 block
    #      would otherwise be broadcast over the other operand's coefficients) ------------------------------------
    for case in range(8 if quick else 60):
        n1 = rng.choice([2, 3, 4])
        n2 = rng.choice([m for m in (1, 2, 3, 4, 5) if m != n1])
        nel = rng.randint(0, 2 * min(n1, n2))
        szs = [s_ for s_ in range(-nel, nel + 1, 2) if (nel + s_) // 2 <= min(n1, n2) and (nel - s_) // 2 <= min(n1, n2)]
        if not szs:
            continue
        sz = rng.choice(szs)
        left = fqe.Wavefunction([[nel, sz, n1]])
        right = fqe.Wavefunction([[nel, sz, n2]])
        U.random_fill(left, rng, zero_p=0.0)
        U.random_fill(right, rng, zero_p=0.0)
        for opname in ("ax_plus_y", "add", "sub", "iadd"):
            sl, sr = U.wfn_dict(left), U.wfn_dict(right)
            try:
                if opname == "ax_plus_y":
                    left.ax_plus_y(2.0, right)
                elif opname == "add":
                    left + right
                elif opname == "sub":
                    left - right
                else:
                    left += right
                refused = False
            except Exception:
                refused = True
            ctx.case(("norb-mismatch", case, opname))
            ctx.count("norb-mismatch:" + ("refused" if refused else "accepted"))
            if not refused:
                ctx.disagree("arith:norb-mismatch-accepted", f"{opname} combined wavefunctions over {n1} and {n2} orbitals "
                             f"(same sector key ({nel}, {sz}))", {"norb": [n1, n2], "nele": nel, "sz": sz, "op": opname})
                break
            if U.wfn_dict(left) != sl or U.wfn_dict(right) != sr:
                ctx.disagree("arith:norb-mismatch-operand-changed", f"refused {opname} changed an operand",
                             {"norb": [n1, n2], "nele": nel, "sz": sz, "op": opname})
    # ---- nested sector sets: a strict subset on either side must be refused as well ---------------------------
    for case in range(6 if quick else 40):
        norb = rng.choice([2, 3])
        big = C01.make_wfn(ctx, "multi", norb, rng)
        keys = sorted(big.sectors())
        if len(keys) < 2:
            continue
        sub = fqe.Wavefunction([[n, s, norb] for n, s in keys[:rng.randint(1, len(keys) - 1)]])
        U.random_fill(sub, rng)
        for left, right, label in ((sub, big, "subset+superset"), (big, sub, "superset+subset")):
            for opname in ("ax_plus_y", "add", "sub", "iadd"):
                sl, sr = U.wfn_dict(left), U.wfn_dict(right)
                try:
                    if opname == "ax_plus_y":
                        left.ax_plus_y(2.0, right)
                    elif opname == "add":
                        left + right
                    elif opname == "sub":
                        left - right
                    else:
                        tmp = copy.deepcopy(left)
                        tmp += right
                    raised = False
                except ValueError:
                    raised = True
                ctx.case(("nested", case, label, opname))
                ctx.count("nested-sector-sets")
                if not raised:
                    ctx.disagree("arith:mismatch", f"{opname} combined operands with nested but different sector sets ({label})",
                                 {"left": sorted(left.sectors()), "right": sorted(right.sectors()), "op": opname})
                    # restore for the following operations
                    if opname == "ax_plus_y":
                        left.set_wfn(strategy="from_data", raw_data={k: numpy.array([[sl[(int(a), int(b))]
                                     for b in left.sector(k)._core.string_beta_all()] for a in left.sector(k)._core.string_alpha_all()])
                                     for k in left.sectors()})
                elif U.wfn_dict(left) != sl or U.wfn_dict(right) != sr:
                    ctx.disagree("arith:mismatch", f"operands changed by a refused {opname}", {"op": opname})


    # ---- normalize() over twenty orders of magnitude: the result is v / ||v|| whatever the scale of v ------------------
    for case in range(8 if quick else 60):
        params = rng.choice([[[2, 0, 2]], [[2, 0, 3], [3, 1, 3]], [[1, 1, 2], [2, 0, 2], [3, -1, 2]]])
        w = fqe.Wavefunction(params)
        scale = 10.0 ** rng.choice([3, 0, -6, -9, -10, -12, -20, -30])
        nr_ = numpy.random.RandomState(rng.randrange(2 ** 31))
        data = {k: (nr_.randint(-4, 5, w.get_coeff(k).shape) + 1j * nr_.randint(-4, 5, w.get_coeff(k).shape)).astype(numpy.complex128) * scale
                for k in w.sectors()}
        if all(not numpy.any(v) for v in data.values()):
            continue
        w.set_wfn(strategy="from_data", raw_data={k: v.copy() for k, v in data.items()})
        nrm = float(numpy.sqrt(sum(numpy.vdot(v, v).real for v in data.values())))
        try:
            w.normalize()
        except Exception as exc:
            ctx.disagree(f"normalize-raises:{type(exc).__name__}", str(exc)[:200], {"scale": scale, "params": params})
            continue
        worst = max(float(numpy.abs(w.get_coeff(k) - data[k] / nrm).max()) for k in data)
        ctx.case(("normalize", case))
        ctx.count(f"normalize:scale=1e{int(round(numpy.log10(scale)))}")
        if worst > 1e-12 or abs(w.norm() - 1.0) > 1e-12:
            ctx.disagree("arith:normalize", f"normalize() of a state of norm {nrm:.3e}: max deviation from v/||v|| {worst:.3e}, "
                         f"norm afterwards {w.norm():.3e}", {"scale": scale, "params": params})


def replay(ctx, rep):
    run(ctx)
