"""C13 — accelerated kernels stay inside their buffers for every valid problem shape.

The same C sources are compiled a second time with AddressSanitizer + UndefinedBehaviorSanitizer (OpenMP kept, C asserts
enabled) and loaded through the unchanged ctypes/Cython wrappers.  A battery drives every accelerated kernel through
the public API over boundary shapes: no electrons, full shells, one orbital, empty excitation maps, row lengths on both
sides of the internal batch sizes (lenb in {435, 455, 462, 465, 861, 903} around ZAXPY_STRIDE = 450 and 2*450; 9/10/11
beta strings around STATES_PER_SET = 10; lena = 126 > the RDM block size 100), orbital indices 30..33 and 62..63.  Any
sanitizer report (heap/stack overflow, misaligned or out-of-range shift, signed overflow) ends the child and is a
concrete failing input; results are also compared exactly with the regular build."""
import json
import os
import re
import subprocess
import sys

import numpy

from props.C10 import int_fill


def battery(fqe, seed, tier, log=None):
    import copy
    import hashlib
    from openfermion import FermionOperator
    r = numpy.random.RandomState(seed * 37 + 3)
    out = {}

    def mark(s):
        if log:
            log.write(s + "\n")
            log.flush()

    def put(name, arr):
        a = numpy.ascontiguousarray(numpy.asarray(arr))
        if a.size <= 200000:
            a = a.astype(numpy.complex128).ravel()
            out[name] = [[float(z.real), float(z.imag)] for z in a]
        else:
            out[name] = hashlib.sha1(a.tobytes()).hexdigest()[:16] + f":{float(numpy.abs(a).sum()):.6g}"
    shapes = [
        (1, 0, 0), (1, 1, 0), (1, 1, 1), (2, 0, 0), (2, 2, 2), (3, 3, 0), (3, 0, 3),       # empty / full / one orbital
        (4, 2, 2), (5, 1, 4), (6, 3, 3),
        (9, 0, 1), (10, 0, 1), (11, 0, 1), (10, 1, 1),                                    # STATES_PER_SET boundaries
        (30, 0, 2), (15, 1, 3), (11, 1, 5), (31, 0, 2), (12, 4, 1), (33, 2, 0), (40, 2, 1),                                 # lenb 435, 455, 462, 465
        (9, 4, 1), (10, 1, 3), (9, 4, 4),                                                 # lena 126 > 100; 10 x 120; 126 x 126: several 100-string blocks in the blocked RDM kernels, beta block offset above the alpha one
        (31, 1, 1), (32, 1, 0), (33, 0, 1), (63, 1, 0), (64, 0, 1), (64, 1, 1),           # top orbital indices
    ]
    if tier != "quick":
        shapes += [(42, 0, 2), (43, 0, 2), (43, 1, 2), (12, 2, 6), (7, 3, 4), (62, 1, 1), (8, 8, 7), (8, 0, 8)]   # lenb 861, 903
    for norb, na, nb in shapes:
        tag = f"{norb}:{na}:{nb}"
        mark("shape " + tag)
        key = (na + nb, na - nb)
        w = fqe.Wavefunction([[na + nb, na - nb, norb]])
        int_fill(w, r)
        dim = w.get_coeff(key).size
        h1 = r.randint(-2, 3, (norb, norb)).astype(numpy.complex128)
        h1 = h1 + h1.T
        mark("apply1 " + tag)
        put(f"apply1:{tag}", w.apply(fqe.get_restricted_hamiltonian((h1,))).get_coeff(key))
        mark("diag " + tag)
        put(f"diag:{tag}", w.apply(fqe.get_diagonal_hamiltonian(r.randint(-3, 4, norb).astype(numpy.float64))).get_coeff(key))
        v = r.randint(-2, 3, (norb, norb)).astype(numpy.float64)
        mark("diagcoulomb " + tag)
        put(f"diagcoulomb:{tag}", w.apply(fqe.get_diagonalcoulomb_hamiltonian(v + v.T)).get_coeff(key))
        mark("evolve-diag " + tag)
        wn = copy.deepcopy(w)
        if wn.norm() > 0:
            wn.normalize()
            put(f"evolvediag:{tag}", numpy.round(wn.time_evolve(0.1, fqe.get_diagonal_hamiltonian(numpy.arange(1.0, norb + 1))).get_coeff(key), 9))
            put(f"evolvedc:{tag}", numpy.round(wn.time_evolve(0.1, fqe.get_diagonalcoulomb_hamiltonian(v + v.T)).get_coeff(key), 9))
        if norb >= 2 and na + nb >= 1:
            hi = norb - 1
            for (m1, m2) in ((2 * hi, 0), (2 * hi + 1, 1)):
                op = FermionOperator(((m1, 1), (m2, 0)), 1.0) + FermionOperator(((m2, 1), (m1, 0)), 1.0)
                mark(f"sparse {m1} {m2} " + tag)
                try:
                    ham = fqe.get_sparse_hamiltonian(op)
                    put(f"sparse:{m1}:{tag}", w.apply(ham).get_coeff(key))
                    if wn.norm() > 0:
                        put(f"sevolve:{m1}:{tag}", numpy.round(wn.time_evolve(0.2, ham).get_coeff(key), 9))
                except Exception as exc:
                    out[f"sparse:{m1}:{tag}"] = "raise:" + type(exc).__name__
        if dim <= 20000 and norb <= 12:
            mark("rdm " + tag)
            put(f"rdm1:{tag}", w.rdm("i^ j"))
            if norb <= 9 and dim <= 4000:
                put(f"rdm2:{tag}", w.rdm("i^ j^ k l"))
            if norb <= 5:
                put(f"rdm3:{tag}", w.rdm("i^ j^ k^ l m n"))
                put(f"wick:{tag}", w.rdm("i j k^ l^"))
        if norb <= 6:
            h2 = numpy.zeros((norb,) * 4, dtype=numpy.complex128)
            for _ in range(10):
                i, j, k, l = r.randint(0, norb, 4)
                h2[i, j, k, l] += 1.0
                h2[l, k, j, i] += 1.0
            mark("apply12 " + tag)
            put(f"apply12:{tag}", w.apply(fqe.get_restricted_hamiltonian((h1, h2))).get_coeff(key))
            g1 = r.randint(-2, 3, (2 * norb, 2 * norb)).astype(numpy.complex128)
            put(f"applygso:{tag}", w.apply(fqe.get_gso_hamiltonian((g1 + g1.T,))).get_coeff(key))
            if norb <= 3:
                h3 = numpy.zeros((norb,) * 6, dtype=numpy.complex128)
                h3[(0,) * 6] = 1.0
                mark("apply123 " + tag)
                put(f"apply123:{tag}", w.apply(fqe.get_restricted_hamiltonian((h1, h2, h3))).get_coeff(key))
            mark("cirq " + tag)
            cv = fqe.to_cirq(w)
            put(f"cirq:{tag}", cv)
            try:
                put(f"fromcirq:{tag}", fqe.from_cirq(cv, 0.5).get_coeff(key))
            except Exception as exc:
                out[f"fromcirq:{tag}"] = "raise:" + type(exc).__name__
            mark("transform " + tag)
            um = numpy.eye(norb, dtype=numpy.complex128)
            if norb > 1:
                um[0, 1] = 2.0
            try:
                put(f"transform:{tag}", numpy.round(copy.deepcopy(w).transform(um)[3].get_coeff(key), 9))
            except Exception as exc:
                out[f"transform:{tag}"] = "raise:" + type(exc).__name__
        if norb >= 2 and dim <= 40000:
            # orbital rotation (column kernels + de-excitation tables) on every shape, incl. rows longer than one
            # batch and orbital counts above 31: a product of Givens rotations touching the first and last orbitals
            mark("rotate " + tag)
            q = numpy.eye(norb, dtype=numpy.complex128)
            hi = norb - 1
            for (a, b, th) in ((0, 1, 0.3), (0, hi, 0.5), (1 % norb, hi, -0.4), (max(hi - 1, 0), hi, 0.7)):
                if a != b:
                    g = numpy.eye(norb, dtype=numpy.complex128)
                    g[a, a] = g[b, b] = numpy.cos(th)
                    g[a, b] = numpy.sin(th) * 1j
                    g[b, a] = numpy.sin(th) * 1j
                    q = q @ g
            try:
                put(f"rotate:{tag}", numpy.round(copy.deepcopy(w).transform(q)[3].get_coeff(key), 9))
            except Exception as exc:
                out[f"rotate:{tag}"] = "raise:" + type(exc).__name__
            # the same graph rotated again and again (rotation, back-rotation as in the quadratic propagator, and a
            # one-body evolution), on the object itself rather than on a copy
            if dim <= 6000:
                mark("rotate-repeat " + tag)
                try:
                    wr = copy.deepcopy(w)
                    _, _, _, t1 = wr.transform(q)
                    _, _, _, t2 = t1.transform(q.conj().T)
                    put(f"rotate-back:{tag}", numpy.round(t2.get_coeff(key), 8))
                    if wn.norm() > 0:
                        hq = (q + q.conj().T) / 2
                        put(f"evolve1:{tag}", numpy.round(wn.time_evolve(0.1, fqe.get_restricted_hamiltonian((hq,))).get_coeff(key), 9))
                        put(f"evolve1-again:{tag}", numpy.round(wn.time_evolve(-0.2, fqe.get_restricted_hamiltonian((hq,))).get_coeff(key), 9))
                except Exception as exc:
                    out[f"rotate-back:{tag}"] = "raise:" + type(exc).__name__
    # spin-broken and number-broken containers (cross-sector maps, dn up to 2)
    for norb, n in ((2, 2), (3, 2), (3, 3), (4, 1)):
        mark(f"spinbroken {norb} {n}")
        w = fqe.get_number_conserving_wavefunction(n, norb)
        int_fill(w, r)
        g1 = r.randint(-2, 3, (2 * norb, 2 * norb)).astype(numpy.complex128)
        res = w.apply(fqe.get_gso_hamiltonian((g1 + g1.T,)))
        for k in sorted(res.sectors()):
            put(f"sb:{norb}:{n}:{k}", res.get_coeff(k))
        put(f"sbrdm:{norb}:{n}", w.rdm("i^ j"))
    mark("done")
    return out


CHILD = ("import sys, json; sys.path.insert(0, %r); from fqe_env import load_fqe; fqe = load_fqe(%r, 'C'); "
         "import props.C13 as C13; log = open(%r, 'w'); "
         "print('@@B@@' + json.dumps(C13.battery(fqe, %d, %r, log)))")


def run(ctx):
    import build_repo
    here = os.path.dirname(os.path.dirname(os.path.abspath(__file__)))
    logf = os.path.join(os.environ.get("TMPDIR", "/tmp"), f"fqeverif-c13-{os.getpid()}.log")

    def child(src, extra_env):
        if os.path.exists(logf):
            os.remove(logf)
        env = dict(os.environ)
        env.update(extra_env)
        r = subprocess.run([sys.executable, "-c", CHILD % (here, src, logf, ctx.seed, ctx.tier)], stdout=subprocess.PIPE,
                           stderr=subprocess.PIPE, text=True, cwd=here, env=env)
        line = [l for l in r.stdout.splitlines() if l.startswith("@@B@@")]
        last = open(logf).read().splitlines()[-1] if os.path.exists(logf) else "?"
        return (json.loads(line[0][5:]) if line else None), r.returncode, r.stderr, last
    ref, rc, err, last = child(ctx.src, {"OMP_NUM_THREADS": "4"})
    regular_failed = None
    if ref is None:
        # the regular build crashed: still run the sanitized build so that the report names the faulting access
        regular_failed = (rc, last, err[-600:])
        ref = {}
    try:
        asan_src = build_repo.build(variant="asan")
    except Exception as exc:
        ctx.disagree("bounds:sanitizer-build-failed", str(exc), {})
        return
    libasan = subprocess.run(["gcc", "-print-file-name=libasan.so"], stdout=subprocess.PIPE, text=True).stdout.strip()
    libstdcpp = subprocess.run(["gcc", "-print-file-name=libstdc++.so"], stdout=subprocess.PIPE, text=True).stdout.strip()
    # libstdc++ must be loaded together with the ASan runtime, otherwise its __cxa_throw interceptor has no target
    # and the first C++ exception thrown inside numpy/scipy aborts the interpreter
    env = {"LD_PRELOAD": libasan + " " + os.path.realpath(libstdcpp), "ASAN_OPTIONS": "detect_leaks=0:halt_on_error=1:abort_on_error=0:exitcode=97",
           "UBSAN_OPTIONS": "halt_on_error=1:print_stacktrace=1:exitcode=98", "OMP_NUM_THREADS": "4"}
    got, rc, err, last = child(asan_src, env)
    reports = [l for l in err.splitlines() if "AddressSanitizer" in l or "runtime error:" in l or "Assertion" in l]
    ctx.count("sanitized-results", len(got) if got else 0)
    for name in sorted(ref):
        ctx.case(("cmp", name))
    if reports or rc != 0 or got is None:
        kind = "asan" if any("AddressSanitizer" in l for l in reports) else "ubsan" if any("runtime error" in l for l in reports) \
            else "assert" if any("Assertion" in l for l in reports) else "exit"
        ctx.disagree(f"bounds:sanitizer-report:{kind}", f"sanitized run ended with status {rc} during '{last}': "
                     + " | ".join(reports[:3])[:600]
                     + (f" (regular build: status {regular_failed[0]} at '{regular_failed[1]}')" if regular_failed else ""),
                     {"step": last, "reports": reports[:5], "stderr_tail": err[-1200:]})
        return
    if regular_failed:
        ctx.disagree("bounds:battery-failed-regular-build", f"status {regular_failed[0]} at '{regular_failed[1]}': {regular_failed[2]}",
                     {"step": regular_failed[1]})
        return
    def same(x, y):
        if isinstance(x, list) and isinstance(y, list):
            return len(x) == len(y) and numpy.allclose(numpy.array(x), numpy.array(y), rtol=1e-9, atol=1e-9)
        return x == y
    for name in sorted(ref):
        if not same(got.get(name), ref[name]):
            ctx.disagree(f"bounds:result-differs:{name.split(':')[0]}", f"{name}: sanitized build differs from the regular build",
                         {"name": name})
            break
    ctx.samples.append({"shapes_results": len(ref), "examples": sorted(ref)[:6]})
    if os.path.exists(logf):
        os.remove(logf)


def replay(ctx, rep):
    run(ctx)
