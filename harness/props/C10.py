"""C10 — results do not depend on the number of threads or the loop schedule.

One deterministic battery that drives every accelerated kernel through the public API on integer-valued (Gaussian
integer) data is executed in child interpreters at OMP_NUM_THREADS in {1, 2, 3, 5, 8, 16}, with static and dynamic
schedules, several repetitions, and in a build of the same C sources with OpenMP disabled.  With integer data every
floating-point sum is exact, so all runs must agree BITWISE: a lost update or a read of a half-written element is a
wrong integer, not a rounding difference.  Shapes put the parallel dimension below the thread count and above the
internal batch sizes (lenb = 462 > ZAXPY_STRIDE = 450, beta strings 9/10/11 around STATES_PER_SET = 10)."""
import hashlib
import json
import os
import subprocess
import sys

import numpy


def int_fill(w, r):
    data = {}
    for key in w.sectors():
        shp = w.get_coeff(key).shape
        data[key] = (r.randint(-3, 4, shp) + 1j * r.randint(-3, 4, shp)).astype(numpy.complex128)
    w.set_wfn(strategy="from_data", raw_data=data)


def battery(fqe, seed, tier):
    import copy
    from openfermion import FermionOperator
    r = numpy.random.RandomState(seed * 31 + 11)
    out = {}

    def put(name, arr):
        a = numpy.ascontiguousarray(numpy.asarray(arr))
        out[name] = hashlib.sha1(a.tobytes()).hexdigest()[:16] + f":{float(numpy.abs(a).sum()):.6g}"
    # (10, 5, 4): 252 x 210 coefficients, several 64 x 64 / 16 x 16 transpose tiles per thread; (12, 1, 6): 924 columns = 3 batches
    # (6, 2, 2): 15 x 15 and (7, 3, 2): 35 x 21 determinants - odd string counts (slices of a loop over strings do not
    # divide evenly among 2, 4, 8, 16 threads) in sectors of more than 128 determinants, for the 3-body route
    shapes = [(6, 3, 3), (11, 1, 5), (11, 5, 1), (5, 2, 3), (4, 4, 0), (4, 0, 0), (3, 3, 3), (10, 1, 2), (10, 2, 1), (1, 1, 0),
              (10, 5, 4), (12, 1, 6), (6, 2, 2), (7, 3, 2)]
    if tier != "quick":
        shapes += [(12, 2, 6), (7, 3, 4), (9, 4, 1)]
    for norb, na, nb in shapes:
        w = fqe.Wavefunction([[na + nb, na - nb, norb]])
        int_fill(w, r)
        key = (na + nb, na - nb)
        tag = f"{norb}:{na}:{nb}"
        h1 = r.randint(-2, 3, (norb, norb)).astype(numpy.complex128)
        h1 = h1 + h1.T
        put(f"apply1:{tag}", w.apply(fqe.get_restricted_hamiltonian((h1,))).get_coeff(key))
        if norb <= 7:
            h2 = numpy.zeros((norb,) * 4, dtype=numpy.complex128)
            for _ in range(20):
                i, j, k, l = r.randint(0, norb, 4)
                v = float(r.randint(-2, 3))
                h2[i, j, k, l] += v
                h2[l, k, j, i] += v
            put(f"apply12:{tag}", w.apply(fqe.get_restricted_hamiltonian((h1, h2))).get_coeff(key))
            if na + nb >= 3 or tier != "quick":
                h3 = numpy.zeros((norb,) * 6, dtype=numpy.complex128)
                for _ in range(24):
                    ix = tuple(r.randint(0, norb, 6))
                    v = float(r.randint(-2, 3))
                    h3[ix] += v
                    h3[ix[3:][::-1] + ix[:3][::-1]] += v
                put(f"apply123:{tag}", w.apply(fqe.get_restricted_hamiltonian((h1, h2, h3))).get_coeff(key))
            g1 = r.randint(-2, 3, (2 * norb, 2 * norb)).astype(numpy.complex128)
            g1 = g1 + g1.T
            put(f"applygso:{tag}", w.apply(fqe.get_gso_hamiltonian((g1,))).get_coeff(key))
            # spin-conserving spin-orbital 1+2-body operator whose alpha-beta coupling is NOT symmetric under
            # exchanging the two electrons' orbital pairs (every spin block has its own integers), so a kernel that
            # reads h2e[kl, ij] for h2e[ij, kl] cannot agree with one that does not
            n2 = 2 * norb
            s1 = numpy.zeros((n2, n2), dtype=numpy.complex128)
            for s in range(2):
                blk = r.randint(-2, 3, (norb, norb)).astype(numpy.complex128)
                s1[s * norb:(s + 1) * norb, s * norb:(s + 1) * norb] = blk + blk.T
            s2 = numpy.zeros((n2,) * 4, dtype=numpy.complex128)
            for _ in range(40):
                i, j, k, l = r.randint(0, n2, 4)
                if (i < norb) == (k < norb) and (j < norb) == (l < norb):
                    v = float(r.randint(-2, 3)) + 1j * float(r.randint(-2, 3))
                    s2[i, j, k, l] += v
                    s2[l, k, j, i] += numpy.conj(v)
            put(f"applysso12:{tag}", w.apply(fqe.get_sso_hamiltonian((s1, s2))).get_coeff(key))
        v = r.randint(-2, 3, (norb, norb)).astype(numpy.float64)
        put(f"diagcoulomb:{tag}", w.apply(fqe.get_diagonalcoulomb_hamiltonian(v + v.T)).get_coeff(key))
        put(f"diag:{tag}", w.apply(fqe.get_diagonal_hamiltonian(r.randint(-3, 4, norb).astype(numpy.float64))).get_coeff(key))
        if na + nb > 0 and norb > 1:
            op = FermionOperator(((0, 1), (2, 0)), 2.0) + FermionOperator(((2, 1), (0, 0)), 2.0)
            try:
                put(f"sparse:{tag}", w.apply(fqe.get_sparse_hamiltonian(op)).get_coeff(key))
            except Exception as exc:
                out[f"sparse:{tag}"] = "raise:" + type(exc).__name__
        if norb <= 6:
            put(f"rdm1:{tag}", w.rdm("i^ j"))
            put(f"rdm2:{tag}", w.rdm("i^ j^ k l"))
            put(f"wick:{tag}", w.rdm("i j k^ l^"))
        if norb <= 6:
            put(f"cirq:{tag}", fqe.to_cirq(w))
            try:
                back = fqe.from_cirq(fqe.to_cirq(w), 0.5)
                put(f"fromcirq:{tag}", back.get_coeff(key))
            except Exception as exc:
                out[f"fromcirq:{tag}"] = "raise:" + type(exc).__name__
        # graph tables are built by parallel C loops as well
        g = w.sector(key)._core
        put(f"strings:{tag}", g.string_alpha_all())
        put(f"dexc:{tag}", numpy.sort(g._dexca.reshape(-1, 3), axis=0))
        if norb <= 6:
            um = numpy.eye(norb) + 0.0
            um[0, 1 % norb] = 2.0
            try:
                _, _, _, tw = copy.deepcopy(w).transform(um.astype(numpy.complex128))
                put(f"transform:{tag}", numpy.round(tw.get_coeff(key), 9))
            except Exception as exc:
                out[f"transform:{tag}"] = "raise:" + type(exc).__name__
        if norb >= 2:
            # orbital rotation on every shape (column kernels, batches of 450 columns, transposes of the whole sector)
            q = numpy.eye(norb, dtype=numpy.complex128)
            hi = norb - 1
            for (a, b, cs, sn) in ((0, 1, 0.6, 0.8), (0, hi, 0.8, 0.6), (1 % norb, hi, 0.6, -0.8)):
                if a != b:
                    gm = numpy.eye(norb, dtype=numpy.complex128)
                    gm[a, a] = gm[b, b] = cs
                    gm[a, b] = sn * 1j
                    gm[b, a] = sn * 1j
                    q = q @ gm
            try:
                _, _, _, tw = copy.deepcopy(w).transform(q)
                put(f"rotate:{tag}", tw.get_coeff(key))
            except Exception as exc:
                out[f"rotate:{tag}"] = "raise:" + type(exc).__name__
    return out


CHILD = ("import sys, json; sys.path.insert(0, %r); from fqe_env import load_fqe; fqe = load_fqe(%r, 'C'); "
         "import props.C10 as C10; print('@@B@@' + json.dumps(C10.battery(fqe, %d, %r)))")


def run_child(here, src, seed, tier, env_extra):
    env = dict(os.environ)
    env.update(env_extra)
    r = subprocess.run([sys.executable, "-c", CHILD % (here, src, seed, tier)], stdout=subprocess.PIPE,
                       stderr=subprocess.PIPE, text=True, cwd=here, env=env)
    line = [l for l in r.stdout.splitlines() if l.startswith("@@B@@")]
    if not line:
        return None, r.stderr[-800:]
    return json.loads(line[0][5:]), ""


def run(ctx):
    import build_repo
    here = os.path.dirname(os.path.dirname(os.path.abspath(__file__)))
    quick = ctx.tier == "quick"
    ref, err = run_child(here, ctx.src, ctx.seed, ctx.tier, {"OMP_NUM_THREADS": "1"})
    if ref is None:
        ctx.disagree("threads:battery-failed", err, {})
        return
    configs = []
    threads = [2, 3, 16] if quick else [2, 3, 5, 8, 16]
    reps = 2 if quick else 8
    for t in threads:
        for sched in (["static", "dynamic,1"] if not quick or t == 16 else ["static"]):
            for rep in range(reps):
                configs.append(({"OMP_NUM_THREADS": str(t), "OMP_SCHEDULE": sched, "OMP_DYNAMIC": "false"}, ctx.src, f"threads={t} schedule={sched} rep={rep}"))
    try:
        noomp = build_repo.build(variant="noomp")
        configs.append(({"OMP_NUM_THREADS": "4"}, noomp, "build without OpenMP"))
    except Exception as exc:
        ctx.notes.append(f"no-OpenMP build failed: {exc}")
    for env_extra, src, label in configs:
        got, err = run_child(here, src, ctx.seed, ctx.tier, env_extra)
        ctx.count("configurations")
        if got is None:
            ctx.disagree("threads:battery-failed", f"{label}: {err}", {"config": label})
            continue
        for name in sorted(ref):
            ctx.case(("cmp", label, name))
            if got.get(name) != ref[name]:
                fam = name.split(":")[0]
                ctx.disagree(f"threads:{fam}", f"{name} differs between 1 thread and {label}: {ref[name]} vs {got.get(name)}",
                             {"config": label, "name": name})
                break
    ctx.samples.append({"reference_results": dict(list(ref.items())[:3]), "configurations": [c[2] for c in configs][:6]})


def replay(ctx, rep):
    run(ctx)
