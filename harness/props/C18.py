"""C18 — Davidson-Liu returns the lowest eigenpairs or raises.

 * davidsonliu(matrix): real symmetric and complex Hermitian matrices with generic, degenerate and near-degenerate
   spectra (oracle numpy.linalg.eigh): returned eigenvalues vs the lowest ones (tolerance ~ sqrt-free: 1e-6 for
   epsilon=1e-8), normalised vectors, residual ||Hv - lambda v|| <= 1e-3, or ConvergenceError/ValueError;
 * davidsonliu_fqe / davidson_diagonalization on FQE restricted Hamiltonians: exact sector matrix from the Lean Spec
   driver, lowest eigenvalues from eigh of that matrix;
 * the routines must run at all on the installed numpy."""
import numpy

import fqe_util as U
from props.C02 import hmatrix, vec_of


def run(ctx):
    fqe = ctx.fqe
    import props.C01 as C01
    from fqe.algorithm import davidson
    d, rng = ctx.driver, ctx.rng
    quick = ctx.tier == "quick"
    nr = numpy.random.RandomState(ctx.seed * 7 + 1)
    # ---- plain matrices -------------------------------------------------------------------------
    for case in range(30 if quick else 300):
        dim = rng.choice([6, 8, 12, 20, 40, 80])
        kind = rng.choice(["generic", "diag-dominant", "diag-dominant", "diag-dominant-complex", "degenerate", "complex",
                           "near-degenerate"])
        A = nr.randn(dim, dim)
        if kind in ("complex", "diag-dominant-complex"):
            A = A + 1j * nr.randn(dim, dim)
        H = (A + A.conj().T) / 2
        if kind.startswith("diag-dominant"):
            H = H * 0.1 + numpy.diag(numpy.arange(dim, dtype=float))
        if case % 10 == 9:
            # an exactly diagonal matrix: the default guess vectors are exact eigenvectors, every residual is zero
            kind = "diagonal"
            H = numpy.diag(numpy.sort(nr.uniform(-2.0, 5.0, dim)))
        if kind == "degenerate":
            Q, _ = numpy.linalg.qr(nr.randn(dim, dim))
            ev = numpy.sort(nr.randint(-3, 4, dim).astype(float))
            H = Q @ numpy.diag(ev) @ Q.T
        if kind == "near-degenerate":
            Q, _ = numpy.linalg.qr(nr.randn(dim, dim))
            ev = numpy.sort(nr.uniform(0.0, 5.0, dim))
            ev[1] = ev[0] + rng.choice([1e-3, 1e-4, 1e-5]) * 0.9
            ev[2:] += 1.0
            H = 0.02 * H + numpy.diag(ev)
            H = (H + H.T) / 2
        # spectra far from zero (a large constant in the Hamiltonian): the threshold is an absolute accuracy
        if case % 4 == 3:
            H = H + rng.choice([-7500.0, 12000.0]) * numpy.eye(dim)
            kind = kind + "+offset"
        nroots = rng.choice([1, 2, 3]) if dim >= 6 else 1
        exact = numpy.linalg.eigvalsh(H)
        desc = {"kind": kind, "dim": dim, "nroots": nroots, "case": case, "seed": ctx.seed}
        # every third real case hands over its own guess vectors: random, neither normalised nor orthogonal
        own_guess = None
        if case % 3 == 1 and not numpy.iscomplexobj(H):
            own_guess = [nr.randn(dim, 1) * rng.choice([0.01, 1.0, 30.0]) for _ in range(2 * nroots)]
            own_guess[1] = own_guess[1] + 0.9 * own_guess[0]
            desc["own_guess_vectors"] = True
        try:
            w, v = davidson.davidsonliu(H, nroots, guess_vecs=own_guess, epsilon=1e-8) if own_guess is not None else \
                davidson.davidsonliu(H, nroots, epsilon=1e-8)
            oc = "returned"
        except davidson.ConvergenceError:
            oc = "ConvergenceError"
        except Exception as exc:
            oc = f"{type(exc).__name__}: {exc}"
        ctx.case(("matrix", case), sample=desc if case < 3 else None)
        ctx.count(f"matrix:{kind}:{oc.split(':')[0]}")
        if oc == "ConvergenceError":
            continue
        if oc != "returned":
            sig = f"davidson:matrix-raises:{oc.split(':')[0]}"
            ctx.disagree(sig, f"davidsonliu raised {oc}", desc)
            continue
        w = numpy.asarray(w).real
        err = float(numpy.abs(numpy.sort(w) - exact[:nroots]).max())
        res = 0.0
        for i in range(nroots):
            vec = numpy.asarray(v[i]).reshape(-1)
            res = max(res, float(numpy.linalg.norm(H @ vec - w[i] * vec)), abs(float(numpy.linalg.norm(vec)) - 1.0))
        if err > 1e-6 or res > 1e-3:
            sig = f"davidson:matrix:{kind}"
            nerr_m = max(abs(float(numpy.linalg.norm(numpy.asarray(v[i]).reshape(-1))) - 1.0) for i in range(nroots))
            if cluster_unresolved(exact, w, nroots, res, nerr_m):
                sig = "davidson:near-degenerate-cluster-not-resolved"
            elif own_guess is not None and skipped_lower_root(exact, w, nroots, res, nerr_m):
                # accurate eigenpairs of H that are not the lowest ones, from caller-supplied random guesses: the Ritz
                # value was captured by a higher eigenvalue and the stopping test (change of the Ritz value) fired there
                # - the recorded finding - unless no guess set reaches the skipped root
                reached = 0
                for rep_ in range(1, 41):
                    if reached or REPEATS["left"] <= 0:
                        break
                    REPEATS["left"] -= 1
                    gr = numpy.random.RandomState((ctx.seed * 7 + 1 + 104729 * rep_ + case) % (2 ** 31))
                    g2 = [gr.randn(dim, 1) for _ in range(2 * nroots)]
                    try:
                        w2, _ = davidson.davidsonliu(H, nroots, guess_vecs=g2, epsilon=1e-8)
                        if float(numpy.abs(numpy.sort(numpy.asarray(w2).real) - exact[:nroots]).max()) <= 1e-6:
                            reached += 1
                    except Exception:
                        pass
                ctx.count(f"skipped-root:matrix:repeats-that-reach-it={reached}")
                if reached > 0:
                    sig = "davidson:near-degenerate-cluster-not-resolved"
            ctx.disagree(sig, f"eigenvalue error {err:.2e}, residual/normalisation {res:.2e} (lowest exact {exact[:nroots]}, got {w})", desc)
    # ---- corpus of minimised past failures (runs first on every tier) ---------------------------------------
    import json
    import os
    cpath = os.path.join(os.path.dirname(os.path.dirname(os.path.abspath(__file__))), "corpus", "C18.json")
    if os.path.exists(cpath):
        for k, r in enumerate(json.load(open(cpath))):
            if quick and ctx.path != "C" and k > 0:
                continue
            fqe_case(ctx, 1000 + r["case"], r["norb"], r["nalpha"], r["nbeta"], dec(r["h1"]), dec(r["h2"]), r["api"],
                     r["nroots"], [dec(g) for g in r["guesses"]] if r.get("guesses") else None,
                     r["complex_hamiltonian"], r["complex_guess_vectors"])
            ctx.count("corpus")
    # ---- FQE Hamiltonians -------------------------------------------------------------------------
    from fqe.hamiltonians import restricted_hamiltonian
    for case in range(12 if quick else 80):
        big = case % 3 != 0
        if big and ctx.path != "C" and (quick or case % 4 != 1):
            continue            # the solver code is path independent; the large sectors run (mostly) on the fast kernels
        norb = rng.choice([4, 5]) if big else rng.choice([2, 3])
        na = rng.randint(1, norb - 1) if norb > 2 else 1
        nb = rng.randint(1, norb - 1) if norb > 2 else 1
        if big:
            norb, na, nb = 5, 2, 2
        cplx_h = big and rng.random() < 0.6
        h1 = nr.randn(norb, norb) + (1j * nr.randn(norb, norb) if cplx_h else 0)
        h1 = (h1 + h1.conj().T) / 2
        if big:
            h1 = 0.3 * h1 + numpy.diag(numpy.arange(norb, dtype=float))
        h2 = numpy.zeros((norb,) * 4, dtype=h1.dtype)
        for _ in range(3):
            i, j, k, l = (rng.randrange(norb) for _ in range(4))
            z = float(rng.choice([-0.5, 0.25, 0.5])) * (0.3 if big else 1.0) * (1j if cplx_h and rng.random() < 0.5 and (i, j, k, l) != (l, k, j, i) else 1)
            h2[i, j, k, l] += z
            h2[l, k, j, i] += numpy.conj(z)
        guess_data = None
        key = (na + nb, na - nb)
        # the high-level entry point builds its own guess vectors: closed-shell sectors (nalpha = nbeta) with several
        # roots are the case in which a too symmetric guess set cannot reach the odd-spin states
        api = rng.choice(["davidsonliu_fqe", "davidsonliu_fqe", "davidson_diagonalization"]) if big else \
            rng.choice(["davidson_diagonalization", "davidsonliu_fqe"])
        nroots = rng.choice([1, 2]) if api == "davidsonliu_fqe" else (rng.choice([2, 3]) if big else 1)
        cplx_g = api == "davidsonliu_fqe" and rng.random() < 0.5
        if api == "davidsonliu_fqe":
            shp = fqe.Wavefunction([[na + nb, na - nb, norb]]).get_coeff(key).shape
            guess_data = [(nr.randn(*shp) + (1j * nr.randn(*shp) if cplx_g else 0)).astype(numpy.complex128)
                          for _ in range(nroots + 1)]
        fqe_case(ctx, case, norb, na, nb, h1, h2, api, nroots, guess_data, cplx_h, cplx_g)
    # the module-level entry point on sectors with a completely filled spin shell (its shifted guess determinant does not
    # exist there) and with a diagonal one-body Hamiltonian (exact guesses): a result or ConvergenceError, nothing else
    for k_, (norb, na, nb) in enumerate([(3, 3, 1), (3, 1, 3), (4, 4, 2), (4, 2, 2)]):
        if quick and ctx.path != "C" and k_ > 0:
            continue
        h1 = nr.randn(norb, norb)
        h1 = (h1 + h1.T) / 2 + numpy.diag(numpy.arange(norb, dtype=float))
        if (norb, na, nb) == (4, 2, 2):
            h1 = numpy.diag(numpy.arange(norb, dtype=float) + 0.25)
        fqe_case(ctx, 5000 + k_, norb, na, nb, h1, numpy.zeros((norb,) * 4), "davidson_diagonalization", 1, None, False, False)


# repeat solves spent on classifying skipped roots, per run (a tree that skips roots systematically must not turn the
# check into a soak: when the budget is used up the remaining cases are reported as they are)
REPEATS = {"left": 80}


def cluster_unresolved(exact, got, nroots, res, nerr):
    """True when the only defect of a returned set is that a Ritz value sits strictly inside a cluster of
    near-degenerate exact eigenvalues (spread < 1e-3) instead of on its lowest member: normalised vectors, small
    residuals, every value within the cluster of its target."""
    if nerr > 1e-6 or res > 1e-3:
        return False
    g = numpy.sort(numpy.real(numpy.asarray(got)[:nroots]))
    any_cluster = False
    for i in range(nroots):
        members = exact[numpy.abs(exact - exact[i]) < 1e-3]
        if abs(g[i] - exact[i]) <= 1e-6:
            continue
        if len(members) < 2 or not (members.min() - 1e-6 <= g[i] <= members.max() + 1e-6):
            return False
        any_cluster = True
    return any_cluster


def skipped_lower_root(exact, got, nroots, res, nerr):
    """True when the returned set consists of accurate eigenpairs of H (normalised vectors, small residuals, every value
    on an exact eigenvalue or inside a cluster of near-degenerate ones) but is not the set of the lowest ones: the
    iteration stalled on a plateau (a higher eigenvalue, or the inside of a cluster) when the stopping test fired."""
    if nerr > 1e-6 or res > 1e-3:
        return False
    g = numpy.sort(numpy.real(numpy.asarray(got)[:nroots]))
    skipped = False
    for i in range(nroots):
        if abs(g[i] - exact[i]) <= 1e-6:
            continue
        near = numpy.abs(exact - g[i])
        members = exact[numpy.abs(exact - exact[min(int(near.argmin()), len(exact) - 1)]) < 1e-3]
        if near.min() > 1e-6 and not (len(members) >= 2 and members.min() - 1e-6 <= g[i] <= members.max() + 1e-6):
            return False
        if g[i] < exact[i] - 1e-6:
            return False
        skipped = True
    return skipped


def enc(a):
    a = numpy.asarray(a, dtype=numpy.complex128)
    return {"shape": list(a.shape), "re": a.real.ravel().tolist(), "im": a.imag.ravel().tolist()}


def dec(o):
    return (numpy.array(o["re"]) + 1j * numpy.array(o["im"])).reshape(o["shape"])


def fqe_case(ctx, case, norb, na, nb, h1, h2, api, nroots, guess_data, cplx_h, cplx_g):
    fqe, d = ctx.fqe, ctx.driver
    from fqe.algorithm import davidson
    key = (na + nb, na - nb)
    if not (numpy.iscomplexobj(h1) and numpy.abs(numpy.imag(h1)).max() > 0) and not cplx_h:
        h1, h2 = numpy.real(h1), numpy.real(h2)
    # every third case carries a large scalar part (eigenvalues of order 1e4: the threshold is an absolute accuracy)
    e0_off = [0.0, 0.0, -7500.0][case % 3]
    ham = fqe.get_restricted_hamiltonian((h1, h2), e_0=e0_off)
    terms = U.restricted_terms([h1, h2], norb)
    w0 = fqe.Wavefunction([[na + nb, na - nb, norb]])
    dets = U.wfn_dets(w0)
    if len(dets) < 4:
        return
    Hm = hmatrix(d, norb, dets, terms, e0_off)
    exact = numpy.linalg.eigvalsh(Hm)
    desc = {"norb": norb, "nalpha": na, "nbeta": nb, "dim": len(dets), "case": case, "api": api, "nroots": nroots,
            "complex_hamiltonian": bool(cplx_h), "complex_guess_vectors": bool(cplx_g), "kind": "fqe",
            "h1": enc(h1), "h2": enc(h2), "guesses": [enc(g) for g in guess_data] if guess_data is not None else None}
    def solve(gdata, npseed):
        # the module-level entry point draws one of its guess vectors from numpy's global generator: seed it, so that
        # the case replays, and so that it can be repeated with other guesses
        numpy.random.seed(npseed)
        if api == "davidson_diagonalization":
            return davidson.davidson_diagonalization(ham, na, nb, nroots=nroots)
        guesses = []
        for c in gdata:
            g = fqe.Wavefunction([[na + nb, na - nb, norb]])
            g.set_wfn(strategy="from_data", raw_data={key: numpy.array(c, dtype=numpy.complex128)})
            g.normalize()
            guesses.append(g)
        return davidson.davidsonliu_fqe(ham, nroots, guesses, na + nb, na - nb, norb)

    npseed0 = (1000003 * (case + 1)) % (2 ** 31)
    desc["numpy_seed"] = npseed0
    try:
        ew, ev = solve(guess_data, npseed0)
        oc = "returned"
    except davidson.ConvergenceError:
        oc = "ConvergenceError"
    except Exception as exc:
        oc = f"{type(exc).__name__}: {exc}"
    ctx.case(("fqe", case), sample={k: v for k, v in desc.items() if k not in ("h1", "h2", "guesses")} if case < 3 else None)
    ctx.count(f"fqe:{api}:{oc.split(':')[0]}")
    ctx.count(f"fqe:complexH={int(cplx_h)}:complexGuess={int(cplx_g)}:nroots={nroots}")
    if oc == "ConvergenceError":
        return
    if oc != "returned":
        ctx.disagree(f"davidson:fqe-raises:{oc.split(':')[0]}", f"{api} raised {oc}", desc)
        return
    err = float(numpy.abs(numpy.sort(numpy.real(numpy.asarray(ew)[:nroots])) - exact[:nroots]).max())
    res, nerr = 0.0, 0.0
    for i in range(nroots):
        vec = vec_of(ev[i], dets)
        res = max(res, float(numpy.linalg.norm(Hm @ vec - ew[i] * vec)))
        nerr = max(nerr, abs(float(numpy.linalg.norm(vec)) - 1))
    if err > 1e-6 or res > 1e-3 or nerr > 1e-6:
        sig = "davidson:fqe" + (":complex-guess" if cplx_g else "") + (":complex-hamiltonian" if cplx_h else "")
        if cluster_unresolved(exact, ew, nroots, res, nerr):
            sig = "davidson:near-degenerate-cluster-not-resolved"
        elif skipped_lower_root(exact, ew, nroots, res, nerr):
            # accurate eigenpairs, but a lower eigenvalue was skipped.  Sporadic (the stopping test fired on a plateau
            # for these guess vectors: the recorded finding) or systematic (no guess reaches the skipped state)?  Repeat
            # the same problem with other guess vectors.
            reached = 0
            for rep_ in range(1, 41):
                if reached or REPEATS["left"] <= 0:
                    break           # one guess set that reaches the skipped root settles it (1 in 5 do, measured)
                REPEATS["left"] -= 1
                gr = numpy.random.RandomState((npseed0 + 7919 * rep_) % (2 ** 31))
                gd = None
                if guess_data is not None:
                    gd = [(gr.randn(*numpy.shape(c)) + (1j * gr.randn(*numpy.shape(c)) if cplx_g else 0)).astype(numpy.complex128)
                          for c in guess_data]
                try:
                    ew2, _ = solve(gd, (npseed0 + 7919 * rep_) % (2 ** 31))
                    if float(numpy.abs(numpy.sort(numpy.real(numpy.asarray(ew2)[:nroots])) - exact[:nroots]).max()) <= 1e-6:
                        reached += 1
                except Exception:
                    pass
            ctx.count(f"skipped-root:repeats-that-reach-it={reached}")
            sig = "davidson:near-degenerate-cluster-not-resolved" if reached > 0 else "davidson:fqe:root-skipped-for-every-guess"
        ctx.disagree(sig, f"eigenvalue error {err:.2e}, residual {res:.2e}, normalisation error {nerr:.2e} "
                     f"(lowest exact {exact[:nroots + 2]}, got {numpy.asarray(ew)[:nroots]})", desc)


def replay(ctx, rep):
    r = rep.get("violation", rep).get("replay", rep) if isinstance(rep, dict) else rep
    if r.get("kind") == "fqe" and r.get("h1"):
        fqe_case(ctx, r["case"], r["norb"], r["nalpha"], r["nbeta"], dec(r["h1"]), dec(r["h2"]), r["api"], r["nroots"],
                 [dec(g) for g in r["guesses"]] if r.get("guesses") else None, r["complex_hamiltonian"], r["complex_guess_vectors"])
    else:
        run(ctx)
