"""C18 — Davidson-Liu returns the lowest eigenpairs or raises.

 * davidsonliu(matrix): real symmetric and complex Hermitian matrices with generic, degenerate and near-degenerate
   spectra (oracle numpy.linalg.eigh): returned eigenvalues vs the lowest ones (tolerance ~ sqrt-free: 1e-6 for
   epsilon=1e-8), normalised vectors, residual ||Hv - lambda v|| <= 1e-3, or ConvergenceError/ValueError;
 * davidsonliu_fqe / davidson_diagonalization on FQE restricted Hamiltonians: exact sector matrix from the Lean Spec
   driver, lowest eigenvalues from eigh of that matrix;
 * the routines must run at all on the installed numpy."""
import numpy

import fqe_util as U
from props.C02 import hmatrix, vec_of


def run(ctx):
    fqe = ctx.fqe
    import props.C01 as C01
    from fqe.algorithm import davidson
    d, rng = ctx.driver, ctx.rng
    quick = ctx.tier == "quick"
    nr = numpy.random.RandomState(ctx.seed * 7 + 1)
    # ---- plain matrices -------------------------------------------------------------------------
    for case in range(30 if quick else 300):
        dim = rng.choice([6, 8, 12, 20])
        kind = rng.choice(["generic", "diag-dominant", "degenerate", "complex"])
        A = nr.randn(dim, dim)
        if kind == "complex":
            A = A + 1j * nr.randn(dim, dim)
        H = (A + A.conj().T) / 2
        if kind == "diag-dominant":
            H = H * 0.1 + numpy.diag(numpy.arange(dim, dtype=float))
        if kind == "degenerate":
            Q, _ = numpy.linalg.qr(nr.randn(dim, dim))
            ev = numpy.sort(nr.randint(-3, 4, dim).astype(float))
            H = Q @ numpy.diag(ev) @ Q.T
        nroots = rng.choice([1, 2]) if dim >= 6 else 1
        exact = numpy.linalg.eigvalsh(H)
        desc = {"kind": kind, "dim": dim, "nroots": nroots, "case": case, "seed": ctx.seed}
        try:
            w, v = davidson.davidsonliu(H, nroots, epsilon=1e-8)
            oc = "returned"
        except davidson.ConvergenceError:
            oc = "ConvergenceError"
        except Exception as exc:
            oc = f"{type(exc).__name__}: {exc}"
        ctx.case(("matrix", case), sample=desc if case < 3 else None)
        ctx.count(f"matrix:{kind}:{oc.split(':')[0]}")
        if oc == "ConvergenceError":
            continue
        if oc != "returned":
            sig = f"davidson:matrix-raises:{oc.split(':')[0]}"
            ctx.disagree(sig, f"davidsonliu raised {oc}", desc)
            continue
        w = numpy.asarray(w).real
        err = float(numpy.abs(numpy.sort(w) - exact[:nroots]).max())
        res = 0.0
        for i in range(nroots):
            vec = numpy.asarray(v[i]).reshape(-1)
            res = max(res, float(numpy.linalg.norm(H @ vec - w[i] * vec)), abs(float(numpy.linalg.norm(vec)) - 1.0))
        if err > 1e-6 or res > 1e-3:
            sig = f"davidson:matrix:{kind}"
            ctx.disagree(sig, f"eigenvalue error {err:.2e}, residual/normalisation {res:.2e} (lowest exact {exact[:nroots]}, got {w})", desc)
    # ---- FQE Hamiltonians -------------------------------------------------------------------------
    for case in range(6 if quick else 60):
        norb = rng.choice([2, 3])
        na = rng.randint(1, norb - 1) if norb > 2 else 1
        nb = rng.randint(1, norb - 1) if norb > 2 else 1
        h1 = nr.randn(norb, norb)
        h1 = (h1 + h1.T) / 2
        h2 = numpy.zeros((norb,) * 4)
        for _ in range(3):
            i, j, k, l = (rng.randrange(norb) for _ in range(4))
            z = float(rng.choice([-0.5, 0.25, 0.5]))
            h2[i, j, k, l] += z
            h2[l, k, j, i] += z
        ham = fqe.get_restricted_hamiltonian((h1, h2))
        terms = U.restricted_terms([h1, h2], norb)
        w0 = fqe.Wavefunction([[na + nb, na - nb, norb]])
        dets = U.wfn_dets(w0)
        if len(dets) < 4:
            continue
        Hm = hmatrix(d, norb, dets, terms, 0.0)
        exact = numpy.linalg.eigvalsh(Hm)
        desc = {"norb": norb, "nalpha": na, "nbeta": nb, "dim": len(dets), "case": case}
        try:
            ew, ev = davidson.davidson_diagonalization(ham, na, nb, nroots=1)
            oc = "returned"
        except davidson.ConvergenceError:
            oc = "ConvergenceError"
        except Exception as exc:
            oc = f"{type(exc).__name__}: {exc}"
        ctx.case(("fqe", case))
        ctx.count(f"fqe:{oc.split(':')[0]}")
        if oc == "ConvergenceError":
            continue
        if oc != "returned":
            ctx.disagree(f"davidson:fqe-raises:{oc.split(':')[0]}", f"davidson_diagonalization raised {oc}", desc)
            continue
        err = abs(float(numpy.real(ew[0])) - exact[0])
        vec = vec_of(ev[0], dets)
        res = float(numpy.linalg.norm(Hm @ vec - ew[0] * vec))
        if err > 1e-6 or res > 1e-3 or abs(numpy.linalg.norm(vec) - 1) > 1e-6:
            ctx.disagree("davidson:fqe", f"lowest eigenvalue error {err:.2e}, residual {res:.2e}", desc)


def replay(ctx, rep):
    run(ctx)
