"""C12 — orbital rotation of a wavefunction = exact orbital-unitary transformation.

`perm, L, U, psi' = psi.transform(R)` is compared with the Spec: psi' = Gamma((R P)^dagger) psi where Gamma(M) is the
many-body image of the one-body matrix computed by minors in the Lean driver (Spec/Rotate.lean, exact on the
dyadic-rational values of the matrix entries), tolerance 1e-9.  Also: L U = (R P)^dagger, norm preserved for unitary R,
transforming back with the adjoint and the reported factors restores the input; families forcing pivoting,
near-singular leading blocks, permutation / phase matrices, restricted, spin-block-diagonal and spin-mixing."""
import copy

import numpy

import fqe_util as U
from lean_driver import fmt_vec, fmt_rat, parse_vec


def rand_unitary(nr, n, kind):
    if kind == "generic":
        A = nr.randn(n, n) + 1j * nr.randn(n, n)
        Q, R = numpy.linalg.qr(A)
        return Q * (numpy.diag(R) / numpy.abs(numpy.diag(R)))
    if kind == "real":
        Q, R = numpy.linalg.qr(nr.randn(n, n))
        return Q.astype(numpy.complex128)
    if kind == "permutation":
        P = numpy.eye(n)[nr.permutation(n)]
        ph = numpy.exp(1j * nr.uniform(0, 2 * numpy.pi, n))
        return (P * ph).astype(numpy.complex128)
    if kind == "reflection":      # real diagonal of +-1 (at least one -1)
        sg = nr.choice([-1.0, 1.0], n)
        sg[nr.randint(n)] = -1.0
        return numpy.diag(sg).astype(numpy.complex128)
    if kind == "signed-permutation":
        P = numpy.eye(n)[nr.permutation(n)]
        return (P * nr.choice([-1.0, 1.0], n)).astype(numpy.complex128)
    if kind == "pivot":          # vanishing leading minor: forces row exchange
        Q = rand_unitary(nr, n, "generic")
        Pm = numpy.eye(n)
        Pm[[0, n - 1]] = Pm[[n - 1, 0]]
        Q2 = Q.copy()
        # rotate so that entry (0,0) is tiny
        th = numpy.arctan2(abs(Q2[0, 0]), abs(Q2[0, 1])) if n > 1 else 0
        return Pm @ Q2
    if kind == "near-permutation":
        # a non-trivial permutation (with phases) times a rotation by 1e-5 ... 1e-10: the leading minors are tiny but
        # not zero, so an elimination that skips the row exchanges works with factors of 1e5 ... 1e10
        from scipy.linalg import expm
        P = numpy.eye(n)[numpy.roll(numpy.arange(n), 1 + nr.randint(max(n - 1, 1)))] if n > 1 else numpy.eye(1)
        ph = numpy.exp(1j * nr.uniform(0, 2 * numpy.pi, n))
        A = nr.randn(n, n) + 1j * nr.randn(n, n)
        K = (A - A.conj().T) * 10.0 ** (-nr.randint(5, 11))
        return ((P * ph) @ expm(K)).astype(numpy.complex128)
    if kind == "near-identity":
        A = nr.randn(n, n) * 1e-3
        K = A - A.T
        from scipy.linalg import expm
        return expm(K).astype(numpy.complex128)
    raise ValueError(kind)


def mode_matrix(Mblk, norb):
    """FQE block indexing (alpha block, beta block) -> OpenFermion mode indexing"""
    n = 2 * norb
    out = numpy.zeros((n, n), dtype=numpy.complex128)
    blk = lambda m: m // 2 + norb * (m % 2)
    for m in range(n):
        for m2 in range(n):
            out[m, m2] = Mblk[blk(m), blk(m2)]
    return out


def spec_gamma(d, norb, entries, Mmodes):
    flat = " ".join(fmt_rat(float(z.real)) + " " + fmt_rat(float(z.imag)) for z in Mmodes.ravel())
    return parse_vec(d.ask(f"gamma {norb} {fmt_vec(entries)} {flat}"))


def compound_expect(norb, entries, Ma, Mb, dets):
    """Gamma(Ma (+) Mb) psi on one (n_alpha, n_beta) sector by minors, in FQE's determinant convention:
    C'[a', b'] = sum_{a,b} det(Ma[a', a]) det(Mb[b', b]) C[a, b]  (rows/columns = occupied orbitals, ascending).
    The interleaving and reversal signs of the embedding cancel inside one sector (Props/C07 C07_sector_sign);
    the formula is validated against the Lean Spec (`gamma`) on every small case before it is used on sectors too
    large for the exact driver."""
    occ = lambda s: [i for i in range(norb) if s >> i & 1]
    out = {}
    cache_a, cache_b = {}, {}
    for (a2, b2) in dets:
        tot = 0
        for a, b, c in entries:
            ka, kb = (a2, a), (b2, b)
            if ka not in cache_a:
                cache_a[ka] = numpy.linalg.det(Ma[numpy.ix_(occ(a2), occ(a))]) if occ(a) else 1.0
            if kb not in cache_b:
                cache_b[kb] = numpy.linalg.det(Mb[numpy.ix_(occ(b2), occ(b))]) if occ(b) else 1.0
            tot += cache_a[ka] * cache_b[kb] * c
        out[(a2, b2)] = tot
    return out


def run(ctx):
    fqe = ctx.fqe
    import props.C01 as C01
    d, rng = ctx.driver, ctx.rng
    quick = ctx.tier == "quick"
    nr = numpy.random.RandomState(ctx.seed * 13 + 5)
    ncases = 40 if quick else 1600
    for case in range(ncases):
        norb = rng.choice([1, 2, 2, 3]) if quick else rng.choice([1, 2, 3, 3])
        form = rng.choice(["restricted", "restricted", "blockdiag", "spinmix"])
        kind = rng.choice(["generic", "real", "permutation", "pivot", "near-identity", "reflection", "signed-permutation",
                           "near-permutation", "near-permutation"])
        if form == "spinmix":
            wk = "spinbroken"
            R = rand_unitary(nr, 2 * norb, kind)
        elif form == "blockdiag":
            wk = rng.choice(["single", "multi"])
            R = numpy.zeros((2 * norb, 2 * norb), dtype=numpy.complex128)
            R[:norb, :norb] = rand_unitary(nr, norb, kind)
            R[norb:, norb:] = rand_unitary(nr, norb, kind)
        else:
            wk = rng.choice(["single", "multi"])
            R = rand_unitary(nr, norb, kind)
        w = C01.make_wfn(ctx, wk, norb, rng)
        w.normalize()
        entries = U.wfn_entries(w)
        psi0 = U.wfn_dict(w)
        desc = {"form": form, "kind": kind, "norb": norb, "wfn": wk, "sectors": sorted(w.sectors()), "case": case}
        work = copy.deepcopy(w)
        try:
            perm, low, upp, out = work.transform(R.copy())
        except Exception as exc:
            ctx.case(None)
            ctx.disagree(f"transform-raises:{form}:{type(exc).__name__}", f"transform raised {exc}", desc)
            continue
        RP = R @ perm
        Mblk = RP.conj().T
        if form == "restricted":
            full = numpy.zeros((2 * norb, 2 * norb), dtype=numpy.complex128)
            full[:norb, :norb] = Mblk
            full[norb:, norb:] = Mblk
            Mblk_full = full
        else:
            Mblk_full = Mblk
        want = spec_gamma(d, norb, entries, mode_matrix(Mblk_full, norb))
        bad = U.compare_wfn(out, want, tol=1e-9)
        ctx.case(("transform", case), sample=desc if case < 4 else None)
        ctx.count(f"form:{form}")
        ctx.count(f"kind:{kind}")
        if bad:
            ctx.disagree(f"transform:{form}", f"transform differs from Gamma((R P)^dagger) psi on {len(bad)} determinants, e.g. {bad[0]}", desc)
            continue
        if wk == "single" and form in ("restricted", "blockdiag"):
            # validate the numpy compound-matrix formula (used below for large sectors) against the exact Spec
            Ma, Mb = (Mblk, Mblk) if form == "restricted" else (Mblk[:norb, :norb], Mblk[norb:, norb:])
            ce = compound_expect(norb, entries, Ma, Mb, U.wfn_dets(w))
            worst = max(abs(ce[k] - complex(float(want.get(k, (0, 0))[0]), float(want.get(k, (0, 0))[1]))) for k in ce)
            ctx.count("compound-formula-validated")
            if worst > 1e-9:
                ctx.disagree("harness:compound-formula", f"numpy compound formula differs from the Lean Spec by {worst:.2e}", desc)
        if not numpy.allclose(low @ upp, Mblk, atol=1e-10):
            ctx.disagree(f"transform:factors:{form}", "reported L U != (R P)^dagger", desc)
        if abs(out.norm() - 1) > 1e-9:
            ctx.disagree(f"transform:norm:{form}", f"norm {out.norm()}", desc)
        # back transformation with the adjoint and the reported factors
        try:
            _, _, _, back = copy.deepcopy(out).transform(RP.conj().T, low, upp)
            diff = max(abs(U.wfn_dict(back)[k] - psi0[k]) for k in psi0)
            ctx.case(("back", case))
            if diff > 1e-8:
                ctx.disagree(f"transform:back:{form}", f"adjoint transform with the reported factors does not restore the input ({diff:.2e})", desc)
        except Exception as exc:
            ctx.disagree(f"transform-back-raises:{form}:{type(exc).__name__}", str(exc), desc)


    # ---- sectors wider than the internal column batch (ZAXPY_STRIDE = 450): lenb = 462 ---------------------
    for case in range(2 if quick else 8):
        norb, na, nb = rng.choice([(11, 1, 5), (11, 5, 1), (11, 0, 5), (11, 6, 1)])
        w = fqe.Wavefunction([[na + nb, na - nb, norb]])
        dets = U.wfn_dets(w)
        data = numpy.zeros(w.get_coeff((na + nb, na - nb)).shape, dtype=numpy.complex128)
        chosen = rng.sample(range(len(dets)), 3)
        idx = {dd: k for k, dd in enumerate(dets)}
        sec = w.sector((na + nb, na - nb))
        astr = [int(x) for x in sec._core.string_alpha_all()]
        bstr = [int(x) for x in sec._core.string_beta_all()]
        for k in chosen:
            a, b = dets[k]
            data[astr.index(a), bstr.index(b)] = complex(rng.randint(1, 3), rng.randint(-2, 2))
        w.set_wfn(strategy="from_data", raw_data={(na + nb, na - nb): data})
        w.normalize()
        entries = U.wfn_entries(w)
        R = rand_unitary(nr, norb, rng.choice(["generic", "real", "pivot"]))
        desc = {"form": "restricted-wide", "norb": norb, "nalpha": na, "nbeta": nb, "case": case}
        try:
            perm, low, upp, out = copy.deepcopy(w).transform(R.copy())
        except Exception as exc:
            ctx.disagree(f"transform-raises:wide:{type(exc).__name__}", str(exc)[:200], desc)
            continue
        M = (R @ perm).conj().T
        exp = compound_expect(norb, entries, M, M, dets)
        got = U.wfn_dict(out)
        worst = max(abs(got[k] - exp[k]) for k in got)
        ctx.case(("transform-wide", case))
        ctx.count("form:restricted-wide")
        if worst > 1e-8:
            ctx.disagree("transform:wide-sector", f"transform on a {len(astr)} x {len(bstr)} sector differs from Gamma((R P)^dagger) psi by {worst:.2e}", desc)

    # ---- rotations a spin-conserving wavefunction cannot carry: spin-mixing blocks (also 1 x 1 blocks and constant
    #      blocks), a matrix whose size is neither norb nor 2 norb — refused, never answered with an unrotated or
    #      non-normalised state --------------------------------------------------------------------------------------
    import copy as _copy
    for case in range(8 if quick else 40):
        norb = rng.choice([1, 1, 2, 3])
        n_ = rng.randint(1, 2 * norb - 1) if norb > 1 else 1
        szs = [s_ for s_ in range(-n_, n_ + 1, 2) if (n_ + s_) // 2 <= norb and (n_ - s_) // 2 <= norb]
        w = fqe.Wavefunction([[n_, rng.choice(szs), norb]])
        U.random_fill(w, rng, zero_p=0.0)
        w.normalize()
        th = rng.choice([0.3, 0.7, 1.2])
        mix = numpy.zeros((2 * norb, 2 * norb), dtype=numpy.complex128)
        mix[:norb, :norb] = numpy.cos(th) * numpy.eye(norb)
        mix[norb:, norb:] = numpy.cos(th) * numpy.eye(norb)
        blk = numpy.eye(norb) if case % 2 == 0 else numpy.ones((norb, norb)) / norb
        mix[:norb, norb:] = numpy.sin(th) * blk
        mix[norb:, :norb] = -numpy.sin(th) * blk.T
        for label, rot in (("spin-mixing", mix), ("wrong-size", numpy.eye(2 * norb + 1, dtype=numpy.complex128))):
            before = U.wfn_dict(w)
            ww = _copy.deepcopy(w)
            try:
                res = ww.transform(rot)
                refused = False
            except Exception:
                refused = True
            ctx.case(("transform-refusal", case, label))
            ctx.count(f"refusal:{label}:{'refused' if refused else 'answered'}")
            if not refused:
                ctx.disagree(f"transform:{label}-rotation-answered", f"transform accepted a {label} rotation of size {rot.shape[0]} "
                             f"for norb = {norb} (norm of the returned state {res[3].norm():.6f})", {"norb": norb, "case": case, "kind": label})
            if U.wfn_dict(w) != before:
                ctx.disagree("transform:operand-changed", "the source wavefunction changed", {"norb": norb, "case": case})


def replay(ctx, rep):
    run(ctx)
