"""C01 — apply(H) = exact operator action (Spec through ι), one sign convention, scalar once.

Implementation (both code paths) vs Lean driver `apply` (Spec/Fock.lean + Spec/Embed.lean, exact
Gaussian rationals).  Inputs are Gaussian integers, so the comparison is exact."""
import itertools

import numpy

import fqe_util as U


def herm(T):
    r = T.ndim // 2
    perm = list(range(r, 2 * r))[::-1] + list(range(r))[::-1]
    return T + numpy.conj(T.transpose(perm))


def rand_tensor(rng, dim, rank, density, cplx, hermitian=True):
    T = numpy.zeros((dim,) * (2 * rank), dtype=numpy.complex128)
    n = T.size
    k = max(1, int(density * n))
    for _ in range(k):
        idx = tuple(rng.randrange(dim) for _ in range(2 * rank))
        T[idx] = U.gint(rng, zero_p=0.0, complex_p=0.6 if cplx else 0.0) or 1
    if hermitian:
        T = herm(T)
    if not cplx:
        T = T.real.astype(numpy.float64)
    return T


def make_wfn(ctx, kind, norb, rng):
    fqe = ctx.fqe
    if kind == "single":
        n = rng.randint(0, 2 * norb)
        szs = [s for s in range(-n, n + 1, 2) if (n + s) // 2 <= norb and (n - s) // 2 <= norb]
        sz = rng.choice(szs)
        w = fqe.Wavefunction([[n, sz, norb]])
    elif kind == "multi":
        params = set()
        for _ in range(rng.randint(2, 3)):
            n = rng.randint(0, 2 * norb)
            szs = [s for s in range(-n, n + 1, 2) if (n + s) // 2 <= norb and (n - s) // 2 <= norb]
            params.add((n, rng.choice(szs)))
        w = fqe.Wavefunction([[n, s, norb] for n, s in sorted(params)])
    elif kind == "spinbroken":
        n = rng.randint(1, 2 * norb - 1) if norb > 0 else 0
        w = fqe.get_number_conserving_wavefunction(n, norb)
    elif kind == "numberbroken":
        sz = rng.randint(-norb + 1, norb - 1) if norb > 1 else 0
        w = fqe.get_spin_conserving_wavefunction(sz, norb)
    else:
        raise ValueError(kind)
    U.random_fill(w, rng)
    return w


def symmetrize8(T):
    """impose the 8-fold real-orbital symmetry in FQE's index convention h[i,j,k,l] a†i a†j ak al"""
    # chemist (ik|jl): symmetric under i<->k, j<->l, (ik)<->(jl)
    out = numpy.zeros_like(T)
    perms = [(0, 1, 2, 3), (2, 1, 0, 3), (0, 3, 2, 1), (2, 3, 0, 1),
             (1, 0, 3, 2), (3, 0, 1, 2), (1, 2, 3, 0), (3, 2, 1, 0)]
    for p in perms:
        out = out + T.transpose(p)
    return out


def enc_arr(a):
    a = numpy.asarray(a)
    return {"shape": list(a.shape), "dtype": str(a.dtype),
            "nz": [[list(map(int, idx)), [float(numpy.real(a[idx])), float(numpy.imag(a[idx]))]]
                   for idx in zip(*numpy.nonzero(a))]}


def dec_arr(d):
    a = numpy.zeros(tuple(d["shape"]), dtype=numpy.dtype(d["dtype"]))
    for idx, (re, im) in d["nz"]:
        a[tuple(idx)] = complex(re, im) if numpy.iscomplexobj(a) else re
    return a


def enc_c(z):
    z = complex(z)
    return [z.real, z.imag]


def gen_case(ctx, case, rng, lowfilling=False, sym4=False):
    """returns a JSON-serialisable description of one case (inputs only)"""
    from openfermion import FermionOperator
    quick = ctx.tier == "quick"
    kinds = ["restricted", "gso", "sso", "general", "diagonal", "diagcoulomb", "sparse", "fermionop",
             "restricted34", "spinorb34"]
    hk = kinds[case % len(kinds)]
    norb = rng.choice([1, 2, 2, 3] if quick else [1, 2, 2, 3, 3, 4])
    if hk in ("restricted34", "spinorb34"):
        norb = min(norb, 2 if quick else 3)
    wk = rng.choice(["single", "single", "multi", "spinbroken"])
    if lowfilling:
        # at most one electron per spin in four orbitals: the reference path switches to its low-filling kernels
        hk = ["restricted", "gso", "sso", "general"][case % 4]
        norb, wk = 4, "lowfilling"
    if hk in ("restricted", "restricted34", "diagonal", "diagcoulomb") and not lowfilling:
        # spatial Hamiltonians are refused for spin-broken wavefunctions (dimension guard)
        wk = rng.choice(["single", "single", "multi"])
    cplx = rng.random() < 0.5
    if sym4:
        hk, cplx = "restricted", False
        norb = rng.choice([2, 3, 3]) if quick else rng.choice([2, 3, 3, 4])
        wk = rng.choice(["single", "single", "multi"])
    e0 = rng.choice([0, 0, 2, complex(-1, 3)])
    if wk == "lowfilling":
        n_, sz_ = rng.choice([(2, 0), (2, 0), (2, 0), (1, 1), (1, -1)])
        w = ctx.fqe.Wavefunction([[n_, sz_, norb]])
        U.random_fill(w, rng, zero_p=0.0)
        wk = "single"
    else:
        w = make_wfn(ctx, wk, norb, rng)
    spec = {"ham": hk, "wfn": wk, "norb": norb, "complex": cplx, "e0": enc_c(e0), "case": case,
            "params": [[n, s, norb] for n, s in sorted(w.sectors())],
            "broken": None if wk != "spinbroken" else "spin",
            "entries": [[a, b, enc_c(c)] for a, b, c in U.wfn_entries(w)]}
    if hk == "restricted":
        rank = rng.choice([1, 2, 2]) if not lowfilling else 2
        if sym4:
            rank = 2
        tens = [rand_tensor(rng, norb, r, rng.choice([0.05, 0.3, 1.0]), cplx) for r in range(1, rank + 1)]
        usym = rng.random() if rank == 2 else 1.0
        if sym4:
            usym = 0.6
        if rank == 2 and usym < 0.5 and not lowfilling:
            tens[1] = symmetrize8(tens[1])
            tens[0] = tens[0] + tens[0].T
            spec["sym8"] = True
        elif rank == 2 and usym < 0.8 and not lowfilling and not cplx:
            # real, Hermitian and symmetric under the exchange of the two electrons, but NOT under i <-> j alone (what
            # the square of a real antisymmetric one-body generator looks like): the compressed index-pair algorithms
            # for real-orbital (8-fold symmetric) integrals do not apply to it
            tens[1] = tens[1] + tens[1].transpose(1, 0, 3, 2)
            tens[0] = tens[0] + tens[0].T
            spec["sym4"] = True
        if not cplx and rng.random() < 0.3:
            tens = [t.astype(numpy.complex128) for t in tens]
            spec["complex_dtype_zero_imag"] = True
    elif hk == "restricted34":
        rank = rng.choice([3, 4] if norb <= 2 else [3])
        tens = [rand_tensor(rng, norb, r, 0.02 if r > 2 else 0.2, cplx) for r in range(1, rank + 1)]
    elif hk in ("gso", "general", "sso", "spinorb34"):
        if hk == "spinorb34":
            rank = rng.choice([3, 4] if norb <= 2 else [3])
        else:
            rank = rng.choice([1, 2, 2])
        # Sz-changing terms only where the wavefunction can represent their action consistently
        ns = [n for n, _ in w.sectors()]
        allow_flip = hk != "sso" and (wk == "spinbroken" or len(set(ns)) == len(ns))
        opterms = []
        for r in range(1, rank + 1):
            nt = rng.choice([1, 2, 4]) if r <= 2 else rng.choice([1, 2])
            opterms += random_spinorb_terms(rng, norb, r, nt, cplx, allow_flip)
        spec["opterms"] = [[enc_c(c), [list(f) for f in t]] for c, t in opterms]
        tens = canonical_tensors(opterms, norb, rank)
    elif hk == "diagonal":
        size = rng.choice([norb, 2 * norb])
        tens = [numpy.array([U.gint(rng, complex_p=0.5 if cplx else 0.0) for _ in range(size)],
                            dtype=numpy.complex128)]
        if not cplx:
            tens = [tens[0].real.astype(numpy.float64)]
    elif hk == "diagcoulomb":
        v = numpy.array([[U.gint(rng, complex_p=0.0).real if True else 0 for _ in range(norb)]
                         for _ in range(norb)], dtype=numpy.float64)
        if rng.random() < 0.6:
            v = v + v.T
            spec["vsym"] = True
        tens = [v]
    else:
        op = random_fermionop(rng, norb, FermionOperator, conserve_spin=(wk != "spinbroken"),
                              cplx=cplx, nterms=rng.choice([1, 1, 2, 3, 5]))
        # an explicit identity term in the expression, on top of the e_0 keyword of the constructor (both are
        # scalar parts of the same operator and each must be counted once)
        if len(op.terms) and rng.random() < 0.4:
            ident = complex(U.gint(rng, zero_p=0) or 1) / 2
            if hk == "fermionop":
                ident = float(ident.real) or 0.5          # this entry point accepts Hermitian operators only
            op += FermionOperator((), ident)
            spec["identity_term"] = True
        spec["op"] = [[[list(f) for f in t], enc_c(c)] for t, c in op.terms.items()]
        from openfermion import normal_ordered as _no
        # what counts for the route and for the findings is the operator, not its spelling: terms that cancel
        # under normal ordering leave fewer (possibly no) operator strings
        spec["raw_terms"] = len(op.terms)
        spec["nterms"] = len([t for t, c in _no(op).terms.items() if t and abs(c) > 1e-12])
        tens = []
        if hk == "fermionop":
            spec["e0"] = [0.0, 0.0]
    spec["tensors"] = [enc_arr(numpy.ascontiguousarray(t)) for t in tens]
    return spec


EXPECTED_REFUSALS = set()


def execute(ctx, spec):
    """construct the Hamiltonian and the wavefunction from spec, apply, compare with Spec"""
    fqe = ctx.fqe
    from openfermion import FermionOperator
    d = ctx.driver
    hk, wk, norb = spec["ham"], spec["wfn"], spec["norb"]
    e0 = complex(*spec["e0"])
    tens = [numpy.ascontiguousarray(dec_arr(t)) for t in spec["tensors"]]
    if spec.get("broken") == "spin":
        w = fqe.Wavefunction(spec["params"], broken=["spin"])
    else:
        w = fqe.Wavefunction(spec["params"])
    data = {}
    for key in w.sectors():
        sec = w.sector(key)
        data[key] = numpy.zeros(sec.coeff.shape, dtype=numpy.complex128)
    index = {}
    for key in w.sectors():
        sec = w.sector(key)
        for i, a in enumerate(sec._core.string_alpha_all()):
            for j, b in enumerate(sec._core.string_beta_all()):
                index[(int(a), int(b))] = (key, i, j)
    for a, b, c in spec["entries"]:
        key, i, j = index[(a, b)]
        data[key][i, j] = complex(*c)
    w.set_wfn(strategy="from_data", raw_data=data)
    entries = [(a, b, complex(*c)) for a, b, c in spec["entries"]]
    try:
        if hk in ("restricted", "restricted34"):
            ham = fqe.get_restricted_hamiltonian(tuple(tens), e_0=e0)
            terms = U.restricted_terms(tens, norb)
        elif hk in ("gso", "spinorb34", "general", "sso"):
            mk = {"gso": fqe.get_gso_hamiltonian, "spinorb34": fqe.get_gso_hamiltonian,
                  "general": fqe.get_general_hamiltonian, "sso": fqe.get_sso_hamiltonian}[hk]
            ham = mk(tuple(tens), e_0=e0)
            # the exact operator is the source expression, not the tensor placement
            terms = [(complex(*c), [(int(m), int(dg)) for m, dg in t]) for c, t in spec["opterms"]]
        elif hk == "diagonal":
            hd = tens[0]
            ham = fqe.get_diagonal_hamiltonian(hd, e_0=e0)
            terms = []
            for p in range(norb):
                va = hd[p]
                vb = hd[p] if hd.size == norb else hd[norb + p]
                terms.append((complex(va), [(2 * p, 1), (2 * p, 0)]))
                terms.append((complex(vb), [(2 * p + 1, 1), (2 * p + 1, 0)]))
        elif hk == "diagcoulomb":
            v = tens[0]
            ham = fqe.get_diagonalcoulomb_hamiltonian(v, e_0=e0)
            terms = []
            for r_, s_ in itertools.product(range(norb), repeat=2):
                if v[r_, s_] != 0:
                    for sa, sb in itertools.product((0, 1), repeat=2):
                        terms.append((complex(v[r_, s_]), [(2 * r_ + sa, 1), (2 * r_ + sa, 0),
                                                           (2 * s_ + sb, 1), (2 * s_ + sb, 0)]))
        else:
            op = FermionOperator()
            for t, c in spec["op"]:
                op += FermionOperator(tuple((int(m), int(dg)) for m, dg in t), complex(*c))
            terms = U.fermionop_terms(op)
            if hk == "sparse":
                ham = fqe.get_sparse_hamiltonian(op, conserve_spin=(wk != "spinbroken"), e_0=e0)
            else:
                ham = op
    except Exception as exc:  # constructing the Hamiltonian failed: not an apply case
        ctx.count(f"construct-raises:{hk}:{type(exc).__name__}")
        return
    want = U.spec_apply(d, norb, entries, terms, e0)
    small = {k: v for k, v in spec.items() if k not in ("tensors", "entries", "op")}
    try:
        out = w.apply(ham)
    except Exception as exc:
        ctx.count(f"apply-raises:{hk}:{wk}:{type(exc).__name__}")
        ctx.case(None)
        sig = f"apply-raises:{hk}:{wk}:{type(exc).__name__}"
        built = None
        if hk == "fermionop":
            try:
                built = fqe.build_hamiltonian(ham, norb=norb, conserve_number=True)
            except Exception:
                built = None
        if built is not None and type(built).__name__ == "DiagonalCoulomb" and built.dim() == 2 * norb:
            # the C06 finding seen through apply: an operator made only of n_p n_q products is turned into a
            # DiagonalCoulomb object carrying the 2*norb spin-orbital tensor, which the (spatial) kernels refuse
            sig = "build:diagonal-coulomb-from-rank4-operator-has-dimension-2norb"
        if hk == "fermionop" and spec.get("nterms") == 0 and spec.get("raw_terms", 0) > 2 and isinstance(exc, AssertionError):
            # the C06 finding: more than two raw terms that normal-order to a constant -> assert len(dtypes) == 1
            sig = "build:operator-normal-orders-to-constant"
        ctx.disagree(sig, f"apply raised {type(exc).__name__}: {exc}", spec)
        return
    bad = U.compare_wfn(out, want, tol=1e-9)
    nontrivial = any(v[0] < 0 or v[1] != 0 for v in want.values()) and len(want) > 0
    ctx.case((hk, wk, norb, spec["case"]) if nontrivial else None,
             sample={**small, "n_result_dets": len(want)} if nontrivial else None)
    ctx.count(f"ham:{hk}")
    ctx.count(f"wfn:{wk}")
    ctx.count(f"norb:{norb}")
    if bad:
        det, got, exp = bad[0]
        ctx.disagree(classify(ctx, spec, None), f"apply differs from exact action at det {det}: "
                     f"impl {got} exact {exp} ({len(bad)} dets)", spec)
    # the result is a wavefunction of the same kind as the operand (its flags decide how the next call treats it:
    # "results of different calls can be combined")
    try:
        if (out.conserve_spin(), out.conserve_number()) != (w.conserve_spin(), w.conserve_number()):
            ctx.disagree("apply:result-loses-broken-symmetry-flags" + (":sparse" if hk in ("sparse", "fermionop") else ""),
                         f"apply on a wavefunction with (conserve_spin, conserve_number) = {(w.conserve_spin(), w.conserve_number())} "
                         f"returned an object with {(out.conserve_spin(), out.conserve_number())}", small)
    except AttributeError:
        pass


def gen_single_column(ctx, case, rng):
    """a (non-Hermitian) one-body spin-orbital operator sum_p c_p a†_p a_q with one annihilated mode q — a one-body
    matrix with a single non-zero column, for which the library takes a dedicated fast path — on a spin-broken
    wavefunction holding every Sz sector of N electrons, N up to and beyond half filling"""
    norb = rng.choice([2, 3, 3])
    nele = rng.choice([n for n in range(1, 2 * norb) if n >= norb - 1])
    w = ctx.fqe.get_number_conserving_wavefunction(nele, norb)
    U.random_fill(w, rng, zero_p=0.0)
    q = rng.randrange(2 * norb)
    rows = rng.sample(range(2 * norb), rng.randint(1, 2 * norb))
    cplx = rng.random() < 0.5
    opterms = [((U.gint(rng, zero_p=0.0, complex_p=0.6 if cplx else 0.0) or 1), [(p_, 1), (q, 0)]) for p_ in rows]
    spec = {"ham": "gso", "wfn": "spinbroken", "norb": norb, "complex": cplx, "e0": enc_c(rng.choice([0, 0, 2])), "case": case,
            "params": [[n, s_, norb] for n, s_ in sorted(w.sectors())], "broken": "spin",
            "entries": [[a, b, enc_c(c)] for a, b, c in U.wfn_entries(w)], "single_column": q,
            "opterms": [[enc_c(c), [list(f) for f in t]] for c, t in opterms]}
    spec["tensors"] = [enc_arr(numpy.ascontiguousarray(t)) for t in canonical_tensors(opterms, norb, 1)]
    return spec


def run(ctx):
    rng = ctx.rng
    for case in range(40 if ctx.tier == "quick" else 600):
        execute(ctx, gen_single_column(ctx, 200000 + case, rng))
        ctx.count("family:single-column")
    ncases = 260 if ctx.tier == "quick" else 12000
    for case in range(ncases):
        if ctx.out_of_time():
            break
        spec = gen_case(ctx, case, rng)
        execute(ctx, spec)
    for case in range(12 if ctx.tier == "quick" else 120):
        spec = gen_case(ctx, 100000 + case, rng, lowfilling=True)
        spec["lowfilling"] = True
        execute(ctx, spec)
    # real Hermitian two-body tensors that are symmetric under the exchange of the two electrons but not under the
    # exchange of the two indices of one electron (no real-orbital 8-fold symmetry)
    for case in range(16 if ctx.tier == "quick" else 200):
        spec = gen_case(ctx, 300000 + case, rng, sym4=True)
        execute(ctx, spec)
        ctx.count("family:real-4fold-symmetric")
    run_number_broken(ctx)


def nb_operator(rng, norb, fam, FermionOperator, hermitian_conjugated):
    """Sz-conserving operators that need not conserve the particle number"""
    op = FermionOperator()

    def c():
        return complex(U.gint(rng, zero_p=0.0) or 1)
    for _ in range(rng.randint(1, 3)):
        p, q, r, t = (rng.randrange(norb) for _ in range(4))
        if fam == "pairing":
            op += FermionOperator(((2 * p, 1), (2 * q + 1, 1)), c())
        elif fam == "hop":
            op += FermionOperator(((2 * p, 1), (2 * q, 0)), c()) + FermionOperator(((2 * r + 1, 1), (2 * t + 1, 0)), c())
        elif fam == "quartic":
            # a^_pa a^_qb a^_rb a_tb : Sz conserved, N changes by two (vanishes when q == r)
            op += FermionOperator(((2 * p, 1), (2 * q + 1, 1), (2 * r + 1, 1), (2 * t + 1, 0)), 2 * c())
        else:   # mixed
            op += FermionOperator(((2 * p, 1), (2 * q + 1, 1)), c()) + FermionOperator(((2 * r, 1), (2 * t, 0)), c())
            op += FermionOperator(((2 * p + 1, 0), (2 * q, 0), (2 * r, 1), (2 * t, 0)), 2 * c())
    return op


def run_number_broken(ctx):
    """number-broken (Sz-conserving) wavefunctions: apply = exact action in the convention iota' = iota * nbTwist
    (Spec/Embed.lean embedSignNB); operators with pairing terms, through every entry point"""
    fqe = ctx.fqe
    from openfermion import FermionOperator, hermitian_conjugated, normal_ordered
    d, rng = ctx.driver, ctx.rng
    quick = ctx.tier == "quick"
    for case in range(40 if quick else 2400):
        if ctx.out_of_time():
            break
        norb = rng.choice([2, 2, 3] if quick else [2, 3, 3, 4])
        sz = rng.randint(-norb + 1, norb - 1)
        w = fqe.get_spin_conserving_wavefunction(sz, norb)
        U.random_fill(w, rng)
        fam = ["pairing", "hop", "quartic", "mixed"][case % 4]
        op = nb_operator(rng, norb, fam, FermionOperator, hermitian_conjugated)
        herm = True      # the FermionOperator entry points require a Hermitian operator (refused otherwise: C14)
        op = op + hermitian_conjugated(op)
        e0 = rng.choice([0, 0, 2, complex(-1, 3)]) if herm else 0
        nop = normal_ordered(op)
        nterms = len([t for t, c in nop.terms.items() if t and abs(c) > 0])
        if nterms == 0:
            continue
        entries = U.wfn_entries(w)
        terms = U.fermionop_terms(op)
        if e0 != 0:
            terms = list(terms) + [(complex(e0), [])]
        want = U.parse_vec(d.ask(f"applynb {norb} {fmt_vec_local(entries)} {fmt_op_local(terms)}"))
        api = rng.choice(["wfn.apply(op)", "fqe.apply(op, wfn)", "wfn.apply(hamiltonian)"]) if e0 == 0 else "wfn.apply(hamiltonian)"
        desc = {"family": fam, "norb": norb, "sz": sz, "hermitian": herm, "e0": enc_c(e0), "api": api, "nterms": nterms, "case": case,
                "entries": [[a, b, enc_c(c)] for a, b, c in entries],
                "op": [[[list(f) for f in t], enc_c(c)] for t, c in op.terms.items()]}
        try:
            if api == "wfn.apply(op)":
                out = w.apply(op)
            elif api == "fqe.apply(op, wfn)":
                out = fqe.apply(op, w)
            else:
                ham = fqe.get_hamiltonian_from_openfermion(op, norb=norb, conserve_number=False, e_0=e0)
                out = w.apply(ham)
        except Exception as exc:
            ctx.case(None)
            ctx.count(f"numberbroken:raises:{type(exc).__name__}")
            if nterms <= 2 and isinstance(exc, ValueError) and "Number non-conserving" in str(exc):
                # domain restriction (DESIGN 0.5): the sparse route (<= 2 terms) refuses number-changing strings loudly
                ctx.count("numberbroken:sparse-route-refuses-number-changing-operator")
                continue
            sig = f"apply-raises:numberbroken:{fam}:{type(exc).__name__}"
            if nterms <= 2:
                sig = f"apply-raises:numberbroken:nterms=1-2:{type(exc).__name__}"
            ctx.disagree(sig, f"{api} raised {type(exc).__name__}: {str(exc)[:200]}", desc)
            continue
        bad = U.compare_wfn(out, want, tol=1e-9)
        nontrivial = any(v[0] < 0 or v[1] != 0 for v in want.values()) and len(want) > 0
        ctx.case(("numberbroken", case) if nontrivial else None,
                 sample={k: desc[k] for k in ("family", "norb", "sz", "api", "nterms")} if case < 4 else None)
        ctx.count(f"numberbroken:{fam}")
        if bad:
            sig = f"apply:numberbroken:{fam}" + (":nterms=1-2" if nterms <= 2 else "")
            psi = {(a, b): c for a, b, c in entries}
            shift = lambda det: complex(e0) * psi.get(det, 0)      # the scalar part is common to both routes
            if nterms <= 2 and len(bad) > 0 and all(abs((z - shift(dt)) + (e - shift(dt))) < 1e-9 for (dt, z, e) in bad):
                # every wrong amplitude has exactly the opposite sign: the sparse route works on the physical strings
                # (plain iota) while the dense route works on the beta-inverted ones (iota * nbTwist)
                sig = "apply:numberbroken:sparse-route-uses-untwisted-convention"
            ctx.disagree(sig, f"{api} on a number-broken wavefunction differs from the exact action on {len(bad)} determinants, "
                         f"e.g. {bad[0]}", desc)


def fmt_vec_local(entries):
    from lean_driver import fmt_vec
    return fmt_vec(entries)


def fmt_op_local(terms):
    from lean_driver import fmt_op
    return fmt_op(terms)


def classify(ctx, desc, loc):
    """signature of the input class of a disagreement (matched against known_findings.json)"""
    hk, wk = desc["ham"], desc["wfn"]
    if hk in ("fermionop", "sparse") and desc.get("nterms") == 0:
        return "apply:empty-operator"
    if hk in ("restricted", "restricted34") and ctx.path == "PY" and not desc.get("sym8"):
        real = all(all(v[1] == 0.0 for _, v in t["nz"]) for t in desc["tensors"])
        if real:
            return "apply:py-halffilling-real-tensor-without-8fold-symmetry"
    sig = f"apply:{hk}:{wk}"
    if hk in ("fermionop", "sparse"):
        sig += f":nterms={'1-2' if desc['nterms'] <= 2 else '3+'}"
    return sig


def random_spinorb_terms(rng, norb, r, nterms, cplx, allow_flip):
    """random rank-r number-conserving operator strings (creators then annihilators, OpenFermion modes)
    plus their Hermitian conjugates; coefficients are multiples of r! so that the pair-symmetrised tensor
    stays integer valued"""
    import math
    out = []
    if r > 2 * norb:
        return out
    for _ in range(nterms):
        cre = rng.sample(range(2 * norb), r)
        if allow_flip and rng.random() < 0.5:
            ann = rng.sample(range(2 * norb), r)
        else:
            na = sum(1 for m in cre if m % 2 == 0)
            if na > norb or r - na > norb:
                continue
            ann = rng.sample([m for m in range(2 * norb) if m % 2 == 0], na) + \
                rng.sample([m for m in range(2 * norb) if m % 2 == 1], r - na)
            rng.shuffle(ann)
        c = (U.gint(rng, zero_p=0.0, complex_p=0.6 if cplx else 0.0) or 1) * math.factorial(r)
        out.append((c, [(m, 1) for m in cre] + [(m, 0) for m in ann]))
        # Hermitian conjugate: reversed order, flipped daggers
        out.append((numpy.conj(c), [(m, 1) for m in reversed(ann)] + [(m, 0) for m in reversed(cre)]))
    return out


def _bubble_desc(lst):
    """FQE's reverse_bubble_list on [spin, index] pairs: stable sort, descending spin; returns swaps"""
    lst = [list(x) for x in lst]
    n, swaps = len(lst), 0
    for i in range(n):
        for j in range(0, n - i - 1):
            if lst[j][0] < lst[j + 1][0]:
                lst[j], lst[j + 1] = lst[j + 1], lst[j]
                swaps += 1
    return swaps, lst


def canonical_tensors(opterms, norb, maxrank):
    """place operator strings into spin-orbital tensors the way the library's own converter does
    (spin-sorted index order with the reordering sign, then symmetrised over simultaneous permutations
    of (creation, annihilation) index pairs).  This is the documented input form of the dense
    spin-orbital kernels."""
    import math
    tens = [numpy.zeros((2 * norb,) * (2 * r), dtype=numpy.complex128) for r in range(1, maxrank + 1)]
    for c, t in opterms:
        r = len(t) // 2
        dag = [[m % 2, m // 2 + norb * (m % 2)] for m, _ in t[:r]]
        und = [[m % 2, m // 2 + norb * (m % 2)] for m, _ in t[r:]]
        s1, dag = _bubble_desc(dag)
        s2, und = _bubble_desc(und)
        idx = tuple(x[1] for x in dag) + tuple(x[1] for x in und)
        tens[r - 1][idx] += (-1) ** (s1 + s2) * c
    out = []
    for r, T in enumerate(tens, start=1):
        S = numpy.zeros_like(T)
        for p in itertools.permutations(range(r)):
            S = S + T.transpose(list(p) + [r + x for x in p])
        S = S / math.factorial(r)
        assert numpy.all(S.real == numpy.round(S.real)) and numpy.all(S.imag == numpy.round(S.imag))
        out.append(numpy.ascontiguousarray(S))
    if all(not numpy.iscomplex(T).any() for T in out):
        pass
    return out


def pair_symmetrize(T):
    r = T.ndim // 2
    out = numpy.zeros_like(T)
    for p in itertools.permutations(range(r)):
        perm = list(p) + [r + x for x in p]
        out = out + T.transpose(perm)
    return out


def sso_tensor(rng, norb, rank, cplx):
    """spin-orbital tensor conserving Sz: creators' spins = annihilators' spins pairwise"""
    dim = 2 * norb
    T = numpy.zeros((dim,) * (2 * rank), dtype=numpy.complex128)
    for _ in range(max(1, int(0.2 * (norb ** (2 * rank)) * 2 ** rank))):
        spins = [rng.randrange(2) for _ in range(rank)]
        idx = [rng.randrange(norb) + norb * spins[k] for k in range(rank)]
        idx += [rng.randrange(norb) + norb * spins[k] for k in range(rank)]
        T[tuple(idx)] = U.gint(rng, zero_p=0.0, complex_p=0.6 if cplx else 0.0) or 1
    T = herm(T)
    if rank == 2:
        # sso kernels read the aa, ab, bb blocks: make the tensor pair-symmetric as fermionops_tomatrix does
        T = pair_symmetrize(T)
    if not cplx:
        T = T.real.astype(numpy.float64)
    return T


def random_fermionop(rng, norb, FermionOperator, conserve_spin, cplx, nterms):
    """Hermitian number-conserving polynomial; Sz conserving if asked"""
    op = FermionOperator()
    from openfermion import hermitian_conjugated
    for _ in range(nterms):
        r = rng.choice([1, 1, 2, 2, 3]) if norb > 1 else 1
        r = min(r, 2 * norb)
        cre = rng.sample(range(2 * norb), r)
        if conserve_spin:
            ann = []
            pool_a = [m for m in range(2 * norb) if m % 2 == 0]
            pool_b = [m for m in range(2 * norb) if m % 2 == 1]
            na = sum(1 for m in cre if m % 2 == 0)
            nb = r - na
            ann = rng.sample(pool_a, na) + rng.sample(pool_b, nb)
            rng.shuffle(ann)
        else:
            ann = rng.sample(range(2 * norb), r)
        t = tuple((m, 1) for m in cre) + tuple((m, 0) for m in ann)
        c = U.gint(rng, zero_p=0.0, complex_p=0.6 if cplx else 0.0) or 1
        term = FermionOperator(t, c)
        op += term + hermitian_conjugated(term)
    return op


def replay(ctx, rep):
    v = rep.get("violation", rep)
    execute(ctx, v["replay"] if "replay" in v else v)
