"""C02 — time evolution = exp(-i t H), scalar phase once, every route.

The matrix of H on the wavefunction's own determinants is produced exactly by the Lean Spec driver (one `apply`
per basis determinant, source expression / tensors written out in ladder operators); the only trusted numerics
is scipy.linalg.expm.  Checked per case: evolved state vs expm(-i t H) psi (incl. the scalar e0), norm, in-place
= out-of-place, t1 then t2 = t1+t2, -t undoes t; both time_evolve and apply_generated_unitary (Taylor, Chebyshev)."""
import copy
import itertools

import numpy
from scipy.linalg import expm

import fqe_util as U


def hmatrix(d, norb, dets, terms, e0):
    idx = {det: i for i, det in enumerate(dets)}
    H = numpy.zeros((len(dets), len(dets)), dtype=numpy.complex128)
    for j, (a, b) in enumerate(dets):
        col = U.spec_apply(d, norb, [(a, b, 1.0)], terms, e0)
        for det, v in col.items():
            if det in idx:
                H[idx[det], j] = complex(float(v[0]), float(v[1]))
    return H


def hmatrix_nb(d, norb, dets, terms, e0):
    """matrix of H on the determinants of a number-broken wavefunction (convention iota * nbTwist)"""
    from lean_driver import fmt_vec, fmt_op
    terms = list(terms)
    if e0 != 0:
        terms.append((complex(e0), []))
    idx = {det: i for i, det in enumerate(dets)}
    H = numpy.zeros((len(dets), len(dets)), dtype=numpy.complex128)
    for j, (a, b) in enumerate(dets):
        col = U.parse_vec(d.ask(f"applynb {norb} {fmt_vec([(a, b, 1.0)])} {fmt_op(terms)}"))
        for det, v in col.items():
            if det in idx:
                H[idx[det], j] = complex(float(v[0]), float(v[1]))
    return H


def vec_of(w, dets):
    dd = U.wfn_dict(w)
    return numpy.array([dd[x] for x in dets], dtype=numpy.complex128)


def make_case(ctx, rng, route, norb):
    """returns (ham, terms, wfn kind) for the requested route"""
    fqe = ctx.fqe
    import props.C01 as C01
    from openfermion import FermionOperator, hermitian_conjugated
    e0 = rng.choice([0.0, 0.0, 0.7, -1.25])
    small = lambda: rng.choice([-1, 1, 2, -2]) * rng.choice([0.25, 0.5, 1.0])
    if route == "diagonal":
        hd = numpy.array([small() for _ in range(norb)])
        ham = fqe.get_diagonal_hamiltonian(hd, e_0=e0)
        terms = [(hd[p], [(2 * p + s, 1), (2 * p + s, 0)]) for p in range(norb) for s in (0, 1)]
        return ham, terms, e0, rng.choice(["single", "multi"])
    if route == "quadratic":
        h1 = numpy.zeros((norb, norb), dtype=numpy.complex128)
        for i in range(norb):
            for j in range(i, norb):
                v = small() if rng.random() < 0.8 else 0
                if i == j:
                    h1[i, i] = v
                else:
                    z = v + 1j * (small() if rng.random() < 0.5 else 0)
                    h1[i, j], h1[j, i] = z, numpy.conj(z)
        if norb > 1 and not (h1 - numpy.diag(numpy.diag(h1))).any():
            h1[0, 1] = h1[1, 0] = 0.5
        ham = fqe.get_restricted_hamiltonian((h1,), e_0=e0)
        # a spin-restricted Hamiltonian also acts on spin-broken wavefunctions (same matrix on both spin blocks)
        return ham, U.restricted_terms([h1], norb), e0, rng.choice(["single", "multi", "spinbroken"])
    if route == "quadratic-sb":
        # spin-restricted complex Hermitian one-body Hamiltonian on a spin-broken wavefunction (the exact quadratic
        # route uses the same rotation on both spin blocks)
        h1 = numpy.zeros((norb, norb), dtype=numpy.complex128)
        for i in range(norb):
            h1[i, i] = small()
            for j in range(i + 1, norb):
                z = small() + 1j * small()
                h1[i, j], h1[j, i] = z, numpy.conj(z)
        ham = fqe.get_restricted_hamiltonian((h1,), e_0=e0)
        return ham, U.restricted_terms([h1], norb), e0, "spinbroken"
    if route == "quadratic-gso":
        dim = 2 * norb
        h1 = numpy.zeros((dim, dim), dtype=numpy.complex128)
        for i in range(dim):
            for j in range(i, dim):
                if rng.random() < 0.6:
                    z = small() + (1j * small() if i != j and rng.random() < 0.5 else 0)
                    h1[i, j], h1[j, i] = z, numpy.conj(z)
        h1[0, norb] = h1[norb, 0] = 0.5
        # the same tensor through the GSO class, the General class and (in run_late_families) a bare tuple
        if rng.random() < 0.5:
            ham = fqe.get_gso_hamiltonian((h1,), e_0=e0)
            return ham, U.spinorb_terms([h1], norb), e0, "spinbroken"
        ham = fqe.get_general_hamiltonian((h1,), e_0=e0)
        return ham, U.spinorb_terms([h1], norb), e0, "spinbroken", {"class": "General"}
    if route == "quadratic-sso":
        # spin-conserving spin-orbital one-body operator: the alpha and beta blocks are different complex Hermitian
        # matrices (spin-dependent hopping phases), no alpha-beta mixing
        dim = 2 * norb
        h1 = numpy.zeros((dim, dim), dtype=numpy.complex128)
        for s_ in range(2):
            for i in range(norb):
                for j in range(i, norb):
                    if i == j:
                        h1[s_ * norb + i, s_ * norb + i] = small()
                    else:
                        z = small() + 1j * small()
                        h1[s_ * norb + i, s_ * norb + j], h1[s_ * norb + j, s_ * norb + i] = z, numpy.conj(z)
        if rng.random() < 0.3:
            # integer-valued symmetric blocks handed over as an integer array
            hi = numpy.zeros((dim, dim), dtype=numpy.int64)
            for s_ in range(2):
                for i in range(norb):
                    for j in range(i, norb):
                        v = rng.randint(-2, 2)
                        hi[s_ * norb + i, s_ * norb + j] = hi[s_ * norb + j, s_ * norb + i] = v
            hi[0, 1 % norb] = hi[1 % norb, 0] = 1
            hi[norb, norb + 1 % norb] = hi[norb + 1 % norb, norb] = 2
            ham = fqe.get_sso_hamiltonian((hi,), e_0=e0)
            return ham, U.spinorb_terms([hi.astype(numpy.complex128)], norb), e0, rng.choice(["single", "multi"]), {"integer_dtype": True}
        ham = fqe.get_sso_hamiltonian((h1,), e_0=e0)
        return ham, U.spinorb_terms([h1], norb), e0, rng.choice(["single", "multi"])
    if route == "diagcoulomb":
        v = numpy.array([[small() if rng.random() < 0.8 else 0.0 for _ in range(norb)] for _ in range(norb)])
        if rng.random() < 0.7:
            v = (v + v.T) / 2
            sym = True
        else:
            sym = False
        ham = fqe.get_diagonalcoulomb_hamiltonian(v, e_0=e0)
        terms = []
        for r_, s_ in itertools.product(range(norb), repeat=2):
            if v[r_, s_] != 0:
                for sa, sb in itertools.product((0, 1), repeat=2):
                    terms.append((v[r_, s_], [(2 * r_ + sa, 1), (2 * r_ + sa, 0), (2 * s_ + sb, 1), (2 * s_ + sb, 0)]))
        return ham, terms, e0, rng.choice(["single", "multi"]), {"vsym": sym}
    if route in ("individual", "sparse-multi"):
        nt = 1 if route == "individual" else rng.choice([2, 3])
        op = FermionOperator()
        tries = 0
        while len(op.terms) < (2 if route == "individual" else 3) and tries < 20:
            tries += 1
            r = rng.choice([1, 2]) if norb > 1 else 1
            cre = rng.sample(range(2 * norb), r)
            na = sum(1 for m in cre if m % 2 == 0)
            if na > norb or r - na > norb:
                continue
            ann = rng.sample([m for m in range(2 * norb) if m % 2 == 0], na) + \
                rng.sample([m for m in range(2 * norb) if m % 2 == 1], r - na)
            rng.shuffle(ann)
            if sorted(cre) == sorted(ann) and route == "individual" and rng.random() < 0.7:
                continue
            c = small() + (1j * small() if rng.random() < 0.5 else 0)
            t = FermionOperator(tuple((m, 1) for m in cre) + tuple((m, 0) for m in ann), c)
            op += t + hermitian_conjugated(t)
            if route == "individual":
                break
        if len(op.terms) == 0:
            return None
        ham = fqe.get_sparse_hamiltonian(op, e_0=e0)
        if len(ham.terms()) == 0:
            return None          # operator cancelled to a constant: the pinned empty-operator behaviour (C01 finding)
        return ham, U.fermionop_terms(op), e0, rng.choice(["single", "multi"]), {"nterms": len(op.terms),
                                                                              "individual": ham.is_individual()}
    if route == "individual-spinbroken":
        r = rng.choice([1, 2, 2, 3]) if norb > 2 else rng.choice([1, 2])
        cre = rng.sample(range(2 * norb), r)
        ann = rng.sample(range(2 * norb), r)
        if rng.random() < 0.5:
            # a spin flip times one or two number operators (alpha and/or beta): n_m ... a^_p(alpha) a_q(beta)
            p_, q_ = 2 * rng.randrange(norb), 2 * rng.randrange(norb) + 1
            if rng.random() < 0.5:
                p_, q_ = q_, p_
            nums = rng.sample([m for m in range(2 * norb) if m not in (p_, q_)], rng.randint(1, min(2, 2 * norb - 2)))
            cre, ann = nums + [p_], nums + [q_]
        if sorted(cre) == sorted(ann):
            return None
        c = small() + (1j * small() if rng.random() < 0.5 else 0)
        t_ = FermionOperator(tuple((m, 1) for m in cre) + tuple((m, 0) for m in ann), c)
        op = t_ + hermitian_conjugated(t_)
        try:
            ham = fqe.get_sparse_hamiltonian(op, conserve_spin=False, e_0=e0)
        except Exception:
            return None
        if len(ham.terms()) == 0:
            return None
        return ham, U.fermionop_terms(op), e0, "spinbroken", {"nterms": len(op.terms), "individual": ham.is_individual(),
                                                            "string": str(t_)}
    if route == "taylor-dense":
        h1 = numpy.zeros((norb, norb), dtype=numpy.complex128)
        for i in range(norb):
            for j in range(i, norb):
                z = small() * 0.5 + (1j * small() * 0.5 if i != j and rng.random() < 0.5 else 0)
                h1[i, j], h1[j, i] = z, numpy.conj(z)
        h2 = numpy.zeros((norb,) * 4, dtype=numpy.complex128)
        for _ in range(3):
            i, j, k, l = (rng.randrange(norb) for _ in range(4))
            z = small() * 0.5
            h2[i, j, k, l] += z
            h2[l, k, j, i] += numpy.conj(z)
        ham = fqe.get_restricted_hamiltonian((h1, h2), e_0=e0)
        return ham, U.restricted_terms([h1, h2], norb), e0, rng.choice(["single", "multi"])
    raise ValueError(route)


def run(ctx):
    run_main(ctx)
    run_number_broken(ctx)
    run_late_families(ctx)


def run_late_families(ctx):
    """two families added after sub-agent remarks (own random stream, so the older families keep theirs):
    (a) operators that normal-order to a multiple of the identity - a SparseHamiltonian without operator strings -
        evolve by the scalar phase alone, through every entry point;
    (b) a spin-conserving one-body operator handed over as GSO / General / bare tensor tuple (2 norb x 2 norb matrix
        without an alpha-beta block, degenerate spin blocks included) on Sz-conserving wavefunctions."""
    import random
    import props.C01 as C01
    from openfermion import FermionOperator
    fqe, d = ctx.fqe, ctx.driver
    rng = random.Random(ctx.seed * 7919 + 17)
    quick = ctx.tier == "quick"
    small = lambda: rng.choice([-1, 1, 2, -2]) * rng.choice([0.25, 0.5, 1.0])
    for case in range(8 if quick else 120):
        norb = rng.choice([2, 3])
        wk = rng.choice(["single", "multi", "spinbroken"])
        w = C01.make_wfn(ctx, wk, norb, rng)
        dets = U.wfn_dets(w)
        psi = vec_of(w, dets)
        m = rng.randrange(2 * norb)
        kind = rng.choice(["identity", "anticommutator", "n-minus-n"])
        if kind == "identity":
            cval = small()
            op = FermionOperator((), cval)
        elif kind == "anticommutator":
            cval = small()
            op = FermionOperator(((m, 0), (m, 1)), cval) + FermionOperator(((m, 1), (m, 0)), cval)
        else:
            cval = 0.0
            op = FermionOperator(((m, 1), (m, 0)), 0.5) - FermionOperator(((m, 1), (m, 0)), 0.5) + FermionOperator((), 0.0)
        e0 = rng.choice([0.0, 0.7, -1.25])
        t = rng.choice([0.13, -0.31, 1.1])
        entry = rng.choice(["fermionop", "sparse", "sparse-inplace", "agu-taylor", "agu-cheb"])
        desc = {"family": "constant-operator", "kind": kind, "norb": norb, "wfn": wk, "t": t, "e0": e0, "c": cval, "entry": entry, "case": case}
        try:
            if entry == "fermionop":
                e0 = 0.0
                out = w.time_evolve(t, op)
            else:
                ham = fqe.get_sparse_hamiltonian(op, conserve_spin=(wk != "spinbroken"), e_0=e0)
                if entry == "sparse":
                    out = w.time_evolve(t, ham)
                elif entry == "sparse-inplace":
                    out = copy.deepcopy(w).time_evolve(t, ham, inplace=True)
                elif entry == "agu-taylor":
                    out = w.apply_generated_unitary(t, "taylor", ham, accuracy=1e-12)
                else:
                    out = w.apply_generated_unitary(t, "chebyshev", ham, accuracy=1e-12, spec_lim=[cval + e0 - 1.0, cval + e0 + 1.0])
        except Exception as exc:
            ctx.case(None)
            ctx.disagree(f"evolve-raises:constant-operator:{type(exc).__name__}", f"{entry} raised {type(exc).__name__}: {exc}", desc)
            continue
        ctx.case(("constant-operator", case), sample=desc if case < 2 else None)
        ctx.count("route:constant-operator")
        err = numpy.abs(vec_of(out, dets) - numpy.exp(-1j * t * (cval + e0)) * psi).max()
        if err > 1e-9:
            ctx.disagree("evolve:constant-operator", f"distance to exp(-it(c+e0)) psi = {err:.3e}", desc)
    for case in range(10 if quick else 150):
        norb = rng.choice([2, 2, 3])
        wk = rng.choice(["single", "multi"])
        w = C01.make_wfn(ctx, wk, norb, rng)
        if case % 3 == 1:
            w.scale(rng.choice([2.5, complex(0.2, -0.1)]))
        dets = U.wfn_dets(w)
        if len(dets) > 64:
            continue
        psi = vec_of(w, dets)
        dim = 2 * norb
        h1 = numpy.zeros((dim, dim), dtype=numpy.complex128)
        real = rng.random() < 0.3
        for s_ in range(2):
            for i in range(norb):
                for j in range(i, norb):
                    if i == j:
                        h1[s_ * norb + i, s_ * norb + i] = small()
                    else:
                        z = small() + (0 if real else 1j * small())
                        h1[s_ * norb + i, s_ * norb + j], h1[s_ * norb + j, s_ * norb + i] = z, numpy.conj(z)
        blocks = rng.choice(["different", "equal", "equal-diagonal-alpha"])
        if blocks != "different":
            h1[norb:, norb:] = h1[:norb, :norb]
        if blocks == "equal-diagonal-alpha":
            h1[norb:, norb:] = numpy.diag(numpy.diag(h1[:norb, :norb]))
        if real:
            h1 = h1.real.copy()
        e0 = rng.choice([0.0, 0.7, -1.25])
        t = rng.choice([0.13, -0.31, 0.5, 1.1])
        entry = rng.choice(["gso", "general", "tuple"])
        desc = {"family": "quadratic-spinorbital-on-sz-conserving", "norb": norb, "wfn": wk, "sectors": sorted(w.sectors()),
                "t": t, "e0": e0, "blocks": blocks, "real": real, "entry": entry, "h1": [[[float(z.real), float(z.imag)] for z in row] for row in numpy.asarray(h1, dtype=numpy.complex128)], "case": case}
        terms = U.spinorb_terms([h1.astype(numpy.complex128)], norb)
        H = hmatrix(d, norb, dets, terms, e0)
        want = expm(-1j * t * H) @ psi
        try:
            if entry == "gso":
                ham = fqe.get_gso_hamiltonian((h1,), e_0=e0)
                out = w.time_evolve(t, ham)
            elif entry == "general":
                ham = fqe.get_general_hamiltonian((h1,), e_0=e0)
                out = w.time_evolve(t, ham)
            else:
                ham = None
                e0 = 0.0
                H = hmatrix(d, norb, dets, terms, e0)
                want = expm(-1j * t * H) @ psi
                out = w.time_evolve(t, (h1,))
        except Exception as exc:
            ctx.case(None)
            ctx.disagree(f"evolve-raises:quadratic-so-szconserving:{type(exc).__name__}", f"{entry} raised {type(exc).__name__}: {str(exc)[:160]}", desc)
            continue
        ctx.case(("quadratic-so-sz", case), sample=desc if case < 2 else None)
        ctx.count("route:quadratic-so-szconserving")
        ctx.count(f"blocks:{blocks}")
        got = vec_of(out, dets)
        err = numpy.abs(got - want).max()
        if err > 1e-8 * max(1.0, float(numpy.linalg.norm(psi))):
            ctx.disagree(f"evolve:quadratic-so-szconserving:{entry}", f"distance to expm(-itH)psi = {err:.3e}", desc)
            continue
        if ham is not None:
            try:
                back = out.time_evolve(-t, ham)
                if numpy.abs(vec_of(back, dets) - psi).max() > 1e-8 * max(1.0, float(numpy.linalg.norm(psi))):
                    ctx.disagree("evolve:inverse:quadratic-so-szconserving", "-t does not undo t", desc)
            except Exception as exc:
                ctx.disagree(f"evolve-compose-raises:quadratic-so-szconserving:{type(exc).__name__}", str(exc)[:160], desc)


def run_main(ctx):
    fqe = ctx.fqe
    import props.C01 as C01
    d, rng = ctx.driver, ctx.rng
    quick = ctx.tier == "quick"
    routes = ["diagonal", "quadratic", "quadratic-gso", "diagcoulomb", "individual", "sparse-multi", "taylor-dense",
              "individual-spinbroken", "individual-spinbroken", "quadratic-sso", "quadratic-sb"]
    ncases = 88 if quick else 3300
    for case in range(ncases):
        route = routes[case % len(routes)]
        norb = rng.choice([2, 2, 3]) if route not in ("quadratic-gso",) else 2
        made = make_case(ctx, rng, route, norb)
        if made is None:
            continue
        ham, terms, e0, wk = made[:4]
        extra = made[4] if len(made) > 4 else {}
        w = C01.make_wfn(ctx, wk, norb, rng)
        w.normalize()
        # evolution is linear: inputs of any norm (the result has the norm of the input)
        if case % 3 == 1:
            w.scale(rng.choice([2.5, complex(0.2, -0.1), 0.05]))
            ctx.count("input-norm-not-one")
        dets = U.wfn_dets(w)
        if len(dets) > 64:
            continue
        t = rng.choice([0.0, 0.13, -0.31, 0.5, 1.1])
        desc = {"route": route, "norb": norb, "wfn": wk, "sectors": sorted(w.sectors()), "t": t, "e0": e0, "case": case, **extra}
        H = hmatrix(d, norb, dets, terms, e0)
        if numpy.abs(H - H.conj().T).max() > 1e-12:
            ctx.notes.append(f"case {case}: generated H not Hermitian, skipped")
            continue
        psi = vec_of(w, dets)
        want = expm(-1j * t * H) @ psi
        if route in ("taylor-dense", "sparse-multi"):
            api = rng.choice(["time_evolve", "time_evolve", "agu-taylor", "agu-cheb"])
        elif route in ("diagonal", "quadratic", "diagcoulomb", "quadratic-gso", "quadratic-sso", "quadratic-sb") and abs(t) <= 0.5:
            # the polynomial propagators must agree with the exact routes for every Hamiltonian class
            api = rng.choice(["time_evolve", "time_evolve", "agu-taylor", "agu-cheb"])
        else:
            api = "time_evolve"
        desc["api"] = api
        try:
            before = U.wfn_dict(w)
            wrapper = case % 3 == 0          # every third case goes through the module-level wrappers of fqe
            if wrapper:
                ctx.count("via-module-wrapper")
            if api == "time_evolve":
                out = fqe.time_evolve(w, t, ham) if wrapper else w.time_evolve(t, ham)
            elif api == "agu-taylor":
                out = fqe.apply_generated_unitary(w, t, "taylor", ham, accuracy=1e-12, expansion=60) if wrapper else \
                    w.apply_generated_unitary(t, "taylor", ham, accuracy=1e-12, expansion=60)
            else:
                ev = numpy.linalg.eigvalsh(H)
                out = w.apply_generated_unitary(t, "chebyshev", ham, accuracy=1e-12, expansion=80,
                                                spec_lim=[float(ev.min()) - 0.1, float(ev.max()) + 0.1])
        except RuntimeError as exc:
            if "expansion limit reached" in str(exc):
                ctx.count("raised-not-converged")      # allowed outcome (C16): raise rather than return unconverged
                continue
            ctx.disagree(f"evolve-raises:{route}:{api}:RuntimeError", f"{api} raised RuntimeError: {exc}", desc)
            continue
        except Exception as exc:
            ctx.case(None)
            ctx.disagree(f"evolve-raises:{route}:{api}:{type(exc).__name__}", f"{api} raised {type(exc).__name__}: {exc}", desc)
            continue
        got = vec_of(out, dets)
        err = numpy.abs(got - want).max()
        # the evolved object must still be the same kind of wavefunction (it is the input of the next step)
        if (out.conserve_spin(), out.conserve_number()) != (w.conserve_spin(), w.conserve_number()):
            ctx.disagree("evolve:result-loses-broken-symmetry-flags",
                         f"{api} on a wavefunction with (conserve_spin, conserve_number) = {(w.conserve_spin(), w.conserve_number())} "
                         f"returned an object with {(out.conserve_spin(), out.conserve_number())}", desc)
        ctx.case(("evolve", case) if t != 0 else None, sample=desc if case < 7 else None)
        ctx.count(f"route:{route}")
        ctx.count(f"api:{api}")
        if U.wfn_dict(w) != before:
            ctx.disagree(f"evolve:input-changed:{route}", "out-of-place evolution changed its input", desc)
        if err > (1e-6 if api == "agu-cheb" else 1e-8):
            sig = f"evolve:{route}:{api}"
            if e0 != 0 and t != 0:
                # is the result right up to a scalar phase? then the scalar part is mis-accounted
                ov = numpy.vdot(want, got)
                if abs(abs(ov) - 1) < 1e-8 and numpy.abs(got - ov * want).max() < 1e-8:
                    sig = f"evolve:scalar-phase:{route}:{api}"
                else:
                    sig = f"evolve:{route}:{api}:e0"
            if route == "diagcoulomb" and not extra.get("vsym"):
                sig = "evolve:diagcoulomb:nonsymmetric-v"
            ctx.disagree(sig, f"distance to expm(-itH)psi = {err:.3e}", desc)
            continue
        n_in = float(numpy.linalg.norm(psi))
        if abs(numpy.linalg.norm(got) - n_in) > (1e-5 if api == "agu-cheb" else 1e-9) * max(1.0, n_in):
            ctx.disagree(f"evolve:norm:{route}", f"norm {numpy.linalg.norm(got)}, norm of the input {n_in}", desc)
        # route / in-place refusal vs the decision model (Model/Evolve.lean)
        if api == "time_evolve":
            from fqe.hamiltonians import sparse_hamiltonian
            sp = isinstance(ham, sparse_hamiltonian.SparseHamiltonian)
            info = [int(sp), int(sp and ham.is_individual()), int((not sp) and ham.quadratic()),
                    int((not sp) and ham.diagonal()), int((not sp) and ham.diagonal_coulomb())]
            mroute, mref, nsites = d.ask("route " + " ".join(map(str, info))).split()
            w3 = copy.deepcopy(w)
            try:
                w3.time_evolve(t, ham, inplace=True)
                refused = False
            except ValueError:
                refused = True
            ctx.case(("inplace-decision", case))
            ctx.count(f"model-route:{mroute}")
            if refused != (mref == "1"):
                ctx.disagree(f"evolve:inplace-decision:{route}", f"inplace refused={refused}, model route {mroute} refused={mref}", desc)
        # in place
        if api == "time_evolve" and route in ("diagonal", "quadratic", "diagcoulomb", "individual"):
            w2 = copy.deepcopy(w)
            try:
                out2 = w2.time_evolve(t, ham, inplace=True)
                if numpy.abs(vec_of(out2, dets) - got).max() > 1e-10:
                    ctx.disagree(f"evolve:inplace:{route}", "in-place result differs from out-of-place", desc)
                ctx.case(("inplace", case))
            except Exception as exc:
                ctx.disagree(f"evolve-inplace-raises:{route}:{type(exc).__name__}", str(exc), desc)
        # composition and inverse
        if api == "time_evolve":
            t2 = rng.choice([0.21, -0.4]) if abs(t) < 1 else -0.4
            try:
                step = out.time_evolve(t2, ham)
                direct = w.time_evolve(t + t2, ham)
                back = out.time_evolve(-t, ham)
                ctx.case(("compose", case))
                if numpy.abs(vec_of(step, dets) - vec_of(direct, dets)).max() > 1e-8:
                    ctx.disagree(f"evolve:compose:{route}", "t1 then t2 differs from t1+t2", desc)
                if numpy.abs(vec_of(back, dets) - psi).max() > 1e-8:
                    ctx.disagree(f"evolve:inverse:{route}", "-t does not undo t", desc)
            except RuntimeError as exc:
                if "expansion limit reached" in str(exc):
                    ctx.count("raised-not-converged")
                else:
                    ctx.disagree(f"evolve-compose-raises:{route}:RuntimeError", str(exc), desc)
            except Exception as exc:
                ctx.disagree(f"evolve-compose-raises:{route}:{type(exc).__name__}", str(exc), desc)
        else:
            # polynomial propagators: a second step with the *same Hamiltonian object* composes, and the exact route
            # with that object afterwards still gives exp(-itH) psi (the propagator must not leave its rescaled
            # generator behind in the caller's Hamiltonian)
            t2 = 0.21
            try:
                if api == "agu-taylor":
                    step = out.apply_generated_unitary(t2, "taylor", ham, accuracy=1e-12, expansion=60)
                else:
                    ev = numpy.linalg.eigvalsh(H)
                    step = out.apply_generated_unitary(t2, "chebyshev", ham, accuracy=1e-12, expansion=80,
                                                       spec_lim=[float(ev.min()) - 0.1, float(ev.max()) + 0.1])
                ctx.case(("compose-agu", case))
                tol2 = 1e-6 if api == "agu-cheb" else 1e-8
                if numpy.abs(vec_of(step, dets) - expm(-1j * (t + t2) * H) @ psi).max() > tol2 * max(1.0, float(numpy.linalg.norm(psi))):
                    ctx.disagree(f"evolve:compose:{route}:{api}", "a second step with the same Hamiltonian object differs from expm(-i(t1+t2)H) psi", desc)
                elif route in ("diagonal", "quadratic", "diagcoulomb", "quadratic-gso", "quadratic-sso", "quadratic-sb"):
                    again = w.time_evolve(t, ham)
                    if numpy.abs(vec_of(again, dets) - want).max() > 1e-8 * max(1.0, float(numpy.linalg.norm(psi))):
                        ctx.disagree(f"evolve:hamiltonian-changed-by-propagator:{route}:{api}",
                                     "time_evolve with the Hamiltonian object a polynomial propagator has used differs from expm(-itH) psi", desc)
            except RuntimeError as exc:
                if "expansion limit reached" in str(exc):
                    ctx.count("raised-not-converged")
                else:
                    ctx.disagree(f"evolve-compose-raises:{route}:RuntimeError", str(exc), desc)
            except Exception as exc:
                ctx.disagree(f"evolve-compose-raises:{route}:{type(exc).__name__}", str(exc), desc)


    # ---- quadratic route on a sector wider than the internal column batch (462 > 450) ------------------------
    from props.C12 import compound_expect
    for case in range(1 if quick else 6):
        norb, na, nb = rng.choice([(11, 1, 5), (11, 5, 1)])
        w = fqe.Wavefunction([[na + nb, na - nb, norb]])
        key = (na + nb, na - nb)
        dets = U.wfn_dets(w)
        sec = w.sector(key)
        astr = [int(x) for x in sec._core.string_alpha_all()]
        bstr = [int(x) for x in sec._core.string_beta_all()]
        data = numpy.zeros(sec.coeff.shape, dtype=numpy.complex128)
        for k in rng.sample(range(len(dets)), 3):
            a, b = dets[k]
            data[astr.index(a), bstr.index(b)] = complex(rng.randint(1, 3), rng.randint(-2, 2))
        w.set_wfn(strategy="from_data", raw_data={key: data})
        w.normalize()
        nr = numpy.random.RandomState(ctx.seed * 5 + case)
        A = nr.randn(norb, norb) + 1j * nr.randn(norb, norb)
        h1 = (A + A.conj().T) / 4
        e0, t = 0.3, 0.4
        ham = fqe.get_restricted_hamiltonian((h1,), e_0=e0)
        desc = {"route": "quadratic-wide", "norb": norb, "nalpha": na, "nbeta": nb, "t": t, "e0": e0, "case": case}
        try:
            out = w.time_evolve(t, ham)
        except Exception as exc:
            ctx.disagree(f"evolve-raises:quadratic-wide:{type(exc).__name__}", str(exc)[:200], desc)
            continue
        Umat = expm(-1j * t * h1)
        exp = compound_expect(norb, U.wfn_entries(w), Umat, Umat, dets)
        got = U.wfn_dict(out)
        worst = max(abs(got[k] - numpy.exp(-1j * t * e0) * exp[k]) for k in got)
        ctx.case(("evolve-wide", case))
        ctx.count("route:quadratic-wide")
        if worst > 1e-8:
            ctx.disagree("evolve:quadratic:wide-sector", f"distance to the free-fermion result = {worst:.3e} on a "
                         f"{len(astr)} x {len(bstr)} sector", desc)


def run_number_broken(ctx):
    """number-broken wavefunctions: exp(-i t H) for Hermitian Sz-conserving H with pairing terms (quadratic route through
    the orbital rotation of the beta-inverted state, Taylor route for quartic terms)"""
    fqe = ctx.fqe
    import props.C01 as C01
    from openfermion import FermionOperator, hermitian_conjugated, normal_ordered
    d, rng = ctx.driver, ctx.rng
    quick = ctx.tier == "quick"
    for case in range(12 if quick else 600):
        norb = rng.choice([2, 2, 3])
        sz = rng.randint(-norb + 1, norb - 1)
        w = fqe.get_spin_conserving_wavefunction(sz, norb)
        U.random_fill(w, rng)
        if w.norm() == 0:
            continue
        w.normalize()
        fam = ["pairing", "mixed", "hop", "quartic"][case % 4]
        op = FermionOperator()
        for _ in range(rng.randint(2, 4)):
            p, q, r_, t_ = (rng.randrange(norb) for _ in range(4))
            c = rng.choice([-1, 1, 2, -2]) * rng.choice([0.25, 0.5, 1.0]) * (1j if rng.random() < 0.3 else 1)
            if fam in ("pairing", "mixed"):
                op += FermionOperator(((2 * p, 1), (2 * q + 1, 1)), c)
            if fam in ("hop", "mixed"):
                op += FermionOperator(((2 * p, 1), (2 * q, 0)), c) + FermionOperator(((2 * r_ + 1, 1), (2 * t_ + 1, 0)), c.conjugate())
            if fam == "quartic":
                op += FermionOperator(((2 * p, 1), (2 * q + 1, 1), (2 * r_ + 1, 1), (2 * t_ + 1, 0)), c)
                op += FermionOperator(((2 * p, 1), (2 * q + 1, 1)), c / 2)
        op = op + hermitian_conjugated(op)
        nterms = len([t for t, c in normal_ordered(op).terms.items() if t and abs(c) > 0])
        if nterms < 3:
            continue            # the sparse route refuses number-changing strings (domain restriction, see C01)
        e0 = rng.choice([0.0, 0.0, 0.7])
        dets = U.wfn_dets(w)
        if len(dets) > 64:
            continue
        terms = U.fermionop_terms(op)
        H = hmatrix_nb(d, norb, dets, terms, e0)
        if numpy.abs(H - H.conj().T).max() > 1e-12:
            continue
        t = rng.choice([0.13, -0.31, 0.5])
        psi = vec_of(w, dets)
        want = expm(-1j * t * H) @ psi
        api = rng.choice(["time_evolve(op)", "time_evolve(ham)", "agu-taylor"]) if e0 == 0 else rng.choice(["time_evolve(ham)", "agu-taylor"])
        desc = {"route": "numberbroken:" + fam, "norb": norb, "sz": sz, "t": t, "e0": e0, "api": api, "case": case,
                "op": [[[list(f) for f in tt], [complex(c).real, complex(c).imag]] for tt, c in op.terms.items()]}
        try:
            before = U.wfn_dict(w)
            if api == "time_evolve(op)":
                out = w.time_evolve(t, op)
            else:
                ham = fqe.get_hamiltonian_from_openfermion(op, norb=norb, conserve_number=False, e_0=e0)
                out = w.time_evolve(t, ham) if api == "time_evolve(ham)" else \
                    w.apply_generated_unitary(t, "taylor", ham, accuracy=1e-12, expansion=60)
        except RuntimeError as exc:
            if "expansion limit reached" in str(exc):
                ctx.count("raised-not-converged")
                continue
            ctx.disagree(f"evolve-raises:numberbroken:{api}:RuntimeError", str(exc)[:200], desc)
            continue
        except Exception as exc:
            ctx.case(None)
            ctx.disagree(f"evolve-raises:numberbroken:{fam}:{api}:{type(exc).__name__}", f"{api} raised {type(exc).__name__}: {str(exc)[:200]}", desc)
            continue
        got = vec_of(out, dets)
        err = float(numpy.abs(got - want).max())
        ctx.case(("evolve-nb", case), sample={k: desc[k] for k in ("route", "norb", "sz", "api", "t")} if case < 3 else None)
        ctx.count(f"route:numberbroken:{fam}")
        ctx.count(f"api:{api}")
        if U.wfn_dict(w) != before:
            ctx.disagree("evolve:input-changed:numberbroken", "out-of-place evolution changed its input", desc)
        if err > 1e-8:
            sig = f"evolve:numberbroken:{fam}:{api}"
            if e0 != 0:
                ov = numpy.vdot(want, got)
                if abs(abs(ov) - 1) < 1e-8 and numpy.abs(got - ov * want).max() < 1e-8:
                    sig = f"evolve:scalar-phase:numberbroken:{api}"
            ctx.disagree(sig, f"distance to expm(-itH)psi = {err:.3e}", desc)


def replay(ctx, rep):
    run(ctx)
