"""C07 — qubit (Cirq) export/import.

 (a) to_cirq(psi) vs the Lean model of the export (Model/Cirq.lean: JW index, swap-count sign), exact;
 (b) intertwining: to_cirq(O psi) vs the Jordan-Wigner (= Spec) action of O on to_cirq(psi), projected on psi's
     sectors — the Spec side is Spec/Fock.lean `applyOpSpec` on the basis states decoded from the qubit indices;
 (c) from_cirq(to_cirq(psi)) == psi; from_cirq(v, thresh) creates exactly the sectors holding an amplitude
     >= thresh and fills them with v's amplitudes (model of the import = inverse of the export model);
 (d) norms / inner products preserved."""
import itertools
from fractions import Fraction

import numpy

import fqe_util as U
from lean_driver import fmt_vec, fmt_op


def decode_index(norb, idx):
    """cirq index -> (alpha mask, beta mask) for the Jordan-Wigner code"""
    nq = 2 * norb
    a = b = 0
    for m in range(nq):
        if idx >> (nq - 1 - m) & 1:
            if m % 2 == 0:
                a |= 1 << (m // 2)
            else:
                b |= 1 << (m // 2)
    return a, b


def model_export(d, norb, entries):
    t = d.ask(f"tocirq {norb} {fmt_vec(entries)}").split()
    n = int(t[0])
    out = {}
    for i in range(n):
        idx, re, im = t[1 + 3 * i:4 + 3 * i]
        out[int(idx)] = complex(float(Fraction(re)), float(Fraction(im)))
    return out


def run(ctx):
    fqe = ctx.fqe
    from openfermion import FermionOperator, hermitian_conjugated
    import props.C01 as C01
    d, rng = ctx.driver, ctx.rng
    quick = ctx.tier == "quick"
    ncases = 120 if quick else 1200
    for case in range(ncases):
        norb = rng.choice([1, 2, 2, 3] if quick else [1, 2, 2, 3, 3, 4])
        wk = rng.choice(["single", "multi", "multi", "spinbroken", "numberbroken"])
        w = C01.make_wfn(ctx, wk, norb, rng)
        entries = U.wfn_entries(w)
        desc = {"wfn": wk, "norb": norb, "sectors": sorted(w.sectors()), "case": case,
                "entries": [[a, b, [c.real, c.imag]] for a, b, c in entries]}
        nq = 2 * norb
        # (a) export vs model
        try:
            v = fqe.to_cirq(w)
        except Exception as exc:
            ctx.case(None)
            ctx.disagree(f"to_cirq-raises:{type(exc).__name__}", f"to_cirq raised {exc}", desc)
            continue
        want = model_export(d, norb, entries)
        ok = v.shape == (2 ** nq,) and all(v[i] == want.get(i, 0) for i in range(2 ** nq))
        nontriv = any(z.real < 0 or z.imag != 0 for z in want.values())
        ctx.case(("export", wk, norb, case) if nontriv else None,
                 sample={k: desc[k] for k in ("wfn", "norb", "sectors")} if nontriv else None)
        ctx.count(f"export:{wk}")
        if not ok:
            ctx.disagree("to_cirq:export-vs-model", "to_cirq differs from the model export (index or sign)", desc)
            continue
        # (d) isometry
        w2 = C01.make_wfn(ctx, "single", norb, rng) if False else None
        n_impl = numpy.vdot(v, v)
        n_wfn = sum(abs(c) ** 2 for _, _, c in entries)
        if abs(n_impl - n_wfn) > 1e-9 * max(1, n_wfn):
            ctx.disagree("to_cirq:norm", f"norm changed {n_wfn} -> {n_impl}", desc)
        # (c) round trip
        try:
            back = fqe.from_cirq(v, thresh=0.5)
            got = {k: z for k, z in U.wfn_dict(back).items() if z != 0}
            exp = {(a, b): c for a, b, c in entries}
            ctx.case(("roundtrip", wk, norb, case) if nontriv else None)
            if got != exp:
                ctx.disagree("from_cirq:roundtrip", "from_cirq(to_cirq(psi)) != psi", desc)
            secs_exp = set()
            for (a, b) in exp:
                na, nb = bin(a).count("1"), bin(b).count("1")
                secs_exp.add((na + nb, na - nb))
            if set(back.sectors()) != secs_exp:
                ctx.disagree("from_cirq:sector-set", f"sectors {sorted(back.sectors())} expected {sorted(secs_exp)}", desc)
        except Exception as exc:
            ctx.disagree(f"from_cirq-raises:{type(exc).__name__}", f"from_cirq raised {exc}", desc)
        # (c2) the in-place import `fqe.transform.from_cirq(target, vec)` into a wavefunction that already holds
        # amplitudes: afterwards the target is the projection of the vector on its sectors — its own export again
        # for vec = to_cirq(psi), and for a sparser vector the dropped determinants must read zero (nothing stale,
        # nothing accumulated)
        try:
            import copy as _copy
            from fqe.transform import from_cirq as from_cirq_inplace
            exp = {(a, b): c for a, b, c in entries}
            tgt = _copy.deepcopy(w)
            from_cirq_inplace(tgt, v)
            got = {k: z for k, z in U.wfn_dict(tgt).items() if z != 0}
            ctx.case(("inplace-self", wk, norb, case) if nontriv else None)
            ctx.count("import:inplace-self")
            if got != exp:
                ctx.disagree("from_cirq:inplace-prefilled", "transform.from_cirq(psi, to_cirq(psi)) != psi", desc)
            if len(entries) >= 2:
                drop = set(rng.sample(sorted(exp), max(1, len(exp) // 2)))
                v2 = v.copy()
                for i, z in want.items():
                    a, b = decode_index(norb, i)
                    if (a, b) in drop:
                        v2[i] = 0
                tgt = _copy.deepcopy(w)
                from_cirq_inplace(tgt, v2)
                got = {k: z for k, z in U.wfn_dict(tgt).items() if z != 0}
                exp2 = {k: z for k, z in exp.items() if k not in drop}
                ctx.case(("inplace-sparse", wk, norb, case))
                ctx.count("import:inplace-sparse")
                if got != exp2:
                    ctx.disagree("from_cirq:inplace-prefilled",
                                 f"transform.from_cirq into a pre-filled wavefunction: {len(set(got.items()) ^ set(exp2.items()))} "
                                 "determinants differ from the projection of the vector", dict(desc, dropped=sorted(drop)))
        except Exception as exc:
            ctx.disagree(f"from_cirq-inplace-raises:{type(exc).__name__}", f"transform.from_cirq raised {exc}", desc)
        # (b) intertwining with an operator
        if wk == "numberbroken":
            continue
        op = C01.random_fermionop(rng, norb, FermionOperator, conserve_spin=(wk != "spinbroken"),
                                  cplx=rng.random() < 0.5, nterms=rng.choice([1, 1, 2]))
        if len(op.terms) == 0:
            continue
        from openfermion import normal_ordered as _no
        if not [t for t, c in _no(op).terms.items() if t and abs(c) > 1e-12]:
            continue        # terms cancelling to a constant: the empty-operator finding of C01/C06, not an export matter
        try:
            ham = fqe.get_sparse_hamiltonian(op, conserve_spin=(wk != "spinbroken"))
            out = w.apply(ham)
            vout = fqe.to_cirq(out)
        except Exception as exc:
            ctx.count(f"intertwine-skipped:{type(exc).__name__}")
            continue
        terms = U.fermionop_terms(op)
        # JW action on the exported vector, through Spec (no iota): basis states decoded from indices
        jw_entries = [(*decode_index(norb, i), v[i]) for i in range(2 ** nq) if v[i] != 0]
        res = U.parse_vec(d.ask(f"applyspec {fmt_vec(jw_entries)} {fmt_op(terms)}"))
        dets = set(U.wfn_dets(w))
        bad = 0
        for i in range(2 ** nq):
            a, b = decode_index(norb, i)
            e = res.get((a, b), (0, 0)) if (a, b) in dets else (0, 0)
            if abs(vout[i] - complex(float(e[0]), float(e[1]))) > 1e-9:
                bad += 1
        ctx.case(("intertwine", wk, norb, case))
        ctx.count(f"intertwine:{wk}")
        if bad:
            ds = dict(desc)
            ds["op"] = [[[list(f) for f in t], [c.real, c.imag]] for t, c in op.terms.items()]
            # classification: does the operator connect sectors whose reversal signs differ?
            sig = "to_cirq:intertwine"
            if wk == "spinbroken":
                n = sorted(w.sectors())[0][0]
                if n % 2 == 0:
                    sig = "to_cirq:relative-sector-sign:spinbroken-even-N-sz-changing-operator"
            ctx.disagree(sig, f"to_cirq(O psi) != JW(O) to_cirq(psi) on {bad} amplitudes", ds)

    # ---- linear binary codes, several codes in one interpreter (accelerated path; the reference path ignores the
    #      argument — a recorded finding of C04) ---------------------------------------------------------------
    if ctx.path == "C":
        from openfermion import bravyi_kitaev_code, parity_code, jordan_wigner_code
        for case in range(4 if quick else 30):
            norb = rng.choice([2, 3])
            nq = 2 * norb
            wk = rng.choice(["single", "multi", "spinbroken"])
            w = C01.make_wfn(ctx, wk, norb, rng)
            entries = U.wfn_entries(w)
            order = [("bk", bravyi_kitaev_code(nq)), ("parity", parity_code(nq)), ("jw", jordan_wigner_code(nq)),
                     ("parity", parity_code(nq)), ("bk", bravyi_kitaev_code(nq))]
            rng.shuffle(order)
            for cname, code in order:
                enc = numpy.asarray(code.encoder.todense()) % 2
                cols = [int(sum(int(enc[q, m]) << (nq - 1 - q) for q in range(nq))) for m in range(nq)]
                t = d.ask(f"tocirq_code {norb} {' '.join(map(str, cols))} {fmt_vec(entries)}").split()
                want = {int(t[1 + 3 * i]): complex(float(Fraction(t[2 + 3 * i])), float(Fraction(t[3 + 3 * i]))) for i in range(int(t[0]))}
                desc = {"wfn": wk, "norb": norb, "code": cname, "sectors": sorted(w.sectors()), "sequence": [c for c, _ in order]}
                try:
                    v = fqe.to_cirq(w, binarycode=code)
                except Exception as exc:
                    ctx.disagree(f"to_cirq-code-raises:{type(exc).__name__}", str(exc)[:200], desc)
                    continue
                ctx.case(("code", case, cname))
                ctx.count(f"code:{cname}")
                if not all(v[i] == want.get(i, 0) for i in range(2 ** nq)):
                    ctx.disagree("to_cirq:binary-code", f"export under the {cname} code differs from the linear-code model "
                                 f"(codes used in this interpreter so far: {desc['sequence']})", desc)
                    continue
                try:
                    back = fqe.from_cirq(v, thresh=0.5, binarycode=code)
                    got = {k: z for k, z in U.wfn_dict(back).items() if z != 0}
                    if got != {(a, b): c for a, b, c in entries}:
                        ctx.disagree("from_cirq:binary-code-roundtrip", f"round trip under the {cname} code fails", desc)
                except Exception as exc:
                    ctx.disagree(f"from_cirq-code-raises:{type(exc).__name__}", str(exc)[:200], desc)
    # ---- import of arbitrary vectors: sector detection at the threshold ---------------------
    for case in range(40 if quick else 400):
        norb = rng.choice([1, 2, 2, 3])
        nq = 2 * norb
        vec = numpy.zeros(2 ** nq, dtype=numpy.complex128)
        k = rng.randint(1, min(6, 2 ** nq))
        for i in rng.sample(range(2 ** nq), k):
            vec[i] = rng.choice([3 + 4j, 5, 5j, 4 - 3j, 1, 2 + 1j, 0.5, 6])
        thresh = rng.choice([5.0, 1.0, 2.0, 0.75])
        # the same pattern at small overall scales (powers of two, so that magnitudes stay exact): the threshold is a
        # magnitude, whatever its size
        sc = rng.choice([1.0, 1.0, 2.0 ** -10, 2.0 ** -20, 2.0 ** -26])
        vec = vec * sc
        thresh = thresh * sc
        ctx.count(f"detect:scale=2^{int(round(numpy.log2(sc)))}")
        desc = {"norb": norb, "thresh": thresh, "vec": [[i, [z.real, z.imag]] for i, z in enumerate(vec) if z != 0]}
        exp_secs = set()
        for i, z in enumerate(vec):
            if z.real ** 2 + z.imag ** 2 >= thresh ** 2:
                a, b = decode_index(norb, i)
                na, nb = bin(a).count("1"), bin(b).count("1")
                exp_secs.add((na + nb, na - nb))
        if not exp_secs:
            continue
        try:
            wf = fqe.from_cirq(vec, thresh=thresh)
        except Exception as exc:
            ctx.case(None)
            ctx.disagree(f"from_cirq-raises:{type(exc).__name__}", f"from_cirq raised {exc}", desc)
            continue
        ctx.case(("detect", case))
        ctx.count("detect")
        if set(wf.sectors()) != exp_secs:
            ctx.disagree("from_cirq:sector-detection", f"sectors {sorted(wf.sectors())} expected {sorted(exp_secs)}", desc)
            continue
        # amplitudes: exporting the imported state gives the vector projected on the created sectors
        ents = U.wfn_entries(wf)
        want = model_export(d, norb, ents)
        proj = {}
        for i, z in enumerate(vec):
            a, b = decode_index(norb, i)
            na, nb = bin(a).count("1"), bin(b).count("1")
            if z != 0 and (na + nb, na - nb) in exp_secs:
                proj[i] = z
        if want != proj:
            differ = [i for i in set(want) | set(proj) if want.get(i, 0) != proj.get(i, 0)]
            if all(abs(proj.get(i, 0)) < 1e-8 * 2 ** bin(i).count("1") * (1 + 1e-9) and want.get(i, 0) == 0 for i in differ):
                # amplitudes below 1e-8 * 2^N (OpenFermion's EQ_TOLERANCE applied to the projection before it is
                # divided by 2^N) vanish on the reference path
                ctx.disagree("from_cirq:amplitudes-below-1e-8-dropped",
                             f"{len(differ)} amplitude(s) of magnitude < 1e-8 * 2^N in a created sector were imported as zero "
                             f"(threshold {thresh:g})", desc)
            else:
                ctx.disagree("from_cirq:amplitudes", "imported amplitudes differ from the vector on the created sectors", desc)


def replay(ctx, rep):
    run(ctx)
