"""C17 — low-rank / Givens / charge-charge helpers equal the named unitaries.

 * Givens: evolve_fqe_givens / _sector / _unrestricted vs Gamma(u) by exact minors (Lean Spec/Rotate.lean);
 * charge-charge helpers (unrestricted, alpha-beta, per-sector) and evolve_fqe_diagonal_coulomb vs the diagonal unitary
   exp(-i t sum v_pq n_p n_q) whose eigenvalue per determinant comes from the Spec action of sum v n n on that determinant;
 * double_factor_trotter_evolution = ordered product of those unitaries (built from the same Spec pieces);
 * LowRankTrotter: the factorisation data reassemble to the two-electron operator: a Trotter step built from
   prepare_trotter_sequence must approach exp(-i dt H) with an error of second order in dt (a mis-assembled operator
   gives a first-order error): err(dt/2) <= 0.35 err(dt)."""
import copy
import itertools

import numpy
from scipy.linalg import expm

import fqe_util as U
from lean_driver import fmt_vec
from props.C02 import hmatrix, vec_of
from props.C12 import rand_unitary, mode_matrix, spec_gamma


def diag_phase_expect(d, norb, w, terms, t):
    """exp(-i t D) psi for a diagonal operator given as terms: eigenvalue per determinant from Spec"""
    out = {}
    for (a, b), c in U.wfn_dict(w).items():
        col = U.spec_apply(d, norb, [(a, b, 1.0)], terms, 0)
        e = col.get((a, b), (0, 0))
        assert all(k == (a, b) for k in col), "operator is not diagonal"
        out[(a, b)] = c * numpy.exp(-1j * t * complex(float(e[0]), float(e[1])))
    return out


def close(w, exp, tol):
    got = U.wfn_dict(w)
    return max(abs(got[k] - exp.get(k, 0)) for k in got) <= tol


def run(ctx):
    fqe = ctx.fqe
    import props.C01 as C01
    from fqe.algorithm import low_rank
    from fqe.algorithm.low_rank_api import LowRankTrotter
    d, rng = ctx.driver, ctx.rng
    quick = ctx.tier == "quick"
    nr = numpy.random.RandomState(ctx.seed * 17 + 3)
    ncases = 90 if quick else 2400
    for case in range(ncases):
        norb = rng.choice([2, 2, 3])
        w = C01.make_wfn(ctx, rng.choice(["single", "multi"]), norb, rng)
        w.normalize()
        entries = U.wfn_entries(w)
        which = rng.choice(["givens", "givens-alpha", "givens-beta", "givens-unrestricted", "cc-unrestricted",
                            "cc-alpha-beta", "cc-sector", "diag-coulomb", "trotter"])
        desc = {"helper": which, "norb": norb, "sectors": sorted(w.sectors()), "case": case}
        try:
            if which.startswith("givens"):
                kind = rng.choice(["generic", "real", "permutation", "near-identity", "reflection", "signed-permutation"])
                desc["unitary"] = kind
                if which == "givens-unrestricted":
                    ww = C01.make_wfn(ctx, "spinbroken", norb, rng)
                    ww.normalize()
                    entries = U.wfn_entries(ww)
                    u = rand_unitary(nr, 2 * norb, kind)      # OpenFermion mode indexing
                    out = low_rank.evolve_fqe_givens_unrestricted(ww, u)
                    M = u
                else:
                    u = rand_unitary(nr, norb, kind)
                    # every other call hands the helper one and the same array object, overwritten in place since the
                    # previous call (a propagation loop reusing a buffer)
                    if case % 2 == 0:
                        buf = ctx.__dict__.setdefault("_c17_buffers", {}).setdefault(norb, numpy.zeros((norb, norb), dtype=numpy.complex128))
                        numpy.copyto(buf, u)
                        u = buf
                        desc["reused_buffer"] = True
                    full = numpy.eye(2 * norb, dtype=numpy.complex128)
                    if which in ("givens", "givens-alpha"):
                        full[:norb, :norb] = u
                    if which in ("givens", "givens-beta"):
                        full[norb:, norb:] = u
                    M = mode_matrix(full, norb)
                    if which == "givens":
                        out = low_rank.evolve_fqe_givens(w, u)
                    else:
                        out = low_rank.evolve_fqe_givens_sector(w, u, sector=which.split("-")[1])
                want = spec_gamma(d, norb, entries, M)
                bad = U.compare_wfn(out, want, tol=1e-7)
                ctx.case(("givens", case), sample=desc if case < 3 else None)
                ctx.count(f"helper:{which}")
                if bad:
                    ctx.disagree(f"helper:{which}", f"differs from Gamma(u) on {len(bad)} determinants, e.g. {bad[0]}", desc)
                continue
            t = rng.choice([0.3, 1.0, -0.7])
            sym = rng.random() < 0.6
            desc["vsym"] = sym
            shape_kind = rng.choice(["dense", "dense", "lower", "strictly-lower", "upper", "holed", "diagonal"])
            desc["vshape"] = shape_kind

            def shaped(v):
                if shape_kind == "lower":
                    return numpy.tril(v)
                if shape_kind == "strictly-lower":
                    return numpy.tril(v, -1)
                if shape_kind == "upper":
                    return numpy.triu(v)
                if shape_kind == "diagonal":
                    return numpy.diag(numpy.diag(v))
                if shape_kind == "holed":
                    return v * (nr.uniform(size=v.shape) < 0.6)
                return v
            if which == "cc-unrestricted":
                n = 2 * norb
                v = nr.randint(-2, 3, (n, n)).astype(float)
                if sym:
                    v = v + v.T
                else:
                    v = shaped(v)
                out = low_rank.evolve_fqe_charge_charge_unrestricted(w, v, t)
                terms = [(v[p, q], [(p, 1), (p, 0), (q, 1), (q, 0)]) for p in range(n) for q in range(n) if v[p, q] != 0]
            elif which == "cc-alpha-beta":
                v = shaped(nr.randint(-2, 3, (norb, norb)).astype(float))
                out = low_rank.evolve_fqe_charge_charge_alpha_beta(w, v, t)
                terms = [(v[p, q], [(2 * p, 1), (2 * p, 0), (2 * q + 1, 1), (2 * q + 1, 0)])
                         for p in range(norb) for q in range(norb) if v[p, q] != 0]
            elif which == "cc-sector":
                sg = rng.choice(["alpha", "beta"])
                s_ = 0 if sg == "alpha" else 1
                v = shaped(nr.randint(-2, 3, (norb, norb)).astype(float))
                out = low_rank.evolve_fqe_charge_charge_sector(w, v, sector=sg, time=t)
                terms = [(v[p, q], [(2 * p + s_, 1), (2 * p + s_, 0), (2 * q + s_, 1), (2 * q + s_, 0)])
                         for p in range(norb) for q in range(norb) if v[p, q] != 0]
            elif which == "diag-coulomb":
                v = nr.randint(-2, 3, (norb, norb)).astype(float)
                if sym:
                    v = v + v.T
                out = low_rank.evolve_fqe_diagonal_coulomb(w, v, t)
                terms = [(v[p, q], [(2 * p + sa, 1), (2 * p + sa, 0), (2 * q + sb, 1), (2 * q + sb, 0)])
                         for p in range(norb) for q in range(norb) for sa in (0, 1) for sb in (0, 1) if v[p, q] != 0]
            else:   # trotter: U1 then exp(-i dt V) then U2, each piece from Spec
                u0 = rand_unitary(nr, norb, "generic")
                u1 = rand_unitary(nr, norb, "real")
                v = nr.randint(-2, 3, (norb, norb)).astype(float)
                v = v + v.T
                out = low_rank.double_factor_trotter_evolution(w, [u0, u1], [v], t)
                full0 = numpy.zeros((2 * norb, 2 * norb), dtype=numpy.complex128)
                full0[:norb, :norb] = u0
                full0[norb:, norb:] = u0
                full1 = numpy.zeros_like(full0)
                full1[:norb, :norb] = u1
                full1[norb:, norb:] = u1
                s1 = spec_gamma(d, norb, entries, mode_matrix(full0, norb))
                mid = fqe.Wavefunction([[n, s, norb] for n, s in sorted(w.sectors())])
                data = {}
                for key in mid.sectors():
                    sec = mid.sector(key)
                    arr = numpy.zeros(sec.coeff.shape, dtype=numpy.complex128)
                    for i, a in enumerate(sec._core.string_alpha_all()):
                        for j, b in enumerate(sec._core.string_beta_all()):
                            e = s1.get((int(a), int(b)), (0, 0))
                            arr[i, j] = complex(float(e[0]), float(e[1]))
                    data[key] = arr
                mid.set_wfn(strategy="from_data", raw_data=data)
                terms = [(v[p, q], [(2 * p + sa, 1), (2 * p + sa, 0), (2 * q + sb, 1), (2 * q + sb, 0)])
                         for p in range(norb) for q in range(norb) for sa in (0, 1) for sb in (0, 1) if v[p, q] != 0]
                s2 = diag_phase_expect(d, norb, mid, terms, t)
                ents2 = [(a, b, c) for (a, b), c in s2.items() if c != 0]
                want = spec_gamma(d, norb, ents2, mode_matrix(full1, norb))
                bad = U.compare_wfn(out, want, tol=1e-7)
                ctx.case(("trotter", case))
                ctx.count("helper:trotter")
                if bad:
                    ctx.disagree("helper:trotter", f"Trotter step differs from the ordered product on {len(bad)} determinants", desc)
                continue
            exp = diag_phase_expect(d, norb, w, terms, t)
            ctx.case(("charge", case), sample=desc if case < 6 else None)
            ctx.count(f"helper:{which}")
            if not close(out, exp, 1e-9):
                sig = f"helper:{which}"
                if which == "diag-coulomb" and not sym:
                    sig = "evolve:diagcoulomb:nonsymmetric-v"
                ctx.disagree(sig, "differs from exp(-i t sum v n n)", desc)
        except Exception as exc:
            ctx.disagree(f"helper-raises:{which}:{type(exc).__name__}", str(exc)[:300], desc)
    # ---- LowRankTrotter reassembly: second-order convergence of one Trotter step --------------------
    for case in range(6 if quick else 30):
        norb = 2
        Ls = []
        nfac = [2, 1, 3][case % 3]            # number of factors of the two-electron tensor (a single one included)
        for _ in range(nfac):
            A = nr.randn(norb, norb)
            Ls.append((A + A.T) / 2)
        eri = sum(numpy.einsum("pq,rs->pqrs", L, L) for L in Ls)       # (pq|rs), 8-fold symmetric, PSD
        tei = numpy.asarray(eri.transpose(0, 2, 3, 1))                 # physics order used by MolecularData
        A = nr.randn(norb, norb)
        oei = (A + A.T) / 2
        terms = [(oei[p, q], [(2 * p + s, 1), (2 * q + s, 0)]) for p in range(norb) for q in range(norb) for s in (0, 1)]
        for p, q, r, s_ in itertools.product(range(norb), repeat=4):
            if tei[p, q, r, s_] != 0:
                for sa, sb in itertools.product((0, 1), repeat=2):
                    terms.append((0.5 * tei[p, q, r, s_], [(2 * p + sa, 1), (2 * q + sb, 1), (2 * r + sb, 0), (2 * s_ + sa, 0)]))
        w = fqe.Wavefunction([[2, 0, norb]])
        w.set_wfn(strategy="random")
        dets = U.wfn_dets(w)
        H = hmatrix(d, norb, dets, terms, 0.0)
        psi = vec_of(w, dets)
        # the factorisation data reassemble to the two-electron operator, on the spatial route (integrals as given)
        # and on the spin-orbital route (coefficient tensor of p^ q^ r s, which carries the 1/2 already):
        #   V = sum_l lambda_l (sum_PQ g_l[P,Q] P^ Q)^2 + sum_PQ c[P,Q] P^ Q
        try:
            two_body = [t for t in terms if len(t[1]) == 4]
            Vmat = hmatrix(d, norb, dets, two_body, 0.0)
            tei_so = numpy.zeros((2 * norb,) * 4)
            for p, q, r, s_ in itertools.product(range(norb), repeat=4):
                for sa, sb in itertools.product((0, 1), repeat=2):
                    tei_so[2 * p + sa, 2 * q + sb, 2 * r + sb, 2 * s_ + sa] = 0.5 * tei[p, q, r, s_]
            for route, lrt0 in (("spatial", LowRankTrotter(oei=oei, tei=tei)),
                                ("spin-orbital", LowRankTrotter(oei=oei, tei=tei_so, spin_basis=True))):
                lam, sq, corr = lrt0.first_factorization()
                R = numpy.zeros_like(Vmat)
                for l in range(len(lam)):
                    G = hmatrix(d, norb, dets, [(complex(sq[l][P, Q]), [(P, 1), (Q, 0)]) for P in range(2 * norb)
                                                for Q in range(2 * norb) if sq[l][P, Q] != 0], 0.0)
                    R = R + lam[l] * (G @ G)
                R = R + hmatrix(d, norb, dets, [(complex(corr[P, Q]), [(P, 1), (Q, 0)]) for P in range(2 * norb)
                                                for Q in range(2 * norb) if corr[P, Q] != 0], 0.0)
                ctx.case(("lowrank-first", case, route))
                ctx.count(f"lowrank-first-factorization:{route}")
                dev = float(numpy.abs(R - Vmat).max())
                if dev > 1e-7 * max(1.0, float(numpy.abs(Vmat).max())):
                    ctx.disagree(f"lowrank:first-factorization:{route}", f"eigenvalues, squares and one-body correction of "
                                 f"first_factorization ({route} route, {nfac} factors) reassemble to an operator that differs "
                                 f"from the two-electron operator by {dev:.3e}", {"case": case, "route": route, "nfac": nfac})
        except Exception as exc:
            ctx.disagree(f"lowrank-first-raises:{type(exc).__name__}", str(exc)[:300], {"case": case, "nfac": nfac})
        errs = []
        try:
            for dt in (0.02, 0.01):
                lrt = LowRankTrotter(oei=oei, tei=tei)
                basis_change, vijs = lrt.prepare_trotter_sequence(dt)
                out = low_rank.double_factor_trotter_evolution(w, basis_change, vijs, 1.0)
                errs.append(float(numpy.abs(vec_of(out, dets) - expm(-1j * dt * H) @ psi).max()))
        except Exception as exc:
            ctx.disagree(f"lowrank-raises:{type(exc).__name__}", str(exc)[:300], {"case": case, "nfac": nfac})
            continue
        ctx.case(("lowrank", case))
        ctx.count("lowrank-reassembly")
        if errs[1] > 0.35 * errs[0] + 1e-9 or errs[0] > 0.05:
            ctx.disagree("lowrank:reassembly", f"Trotter error not second order in dt: {errs} (a mis-assembled operator gives first order)",
                         {"case": case, "errors": errs})


def replay(ctx, rep):
    run(ctx)
