"""C11 — operations leave their inputs intact; results do not depend on call history.

Generated histories (30-60 steps) over a pool of wavefunctions, Hamiltonians, operators and raw tensors.  Before and
after every step a byte-level snapshot of EVERY live object (coefficient arrays, tensors, operator term tables, graph
string tables and maps) is taken:
  * out-of-place calls must leave every snapshot unchanged (frame, C11_frame_pure);
  * in-place calls may change only the named target (C11_frame_inplace);
  * a call recorded earlier is re-evaluated later in the history — after other calls on shared objects, after copies
    were mutated, after the code-path switch was flipped and restored — and must return the identical value
    (history independence, C11_history_independent);
  * copies evolve independently of their source.
The shadow model is the pool machine of Model/Pool.lean: each step is classified pure / in-place(target)."""
import copy
import hashlib

import numpy

import fqe_util as U


def h(b):
    return hashlib.sha1(b).hexdigest()[:12]


def nr_randn(nr, n):
    return 1j * nr.randn(n, n)


def snap_wfn(w):
    parts = []
    for key in sorted(w.sectors()):
        sec = w.sector(key)
        parts.append(repr(key).encode())
        parts.append(numpy.ascontiguousarray(sec.coeff).tobytes())
        core = sec._core
        parts.append(numpy.ascontiguousarray(core.string_alpha_all()).tobytes())
        parts.append(numpy.ascontiguousarray(core.string_beta_all()).tobytes())
        parts.append(numpy.ascontiguousarray(core._dexca).tobytes())
        for ij in sorted(core._alpha_map):
            parts.append(numpy.ascontiguousarray(core._alpha_map[ij]).tobytes())
    parts.append(repr((w.norb(), w._conserve_spin, w._conserve_number, sorted(w._conserved.items()))).encode())
    return h(b"|".join(parts))


def snap_ham(hm):
    parts = [type(hm).__name__.encode(), repr(complex(hm.e_0())).encode()]
    if hasattr(hm, "_operators"):
        parts.append(repr(hm._operators).encode())
    elif hasattr(hm, "_hdiag"):
        parts.append(numpy.ascontiguousarray(hm._hdiag).tobytes())
    else:
        t = hm._tensor if hasattr(hm, "_tensor") else {}
        for k in sorted(t):
            parts.append(numpy.ascontiguousarray(t[k]).tobytes())
    return h(b"|".join(parts))


def snap(obj):
    kind, val = obj
    if kind == "wfn":
        return snap_wfn(val)
    if kind == "ham":
        return snap_ham(val)
    if kind == "op":
        return h(repr(sorted(val.terms.items(), key=repr)).encode())
    if kind == "arr":
        return h(numpy.ascontiguousarray(val).tobytes() + repr(val.dtype).encode() + repr(val.shape).encode())
    raise ValueError(kind)


def value_digest(v):
    import fqe
    if isinstance(v, numpy.ndarray):
        return ("arr", numpy.round(v, 12).tobytes())
    if hasattr(v, "sectors"):
        return ("wfn", tuple((k, numpy.round(v.get_coeff(k), 12).tobytes()) for k in sorted(v.sectors())))
    if isinstance(v, (complex, float, int, numpy.number)):
        return ("num", complex(numpy.round(complex(v), 12)))
    if isinstance(v, tuple):
        return ("tuple", tuple(value_digest(x) for x in v))
    if hasattr(v, "e_0"):
        return ("ham", snap_ham(v))
    return ("other", repr(v))


def order_battery(fqe, seed, tier, reverse):
    """A fixed list of calls, each on freshly built objects from its own seed, executed in a seed-derived order (or
    its reverse).  Only module-level state survives from one call to the next, so the value of every call must be
    the same in both orders (and in a process that has executed nothing else)."""
    import random
    import fqe_util as U
    from openfermion import FermionOperator, hermitian_conjugated, bravyi_kitaev_code, parity_code, jordan_wigner_code
    calls = []
    shapes = [(2, 2, 0), (3, 2, 0), (3, 3, 1), (2, 1, 1)] if tier == "quick" else \
        [(2, 2, 0), (3, 2, 0), (3, 3, 1), (2, 1, 1), (4, 4, 0), (4, 3, 1), (3, 4, 0)]
    codes = {"jw": None, "bk": bravyi_kitaev_code, "parity": parity_code, "jwcode": jordan_wigner_code}

    def wf(norb, n, sz, tag):
        r = random.Random(f"{seed}-{norb}-{n}-{sz}-{tag}")
        w = fqe.Wavefunction([[n, sz, norb]])
        U.random_fill(w, r, zero_p=0.0)
        return w, r
    for (norb, n, sz) in shapes:
        for cname, cf in codes.items():
            def c_to(norb=norb, n=n, sz=sz, cf=cf):
                w, _ = wf(norb, n, sz, "cirq")
                return fqe.to_cirq(w, binarycode=None if cf is None else cf(2 * norb))
            calls.append((f"to_cirq:{norb}:{n}:{sz}:{cname}", c_to))

            def c_from(norb=norb, n=n, sz=sz, cf=cf):
                r = random.Random(f"{seed}-{norb}-state")
                st = numpy.array([complex(r.randint(-3, 3), r.randint(-3, 3)) for _ in range(4 ** norb)])
                w = fqe.from_cirq(st, 0.5, binarycode=None if cf is None else cf(2 * norb))
                return numpy.concatenate([numpy.asarray(w.get_coeff(k)).ravel() for k in sorted(w.sectors())] or [numpy.zeros(1)])
            calls.append((f"from_cirq:{norb}:{cname}", c_from))
        for pat in ("i^ j", "i j^", "i^ j^ k l", "i^ k j^ l"):
            def c_rdm(norb=norb, n=n, sz=sz, pat=pat):
                w, r = wf(norb, n, sz, "rdm")
                return numpy.asarray(w.rdm(pat))
            calls.append((f"rdm:{norb}:{n}:{sz}:{pat}", c_rdm))
        for hk in ("restricted", "diagonal", "sparse", "sparse3"):
            def c_ham(norb=norb, n=n, sz=sz, hk=hk):
                import props.C01 as C01
                w, r = wf(norb, n, sz, hk)
                if hk == "restricted":
                    ham = fqe.get_restricted_hamiltonian((C01.rand_tensor(r, norb, 1, 0.8, True), C01.rand_tensor(r, norb, 2, 0.3, True)), e_0=0.5)
                elif hk == "diagonal":
                    ham = fqe.get_diagonal_hamiltonian(numpy.array([float(r.randint(-2, 2)) for _ in range(norb)]))
                else:
                    op = C01.random_fermionop(r, norb, FermionOperator, True, True, 1 if hk == "sparse" else 3)
                    if not op.terms:
                        op = FermionOperator(((0, 1), (0, 0)), 1.0)
                    ham = fqe.get_sparse_hamiltonian(op)
                a = w.apply(ham)
                w.normalize()
                b = w.time_evolve(0.1, ham)
                key = (n, sz)
                return numpy.concatenate([a.get_coeff(key).ravel(), b.get_coeff(key).ravel(), [w.expectationValue(ham)]])
            calls.append((f"ham:{norb}:{n}:{sz}:{hk}", c_ham))
    order = list(range(len(calls)))
    random.Random(f"{seed}-order").shuffle(order)
    if reverse:
        order.reverse()
    out = {}
    for k in order:
        name, fn = calls[k]
        try:
            v = numpy.asarray(fn(), dtype=complex).ravel()
            out[name] = [[float(x.real), float(x.imag)] for x in v]
        except Exception as exc:
            out[name] = {"raise": type(exc).__name__}
    return out


def run(ctx):
    fqe = ctx.fqe
    import props.C01 as C01
    from openfermion import FermionOperator, hermitian_conjugated
    from fqe.hamiltonians import hamiltonian_utils
    rng = ctx.rng
    quick = ctx.tier == "quick"
    nhist = 12 if quick else 150
    for hi in range(nhist):
        norb = rng.choice([2, 2, 3])
        bkind = ["single", "multi", "numberbroken", "multi", "spinbroken", "single"][hi % 6]
        base = C01.make_wfn(ctx, bkind, norb, rng)
        pool = []

        def add(kind, val):
            pool.append((kind, val))
            return len(pool) - 1

        for _ in range(3):
            w = copy.deepcopy(base)
            U.random_fill(w, rng)
            add("wfn", w)
        h1 = C01.rand_tensor(rng, norb, 1, 0.8, True)
        h2 = C01.rand_tensor(rng, norb, 2, 0.2, True)
        add("arr", h1)
        add("arr", h2)
        makers = {}
        hd = numpy.array([float(rng.randint(-2, 2)) for _ in range(norb)])
        mk_r = (lambda a=h1.copy(), b=h2.copy(): fqe.get_restricted_hamiltonian((a.copy(), b.copy()), e_0=0.5))
        mk_d = (lambda a=hd.copy(): fqe.get_diagonal_hamiltonian(a.copy()))
        makers[add("ham", mk_r())] = mk_r
        makers[add("ham", mk_d())] = mk_d
        # a quadratic restricted Hamiltonian whose matrix is Hermitian only up to rounding (Q diag Q^dagger, as any
        # transformed one-body matrix is): the closed-form evolution must not write a cleaned-up matrix back
        nq_ = numpy.random.RandomState(rng.randrange(2 ** 31))
        qm, _ = numpy.linalg.qr(nq_.randn(norb, norb) + nr_randn(nq_, norb))
        hq = qm @ numpy.diag(nq_.uniform(-1.0, 1.0, norb)) @ qm.conj().T
        mk_q = (lambda a=hq.copy(): fqe.get_restricted_hamiltonian((a.copy(),), e_0=0.25))
        makers[add("ham", mk_q())] = mk_q
        # a diagonal-Coulomb Hamiltonian (closed-form route in time_evolve, rebuilt generator in the Taylor route)
        vdc = numpy.array([[float(rng.randint(-2, 2)) for _ in range(norb)] for _ in range(norb)]) / 2
        vdc = (vdc + vdc.T) / 2
        mk_c = (lambda a=vdc.copy(): fqe.get_diagonalcoulomb_hamiltonian(a.copy(), e_0=0.5))
        makers[add("ham", mk_c())] = mk_c
        op = C01.random_fermionop(rng, norb, FermionOperator, True, True, 2)
        if len(op.terms) == 0:
            op = FermionOperator(((0, 1), (0, 0)), 1.0)
        add("op", op)
        # operators that are already in normal order and carry a constant (a conversion must not consume it)
        add("op", FermionOperator(((2 % (2 * norb), 1), (0, 0)), 1.5) + FermionOperator((), 0.75))
        add("op", FermionOperator(((0, 1), (0, 0)), -0.5) + FermionOperator(((1, 1), (1, 0)), 0.25) + FermionOperator((), 1.25))
        se0 = rng.choice([0.0, 0.7])
        mk_s = (lambda o=copy.deepcopy(op), e=se0: fqe.get_sparse_hamiltonian(copy.deepcopy(o), e_0=e))
        makers[add("ham", mk_s())] = mk_s
        # a single hop + h.c. (the closed-form single-term evolution), with a scalar part
        hop = FermionOperator(((0, 1), (2, 0)), 1.0) + FermionOperator(((2, 1), (0, 0)), 1.0)
        mk_h = (lambda e=rng.choice([0.0, 0.5]): fqe.get_sparse_hamiltonian(copy.deepcopy(hop), e_0=e))
        makers[add("ham", mk_h())] = mk_h
        # a second, longer sparse Hamiltonian (not a single string): its propagation goes through iht()
        op3 = C01.random_fermionop(rng, norb, FermionOperator, True, True, 3)
        if len(op3.terms) >= 3:
            mk_s3 = (lambda o=copy.deepcopy(op3): fqe.get_sparse_hamiltonian(copy.deepcopy(o)))
            makers[add("ham", mk_s3())] = mk_s3
        h3 = C01.rand_tensor(rng, norb, 3, 0.01, False)
        add("arr", h3)
        opham = []
        if bkind == "numberbroken":
            # Sz-conserving, number-breaking quadratic operators (hopping + singlet-type pairing), used directly as
            # Hamiltonians: their propagation works on an internal beta-inverted copy of the wavefunction
            for _ in range(2):
                pop = FermionOperator()
                for p in range(norb):
                    for q in range(norb):
                        pop += FermionOperator(((2 * p, 1), (2 * q, 0)), complex(U.gint(rng)) / 4)
                        pop += FermionOperator(((2 * p + 1, 1), (2 * q + 1, 0)), complex(U.gint(rng)) / 4)
                        pop += FermionOperator(((2 * p, 1), (2 * q + 1, 1)), complex(U.gint(rng)) / 4)
                pop = (pop + hermitian_conjugated(pop)) * 0.5
                if len(pop.terms):
                    opham.append(add("op", pop))
        if bkind == "spinbroken":
            g1 = C01.rand_tensor(rng, 2 * norb, 1, 0.8, True)
            add("arr", g1)
            mk_g = (lambda a=g1.copy(): fqe.get_gso_hamiltonian((a.copy(),)))
            makers[add("ham", mk_g())] = mk_g
        recorded = []     # (description, thunk, digest)
        log = []
        nsteps = rng.randint(30, 60)
        for step in range(nsteps):
            wf = [i for i, (k, _) in enumerate(pool) if k == "wfn"]
            hams = [i for i, (k, _) in enumerate(pool) if k == "ham"] + opham * 3
            i, j, hm = rng.choice(wf), rng.choice(wf), rng.choice(hams)
            kind = rng.choice(["apply", "evolve", "chebyshev", "chebyshev-short", "expect", "rdm", "add", "sub", "cirq", "build", "iht", "copy-mutate",
                               "empty-copy", "antisymm", "inplace-scale", "inplace-axpy", "inplace-evolve", "flip-path",
                               "replay", "replay", "vdot"])
            before = [snap(o) for o in pool]
            target = None
            thunk = None
            try:
                if kind == "apply":
                    thunk = (lambda a=pool[i][1], b=pool[hm][1]: a.apply(b))
                elif kind == "evolve":
                    cname_ = type(pool[hm][1]).__name__
                    if (cname_ == "RestrictedHamiltonian" and not pool[hm][1].quadratic()) or \
                            (cname_ == "DiagonalCoulomb" and rng.random() < 0.6):
                        thunk = (lambda a=pool[i][1], b=pool[hm][1]: a.apply_generated_unitary(0.01, "taylor", b, accuracy=1e-10))
                    else:
                        thunk = (lambda a=pool[i][1], b=pool[hm][1]: a.time_evolve(0.1, b))
                elif kind in ("chebyshev", "chebyshev-short"):
                    # the Chebyshev propagator (a rarely used keyword route); with a short expansion it ends in the
                    # documented RuntimeError - the Hamiltonian it was given must be intact either way
                    if pool[hm][0] != "ham":
                        continue
                    lim = 3 if kind == "chebyshev-short" else 60
                    thunk = (lambda a=pool[i][1], b=pool[hm][1], n=lim: a.apply_generated_unitary(
                        0.9, "chebyshev", b, accuracy=1e-10, expansion=n, spec_lim=[-13.0, 11.0]))
                elif kind == "expect":
                    thunk = (lambda a=pool[i][1], b=pool[hm][1], c=pool[j][1]: a.expectationValue(b, brawfn=c))
                elif kind == "rdm":
                    pat = rng.choice(["i^ j", "i j^", "i^ j^ k l"])
                    thunk = (lambda a=pool[i][1], c=pool[j][1], p=pat: a.rdm(p, brawfn=c))
                elif kind == "add":
                    thunk = (lambda a=pool[i][1], c=pool[j][1]: a + c)
                elif kind == "sub":
                    thunk = (lambda a=pool[i][1], c=pool[j][1]: a - c)
                elif kind == "vdot":
                    thunk = (lambda a=pool[i][1], c=pool[j][1]: fqe.vdot(a, c))
                elif kind == "cirq":
                    thunk = (lambda a=pool[i][1]: fqe.to_cirq(a))
                elif kind == "build":
                    ops = [x for x in range(len(pool)) if pool[x][0] == "op"]
                    route = rng.choice(["from_openfermion", "sparse", "apply"])
                    if route == "from_openfermion":
                        thunk = (lambda o=pool[rng.choice(ops)][1], n=norb: fqe.get_hamiltonian_from_openfermion(o, norb=n))
                    elif route == "sparse":
                        thunk = (lambda o=pool[rng.choice(ops)][1]: fqe.get_sparse_hamiltonian(o))
                    else:
                        thunk = (lambda a=pool[i][1], o=pool[rng.choice(ops)][1]: a.apply(o))
                elif kind == "iht":
                    if pool[hm][0] != "ham":
                        continue
                    thunk = (lambda b=pool[hm][1]: b.iht(0.3))
                elif kind == "antisymm":
                    arrs = [x for x in range(len(pool)) if pool[x][0] == "arr" and pool[x][1].ndim == 6]
                    if not arrs:
                        continue
                    thunk = (lambda a=pool[arrs[0]][1]: hamiltonian_utils.antisymm_three_body(a))
                elif kind == "copy-mutate":
                    c = copy.deepcopy(pool[i][1])
                    c.scale(2.0)
                    c[U.wfn_dets(c)[0]] = 7.5
                    if rng.random() < 0.5:
                        add("wfn", c)
                elif kind == "empty-copy":
                    e = pool[i][1].empty_copy()
                    e.set_wfn(strategy="ones")
                    if rng.random() < 0.3:
                        add("wfn", e)
                elif kind == "inplace-scale":
                    target = i
                    pool[i][1].scale(complex(U.gint(rng, zero_p=0) or 1))
                elif kind == "inplace-axpy":
                    target = i
                    if i != j:
                        pool[i][1].ax_plus_y(2.0, pool[j][1])
                elif kind == "inplace-evolve":
                    dh = [x for x in hams if type(pool[x][1]).__name__ == "Diagonal"]
                    if dh:
                        target = i
                        pool[i][1].time_evolve(0.2, pool[dh[0]][1], inplace=True)
                elif kind == "flip-path":
                    # flip the module-level switch, do some work on the other setting, restore
                    old = fqe.settings.use_accelerated_code
                    fqe.settings.use_accelerated_code = not old
                    try:
                        pool[i][1].apply(pool[hm][1])
                        pool[i][1].rdm("i^ j")
                    finally:
                        fqe.settings.use_accelerated_code = old
                elif kind == "replay" and recorded:
                    desc0, th0, dig0 = rng.choice(recorded)
                    val = th0()
                    ctx.case(("replay", hi, step))
                    ctx.count("replayed-calls")
                    if value_digest(val) != dig0:
                        ctx.disagree(f"history:{desc0}", f"the same call on unchanged arguments returned a different value "
                                     f"later in the history (step {step})", {"history": log, "norb": norb})
                if thunk is not None:
                    val = thunk()
                    # results of out-of-place calls join the pool now and then: a later in-place operation on them must not
                    # reach the operands they were computed from (shared sector objects)
                    if kind in ("apply", "evolve", "add", "sub") and hasattr(val, "sectors") and rng.random() < 0.35 \
                            and set(val.sectors()) == set(pool[i][1].sectors()):
                        add("wfn", val)
                    # only calls whose arguments are never mutated later can be replayed: freeze by copying
                    frozen = None
                    if kind in ("apply", "expect", "rdm", "add", "cirq", "vdot", "iht", "evolve"):
                        args = thunk.__defaults__
                        # wavefunctions are copied; Hamiltonians are rebuilt from their source data, so that the frozen
                        # call never sees state accumulated in the pooled object by earlier calls
                        fresh = {id(pool[x][1]): makers[x] for x in makers if x < len(pool)}
                        cargs = tuple(copy.deepcopy(a) if hasattr(a, "sectors") else
                                      (fresh[id(a)]() if id(a) in fresh else a) for a in args)
                        th = thunk
                        frozen = (lambda th=th, cargs=cargs: th(*cargs))
                        recorded.append((kind, frozen, value_digest(frozen())))
                        if value_digest(val) != recorded[-1][2]:
                            ctx.disagree(f"history:copy-vs-original:{kind}", "a deep copy of the arguments gives a different value",
                                         {"history": log, "norb": norb})
            except Exception as exc:
                ctx.count(f"raised:{kind}:{type(exc).__name__}")
                log.append({"step": step, "op": kind, "raised": type(exc).__name__})
                # a call that fails leaves its arguments intact just the same (in-place variants excepted)
                if target is None:
                    after = [snap(o) for o in pool[:len(before)]]
                    bad = [x for x in range(len(before)) if before[x] != after[x]]
                    if bad:
                        who = [(x, pool[x][0]) for x in bad]
                        ctx.disagree(f"frame:{kind}:after-exception", f"step {step} ({kind}) raised {type(exc).__name__} and left objects "
                                     f"{who} changed", {"history": log, "norb": norb, "changed": who})
                        break
                continue
            log.append({"step": step, "op": kind, "i": i, "j": j, "ham": hm})
            after = [snap(o) for o in pool[:len(before)]]
            changed = [x for x in range(len(before)) if before[x] != after[x]]
            ctx.case(("step", hi, step), sample=log[-1] if hi == 0 and step < 3 else None)
            ctx.count(f"op:{kind}")
            ctx.count(f"pool:{bkind}")
            allowed = {target} if target is not None else set()
            bad = [x for x in changed if x not in allowed]
            if bad:
                who = [(x, pool[x][0]) for x in bad]
                sig = f"frame:{kind}"
                ctx.disagree(sig, f"step {step} ({kind}) changed objects {who} it was not entitled to change",
                             {"history": log, "norb": norb, "changed": who})
                break


    # ---- objects constructed while the code-path switch had the other value ----------------------
    # (FqeData captures _low_thresh at construction; the value returned by a call must not depend on that history)
    for case in range(3 if quick else 12):
        norb, na, nb = rng.choice([(7, 2, 0), (7, 2, 1), (8, 2, 2), (7, 1, 2)])
        old = fqe.settings.use_accelerated_code

        def build(flag):
            fqe.settings.use_accelerated_code = flag
            try:
                ket = fqe.Wavefunction([[na + nb, na - nb, norb]])
                bra = fqe.Wavefunction([[na + nb, na - nb, norb]])
            finally:
                fqe.settings.use_accelerated_code = old
            return ket, bra
        k1, b1 = build(old)
        k2, b2 = build(not old)
        r = numpy.random.RandomState(rng.randrange(10 ** 6))
        data_k = {(na + nb, na - nb): r.randint(-3, 4, k1.get_coeff((na + nb, na - nb)).shape).astype(numpy.complex128)}
        data_b = {(na + nb, na - nb): r.randint(-3, 4, k1.get_coeff((na + nb, na - nb)).shape).astype(numpy.complex128)}
        for w, dd in ((k1, data_k), (k2, data_k), (b1, data_b), (b2, data_b)):
            w.set_wfn(strategy="from_data", raw_data={k: v.copy() for k, v in dd.items()})
        for pat in ("i^ j", "i^ j^ k l"):
            try:
                v1 = numpy.asarray(k1.rdm(pat, brawfn=b1))
                v2 = numpy.asarray(k2.rdm(pat, brawfn=b2))
                ctx.case(("built-under-other-path", case, pat))
                ctx.count("built-under-other-path")
                if numpy.abs(v1 - v2).max() > 1e-9:
                    ctx.disagree("history:object-built-under-other-code-path",
                                 f"rdm('{pat}', brawfn) differs by {numpy.abs(v1 - v2).max():.3g} between objects built "
                                 f"under the two switch settings (norb={norb}, nalpha={na}, nbeta={nb})",
                                 {"norb": norb, "nalpha": na, "nbeta": nb, "pattern": pat})
            except Exception as exc:
                ctx.disagree(f"history:other-path-raises:{type(exc).__name__}", str(exc), {"norb": norb})


    # ---- the same calls executed in the opposite order by another process ------------------------------------
    import json
    import os
    import subprocess
    import sys
    here = os.path.dirname(os.path.dirname(os.path.abspath(__file__)))
    mine = order_battery(fqe, ctx.seed, ctx.tier, False)
    code = ("import sys, json; sys.path.insert(0, %r); from fqe_env import load_fqe; "
            "fqe = load_fqe(%r, %r); import props.C11 as C11; "
            "print('@@B@@' + json.dumps(C11.order_battery(fqe, %d, %r, True)))") % (here, ctx.src, ctx.path, ctx.seed, ctx.tier)
    r = subprocess.run([sys.executable, "-c", code], stdout=subprocess.PIPE, stderr=subprocess.PIPE, text=True, cwd=here)
    line = [l for l in r.stdout.splitlines() if l.startswith("@@B@@")]
    if not line:
        ctx.disagree("history:order-battery-failed", r.stderr[-1500:], {"kind": "order-battery"})
        return
    other = json.loads(line[0][5:])
    for name in sorted(mine):
        a, b = mine[name], other.get(name)
        fam = name.split(":")[0]
        ctx.case(("order", name))
        ctx.count(f"order-independent:{fam}")
        if isinstance(a, dict) or isinstance(b, dict):
            if a != b:
                ctx.disagree(f"history:order:{fam}:exception-differs", f"{name}: {a if isinstance(a, dict) else 'value'} in one call "
                             f"order, {b if isinstance(b, dict) else 'value'} in the reverse order", {"call": name})
            continue
        va, vb = numpy.array(a), numpy.array(b)
        if va.shape != vb.shape or numpy.abs(va - vb).max() > 1e-10 * max(1.0, numpy.abs(va).max()):
            ctx.disagree(f"history:order:{fam}", f"{name}: the value depends on which calls were executed before it in the "
                         f"process (forward vs reversed order of the same call list)", {"call": name})


def replay(ctx, rep):
    run(ctx)
