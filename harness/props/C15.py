"""C15 — save / read.

 * round trip into a new object: sectors, coefficients (bitwise), norb, symmetry flags; same later behaviour
   (a fixed battery: apply of an operator, norm, to_cirq);
 * crash points: the saved file truncated at EVERY byte offset must make read() raise and leave the receiver's
   snapshot unchanged (exhaustive per file) — this validates the prefix-reader law assumed of pickle
   (Props/C15.lean C15_prefix) on the real byte streams;
 * sampled single-bit corruptions: read() raises or yields the identical state;
 * location: chdir histories between import, save and read, with and without an explicit path."""
import copy
import os
import shutil
import tempfile

import numpy

import fqe_util as U


def snapshot(w):
    return (w.norb(), w._conserve_spin, w._conserve_number, dict(w._conserved), dict(w._symmetry_map),
            {k: w.get_coeff(k).tobytes() for k in sorted(w.sectors())},
            {k: w.get_coeff(k).shape for k in sorted(w.sectors())})


def safe_snapshot(w):
    try:
        return snapshot(w)
    except Exception as exc:           # the object no longer holds together
        return ("corrupt", type(exc).__name__)


def run(ctx):
    fqe = ctx.fqe
    import props.C01 as C01
    from openfermion import FermionOperator
    rng = ctx.rng
    quick = ctx.tier == "quick"
    root = tempfile.mkdtemp(prefix="fqeverif-c15-")
    home = os.getcwd()
    try:
        nfiles = 6 if quick else 40
        for case in range(nfiles):
            norb = rng.choice([1, 2, 2, 3])
            wk = rng.choice(["single", "multi", "spinbroken", "numberbroken"])
            w = C01.make_wfn(ctx, wk, norb, rng)
            if case % 3 == 1:
                # nearly real coefficients: a real vector times per-determinant phases exp(-i 1e-6 E_k) (a very short
                # diagonal time step) - the imaginary parts are tiny but they are part of the state
                for k_ in w.sectors():
                    c_ = numpy.real(w.get_coeff(k_)) + 1.0
                    ph = numpy.exp(-1j * 1e-6 * (numpy.arange(c_.size).reshape(c_.shape) + 1))
                    w.set_wfn(strategy="from_data", raw_data={k_: (c_ * ph).astype(numpy.complex128)}) if len(list(w.sectors())) == 1 else \
                        w.sector(k_).set_wfn(strategy="from_data", raw_data=(c_ * ph).astype(numpy.complex128))
                ctx.count("nearly-real-coefficients")
            desc = {"wfn": wk, "norb": norb, "sectors": sorted(w.sectors()), "case": case}
            d1 = os.path.join(root, f"a{case}")
            os.makedirs(d1)
            w.save("wfn.bin", path=d1)
            fpath = os.path.join(d1, "wfn.bin")
            if not os.path.exists(fpath):
                ctx.disagree("persist:explicit-path", "file not written to the named directory", desc)
                continue
            # ---- round trip
            r = fqe.wavefunction.Wavefunction()
            r.read("wfn.bin", path=d1)
            ctx.case(("roundtrip", case), sample=desc if case < 2 else None)
            ctx.count("roundtrip")
            if snapshot(r) != snapshot(w):
                ctx.disagree("persist:roundtrip", "reloaded wavefunction differs from the saved one", desc)
            else:
                # same later behaviour
                try:
                    if wk != "numberbroken":
                        op = C01.random_fermionop(rng, norb, FermionOperator, conserve_spin=(wk != "spinbroken"),
                                                  cplx=True, nterms=2)
                        if len(op.terms):
                            ham = fqe.get_sparse_hamiltonian(op, conserve_spin=(wk != "spinbroken"))
                            if snapshot(r.apply(ham)) != snapshot(w.apply(ham)):
                                ctx.disagree("persist:later-behaviour", "apply differs after reload", desc)
                    if not numpy.array_equal(fqe.to_cirq(r), fqe.to_cirq(w)) or r.norm() != w.norm():
                        ctx.disagree("persist:later-behaviour", "to_cirq/norm differ after reload", desc)
                except Exception as exc:
                    ctx.disagree("persist:later-behaviour", f"battery raised {type(exc).__name__}: {exc}", desc)
            # ---- truncation at every byte
            blob = open(fpath, "rb").read()
            recv = C01.make_wfn(ctx, "single", norb, rng)
            before = snapshot(recv)
            bad_off = None
            offsets = range(len(blob)) if (quick and len(blob) < 4000) or not quick else \
                sorted(set(list(range(0, len(blob), 7)) + list(range(max(0, len(blob) - 300), len(blob)))))
            for off in offsets:
                with open(os.path.join(d1, "cut.bin"), "wb") as fh:
                    fh.write(blob[:off])
                try:
                    recv.read("cut.bin", path=d1)
                    raised = False
                except Exception:
                    raised = True
                ctx.case(("truncate", case, off))
                if not raised or snapshot(recv) != before:
                    bad_off = off
                    break
            ctx.count("truncation-offsets", len(offsets))
            if bad_off is not None:
                ctx.disagree("persist:truncated-file-accepted",
                             f"file cut at byte {bad_off} of {len(blob)}: read() did not raise or changed the receiver",
                             {**desc, "offset": bad_off, "size": len(blob)})
            # ---- unreadable files: damaged protocol header / STOP opcode (bit flips elsewhere can turn a length or
            # an array shape into a gigabyte-sized request or into a different but well-formed number, which is not
            # what "cut short or otherwise unreadable" speaks about)
            for pos in (0, 1, len(blob) - 1):
                for bit in range(8):
                    mod = bytearray(blob)
                    mod[pos] ^= 1 << bit
                    with open(os.path.join(d1, "flip.bin"), "wb") as fh:
                        fh.write(bytes(mod))
                    before2 = snapshot(recv)
                    try:
                        recv.read("flip.bin", path=d1)
                        loaded = True
                    except BaseException:
                        loaded = False
                    ctx.case(("flip", case, pos, bit))
                    ctx.count("damaged-loaded" if loaded else "damaged-refused")
                    if loaded and pos != 1:
                        ctx.disagree("persist:damaged-file-accepted",
                                     f"file with bit {bit} of byte {pos} flipped was accepted", {**desc, "pos": pos, "bit": bit})
                        recv = C01.make_wfn(ctx, "single", norb, rng)
                    elif not loaded and snapshot(recv) != before2:
                        ctx.disagree("persist:receiver-changed-by-failed-read", "receiver changed although read() raised", desc)
            # ---- location
            d2 = os.path.join(root, f"b{case}")
            d3 = os.path.join(root, f"c{case}")
            os.makedirs(d2)
            os.makedirs(d3)
            os.chdir(d2)
            w.save("here.bin")
            where = [dd for dd in (d1, d2, d3, home) if os.path.exists(os.path.join(dd, "here.bin"))]
            ctx.case(("location-save", case))
            ctx.count("location")
            if where != [d2]:
                ctx.disagree("persist:location-save", f"save() without path wrote to {where}, cwd at call was {d2}", desc)
                for dd in where:
                    os.remove(os.path.join(dd, "here.bin"))
            else:
                os.chdir(d3)
                shutil.copy(os.path.join(d2, "here.bin"), os.path.join(d3, "there.bin"))
                r3 = fqe.wavefunction.Wavefunction()
                try:
                    r3.read("there.bin")
                    ok = snapshot(r3) == snapshot(w)
                except Exception:
                    ok = False
                ctx.case(("location-read", case))
                if not ok:
                    ctx.disagree("persist:location-read", f"read() without path did not read from the cwd at call {d3}", desc)
            os.chdir(home)
        # ---- several files read in one process: objects loaded earlier stay what they were, whatever is loaded later
        #      (same sector signatures on purpose), and loaded objects are independent of each other ----------------------
        for case in range(3 if quick else 20):
            norb = rng.choice([2, 3])
            wk = rng.choice(["single", "multi", "spinbroken"])
            base = C01.make_wfn(ctx, wk, norb, rng)
            dd = os.path.join(root, f"m{case}")
            os.makedirs(dd)
            originals, loaded = [], []
            for k in range(3):
                wv = copy.deepcopy(base)
                U.random_fill(wv, rng, zero_p=0.0)
                wv.save(f"f{k}.bin", path=dd)
                originals.append(snapshot(wv))
            desc = {"wfn": wk, "norb": norb, "sectors": sorted(base.sectors()), "case": case}
            for k in (0, 1, 2, 0):
                r_ = fqe.wavefunction.Wavefunction()
                r_.read(f"f{k}.bin", path=dd)
                loaded.append((k, r_))
                ctx.case(("multi-read", case, len(loaded)))
                ctx.count("multi-read")
                for k0, obj in loaded:
                    if snapshot(obj) != originals[k0]:
                        ctx.disagree("persist:earlier-object-changed-by-later-read",
                                     f"the object read from f{k0}.bin no longer equals that file after {len(loaded)} reads in the process",
                                     desc)
                        break
            # mutate the last loaded object: the others must not follow
            loaded[-1][1].scale(3.0)
            for k0, obj in loaded[:-1]:
                if snapshot(obj) != originals[k0]:
                    ctx.disagree("persist:loaded-objects-share-data", "scaling one loaded object changed another one", desc)
                    break
        # ---- files that decode but are not a wavefunction archive, read into a live receiver: refused, receiver
        #      untouched; and a proper archive read into a receiver that already holds other sectors: afterwards the
        #      receiver *is* the saved wavefunction --------------------------------------------------------------------
        import pickle as _pickle
        dn = os.path.join(root, "foreign")
        os.makedirs(dn)
        src_w = C01.make_wfn(ctx, "multi", 3, rng)
        src_w.save("good.bin", path=dn)
        good = _pickle.load(open(os.path.join(dn, "good.bin"), "rb"))
        foreign = {"list2": [1, 2], "int": 7, "dict": {"a": 1}, "none": None, "str": "wavefunction",
                   "five-scalars": [1, 2, 3, 4, 5], "header-then-junk": list(good[:5]) + [[(2, 0), "not a sector"]],
                   "header-then-number": list(good[:5]) + [3.5], "short-header": list(good[:3])}
        for name, obj in foreign.items():
            with open(os.path.join(dn, name + ".bin"), "wb") as fh:
                _pickle.dump(obj, fh)
            recv = C01.make_wfn(ctx, "single", 2, rng)
            before = snapshot(recv)
            try:
                recv.read(name + ".bin", path=dn)
                oc = "accepted"
            except Exception as exc:
                oc = type(exc).__name__
            ctx.case(("foreign-archive", name))
            ctx.count(f"foreign-archive:{'refused' if oc != 'accepted' else 'accepted'}")
            if oc == "accepted" and name not in ("five-scalars",):
                ctx.disagree("persist:foreign-file-accepted", f"read() accepted a pickled {name} as a wavefunction", {"file": name})
            elif oc != "accepted" and safe_snapshot(recv) != before:
                ctx.disagree("persist:foreign-file-partial-update", f"read() of a pickled {name} raised {oc} after the receiver "
                             "had been modified", {"file": name})
        recv = C01.make_wfn(ctx, "multi", 3, rng)
        recv.read("good.bin", path=dn)
        ctx.case(("read-into-used-receiver",))
        ctx.count("read-into-used-receiver")
        if snapshot(recv) != snapshot(src_w):
            ctx.disagree("persist:used-receiver", f"after reading into a receiver that held sectors {sorted(recv.sectors())} the object "
                         f"differs from the saved wavefunction (sectors {sorted(src_w.sectors())})", {})
    finally:
        os.chdir(home)
        shutil.rmtree(root, ignore_errors=True)


def replay(ctx, rep):
    run(ctx)
