"""C06 — operator expression -> Hamiltonian object preserves meaning.

For random Hermitian FermionOperator polynomials (arbitrary factor order, duplicates, identity terms) and
tensor tuples: the object returned by build_hamiltonian / get_hamiltonian_from_openfermion is applied to random
wavefunctions and compared with the Spec action of the *source expression* (Lean driver, exact rationals);
its self-description (class, rank, dim, flags, e_0, iht data) is checked for truthfulness."""
import itertools
from fractions import Fraction

import numpy

import fqe_util as U


def shuffle_term(rng, t, c):
    """reorder the factors of a term randomly, tracking the sign for swaps of different modes and never
    swapping two operators of the same mode (keeps the operator identical)"""
    t = list(t)
    for _ in range(len(t) * 2):
        i = rng.randrange(len(t) - 1) if len(t) > 1 else None
        if i is None:
            break
        if t[i][0] != t[i + 1][0]:
            t[i], t[i + 1] = t[i + 1], t[i]
            c = -c
    return tuple(t), c


def family_op(ctx, rng, norb, fam, FermionOperator, hermitian_conjugated):
    op = FermionOperator()
    nso = 2 * norb

    def add(t, c):
        nonlocal op
        term = FermionOperator(tuple(t), c)
        op += term + hermitian_conjugated(term)

    if fam == "diagonal":
        for p in rng.sample(range(nso), rng.randint(2, nso)):
            op += FermionOperator(((p, 1), (p, 0)), rng.randint(-3, 3) or 1)
    elif fam == "restricted1":
        for _ in range(rng.randint(2, 4)):
            i, j = rng.randrange(norb), rng.randrange(norb)
            c = U.gint(rng, zero_p=0) or 1
            for s in (0, 1):
                add([(2 * i + s, 1), (2 * j + s, 0)], c)
    elif fam == "gso1-zero-sum":
        # spin-conserving hopping plus two spin-flip terms with opposite coefficients: the alpha-beta block of the one-body
        # matrix is not zero but its entries sum to zero
        for _ in range(rng.randint(1, 3)):
            i, j, s_ = rng.randrange(norb), rng.randrange(norb), rng.randrange(2)
            add([(2 * i + s_, 1), (2 * j + s_, 0)], U.gint(rng, zero_p=0) or 1)
        if norb > 1:
            pairs = [(2 * a_, 2 * b_ + 1) for a_ in range(norb) for b_ in range(norb)]
            (p1, q1), (p2, q2) = rng.sample(pairs, 2)
            cfl = float(rng.choice([1, 2, 3]))
            add([(p1, 1), (q1, 0)], cfl)
            add([(p2, 1), (q2, 0)], -cfl)
        else:
            add([(0, 1), (1, 0)], 2)
    elif fam == "nearly-restricted":
        # one-body operator whose beta block differs from the alpha block by a relative 1e-6 .. 1e-5: not the same
        # operator as the spin-restricted one
        eps = rng.choice([1e-6, 4e-6, 9e-6])
        for _ in range(rng.randint(2, 4)):
            i, j = rng.randrange(norb), rng.randrange(norb)
            c = float((U.gint(rng, zero_p=0) or 1).real) or 1.0
            add([(2 * i, 1), (2 * j, 0)], c)
            add([(2 * i + 1, 1), (2 * j + 1, 0)], c * (1 + eps))
        if norb > 1:
            add([(0, 1), (2, 0)], 1.0)
            add([(1, 1), (3, 0)], 1.0 + eps)
    elif fam == "sso1":
        for _ in range(rng.randint(2, 4)):
            i, j, s = rng.randrange(norb), rng.randrange(norb), rng.randrange(2)
            add([(2 * i + s, 1), (2 * j + s, 0)], U.gint(rng, zero_p=0) or 1)
    elif fam == "gso1":
        for _ in range(rng.randint(2, 4)):
            p, q = rng.randrange(nso), rng.randrange(nso)
            add([(p, 1), (q, 0)], U.gint(rng, zero_p=0) or 1)
        p, q = rng.randrange(norb) * 2, rng.randrange(norb) * 2 + 1
        add([(p, 1), (q, 0)], 2)
        if norb > 1 and rng.random() < 0.6:
            # a second spin-flip term with the opposite coefficient: the alpha-beta block of the one-body matrix then
            # sums to zero although it is not zero
            p2, q2 = rng.randrange(norb) * 2, rng.randrange(norb) * 2 + 1
            if (p2, q2) != (p, q):
                add([(p2, 1), (q2, 0)], -2)
    elif fam == "diagcoulomb":
        for _ in range(rng.randint(2, 4)):
            p, q = rng.sample(range(nso), 2) if nso > 1 else (0, 0)
            op += FermionOperator(((p, 1), (p, 0), (q, 1), (q, 0)), float(rng.randint(-3, 3) or 2))
    elif fam == "mixed":
        for _ in range(rng.randint(2, 4)):
            r = rng.choice([1, 2, 2, 3]) if norb > 1 else 1
            cre = rng.sample(range(nso), min(r, nso))
            na = sum(1 for m in cre if m % 2 == 0)
            if na > norb or len(cre) - na > norb:
                continue
            ann = rng.sample([m for m in range(nso) if m % 2 == 0], na) + \
                rng.sample([m for m in range(nso) if m % 2 == 1], len(cre) - na)
            rng.shuffle(ann)
            add([(m, 1) for m in cre] + [(m, 0) for m in ann], U.gint(rng, zero_p=0) or 1)
    elif fam == "few":
        r = rng.choice([1, 2])
        cre = rng.sample(range(nso), min(r, nso))
        na = sum(1 for m in cre if m % 2 == 0)
        if na <= norb and len(cre) - na <= norb:
            ann = rng.sample([m for m in range(nso) if m % 2 == 0], na) + \
                rng.sample([m for m in range(nso) if m % 2 == 1], len(cre) - na)
            add([(m, 1) for m in cre] + [(m, 0) for m in ann], U.gint(rng, zero_p=0) or 1)
    # identity term and arbitrary factor order (not normal ordered)
    if rng.random() < 0.4:
        op += FermionOperator((), float(rng.randint(-2, 2)))
    out = FermionOperator()
    for t, c in op.terms.items():
        if rng.random() < 0.5 and len(t) > 1:
            t, c = shuffle_term(rng, t, c)
        out += FermionOperator(t, c)
    return out


def run(ctx):
    fqe = ctx.fqe
    import props.C01 as C01
    from openfermion import FermionOperator, hermitian_conjugated, normal_ordered
    from fqe.hamiltonians import (diagonal_hamiltonian, diagonal_coulomb, restricted_hamiltonian,
                                  sso_hamiltonian, gso_hamiltonian, general_hamiltonian, sparse_hamiltonian)
    d, rng = ctx.driver, ctx.rng
    quick = ctx.tier == "quick"
    fams = ["diagonal", "restricted1", "sso1", "gso1", "diagcoulomb", "mixed", "mixed", "few", "nearly-restricted", "gso1-zero-sum"]
    ncases = 96 if quick else 6000
    for case in range(ncases):
        fam = fams[case % len(fams)]
        norb = rng.choice([1, 2, 2, 3]) if fam != "diagcoulomb" else rng.choice([2, 2, 3])
        op = family_op(ctx, rng, norb, fam, FermionOperator, hermitian_conjugated)
        e0_arg = rng.choice([0, 0, 1.5])
        desc = {"family": fam, "norb": norb, "case": case, "e0_arg": e0_arg,
                "op": [[[list(f) for f in t], [complex(c).real, complex(c).imag]] for t, c in op.terms.items()]}
        nop = normal_ordered(op)
        nonconst = [t for t, c in nop.terms.items() if len(t) > 0 and abs(c) > 0]
        if not nonconst:
            sig_empty = True
        else:
            sig_empty = False
        try:
            ham = fqe.get_hamiltonian_from_openfermion(op, norb=norb, conserve_number=True, e_0=e0_arg)
        except Exception as exc:
            ctx.case(None)
            ctx.count(f"build-raises:{fam}:{type(exc).__name__}")
            sig = f"build-raises:{fam}:{type(exc).__name__}"
            if sig_empty:
                sig = "build:operator-normal-orders-to-constant:raises"
            ctx.disagree(sig, f"build_hamiltonian raised {type(exc).__name__}: {exc}", desc)
            continue
        cls = type(ham).__name__
        desc["class"] = cls
        ctx.count(f"class:{cls}")
        # ---- self description
        try:
            ranks = {len(t) for t in nonconst}
            ident = complex(nop.terms.get((), 0.0))
            problems = []
            if abs(complex(ham.e_0()) - (ident + e0_arg)) > 1e-12:
                problems.append(f"e_0 {ham.e_0()} != identity coefficient {ident} + {e0_arg}")
            if not isinstance(ham, sparse_hamiltonian.SparseHamiltonian) and nonconst:
                # (an operator that normal-orders to a constant is returned as a zero Diagonal Hamiltonian carrying
                # e_0: rank and quadratic() then describe the class, not a term)
                if ham.quadratic() != (ranks <= {2}):
                    problems.append(f"quadratic() = {ham.quadratic()} but term ranks are {sorted(ranks)}")
                if ham.rank() != (max(ranks) if ranks else 0) and not isinstance(ham, diagonal_coulomb.DiagonalCoulomb):
                    problems.append(f"rank() = {ham.rank()} but term ranks are {sorted(ranks)}")
                if ham.diagonal() and not all(sorted(m for m, dg in t if dg) == sorted(m for m, dg in t if not dg) for t in nonconst):
                    problems.append("diagonal() claimed for a non-diagonal operator")
            if not ham.conserve_number():
                problems.append("conserve_number() false for a number-conserving request")
            if problems:
                ctx.disagree(f"describe:{cls}", "; ".join(problems), desc)
        except Exception as exc:
            ctx.disagree(f"describe-raises:{cls}:{type(exc).__name__}", str(exc), desc)
        # ---- action vs the source expression
        terms = U.fermionop_terms(op)
        for rep in range(2):
            # Sz-changing expressions need a spin-complete (spin-broken) wavefunction; anything else is refused
            wk = rng.choice(["single", "multi"]) if fam not in ("gso1", "gso1-zero-sum") else "spinbroken"
            w = C01.make_wfn(ctx, wk, norb, rng)
            entries = U.wfn_entries(w)
            want = U.spec_apply(d, norb, entries, terms, e0_arg)
            try:
                out = w.apply(ham)
            except Exception as exc:
                ctx.case(None)
                sig = f"apply-raises:{cls}:{wk}:{type(exc).__name__}"
                if cls == "DiagonalCoulomb":
                    sig = "build:diagonal-coulomb-from-rank4-operator-has-dimension-2norb"
                if sig_empty:
                    sig = "build:operator-normal-orders-to-constant"
                ctx.disagree(sig, f"apply raised {type(exc).__name__}: {exc}", {**desc, "wfn": wk, "sectors": sorted(w.sectors())})
                continue
            bad = U.compare_wfn(out, want, tol=1e-9)
            nontriv = any(v[0] < 0 or v[1] != 0 for v in want.values())
            ctx.case(("apply", case, rep) if nontriv else None,
                     sample={k: desc[k] for k in ("family", "norb", "class")} if case < 4 and rep == 0 else None)
            ctx.count(f"apply:{fam}")
            if bad:
                sig = f"meaning:{cls}:{fam}"
                if cls == "DiagonalCoulomb":
                    sig = "build:diagonal-coulomb-from-rank4-operator-has-dimension-2norb"
                if sig_empty:
                    sig = "build:operator-normal-orders-to-constant"
                ctx.disagree(sig, f"{cls} built from the expression acts differently from the expression "
                             f"({len(bad)} dets, e.g. {bad[0]})", {**desc, "wfn": wk, "sectors": sorted(w.sectors())})
        # ---- the source expression survives the conversion, and converting the same object again (also when it is
        # already in normal order and carries a constant) gives the same Hamiltonian
        try:
            import copy as _copy
            for src_kind in ("as-given", "normal-ordered+constant"):
                src = _copy.deepcopy(op) if src_kind == "as-given" else normal_ordered(op) + FermionOperator((), 0.75)
                if not any(len(t_) > 0 and abs(c_) > 0 for t_, c_ in normal_ordered(src).terms.items()):
                    continue
                snap = {t_: complex(c_) for t_, c_ in src.terms.items()}
                ident_s = complex(normal_ordered(src).terms.get((), 0.0))
                terms_s = U.fermionop_terms(src)
                for route in ("from_openfermion", "sparse"):
                    for conv in range(2):
                        if route == "sparse":
                            h2 = fqe.get_sparse_hamiltonian(src, conserve_spin=(fam not in ("gso1", "gso1-zero-sum")), e_0=e0_arg)
                        else:
                            h2 = fqe.get_hamiltonian_from_openfermion(src, norb=norb, conserve_number=True, e_0=e0_arg)
                        ctx.case(("reconvert", case, src_kind, route, conv))
                        ctx.count(f"reconvert:{route}")
                        now = {t_: complex(c_) for t_, c_ in src.terms.items()}
                        dsc = {**desc, "source": src_kind, "route": route, "conversion": conv + 1,
                               "src": [[[list(f) for f in t_], [c_.real, c_.imag]] for t_, c_ in snap.items()]}
                        if now != snap:
                            ctx.disagree(f"reconvert:source-modified:{route}",
                                         f"the caller's FermionOperator was modified by conversion #{conv + 1}: "
                                         f"lost {sorted(set(snap) - set(now))[:3]} changed {[k for k in now if k in snap and now[k] != snap[k]][:3]}", dsc)
                            break
                        if abs(complex(h2.e_0()) - (ident_s + e0_arg)) > 1e-12:
                            ctx.disagree(f"reconvert:e_0:{route}", f"conversion #{conv + 1} of the same operator object has "
                                         f"e_0 = {h2.e_0()}, expected {ident_s + e0_arg}", dsc)
                            break
                        if conv == 1 and type(h2).__name__ != "DiagonalCoulomb":
                            wk = "single" if fam not in ("gso1", "gso1-zero-sum") else "spinbroken"
                            w = C01.make_wfn(ctx, wk, norb, rng)
                            want = U.spec_apply(d, norb, U.wfn_entries(w), terms_s, e0_arg)
                            bad = U.compare_wfn(w.apply(h2), want, tol=1e-9)
                            if bad:
                                ctx.disagree(f"reconvert:meaning:{route}", f"the second conversion of the same operator object acts "
                                             f"differently from the expression ({len(bad)} dets)", dsc)
        except Exception as exc:
            if not sig_empty and cls != "DiagonalCoulomb":
                ctx.disagree(f"reconvert-raises:{type(exc).__name__}", str(exc)[:300], desc)
        # ---- propagation data
        try:
            t = 0.25
            if hasattr(ham, "tensors") and not isinstance(ham, (sparse_hamiltonian.SparseHamiltonian,)):
                iht = ham.iht(t)
                if isinstance(iht, tuple):
                    src = ham.tensors() if not isinstance(ham, (diagonal_hamiltonian.Diagonal, diagonal_coulomb.DiagonalCoulomb)) else None
                    if src is not None:
                        ok = len(iht) == len(src) and all(numpy.allclose(a, -1j * t * b) for a, b in zip(iht, src))
                        ctx.case(("iht", case))
                        if not ok:
                            ctx.disagree(f"iht:{cls}", "iht(t) is not -i t times the tensors", desc)
        except Exception as exc:
            ctx.disagree(f"iht-raises:{cls}:{type(exc).__name__}", str(exc), desc)
        # ---- sparse form of the same expression: term list, term splitting and -i t H data, on an object that
        #      has already been used (applied above / here) as well as on a fresh one
        if fam in ("gso1", "gso1-zero-sum"):
            continue
        try:
            t = 0.25
            for used in (False, True):
                sh = ham if (used and cls == "SparseHamiltonian") else fqe.get_sparse_hamiltonian(op, conserve_spin=True, e_0=e0_arg)
                if used and sh is not ham:
                    w = C01.make_wfn(ctx, "single", norb, rng)
                    w.apply(sh)
                    w.expectationValue(sh)

                def flat(tl):
                    return [(complex(c), [tuple(map(int, x)) for x in a], [tuple(map(int, x)) for x in b]) for c, a, b in tl]
                base = flat(sh.terms())
                split = [x for h in sh.terms_hamiltonian() for x in flat(h.terms())]
                ih = sh.iht(t)
                ihb = flat(ih.terms())
                ihs = [x for h in ih.terms_hamiltonian() for x in flat(h.terms())]
                problems = []
                if split != base:
                    problems.append("terms_hamiltonian() does not list the terms of terms()")
                if len(ihb) != len(base) or any(abs(a[0] - (-1j * t) * b[0]) > 1e-12 or a[1:] != b[1:] for a, b in zip(ihb, base)):
                    problems.append("iht(t).terms() is not -i t times terms()")
                if ihs != ihb:
                    problems.append("iht(t).terms_hamiltonian() does not list the terms of iht(t).terms()")
                # (the scalar is applied as a phase by the propagators, so iht(t).e_0() is 0 by design: C02 checks it once)
                ctx.case(("sparse-iht", case, used) if base else None)
                ctx.count(f"sparse-iht:{'used' if used else 'fresh'}")
                if problems:
                    ctx.disagree(f"iht:SparseHamiltonian:{'used' if used else 'fresh'}", "; ".join(problems), desc)
        except Exception as exc:
            ctx.disagree(f"sparse-iht-raises:{type(exc).__name__}", str(exc)[:300], desc)

    # ---- reverse_bubble_list vs the Lean model (Model/Hamil.lean bubbleDesc, proved sign-correct) ----
    from fqe.util import reverse_bubble_list
    for case in range(60 if quick else 600):
        n = rng.randint(0, 7)
        keys = [rng.randint(0, 5) for _ in range(n)]
        arr = [[k, idx] for idx, k in enumerate(keys)]
        swaps = reverse_bubble_list(arr)
        t = d.ask(f"bubble {n} {' '.join(map(str, keys))}".strip()).split()
        m_swaps, m_sorted = int(t[0]), [int(x) for x in t[2:]]
        ctx.case(("bubble", tuple(keys)) if n > 1 else None)
        ctx.count("bubble")
        if swaps != m_swaps or [a[0] for a in arr] != m_sorted:
            ctx.disagree("bubble:reverse_bubble_list", f"reverse_bubble_list({keys}) = {swaps} swaps, {[a[0] for a in arr]}; "
                         f"model {m_swaps}, {m_sorted}", {"keys": keys})
    # ---- molecular integral import: OpenFermion physics-ordered integrals -> RestrictedHamiltonian --------------
    from fqe import openfermion_utils as ofu
    import types
    for case in range(6 if quick else 60):
        norb = rng.choice([2, 2, 3])
        h1 = C01.rand_tensor(rng, norb, 1, 0.8, False)
        h1 = h1 + h1.T
        h2 = numpy.zeros((norb,) * 4)
        for _ in range(6):
            p, q, r_, s_ = (rng.randrange(norb) for _ in range(4))
            z = float(rng.choice([-2, 2, 4]))
            for (a, b, c, e) in ((p, q, r_, s_), (q, p, s_, r_), (s_, r_, q, p), (r_, s_, p, q)):
                h2[a, b, c, e] += z                  # <pq|rs> = <qp|sr> = <sr|qp> = <rs|pq> (real integrals)
        # H = sum h1[p,q] p^ q + 1/2 sum h2[p,q,r,s] p^(s1) q^(s2) r(s2) s(s1)   (OpenFermion InteractionOperator form)
        terms = [(complex(h1[p, q]), [(2 * p + sg, 1), (2 * q + sg, 0)]) for p in range(norb) for q in range(norb)
                 for sg in (0, 1) if h1[p, q] != 0]
        terms += [(0.5 * h2[p, q, r_, s_], [(2 * p + s1, 1), (2 * q + s2, 1), (2 * r_ + s2, 0), (2 * s_ + s1, 0)])
                  for p, q, r_, s_ in itertools.product(range(norb), repeat=4) for s1 in (0, 1) for s2 in (0, 1)
                  if h2[p, q, r_, s_] != 0]
        desc = {"norb": norb, "case": case, "h1": h1.tolist(), "h2_nonzero": int(numpy.count_nonzero(h2))}
        for route in ("integrals_to_fqe_restricted", "molecular_data_to_restricted_fqe_op"):
            try:
                if route == "integrals_to_fqe_restricted":
                    ham = ofu.integrals_to_fqe_restricted(h1.copy(), h2.copy())
                else:
                    mol = types.SimpleNamespace(one_body_integrals=h1.copy(), two_body_integrals=h2.copy())
                    ham = ofu.molecular_data_to_restricted_fqe_op(mol)
                w = C01.make_wfn(ctx, rng.choice(["single", "multi"]), norb, rng)
                out = w.apply(ham)
            except Exception as exc:
                ctx.disagree(f"integrals-raises:{route}:{type(exc).__name__}", str(exc)[:300], desc)
                continue
            want = U.spec_apply(d, norb, U.wfn_entries(w), terms, 0)
            bad = U.compare_wfn(out, want, tol=1e-9)
            ctx.case(("integrals", case, route))
            ctx.count(f"integrals:{route}")
            if bad:
                ctx.disagree(f"meaning:integrals:{route}", f"the Hamiltonian built from the integrals acts differently from "
                             f"sum h1 p^ q + 1/2 sum h2 p^ q^ r s on {len(bad)} determinants, e.g. {bad[0]}", desc)
    # ---- tensor tuples ---------------------------------------------------------------------------
    # ---- operators given as strings (SparseHamiltonian(str), get_sparse_hamiltonian(str)): any operator order ----
    for case in range(24 if quick else 300):
        norb = rng.choice([2, 3])
        nso = 2 * norb
        r_ = rng.choice([1, 1, 2])
        cre = [rng.randrange(nso) for _ in range(r_)]
        na_ = sum(1 for m in cre if m % 2 == 0)
        ann = [rng.choice([m for m in range(nso) if m % 2 == 0]) for _ in range(na_)] + \
            [rng.choice([m for m in range(nso) if m % 2 == 1]) for _ in range(r_ - na_)]
        term = [(m, 1) for m in cre] + [(m, 0) for m in ann]
        rng.shuffle(term)
        string = " ".join(f"{m}^" if dg else str(m) for m, dg in term)
        desc = {"string": string, "norb": norb, "case": case}
        w = C01.make_wfn(ctx, "single", norb, rng)
        ents = U.wfn_entries(w)
        want = U.spec_apply(d, norb, ents, [(1.0, term)], 0.0)
        for route in ("get_sparse_hamiltonian", "SparseHamiltonian"):
            try:
                hs = fqe.get_sparse_hamiltonian(string) if route == "get_sparse_hamiltonian" else sparse_hamiltonian.SparseHamiltonian(string)
                out = w.apply(hs)
            except Exception as exc:
                ctx.count(f"string-op-raises:{type(exc).__name__}")
                continue
            ctx.case(("string-op", case, route))
            ctx.count("string-operator")
            bad = U.compare_wfn(out, want, tol=1e-9)
            if bad:
                ctx.disagree("meaning:string-operator", f"{route}('{string}') acts differently from the operator string "
                             f"({len(bad)} dets, e.g. {bad[0]})", desc)
    from fqe.fqe_decorators import build_hamiltonian
    for case in range(12 if quick else 100):
        norb = rng.choice([2, 3])
        dim = rng.choice([norb, 2 * norb])
        h1 = C01.rand_tensor(rng, dim, 1, 0.6, True)
        try:
            ham = build_hamiltonian((h1,), norb=norb)
            want_cls = "RestrictedHamiltonian" if dim == norb else "General"
            ctx.case(("tuple", case))
            ctx.count("tuple")
            if type(ham).__name__ != want_cls or ham.dim() != dim:
                ctx.disagree("tuple:class", f"tuple of dim {dim} (norb {norb}) -> {type(ham).__name__} dim {ham.dim()}",
                             {"norb": norb, "dim": dim})
        except Exception as exc:
            ctx.disagree(f"tuple-raises:{type(exc).__name__}", str(exc), {"norb": norb, "dim": dim})
    # ---- propagation data of one-body objects of every dense class: the matrix calc_diag_transform() returns is
    #      unitary and transform() of it is the diagonal matrix of the eigenvalues of the (complex Hermitian) tensor -------
    for case in range(16 if quick else 160):
        norb = rng.choice([2, 3])
        cname = rng.choice(["restricted", "gso", "sso", "general", "tuple"])
        dim = norb if cname == "restricted" else 2 * norb
        nr_ = numpy.random.RandomState(ctx.seed * 101 + case)
        A = nr_.randn(dim, dim) + 1j * nr_.randn(dim, dim)
        if case % 4 == 0:
            A = A.real
        h1 = (A + A.conj().T) / 2
        if cname == "sso":
            h1[:norb, norb:] = 0
            h1[norb:, :norb] = 0
        dsc = {"class": cname, "norb": norb, "real": bool(case % 4 == 0), "case": case}
        try:
            ham = {"restricted": lambda: fqe.get_restricted_hamiltonian((h1,)), "gso": lambda: fqe.get_gso_hamiltonian((h1,)),
                   "sso": lambda: fqe.get_sso_hamiltonian((h1,)), "general": lambda: fqe.get_general_hamiltonian((h1,)),
                   "tuple": lambda: build_hamiltonian((h1,), norb=norb)}[cname]()
            before = numpy.array(ham.tensor(2), copy=True)
            tr = ham.calc_diag_transform()
            dg = ham.transform(tr)
            ctx.case(("diag-transform", case))
            ctx.count(f"diag-transform:{cname}")
            ev = numpy.linalg.eigvalsh(h1)
            if numpy.abs(tr.conj().T @ tr - numpy.eye(dim)).max() > 1e-10:
                ctx.disagree(f"propagation-data:diag-transform-not-unitary:{cname}", "calc_diag_transform() is not unitary", dsc)
            elif numpy.abs(dg - numpy.diag(numpy.diag(dg))).max() > 1e-9 or \
                    numpy.abs(numpy.sort(numpy.real(numpy.diag(dg))) - ev).max() > 1e-9 or numpy.abs(numpy.imag(numpy.diag(dg))).max() > 1e-9:
                ctx.disagree(f"propagation-data:transform:{cname}",
                             "transform(calc_diag_transform()) is not the diagonal matrix of the eigenvalues of the one-body tensor", dsc)
            if not numpy.array_equal(before, ham.tensor(2)):
                ctx.disagree(f"propagation-data:tensor-changed:{cname}", "calc_diag_transform / transform changed the tensor of the object", dsc)
        except Exception as exc:
            ctx.disagree(f"propagation-data-raises:{cname}:{type(exc).__name__}", str(exc)[:160], dsc)


def replay(ctx, rep):
    run(ctx)
