"""C09 — symmetry sectors and operators.

 A. the full box of constructor arguments (nele, m_s, norb) including impossible ones: accept/reject, sector
    keys and shapes vs Model/Sectors.lean (and vs the arithmetic definition of the promised sector sets);
 B. N, Sz, S^2 expectation / transition values vs Spec (operator written out in ladder operators, exact);
    time reversal vs the model (sign (-1)^(nb(na+1)), conjugation, alpha<->beta);
 C. <N>, <Sz>, <S^2> unchanged by time evolution under a spin-free Hamiltonian."""
import itertools
from fractions import Fraction
from math import comb

import numpy

import fqe_util as U
from lean_driver import fmt_vec, fmt_op, parse_c


def s2_terms(norb):
    terms = []
    # S- S+ = sum_pq b†_p a_p a†_q b_q
    for p in range(norb):
        for q in range(norb):
            terms.append((1.0, [(2 * p + 1, 1), (2 * p, 0), (2 * q, 1), (2 * q + 1, 0)]))
    # Sz
    for p in range(norb):
        terms.append((0.5, [(2 * p, 1), (2 * p, 0)]))
        terms.append((-0.5, [(2 * p + 1, 1), (2 * p + 1, 0)]))
    # Sz^2
    for p in range(norb):
        for q in range(norb):
            for sp, sq in itertools.product((0, 1), repeat=2):
                sign = (1 if sp == 0 else -1) * (1 if sq == 0 else -1)
                terms.append((0.25 * sign, [(2 * p + sp, 1), (2 * p + sp, 0), (2 * q + sq, 1), (2 * q + sq, 0)]))
    return terms


def run(ctx):
    fqe = ctx.fqe
    import props.C01 as C01
    d, rng = ctx.driver, ctx.rng
    quick = ctx.tier == "quick"
    # ---- A. constructors ---------------------------------------------------------------------
    nmax = 4 if quick else 6
    for norb in range(0, nmax + 1):
        for nele in range(-1, 2 * norb + 2):
            for ms in range(-norb - 1, norb + 2):
                model = d.ask(f"alphabeta {nele} {ms} {norb}")
                # independent arithmetic statement of validity
                na2 = nele + ms
                valid = (nele >= 0 and na2 % 2 == 0 and 0 <= na2 // 2 <= norb and 0 <= nele - na2 // 2 <= norb)
                desc = {"ctor": "Wavefunction", "nele": nele, "m_s": ms, "norb": norb}
                if (model != "raise") != valid:
                    ctx.disagree("sectors:model-vs-arithmetic", f"model {model} arithmetic valid={valid}", desc)
                for ctor in ("Wavefunction", "get_wavefunction", "get_wavefunction_multiple"):
                    try:
                        if ctor == "get_wavefunction_multiple":
                            # the list form: one wavefunction per parameter triple, in order (a valid one put first)
                            ws = fqe.get_wavefunction_multiple([[0, 0, norb], [nele, ms, norb]])
                            if len(ws) != 2 or set(ws[0].sectors()) != {(0, 0)}:
                                ctx.disagree("sectors:get_wavefunction_multiple-order", f"returned {len(ws)} objects, first sectors "
                                             f"{sorted(ws[0].sectors()) if ws else None}", {**desc, "ctor": ctor})
                            w = ws[1]
                        else:
                            w = fqe.Wavefunction([[nele, ms, norb]]) if ctor == "Wavefunction" else \
                                fqe.get_wavefunction(nele, ms, norb)
                        raised = False
                    except Exception:
                        raised = True
                    ctx.case(("ctor", ctor, norb, nele, ms) if valid else None,
                             sample=desc if valid and nele == 2 and ms == 0 and ctor == "Wavefunction" else None)
                    ctx.count("ctor-accept" if not raised else "ctor-reject")
                    if raised != (not valid):
                        ctx.disagree(f"sectors:{ctor}-accepts-impossible" if valid is False else f"sectors:{ctor}-rejects-valid",
                                     f"{ctor}({nele},{ms},{norb}) raised={raised}, valid={valid}", {**desc, "ctor": ctor})
                        continue
                    if not raised:
                        na, nb = (int(x) for x in model.split())
                        shp = w.get_coeff((nele, ms)).shape if (nele, ms) in w.sectors() else None
                        if set(w.sectors()) != {(nele, ms)} or shp != (comb(norb, na), comb(norb, nb)) \
                                or w.norb() != norb:
                            ctx.disagree("sectors:shape", f"{ctor}({nele},{ms},{norb}) sectors {sorted(w.sectors())} shape {shp}",
                                         {**desc, "ctor": ctor})
        for nele in range(-1, 2 * norb + 2):
            t = [int(x) for x in d.ask(f"fixedn {nele} {norb}").split()]
            model = sorted((t[1 + 2 * i], t[2 + 2 * i]) for i in range(t[0]))
            promised = sorted((nele, na - (nele - na)) for na in range(0, norb + 1) if 0 <= nele - na <= norb)
            desc = {"ctor": "get_number_conserving_wavefunction", "nele": nele, "norb": norb}
            try:
                w = fqe.get_number_conserving_wavefunction(nele, norb)
                got = sorted(w.sectors())
            except Exception as exc:
                got = f"raise {type(exc).__name__}"
            ctx.case(("fixedn", norb, nele) if promised else None)
            ctx.count("fixedN")
            if model != promised:
                ctx.disagree("sectors:fixedN-model-vs-promise", f"model {model} promised {promised}", desc)
            if promised == [] and not isinstance(got, str):
                ctx.disagree("sectors:fixedN-impossible-not-rejected",
                             f"no sector with {nele} electrons exists in {norb} orbitals, yet the constructor returned a "
                             f"wavefunction with sectors {got} and norb {w.norb()} instead of raising", desc)
            elif got != promised and not (promised == [] and isinstance(got, str)):
                ctx.disagree("sectors:fixedN", f"sectors {got} promised {promised}", desc)
            elif not isinstance(got, str):
                for (n, s) in got:
                    na, nb = (n + s) // 2, (n - s) // 2
                    if w.get_coeff((n, s)).shape != (comb(norb, na), comb(norb, nb)):
                        ctx.disagree("sectors:fixedN-shape", f"sector {(n, s)} shape", desc)
        for sz in range(-norb - 1, norb + 2):
            t = [int(x) for x in d.ask(f"fixedsz {sz} {norb}").split()]
            model = sorted((t[1 + 2 * i], t[2 + 2 * i]) for i in range(t[0]))
            promised = sorted((2 * na - sz, sz) for na in range(0, norb + 1) if 0 <= na - sz <= norb)
            desc = {"ctor": "get_spin_conserving_wavefunction", "s_z": sz, "norb": norb}
            try:
                w = fqe.get_spin_conserving_wavefunction(sz, norb)
                got = sorted(w.sectors())
            except Exception as exc:
                got = f"raise {type(exc).__name__}"
            ctx.case(("fixedsz", norb, sz) if promised else None)
            ctx.count("fixedSz")
            if model != promised:
                ctx.disagree("sectors:fixedSz-model-vs-promise", f"model {model} promised {promised}", desc)
            if promised == [] and not isinstance(got, str):
                ctx.disagree("sectors:fixedSz-impossible-not-rejected",
                             f"no sector with s_z = {sz} exists in {norb} orbitals, yet the constructor returned a "
                             f"wavefunction with sectors {got} instead of raising", desc)
            elif got != promised and not (promised == [] and isinstance(got, str)):
                ctx.disagree("sectors:fixedSz", f"sectors {got} promised {promised}", desc)

    # ---- B. operator values -------------------------------------------------------------------
    ops = {"N": fqe.get_number_operator(), "Sz": fqe.get_sz_operator(), "S2": fqe.get_s2_operator(),
           "T": fqe.get_time_reversal_operator()}
    ncases = 60 if quick else 2400
    for case in range(ncases):
        norb = rng.choice([1, 2, 2, 3] if quick else [1, 2, 3, 3, 4])
        wk = rng.choice(["single", "multi", "spinbroken", "full-alpha"])
        if wk == "full-alpha":
            nb = rng.randint(0, norb)
            ket = fqe.Wavefunction([[norb + nb, norb - nb, norb]])
            U.random_fill(ket, rng)
        else:
            ket = C01.make_wfn(ctx, wk, norb, rng)
        import copy
        bra = copy.deepcopy(ket)
        if rng.random() < 0.5:
            U.random_fill(bra, rng)
        ek, eb = U.wfn_entries(ket), U.wfn_entries(bra)
        desc = {"wfn": wk, "norb": norb, "sectors": sorted(ket.sectors()), "case": case,
                "ket": [[a, b, [c.real, c.imag]] for a, b, c in ek], "bra": [[a, b, [c.real, c.imag]] for a, b, c in eb]}
        for name in ("N", "Sz", "S2", "T"):
            if name == "N":
                terms = [(1.0, [(m, 1), (m, 0)]) for m in range(2 * norb)]
            elif name == "Sz":
                terms = [((0.5 if m % 2 == 0 else -0.5), [(m, 1), (m, 0)]) for m in range(2 * norb)]
            elif name == "S2":
                terms = s2_terms(norb)
            try:
                got = complex(ket.expectationValue(ops[name], brawfn=bra))
                raised = None
            except Exception as exc:
                raised = exc
            if name == "T":
                kd = {(a, b): c for a, b, c in ek}
                closed = all((n, -s) in ket.sectors() for n, s in ket.sectors())
                if not closed:
                    ctx.count("T-not-closed")
                    if raised is None:
                        ctx.disagree("ops:T-not-closed-accepted", "time reversal on a space not closed under it", desc)
                    continue
                exp = 0
                for (a, b), c in kd.items():
                    na, nb = bin(a).count("1"), bin(b).count("1")
                    sgn = -1 if int(d.ask(f"trsign {na} {nb}")) else 1
                    tc = numpy.conj(c) * sgn          # coefficient of |b;a>
                    for a2, b2, cb in eb:
                        if (a2, b2) == (b, a):
                            exp += numpy.conj(cb) * tc
                e = (Fraction(exp.real), Fraction(exp.imag)) if isinstance(exp, complex) else (Fraction(exp), Fraction(0))
            else:
                e = parse_c(d.ask(f"expect {norb} {fmt_vec(eb)} {fmt_vec(ek)} {fmt_op(terms)}"))
            ctx.case(("op", name, wk, norb, case), sample={"op": name, **{k: desc[k] for k in ("wfn", "norb", "sectors")}}
                     if case < 2 else None)
            ctx.count(f"op:{name}")
            if raised is not None:
                ctx.disagree(f"ops:{name}-raises", f"{name} raised {type(raised).__name__}: {raised}", desc)
                continue
            ex = complex(float(e[0]), float(e[1]))
            if abs(got - ex) > 1e-9 * max(1.0, abs(ex)):
                sig = f"ops:{name}"
                ctx.disagree(sig, f"<bra|{name}|ket> = {got}, exact {ex}", {**desc, "op": name})

    # ---- C. conservation under spin-free dynamics ----------------------------------------------
    for case in range(10 if quick else 80):
        norb = rng.choice([2, 2, 3])
        wk = rng.choice(["single", "spinbroken"])
        ket = C01.make_wfn(ctx, wk, norb, rng)
        ket.normalize()
        h1 = C01.rand_tensor(rng, norb, 1, 1.0, False)
        h2 = C01.symmetrize8(C01.rand_tensor(rng, norb, 2, 0.5, False))
        tens = (h1 + h1.T,) if wk == "spinbroken" else (h1 + h1.T, h2)
        try:
            if wk == "spinbroken":
                # spin-free one-body operator in spin-orbital form
                z = numpy.zeros((2 * norb, 2 * norb))
                z[:norb, :norb] = tens[0]
                z[norb:, norb:] = tens[0]
                ham = fqe.get_gso_hamiltonian((z,))
            else:
                ham = fqe.get_restricted_hamiltonian(tens)
            out = ket.time_evolve(0.02, ham)
        except Exception as exc:
            ctx.count(f"dynamics-raises:{type(exc).__name__}")
            continue
        for name in ("N", "Sz", "S2"):
            v0 = complex(ket.expectationValue(ops[name]))
            v1 = complex(out.expectationValue(ops[name]))
            ctx.case(("conserve", name, case))
            ctx.count("conserve")
            if abs(v0 - v1) > 1e-8 * max(1.0, abs(v0)):
                ctx.disagree(f"conserve:{name}", f"<{name}> {v0} -> {v1} under spin-free evolution",
                             {"wfn": wk, "norb": norb, "case": case})

    # ---- C2. H = h (x) 1 + 2 b S_x (one-body, spin-mixing) commutes with N and S^2 but not with S_z: on a wavefunction
    #      holding every S_z sector of N electrons (odd and even N) <N>, <S^2> and the norm are conserved ---------
    for case in range(12 if quick else 120):
        norb = rng.choice([2, 3, 3])
        nele = rng.randint(1, 2 * norb - 1)
        ket = fqe.get_number_conserving_wavefunction(nele, norb)
        U.random_fill(ket, rng, zero_p=0.0)
        ket.normalize()
        h1 = C01.rand_tensor(rng, norb, 1, 1.0, False)
        h1 = numpy.real(h1 + h1.T).astype(numpy.complex128)
        bx = float(rng.choice([0.3, -0.7, 1.1]))
        z = numpy.zeros((2 * norb, 2 * norb), dtype=numpy.complex128)
        z[:norb, :norb] = h1
        z[norb:, norb:] = h1
        z[:norb, norb:] = bx * numpy.eye(norb)
        z[norb:, :norb] = bx * numpy.eye(norb)
        t = rng.choice([0.05, 0.4, 1.3])
        try:
            out = ket.time_evolve(t, fqe.get_gso_hamiltonian((z,)))
        except Exception as exc:
            ctx.disagree(f"dynamics-raises:spin-mixing:{type(exc).__name__}", str(exc)[:200], {"norb": norb, "nele": nele, "case": case})
            continue
        vals = {"N": (complex(ket.expectationValue(ops["N"])), complex(out.expectationValue(ops["N"]))),
                "S2": (complex(ket.expectationValue(ops["S2"])), complex(out.expectationValue(ops["S2"]))),
                "norm": (complex(ket.norm()), complex(out.norm()))}
        for name, (v0, v1) in vals.items():
            ctx.case(("conserve-sx", name, case))
            ctx.count(f"conserve-sx:{'odd' if nele % 2 else 'even'}-N")
            if abs(v0 - v1) > 1e-8 * max(1.0, abs(v0)):
                ctx.disagree(f"conserve:{name}:spin-mixing", f"<{name}> {v0} -> {v1} under H = h x 1 + 2 b S_x, which commutes with it",
                             {"norb": norb, "nele": nele, "case": case, "t": t, "b": bx})
    # ---- D. conservation in large sectors (hundreds of strings per spin: the batched kernels of the quadratic route) ----
    # high-spin determinants are exact S^2 eigenstates; a spin-free one-body evolution must keep <S^2>, <Sz>, <N> and the norm
    from scipy.special import comb as _comb
    for norb, na, nb in ([(11, 1, 5), (11, 5, 1)] if quick else [(11, 1, 5), (11, 5, 1), (12, 4, 1), (12, 1, 4), (10, 5, 4), (13, 1, 5)]):
        key = (na + nb, na - nb)
        ket = fqe.Wavefunction([[na + nb, na - nb, norb]])
        arr = numpy.zeros(ket.get_coeff(key).shape, dtype=numpy.complex128)
        arr[0, 0] = 1.0                       # lowest strings: alpha orbitals 0..na-1, beta orbitals 0..nb-1 (nested shells)
        ket.set_wfn(strategy="from_data", raw_data={key: arr})
        nr_ = numpy.random.RandomState(rng.randrange(2 ** 31))
        a_ = nr_.standard_normal((norb, norb)) + 1j * nr_.standard_normal((norb, norb))
        ham = fqe.get_restricted_hamiltonian(((a_ + a_.conj().T) / 2,))
        try:
            out = ket.time_evolve(0.7, ham)
        except Exception as exc:
            ctx.disagree(f"dynamics-raises:wide:{type(exc).__name__}", str(exc)[:200], {"norb": norb, "nalpha": na, "nbeta": nb})
            continue
        s_ = abs(na - nb) / 2.0
        expect = {"N": na + nb, "Sz": (na - nb) / 2.0, "S2": s_ * (s_ + 1)}
        for name in ("N", "Sz", "S2"):
            v0 = complex(ket.expectationValue(ops[name]))
            v1 = complex(out.expectationValue(ops[name]))
            ctx.case(("conserve-wide", name, norb, na, nb))
            ctx.count("conserve-wide")
            if abs(v0 - v1) > 1e-8 * max(1.0, abs(v0)) or abs(v0 - expect[name]) > 1e-8 or abs(out.norm() - 1) > 1e-9:
                ctx.disagree(f"conserve:{name}:wide-sector", f"<{name}> {v0} -> {v1} (closed form {expect[name]}), norm {out.norm()} under "
                             f"spin-free evolution of a {arr.shape} sector", {"norb": norb, "nalpha": na, "nbeta": nb})


def replay(ctx, rep):
    run(ctx)
