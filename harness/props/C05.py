"""C05 — determinant addressing and excitation tables: implementation vs Lean Model.

Every public accessor of FciGraph / FciGraphSet / bitstring helpers is compared with the tables the
Lean driver computes from Model/{Bits,Strings,Maps}.lean (which Props/C05.lean proves equal to
their arithmetic / Spec meaning)."""
import itertools
import numpy


def _shapes(ctx):
    nmax = 6 if ctx.tier == "quick" else 9
    for norb in range(0, nmax + 1):
        for nele in range(0, norb + 1):
            yield norb, nele
    # high-orbital boundary families (small electron / hole counts keep tables small)
    hi = [31, 32, 33, 63, 64] if ctx.tier == "quick" else [30, 31, 32, 33, 34, 62, 63, 64]
    for norb in hi:
        for nele in ([0, 1, norb - 1, norb] + ([2] if norb in (32, 64) else []) if ctx.tier == "quick" else [0, 1, 2, norb - 1, norb]):
            yield norb, nele


def run(ctx):
    fqe = ctx.fqe
    import fqe.bitstring as bs
    import fqe.fci_graph as fg
    import fqe.fci_graph_set as fgs
    d = ctx.driver
    rng = ctx.rng

    # ---- bit helpers -------------------------------------------------------------------
    nwords = 300 if ctx.tier == "quick" else 5000
    words = [0, 1, 2**63, 2**64 - 1, 2**63 - 1, 0x5555555555555555, 0xAAAAAAAAAAAAAAAA]
    words += [1 << k for k in range(64)]
    words += [rng.getrandbits(64) for _ in range(nwords)]
    words += [rng.getrandbits(64) & rng.getrandbits(64) & rng.getrandbits(64) for _ in range(nwords // 3)]
    for w in words:
        p, q = rng.randrange(64), rng.randrange(64)
        checks = [
            ("count_bits", f"count_bits {w}", lambda: int(bs.count_bits(w))),
            ("count_above", f"count_above {w} {p}", lambda: int(bs.count_bits_above(w, p))),
            ("count_below", f"count_below {w} {p}", lambda: int(bs.count_bits_below(w, p))),
            ("count_between", f"count_between {w} {p} {q}", lambda: int(bs.count_bits_between(w, p, q))),
            ("set_bit", f"set_bit {w} {p}", lambda: int(bs.set_bit(w, p))),
            ("unset_bit", f"unset_bit {w} {p}", lambda: int(bs.unset_bit(w, p))),
            ("get_bit", f"get_bit {w} {p}", lambda: int(bs.get_bit(w, p))),
        ]
        for name, req, f in checks:
            want = int(d.ask(req))
            got = f()
            ctx.case(("bits", name, w, p, q) if w not in (0,) else None,
                     sample={"helper": name, "request": req, "model": want, "impl": got})
            ctx.count("helper:" + name)
            if got != want:
                ctx.disagree(f"helper:{name}", f"{name}: impl {got} model {want}",
                             {"kind": "helper", "name": name, "request": req})
        occ_m = d.nats(f"occupation {w}")
        occ_i = [int(x) for x in bs.integer_index(w)]
        ctx.case(("bits", "occ", w))
        if occ_m != occ_i:
            ctx.disagree("helper:integer_index", f"integer_index({w}): impl {occ_i} model {occ_m}",
                         {"kind": "helper", "name": "integer_index", "request": f"occupation {w}"})
        if bs.reverse_integer_index(occ_i) != w:
            ctx.disagree("helper:reverse_integer_index", f"round trip {w}",
                         {"kind": "helper", "name": "reverse_integer_index", "request": f"occupation {w}"})

    # ---- Z matrices alone (cheap: no string tables), every shape up to 20 orbitals and the shapes up to 64 orbitals
    #      whose sector has fewer than 2^31 strings (the matrix is stored as int32): every entry of the binomial table /
    #      every binom() call of the two builders is exercised -----------------------------------------------------
    import math
    zshapes = [(n_, k_) for n_ in range(2, 21) for k_ in range(1, n_ + 1)]
    zshapes += [(n_, k_) for n_ in range(21, 65) for k_ in range(1, n_ + 1) if math.comb(n_, k_) < 2 ** 31
                and (ctx.tier != "quick" or k_ <= 3 or n_ - k_ <= 2 or (n_ + k_) % 7 == ctx.seed % 7)]
    for norb, nele in zshapes:
        Z = fg._get_Z_matrix(norb, nele)
        wz = [int(x) for x in d.ask(f"zmatrix {norb} {nele}").split()][1:]
        ctx.case(("zmat-sweep", norb, nele) if nele > 1 else None)
        ctx.count("zmatrix-sweep")
        if [int(x) for x in Z.ravel()] != wz:
            ctx.disagree("strings:zmatrix", f"Z matrix differs at norb={norb} nele={nele}", {"kind": "zmatrix", "norb": norb, "nele": nele})
            break
    # ---- strings, addressing, maps -----------------------------------------------------
    for norb, nele in _shapes(ctx):
        if ctx.out_of_time():
            ctx.notes.append("time budget reached in shapes loop")
            break
        tag = {"norb": norb, "nele": nele}
        big = norb > 12
        try:
            gen = [int(x) for x in bs.lexicographic_bitstring_generator(nele, norb)]
        except Exception as e:  # noqa
            ctx.disagree("strings:generator-raises", f"{type(e).__name__}: {e}", {"kind": "gen", **tag})
            continue
        want_gen = d.nats(f"gen_py {norb} {nele}")
        ctx.case(("gen", norb, nele) if 0 < nele < norb else None)
        ctx.count("shape")
        if gen != want_gen:
            ctx.disagree("strings:generator", f"generator differs at {tag}", {"kind": "gen", **tag})
        if ctx.path == "C" and norb <= 63:
            if d.nats(f"gen_c {norb} {nele}") != gen:
                ctx.disagree("strings:generator-c-model", f"C generator model differs at {tag}",
                             {"kind": "gen", **tag})
        graph = fg.FciGraph(nele, 0, norb)
        strs = [int(x) for x in graph.string_alpha_all()]
        want = d.nats(f"strings {norb} {nele}")
        lex = d.nats(f"strings_lex {norb} {nele}")
        ctx.case(("strings", norb, nele) if 0 < nele < norb else None,
                 sample={"norb": norb, "nele": nele, "strings": strs[:8]})
        if strs != want:
            ctx.disagree("strings:table", f"string table differs at {tag}", {"kind": "strings", **tag})
        if strs != lex:
            ctx.disagree("strings:lexical-order", f"string table not in lexical order at {tag}",
                         {"kind": "strings", **tag})
        idx = {int(k): int(v) for k, v in graph.index_alpha_all().items()}
        if idx != {s: i for i, s in enumerate(strs)} or len(idx) != len(strs):
            ctx.disagree("strings:index-inverse", f"index is not the inverse of the table at {tag}",
                         {"kind": "strings", **tag})
        for a, s in enumerate(strs[:50]):
            if int(graph.index_alpha(s)) != a or int(graph.string_alpha(a)) != s:
                ctx.disagree("strings:index-inverse", f"index/string accessors at {tag}", {"kind": "strings", **tag})
        Z = fg._get_Z_matrix(norb, nele)
        wz = [int(x) for x in d.ask(f"zmatrix {norb} {nele}").split()][1:]
        ctx.case(("zmat", norb, nele) if nele > 1 else None)
        if [int(x) for x in Z.ravel()] != wz:
            ctx.disagree("strings:zmatrix", f"Z matrix differs at {tag}", {"kind": "zmatrix", **tag})
        # single excitation maps
        if not big or nele in (0, 1, norb - 1, norb):
            if norb <= 12:
                groups = d.triple_groups(f"mapping_all {norb} {nele}")
                pairs = list(itertools.product(range(norb), range(norb)))
            else:
                pairs = [(rng.randrange(norb), rng.randrange(norb)) for _ in range(6)]
                pairs += [(norb - 1, 0), (0, norb - 1), (norb - 1, norb - 1), (31 % norb, 32 % norb)]
                groups = [d.triples(f"mapping {norb} {nele} {i} {j}") for i, j in pairs]
            sidx = {s: i for i, s in enumerate(want)}
            for (i, j), grp in zip(pairs, groups):
                model = [(sidx[s], sidx[t], -1 if p else 1) for s, t, p in grp]
                impl = [tuple(int(x) for x in row) for row in graph.alpha_map(i, j)]
                ctx.case(("map", norb, nele, i, j) if any(m[2] < 0 for m in model) else None)
                ctx.count("single-exc maps")
                if impl != model:
                    ctx.disagree("maps:single-excitation", f"alpha_map({i},{j}) differs at {tag}",
                                 {"kind": "mapping", "i": i, "j": j, **tag})
            if norb <= 12:
                rows = d.triple_groups(f"deexc {norb} {nele}")
                lk = nele * (norb - nele + 1)
                dex = graph._dexca
                ok = dex.shape == (len(want), lk, 3)
                for t, row in enumerate(rows):
                    model = sorted((sidx[s], ij, -1 if p else 1) for s, ij, p in row)
                    impl = sorted(tuple(int(x) for x in e) for e in dex[t]) if ok else None
                    ctx.case(("deexc", norb, nele, t) if lk > 1 else None)
                    if impl != model or len(row) != lk:
                        ctx.disagree("maps:deexc", f"de-excitation row {t} differs at {tag}",
                                     {"kind": "deexc", **tag})
                        break
        # operator-string maps
        if norb >= 1 and norb <= 12:
            ncase = 6 if ctx.tier == "quick" else 25
            for _ in range(ncase):
                k = rng.randrange(0, min(4, norb) + 1)
                dag = rng.sample(range(norb), k)
                undag = rng.sample(range(norb), k)
                if rng.random() < 0.4 and k:
                    undag[0] = dag[rng.randrange(k)] if dag[rng.randrange(k)] not in undag else undag[0]
                res = numpy.zeros((graph.lena(), 3), dtype=numpy.uint64)
                cnt = graph.make_mapping_each(res, True, dag, undag)
                impl = [tuple(int(x) for x in r) for r in res[:cnt]]
                req = f"{norb} {nele} {len(dag)} {' '.join(map(str, dag))} {len(undag)} {' '.join(map(str, undag))}"
                req = " ".join(req.split())
                model = d.triples(("mapeach_c " if ctx.path == "C" else "mapeach_py ") + req)
                ctx.case(("mapeach", norb, nele, tuple(dag), tuple(undag)) if any(m[2] for m in model) else None,
                         sample={"norb": norb, "nele": nele, "dag": dag, "undag": undag, "entries": model[:4]})
                ctx.count("opstring maps")
                if impl != model:
                    ctx.disagree("maps:make_mapping_each", f"make_mapping_each dag={dag} undag={undag} at {tag}",
                                 {"kind": "mapeach", "dag": dag, "undag": undag, **tag})
        # cross-sector maps
        if (1 <= norb <= 9 and nele >= 1) or (norb >= 30 and nele == 2):
            # (at 30 and more orbitals: two electrons, links over one and two electrons - positions beyond 31 bits)
            for dn in ((1, 2, 3, 4) if norb <= 7 else (1, 2)):
                if nele - dn < 0:
                    continue
                params = [[nele, nele, norb], [nele - dn, nele - dn, norb]]   # (n, sz=n): all alpha
                try:
                    gset = fgs.FciGraphSet(4, 4, params)
                except Exception as exc:
                    ctx.disagree(f"maps:cross-sector-raises:{type(exc).__name__}", f"linking sectors {params} raised {type(exc).__name__}: "
                                 f"{str(exc)[:120]}", {"kind": "mapset", "dn": dn, **tag})
                    continue
                big_g = gset._dataset[(nele, 0)]
                small_g = gset._dataset[(nele - dn, 0)]
                bidx = {int(s): i for i, s in enumerate(big_g.string_alpha_all())}
                smidx = {int(s): i for i, s in enumerate(small_g.string_alpha_all())}
                down = big_g.find_mapping(-dn, 0)[0]
                up = small_g.find_mapping(dn, 0)[0]
                model = d.triple_groups(f"mapset {norb} {nele} {dn}", with_key=True)
                ctx.count("cross-sector maps")
                mkeys = []
                for mask, ents in model:
                    key = tuple(i for i in range(norb) if mask >> i & 1)
                    mkeys.append(key)
                    mdown = [(bidx[s], smidx[t], -1 if p % 2 else 1) for s, t, p in ents]
                    mup = [(smidx[t], bidx[s], -1 if p % 2 else 1) for s, t, p in ents]
                    ctx.case(("mapset", norb, nele, dn, key) if any(m[2] < 0 for m in mdown) else None)
                    idown = [tuple(int(x) for x in r) for r in down.get(key, [])]
                    iup = [tuple(int(x) for x in r) for r in up.get(key, [])]
                    if idown != mdown or iup != mup:
                        ctx.disagree("maps:cross-sector", f"cross-sector map {key} dn={dn} at {tag}",
                                     {"kind": "mapset", "dn": dn, **tag})
                        break
                if sorted(down.keys()) != sorted(mkeys) or sorted(up.keys()) != sorted(mkeys):
                    ctx.disagree("maps:cross-sector-keys", f"cross-sector key set dn={dn} at {tag}",
                                 {"kind": "mapset", "dn": dn, **tag})


    # ---- operator-string maps at the top of the orbital range with several electrons above / below ----
    # (parities count occupied orbitals above the one acted on: orbital 63 and 62, two and three electrons)
    for norb, nele in ([(64, 2), (63, 2)] if ctx.tier == "quick" else [(64, 2), (63, 2), (64, 3), (33, 3), (32, 2)]):
        graph = fg.FciGraph(nele, 0, norb)
        tag = {"norb": norb, "nele": nele}
        hi = norb - 1
        lists = [([hi], [5]), ([5], [hi]), ([hi], [hi]), ([hi, 3], [7, 2]), ([0], [hi - 1]), ([hi - 1, hi], [0, 1]),
                 ([31], [32]), ([32], [31])]
        for _ in range(6):
            k = rng.randint(1, 2)
            lists.append((rng.sample(range(norb), k), rng.sample(range(norb), k)))
        for dag, undag in lists:
            res = numpy.zeros((graph.lena(), 3), dtype=numpy.uint64)
            cnt = graph.make_mapping_each(res, True, dag, undag)
            impl = [tuple(int(x) for x in r) for r in res[:cnt]]
            req = f"{norb} {nele} {len(dag)} {' '.join(map(str, dag))} {len(undag)} {' '.join(map(str, undag))}"
            model = d.triples(("mapeach_c " if ctx.path == "C" else "mapeach_py ") + req)
            ctx.case(("mapeach-hi", norb, nele, tuple(dag), tuple(undag)) if any(m[2] for m in model) else None)
            ctx.count("opstring maps (norb 63/64)")
            if impl != model:
                ctx.disagree("maps:make_mapping_each", f"make_mapping_each dag={dag} undag={undag} at {tag}",
                             {"kind": "mapeach", "dag": dag, "undag": undag, **tag})


def replay(ctx, rep):
    run(ctx)
