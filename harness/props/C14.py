"""C14 — incompatible requests are refused with an exception, never answered or crashed.

 * the cross product of well-typed but mutually incompatible arguments per entry point; the expected outcome class
   (ok / TypeError / ValueError / AssertionError) comes from the Lean decision tables (Model/Guards.lean, proved
   refuse <=> incompatible); operands are snapshotted before/after;
 * admitted calls are compared with Spec (exact apply);
 * hostile argument values (out-of-range operator indices, wrong shapes/dtypes, huge indices, malformed patterns)
   are executed in a child interpreter: any exit by signal / non-zero status = interpreter terminated = violation;
   an answer that is neither an exception nor the correct result = violation."""
import copy
import itertools
import json
import os
import subprocess
import sys

import numpy

import fqe_util as U


def wsnap(w):
    return {k: w.get_coeff(k).tobytes() for k in sorted(w.sectors())}


def outcome(thunk):
    try:
        v = thunk()
        return "ok", v
    except AssertionError as e:
        return "AssertionError", e
    except TypeError as e:
        return "TypeError", e
    except ValueError as e:
        return "ValueError", e
    except Exception as e:
        return type(e).__name__, e


HOSTILE = r'''
import sys, json
sys.path.insert(0, %(here)r)
from fqe_env import load_fqe
fqe = load_fqe(%(src)r, %(path)r)
import numpy
from openfermion import FermionOperator
log = open(%(log)r, "w")
def attempt(name, f):
    log.write(name + "\n"); log.flush()
    try:
        v = f()
        res = "returned"
    except BaseException as e:
        res = "raised:" + type(e).__name__
    print("@@H@@" + json.dumps([name, res]))
    sys.stdout.flush()
w = fqe.Wavefunction([[2, 0, 2]]); w.set_wfn(strategy="ones")
big = fqe.Wavefunction([[1, 1, 64]]); big.set_wfn(strategy="ones")
attempt("op-index-beyond-norb", lambda: w.apply(fqe.get_sparse_hamiltonian(FermionOperator("8^ 0") + FermionOperator("0^ 8"))))
attempt("op-index-130", lambda: w.apply(fqe.get_sparse_hamiltonian(FermionOperator("130^ 0") + FermionOperator("0^ 130"))))
attempt("evolve-index-130", lambda: w.time_evolve(0.1, fqe.get_sparse_hamiltonian(FermionOperator("130^ 0") + FermionOperator("0^ 130"))))
attempt("rdm-element-index-99", lambda: w.rdm("99^ 0"))
attempt("norb-64-top-index", lambda: big.apply(fqe.get_sparse_hamiltonian(FermionOperator("126^ 0") + FermionOperator("0^ 126"))))
attempt("norb-65", lambda: fqe.Wavefunction([[1, 1, 65]]))
attempt("tensor-wrong-dim", lambda: w.apply(fqe.get_restricted_hamiltonian((numpy.ones((3, 3)),))))
attempt("tensor-rank-mismatch", lambda: w.apply(fqe.get_restricted_hamiltonian((numpy.ones((2, 2)), numpy.ones((2, 2, 2))))))
attempt("tensor-int-dtype", lambda: w.apply(fqe.get_restricted_hamiltonian((numpy.ones((2, 2), dtype=int),))))
attempt("tensor-fortran-order", lambda: w.apply(fqe.get_restricted_hamiltonian((numpy.asfortranarray(numpy.arange(4.0).reshape(2, 2) + numpy.arange(4.0).reshape(2, 2).T), numpy.asfortranarray(numpy.zeros((2, 2, 2, 2)))))))
attempt("diag-wrong-size", lambda: w.apply(fqe.get_diagonal_hamiltonian(numpy.ones(3))))
attempt("diagcoulomb-wrong-size", lambda: w.apply(fqe.get_diagonalcoulomb_hamiltonian(numpy.ones((3, 3)))))
attempt("from-cirq-bad-length", lambda: fqe.from_cirq(numpy.ones(7, dtype=numpy.complex128), 0.1))
attempt("from-cirq-empty", lambda: fqe.from_cirq(numpy.zeros(16, dtype=numpy.complex128), 0.1))
attempt("set-wfn-wrong-shape", lambda: w.set_wfn(strategy="from_data", raw_data={(2, 0): numpy.ones((3, 5), dtype=numpy.complex128)}))
attempt("set-wfn-unknown-strategy", lambda: w.set_wfn(strategy="nonsense"))
attempt("getitem-foreign-det", lambda: w[(7, 1)])
attempt("rdm-malformed", lambda: w.rdm("i^ j^ k"))
attempt("rdm-nonconserving", lambda: w.rdm("i^ j^"))
attempt("rdm-garbage", lambda: w.rdm("i^ $"))
attempt("negative-norb", lambda: fqe.Wavefunction([[1, 1, -2]]))
attempt("fcigraph-negative", lambda: fqe.fci_graph.FciGraph(-1, 0, 2))
attempt("bitstring-nele-gt-norb", lambda: fqe.bitstring.lexicographic_bitstring_generator(5, 3))
attempt("transform-nonsquare", lambda: w.transform(numpy.ones((2, 3))))
attempt("time-evolve-nonhermitian-single", lambda: w.time_evolve(0.1, fqe.get_sparse_hamiltonian(FermionOperator("2^ 0", 1.0))))
print("@@H@@" + json.dumps(["done", "done"]))
'''


def run(ctx):
    fqe = ctx.fqe
    import props.C01 as C01
    from openfermion import FermionOperator
    d, rng = ctx.driver, ctx.rng
    quick = ctx.tier == "quick"
    norb = 2
    # ---- apply / time_evolve decision table ------------------------------------------------------
    wfns = {
        "N-conserving": (lambda: fqe.Wavefunction([[2, 0, norb]]), 1),
        "N-conserving-multi": (lambda: fqe.Wavefunction([[2, 0, norb], [1, 1, norb]]), 1),
        "N-broken": (lambda: fqe.get_spin_conserving_wavefunction(0, norb), 0),
    }
    def hams():
        out = []
        for dim in (norb - 1, norb, 2 * norb, 2 * norb + 1):
            if dim < 1:
                continue
            h1 = numpy.eye(dim) + numpy.diag(numpy.ones(dim - 1), 1) + numpy.diag(numpy.ones(dim - 1), -1) if dim > 1 else numpy.eye(1)
            out.append(("restricted", dim, fqe.get_restricted_hamiltonian((h1,))))
            out.append(("spinorbital", dim, fqe.get_gso_hamiltonian((h1,))))
            out.append(("spinorbital", dim, fqe.get_general_hamiltonian((h1,))))
            out.append(("diagonal", dim, fqe.get_diagonal_hamiltonian(numpy.arange(1.0, dim + 1))))
        op = FermionOperator("0^ 2") + FermionOperator("2^ 0")
        out.append(("sparse", 0, fqe.get_sparse_hamiltonian(op)))
        pair = FermionOperator("0^ 1^") + FermionOperator("1 0")
        nb = fqe.get_hamiltonian_from_openfermion(pair, norb=norb, conserve_number=False)
        out.append(("sparse-nonconserving", 0, nb))
        return out
    for wname, (mk, wN) in wfns.items():
        for cls, dim, ham in hams():
            hN = 1 if ham.conserve_number() else 0
            mcls = "sparse" if cls.startswith("sparse") else cls
            model = d.ask(f"admit_apply {wN} {hN} {mcls} {dim} {norb}")
            for api in ("apply", "time_evolve"):
                w = mk()
                U.random_fill(w, rng)
                before = wsnap(w)
                entries = U.wfn_entries(w)
                if api == "apply":
                    oc, val = outcome(lambda: w.apply(ham))
                else:
                    oc, val = outcome(lambda: w.time_evolve(0.1, ham))
                desc = {"api": api, "wfn": wname, "class": cls, "dim": dim, "norb": norb, "ham_conserves_number": bool(hN)}
                ctx.case(("table", api, wname, cls, dim), sample=desc if len(ctx.samples) < 3 else None)
                ctx.count(f"outcome:{oc}")
                if wsnap(w) != before:
                    ctx.disagree(f"refuse:operand-changed:{api}", f"operand changed ({oc})", desc)
                if model == "ok":
                    # admitted by the table: must not be refused for the reasons the table covers; other, later
                    # refusals (e.g. spin completeness) are legitimate exceptions, a silent wrong answer is not
                    if oc == "ok" and api == "apply" and mcls != "sparse" and wN == 1:
                        terms = (U.restricted_terms([ham.tensors()[0]], norb) if cls == "restricted" else
                                 U.spinorb_terms([ham.tensors()[0]], norb) if cls == "spinorbital" else
                                 [(complex(ham.diag_values()[p if dim == norb else (p + norb * s)]), [(2 * p + s, 1), (2 * p + s, 0)])
                                  for p in range(norb) for s in (0, 1)])
                        want = U.spec_apply(d, norb, entries, terms, 0)
                        if U.compare_wfn(val, want):
                            ctx.disagree(f"refuse:admitted-but-wrong:{cls}", "admitted request answered incorrectly", desc)
                else:
                    if oc == "ok":
                        ctx.disagree(f"refuse:accepted-incompatible:{api}:{cls}",
                                     f"incompatible request answered instead of refused (model {model})", desc)
                    elif oc != model and not (model == "ValueError" and oc in ("AssertionError", "ArgumentError")):
                        ctx.count(f"refused-with-other-exception:{oc}-vs-{model}")
    # ---- ax_plus_y -----------------------------------------------------------------------------
    # (sets of equal size that share their first sectors: a refusal must come before any sector is touched)
    sets = [[[2, 0, 2]], [[2, 0, 2], [1, 1, 2]], [[1, 1, 2]], [[2, 0, 3]], [[2, 0, 2], [1, -1, 2]],
            [[2, 0, 2], [1, 1, 2], [3, 1, 2]], [[2, 0, 2], [1, 1, 2], [3, -1, 2]]]
    for pa, pb in itertools.product(sets, repeat=2):
        a, b = fqe.Wavefunction(pa), fqe.Wavefunction(pb)
        U.random_fill(a, rng)
        U.random_fill(b, rng)
        same = set(a.sectors()) == set(b.sectors()) and a.norb() == b.norb()
        model = d.ask(f"admit_axpy {int(same)}")
        sa, sb = wsnap(a), wsnap(b)
        oc, _ = outcome(lambda: a.ax_plus_y(2.0, b))
        ctx.case(("axpy", repr(pa), repr(pb)))
        ctx.count(f"axpy:{oc}")
        desc = {"api": "ax_plus_y", "a": pa, "b": pb}
        if (model == "ok") != (oc == "ok"):
            ctx.disagree("refuse:axpy", f"ax_plus_y outcome {oc}, model {model}", desc)
        if oc != "ok" and (wsnap(a) != sa or wsnap(b) != sb):
            ctx.disagree("refuse:operand-changed:axpy", "operands changed by a refused ax_plus_y", desc)
    # ---- constructor -----------------------------------------------------------------------------
    for broken in (None, ["spin"], ["number"], ["spin", "number"]):
        for params in ([[2, 0, 2]], [[2, 0, 2], [2, 2, 3]], [[3, 0, 2]], [[5, 1, 2]], [[2, 0, 2], [1, 1, 2]]):
            bs = int(bool(broken) and "spin" in broken)
            bn = int(bool(broken) and "number" in broken)
            consistent = int(len({p[2] for p in params}) == 1)
            possible = int(all((n + s) % 2 == 0 and 0 <= (n + s) // 2 <= nb_ and 0 <= (n - s) // 2 <= nb_ for n, s, nb_ in params))
            model = d.ask(f"admit_ctor {bs} {bn} {consistent} {possible}")
            oc, _ = outcome(lambda: fqe.Wavefunction(params, broken=broken))
            ctx.case(("ctor", repr(broken), repr(params)))
            ctx.count(f"ctor:{oc}")
            if (model == "ok") != (oc == "ok"):
                ctx.disagree("refuse:ctor", f"Wavefunction({params}, broken={broken}) outcome {oc}, model {model}",
                             {"params": params, "broken": broken})
    # ---- propagator arguments --------------------------------------------------------------------
    w = fqe.Wavefunction([[2, 0, 2]])
    U.random_fill(w, rng)
    w.normalize()
    ham = fqe.get_restricted_hamiltonian((numpy.array([[0.0, 0.5], [0.5, 0.1]]), numpy.zeros((2, 2, 2, 2))))
    for expansion, algo, spec in itertools.product((30, 30.0, "30"), ("taylor", "chebyshev", "magic"), (None, [-2.0, 2.0])):
        model = d.ask(f"admit_unitary {int(isinstance(expansion, int))} {int(algo in ('taylor', 'chebyshev'))} "
                      f"{int(algo == 'chebyshev')} {int(spec is not None)}")
        before = wsnap(w)
        oc, _ = outcome(lambda: w.apply_generated_unitary(0.1, algo, ham, accuracy=1e-8, expansion=expansion, spec_lim=spec))
        ctx.case(("unitary", repr(expansion), algo, repr(spec)))
        ctx.count(f"unitary:{oc}")
        if (model == "ok") != (oc == "ok"):
            ctx.disagree("refuse:generated-unitary-args", f"outcome {oc}, model {model} for expansion={expansion!r} algo={algo} spec_lim={spec}",
                         {"expansion": repr(expansion), "algo": algo, "spec_lim": spec})
        if wsnap(w) != before:
            ctx.disagree("refuse:operand-changed:generated-unitary", "operand changed", {"algo": algo})
    # ---- in-place evolution where unsupported, non-Hermitian single-term generators, malformed patterns -----
    oc, _ = outcome(lambda: w.time_evolve(0.1, ham, inplace=True))
    ctx.case(("inplace-unsupported",))
    if oc == "ok":
        ctx.disagree("refuse:inplace-unsupported", "in-place evolution on the Taylor route was accepted", {})
    for pat in ("i^ j^ k", "i^ j^", "i^ i", "i^ 1", "", "i^ j k^ l m"):
        oc, _ = outcome(lambda: w.rdm(pat))
        ctx.case(("pattern", pat))
        ctx.count(f"pattern:{oc}")
        if oc == "ok":
            ctx.disagree("refuse:malformed-rdm-pattern", f"rdm('{pat}') was answered", {"pattern": pat})
    # ---- two-term generators c T + c' T^dagger of the closed-form single-term evolution: accepted iff c' = conj(c)
    #      (Hermitian), whatever the numbers of alpha / beta creators and annihilators in T (double spin flips, three
    #      alpha operators and one beta, ...); a refusal leaves the operand intact, in place or not -------------------
    from openfermion import FermionOperator as _FO
    for case in range(60 if quick else 600):
        norb = rng.choice([2, 3, 3])
        nso = 2 * norb
        r_ = rng.choice([1, 2, 2, 3]) if norb == 3 else rng.choice([1, 2])
        modes = rng.sample(range(nso), 2 * r_)
        cre, ann = modes[:r_], modes[r_:]
        dsz = sum(1 if m % 2 == 0 else -1 for m in cre) - sum(1 if m % 2 == 0 else -1 for m in ann)
        nel = rng.randint(r_, nso - r_)
        if dsz == 0:
            na_min = max(sum(1 for m in ann if m % 2 == 0), nel - norb)
            na_max = min(norb, nel - sum(1 for m in ann if m % 2 == 1))
            if na_min > na_max:
                continue
            na = rng.randint(na_min, na_max)
            wv = fqe.Wavefunction([[nel, 2 * na - nel, norb]])
            kind = "single"
        else:
            if nel > 2 * norb:
                continue
            wv = fqe.get_number_conserving_wavefunction(nel, norb)
            kind = "spinbroken"
        U.random_fill(wv, rng, zero_p=0.0)
        c = complex(rng.choice([1, 2, -1]), rng.choice([0, 1, -2])) / 2
        flavour = rng.choice(["hermitian", "hermitian", "antihermitian", "scaled", "rotated"])
        c2 = {"hermitian": c.conjugate(), "antihermitian": -c.conjugate(), "scaled": 1.5 * c.conjugate(),
              "rotated": 1j * c.conjugate()}[flavour]
        if c2 == c.conjugate():
            flavour = "hermitian"
        T = tuple((m, 1) for m in cre) + tuple((m, 0) for m in ann)
        Td = tuple((m, 1 - d_) for m, d_ in reversed(T))
        gen = _FO(T, c) + _FO(Td, c2)
        desc = {"norb": norb, "T": [list(x) for x in T], "c": [c.real, c.imag], "c2": [c2.real, c2.imag], "flavour": flavour,
                "wfn": kind, "sectors": [list(map(int, k)) for k in sorted(wv.sectors())]}
        try:
            hg = fqe.get_sparse_hamiltonian(gen, conserve_spin=(dsz == 0))
        except Exception as exc:
            ctx.count(f"individual:construct-raises:{type(exc).__name__}")
            continue
        for inplace in (False, True):
            tgt = copy.deepcopy(wv)
            before = wsnap(tgt)
            oc, val = outcome(lambda: tgt.time_evolve(0.3, hg, inplace=inplace))
            ctx.case(("individual-hermiticity", case, inplace))
            ctx.count(f"individual:{flavour}:{kind}:{'ok' if oc == 'ok' else 'refused'}")
            if flavour == "hermitian":
                if oc != "ok":
                    ctx.disagree("refuse:hermitian-individual-generator-refused",
                                 f"time_evolve(inplace={inplace}) refused the Hermitian generator c T + conj(c) T^dagger with {oc}: {val}", desc)
            else:
                if oc == "ok":
                    ctx.disagree("refuse:nonhermitian-individual-generator-accepted",
                                 f"time_evolve(inplace={inplace}) answered for the non-Hermitian generator c T + c' T^dagger, c' != conj(c)", desc)
                elif wsnap(tgt) != before:
                    ctx.disagree("refuse:operand-changed:individual-generator", f"operand changed by the refused time_evolve(inplace={inplace})", desc)
    # ---- number-conservation mismatch through the polynomial propagators (apply and time_evolve refuse the same
    #      operands with TypeError) -----------------------------------------------------------------------------------
    for case in range(4 if quick else 24):
        nb_ = 2
        hmat = numpy.array([[0.3, 0.5], [0.5, -0.2]]) * rng.choice([1.0, -1.0, 0.5])
        w_nb = fqe.get_spin_conserving_wavefunction(rng.choice([0, 1, -1]), nb_)
        w_nc = fqe.Wavefunction([[2, 0, nb_]])
        U.random_fill(w_nb, rng, zero_p=0.0)
        U.random_fill(w_nc, rng, zero_p=0.0)
        pair = _FO("0^ 1^", 0.5) + _FO("1 0", 0.5) + _FO("2^ 3^", 0.25) + _FO("3 2", 0.25) + _FO("0^ 0", 0.3)
        h_c = fqe.get_restricted_hamiltonian((hmat,))
        h_n = fqe.get_hamiltonian_from_openfermion(pair, norb=nb_, conserve_number=False)
        for label, wv, hh in (("number-conserving Hamiltonian on a number-broken wavefunction", w_nb, h_c),
                              ("number-breaking Hamiltonian on a number-conserving wavefunction", w_nc, h_n)):
            for algo, kw in (("taylor", {}), ("chebyshev", {"spec_lim": [-3.0, 3.0]})):
                before = wsnap(wv)
                oc, _ = outcome(lambda: wv.apply_generated_unitary(0.1, algo, hh, **kw))
                ctx.case(("agu-conservation", case, label, algo))
                ctx.count(f"generated-unitary:conservation-mismatch:{'refused' if oc != 'ok' else 'answered'}")
                if oc == "ok":
                    ctx.disagree("refuse:generated-unitary:number-conservation-mismatch-answered",
                                 f"apply_generated_unitary('{algo}') answered for a {label}", {"algo": algo, "operands": label})
                if wsnap(wv) != before:
                    ctx.disagree("refuse:operand-changed:generated-unitary", "operand changed", {"algo": algo, "operands": label})
    # ---- number-breaking single-term generators T + T^dagger (closed-form route) on number-conserving wavefunctions:
    #      the evolution leaves the electron number of the state, so every entry point must refuse, in place or not,
    #      on single-sector, multi-sector and spin-complete (all Sz of one N) wavefunctions ---------------------------
    for case in range(24 if quick else 240):
        norb = rng.choice([2, 3, 3])
        nso = 2 * norb
        ncre, nann = rng.choice([(2, 0), (2, 0), (1, 0), (3, 1), (2, 1), (0, 2)])
        if ncre + nann > nso:
            continue
        modes = rng.sample(range(nso), ncre + nann)
        T = tuple((m, 1) for m in modes[:ncre]) + tuple((m, 0) for m in modes[ncre:])
        Td = tuple((m, 1 - d_) for m, d_ in reversed(T))
        c = complex(rng.choice([1, 2, -1]), rng.choice([0, 1, -2])) / 2
        gen = _FO(T, c) + _FO(Td, c.conjugate())
        nel = rng.randint(1, nso - 1)
        wkind = rng.choice(["spin-complete", "spin-complete", "single", "multi"])
        try:
            if wkind == "spin-complete":
                wv = fqe.get_number_conserving_wavefunction(nel, norb)
            elif wkind == "single":
                na = rng.randint(max(0, nel - norb), min(norb, nel))
                wv = fqe.Wavefunction([[nel, 2 * na - nel, norb]])
            else:
                na = rng.randint(max(0, nel - norb), min(norb, nel))
                secs = [[nel, 2 * na - nel, norb]]
                n2 = nel + (ncre - nann)
                if 0 <= n2 <= nso:
                    na2 = rng.randint(max(0, n2 - norb), min(norb, n2))
                    secs.append([n2, 2 * na2 - n2, norb])
                wv = fqe.Wavefunction(secs)
        except Exception:
            continue
        U.random_fill(wv, rng, zero_p=0.0)
        desc = {"norb": norb, "T": [list(x) for x in T], "c": [c.real, c.imag], "wfn": wkind,
                "sectors": [list(map(int, k)) for k in sorted(wv.sectors())]}
        for api in ("time_evolve", "time_evolve-inplace", "fqe.time_evolve", "apply"):
            tgt = copy.deepcopy(wv)
            before = wsnap(tgt)
            if api == "apply":
                oc, val = outcome(lambda: tgt.apply(gen))
            elif api == "fqe.time_evolve":
                oc, val = outcome(lambda: fqe.time_evolve(tgt, 0.3, gen))
            else:
                oc, val = outcome(lambda: tgt.time_evolve(0.3, gen, inplace=api.endswith("inplace")))
            ctx.case(("number-breaking-individual", case, api))
            ctx.count(f"number-breaking-individual:{wkind}:{'answered' if oc == 'ok' else 'refused'}")
            if oc == "ok":
                ctx.disagree(f"refuse:number-breaking-generator-on-number-conserving-wfn:{api.split('-')[0]}",
                             f"{api} answered a number-breaking generator T + T^dagger on a number-conserving wavefunction ({wkind})", desc)
            elif wsnap(tgt) != before:
                ctx.disagree("refuse:operand-changed:individual-generator", f"operand changed by the refused {api}", desc)
    # ---- coefficient data of the wrong shape: every array whose shape is not exactly (lena, lenb) is refused - one
    #      extent wrong, both wrong, transposed, extra axes, one axis - and a refusal leaves *every* sector untouched --
    for case in range(10 if quick else 80):
        norb = rng.choice([2, 3, 4])
        wv = C01.make_wfn(ctx, rng.choice(["single", "multi", "multi"]), norb, rng)
        keys = sorted(wv.sectors())
        victim = rng.choice(keys)
        la, lb = wv.get_coeff(victim).shape
        shapes = [(la, lb + 1), (la + 1, lb), (la - 1, lb) if la > 1 else (la, lb + 2), (la + 1, lb + 1), (la, lb, 2), (la * lb,), (1, la, lb)]
        if la != lb:
            shapes.append((lb, la))
        for shp in shapes:
            if 0 in shp:
                continue
            data = {k: numpy.full(wv.get_coeff(k).shape, 5.0 + 1.0j) for k in keys}
            data[victim] = numpy.full(shp, 7.0, dtype=numpy.complex128)
            tgt = copy.deepcopy(wv)
            before = wsnap(tgt)
            oc, _ = outcome(lambda: tgt.set_wfn(strategy="from_data", raw_data=data))
            ctx.case(("set-wfn-shape", case, shp))
            ctx.count(f"set_wfn-wrong-shape:{'refused' if oc != 'ok' else 'accepted'}")
            dsc = {"norb": norb, "sectors": [list(map(int, k)) for k in keys], "victim": list(map(int, victim)), "sector_shape": [la, lb], "data_shape": list(shp)}
            if oc == "ok":
                ctx.disagree("refuse:coefficient-data-of-wrong-shape-accepted", f"set_wfn(from_data) accepted data of shape {shp} "
                             f"for a {la} x {lb} sector", dsc)
            elif wsnap(tgt) != before:
                ctx.disagree("refuse:operand-changed:set_wfn", f"set_wfn(from_data) refused data of shape {shp} for sector {victim} "
                             "after other sectors had been overwritten", dsc)
    # ---- a single diagonal string (product of number operators) is Hermitian iff its coefficient is real ----------
    for case in range(12 if quick else 100):
        norb = rng.choice([2, 3])
        modes = rng.sample(range(2 * norb), rng.choice([1, 2]))
        T = tuple(x for m in modes for x in ((m, 1), (m, 0)))
        c = complex(rng.choice([1.0, -0.5, 2.0]), rng.choice([0.0, 0.0, 1.5, -2.0]))
        wv = C01.make_wfn(ctx, "single", norb, rng)
        hg = fqe.get_sparse_hamiltonian(_FO(T, c))
        for inplace in (False, True):
            tgt = copy.deepcopy(wv)
            before = wsnap(tgt)
            oc, val = outcome(lambda: tgt.time_evolve(0.3, hg, inplace=inplace))
            ctx.case(("diagonal-single-term", case, inplace))
            ctx.count(f"individual:diagonal:{'real' if c.imag == 0 else 'complex'}:{'ok' if oc == 'ok' else 'refused'}")
            dsc = {"norb": norb, "T": [list(x) for x in T], "c": [c.real, c.imag], "inplace": inplace}
            if c.imag == 0 and oc != "ok":
                ctx.disagree("refuse:hermitian-individual-generator-refused", f"real multiple of a number-operator string refused with {oc}", dsc)
            if c.imag != 0:
                if oc == "ok":
                    ctx.disagree("refuse:nonhermitian-individual-generator-accepted",
                                 "time_evolve answered for a number-operator string with a complex coefficient (non-Hermitian)", dsc)
                elif wsnap(tgt) != before:
                    ctx.disagree("refuse:operand-changed:individual-generator", "operand changed by the refused call", dsc)
    # ---- operator indices at and beyond the orbital range, sparse (<= 2 terms) and dense (> 2 terms) routes ----
    import fqe as _fqe_mod
    for nb_ in (2, 3):
        for top in (2 * nb_ - 2, 2 * nb_ - 1, 2 * nb_, 2 * nb_ + 1, 2 * nb_ + 2, 2 * nb_ + 3):
            for nterm in (2, 4, 6):
                lows = [top % 2 + 2 * k for k in range(nb_) if top % 2 + 2 * k != top][: nterm // 2]
                if len(lows) < nterm // 2:
                    continue
                op = FermionOperator()
                if nterm >= 4:
                    op += FermionOperator(((lows[0], 1), (lows[0], 0)), 0.7)
                for lo in lows:
                    op += FermionOperator(((top, 1), (lo, 0)), 1.0) + FermionOperator(((lo, 1), (top, 0)), 1.0)
                if nterm >= 4:
                    op += FermionOperator(((top, 1), (top, 0)), 0.7)
                idxs = sorted({m for t in op.terms for m, _ in t})
                model = d.ask(f"admit_opidx {nb_} {len(idxs)} {' '.join(map(str, idxs))}")
                for api in ("apply", "time_evolve", "fqe.apply", "expectationValue"):
                    w = fqe.Wavefunction([[nb_, nb_ % 2, nb_]])
                    U.random_fill(w, rng, zero_p=0.0)
                    before = wsnap(w)
                    if api == "apply":
                        oc, _ = outcome(lambda: w.apply(op))
                    elif api == "time_evolve":
                        oc, _ = outcome(lambda: w.time_evolve(0.1, op))
                    elif api == "fqe.apply":
                        oc, _ = outcome(lambda: fqe.apply(op, w))
                    else:
                        oc, _ = outcome(lambda: w.expectationValue(fqe.build_hamiltonian(op, norb=nb_, conserve_number=True)))
                    desc = {"api": api, "norb": nb_, "top_index": top, "terms": len(op.terms),
                            "op": [[[list(f) for f in t], c.real] for t, c in op.terms.items()]}
                    ctx.case(("opindex", api, nb_, top, nterm))
                    ctx.count(f"opindex:{'in-range' if model == 'ok' else 'beyond'}:{oc}")
                    if model != "ok" and oc == "ok":
                        ctx.disagree(f"refuse:operator-index-beyond-norb:{api}",
                                     f"{api} with an operator on mode {top} (norb {nb_}, {len(op.terms)} terms) was answered", desc)
                    if model == "ok" and oc != "ok":
                        ctx.disagree(f"refuse:operator-index-in-range-refused:{api}",
                                     f"{api} with an operator on mode {top} (norb {nb_}) was refused: {oc}", desc)
                    if wsnap(w) != before:
                        ctx.disagree(f"refuse:operand-changed:{api}", f"operand changed ({oc})", desc)
    # ---- RDM / Wick patterns: every malformed pattern (repeated label in any position and dagger state, odd number
    #      of tokens, token of another shape) is refused; decision model = Model/Guards.lean admitPattern --------------
    def toks_of(pat):
        out = []
        for tk in pat.split():
            shaped = len(tk) == 1 or (len(tk) == 2 and tk[1] == "^")
            out.append((ord(tk[0]), int(len(tk) == 2 and tk[1] == "^"), int(shaped)))
        return out
    pats = []
    for L in (1, 2, 3, 4):
        for labs in itertools.product("ijk", repeat=L):
            for dags in itertools.product((0, 1), repeat=L):
                pats.append(" ".join(l + ("^" if dg else "") for l, dg in zip(labs, dags)))
    pats += ["i^^ j", "ij^ k", "i^ j^ k l m^ m", "i j k^ l^ i^ m", "i^ j^ k^ l^ m n o i"]
    if quick:
        rng.shuffle(pats)
        keep = ["i i^", "i j i^ k^", "i j i^ j^", "i j^ i^ k", "i^ i"]
        pats = keep + pats[:160]
    wsf = fqe.Wavefunction([[2, 0, 2]])
    U.random_fill(wsf, rng, zero_p=0.0)
    wsb = fqe.get_number_conserving_wavefunction(2, 2)
    U.random_fill(wsb, rng, zero_p=0.0)
    for pat in pats:
        tk = toks_of(pat)
        for sf, wv in ((1, wsf), (0, wsb)):
            model = d.ask(f"admit_pattern {sf} {len(tk)} " + " ".join(f"{a} {b} {c}" for a, b, c in tk))
            for api in ("rdm", "expectationValue"):
                oc, _ = outcome((lambda: wv.rdm(pat)) if api == "rdm" else (lambda: wv.expectationValue(pat)))
                ctx.case(("pattern", pat, sf, api))
                ctx.count(f"pattern:{'model-refuses' if model != 'ok' else 'model-admits'}:{'ok' if oc == 'ok' else 'refused'}")
                if model != "ok" and oc == "ok":
                    ctx.disagree(f"refuse:malformed-rdm-pattern:{api}", f"{api}('{pat}') was answered on a "
                                 f"{'spin-conserving' if sf else 'spin-broken'} wavefunction (model: {model})",
                                 {"pattern": pat, "spinfree": sf, "api": api})
    # ---- hostile values in a child interpreter ---------------------------------------------------------
    here = os.path.dirname(os.path.dirname(os.path.abspath(__file__)))
    logf = os.path.join(os.environ.get("TMPDIR", "/tmp"), f"fqeverif-c14-{os.getpid()}.log")
    for flags in ([], ["-O"]):
        code = HOSTILE % {"here": here, "src": ctx.src, "path": ctx.path, "log": logf}
        r = subprocess.run([sys.executable] + flags + ["-c", code], stdout=subprocess.PIPE, stderr=subprocess.PIPE, text=True)
        res = [json.loads(l[5:]) for l in r.stdout.splitlines() if l.startswith("@@H@@")]
        names = [x[0] for x in res]
        ctx.count(f"hostile{'-O' if flags else ''}:attempts", len(res))
        for name, outc in res:
            ctx.case(("hostile", tuple(flags), name))
        if r.returncode != 0 or "done" not in names:
            last = open(logf).read().splitlines()[-1] if os.path.exists(logf) else "?"
            ctx.disagree("crash:interpreter-terminated", f"child interpreter ended with status {r.returncode} during '{last}' "
                         f"(flags {flags})", {"attempt": last, "flags": flags, "stderr": r.stderr[-500:]})
        returned = {n for n, o in res if o == "returned"}
        expected_refusals = {"op-index-beyond-norb", "op-index-130", "evolve-index-130", "rdm-element-index-99", "norb-65",
                             "tensor-wrong-dim", "diag-wrong-size", "from-cirq-bad-length", "set-wfn-wrong-shape",
                             "getitem-foreign-det", "rdm-malformed", "rdm-nonconserving", "rdm-garbage", "negative-norb",
                             "fcigraph-negative", "bitstring-nele-gt-norb", "transform-nonsquare", "diagcoulomb-wrong-size"}
        for n in sorted(returned & expected_refusals):
            sig = f"refuse:hostile-answered:{n}" + (":python-O" if flags else "")
            ctx.disagree(sig, f"'{n}' was answered instead of refused (interpreter flags {flags})", {"attempt": n, "flags": flags})
    if os.path.exists(logf):
        os.remove(logf)


def replay(ctx, rep):
    run(ctx)
