"""C03 — reduced density matrices and expectation values = true matrix elements.

Every tensor `ket.rdm(pattern, brawfn=bra)` is compared element by element (exactly, Gaussian-integer states)
with `<bra| pattern |ket>` computed by the Lean Spec driver (`rdm`): spin-summed with the documented pairing
(position k and k+rank share a spin) for spin-conserving wavefunctions, spin-orbital for spin-broken ones.
Numeric-index requests are compared with the corresponding Spec element; expectation values of Hamiltonians
with <bra|H|ket> and with the contraction of the tensors with the returned density matrices."""
import copy
import itertools
from fractions import Fraction

import numpy

import fqe_util as U
from lean_driver import fmt_vec, fmt_op, parse_c


def all_patterns(rank, rng, limit):
    """valid operator orderings: 2*rank distinct letters, position k and k+rank have opposite dagger flags"""
    letters = "ijklmnop"[:2 * rank]
    pats = []
    for flags in itertools.product((0, 1), repeat=rank):
        dags = list(flags) + [1 - f for f in flags]
        for perm in ([tuple(range(2 * rank))] + [tuple(rng.sample(range(2 * rank), 2 * rank)) for _ in range(2)]):
            pats.append(" ".join(letters[perm[p]] + ("^" if dags[p] else "") for p in range(2 * rank)))
    pats = sorted(set(pats))
    rng.shuffle(pats)
    normal = " ".join(l + "^" for l in letters[:rank]) + " " + " ".join(letters[rank:])
    return [normal] + [p for p in pats if p != normal][:limit - 1]


def spec_rdm(d, norb, mode, bra_e, ket_e, pattern):
    toks = pattern.split()
    rank = len(toks) // 2
    letters = []
    pat = []
    for pos, t in enumerate(toks):
        l = t[0]
        if l not in letters:
            letters.append(l)
        pat.append((letters.index(l), 1 if t.endswith("^") else 0))
    groups = [0] * len(letters)
    for pos, t in enumerate(toks):
        groups[letters.index(t[0])] = pos % rank
    req = (f"rdm {norb} {mode} {fmt_vec(bra_e)} {fmt_vec(ket_e)} {len(groups)} {' '.join(map(str, groups))} "
           f"{len(pat)} " + " ".join(f"{l} {dg}" for l, dg in pat))
    t = d.ask(req).split()
    n = int(t[0])
    vals = [complex(float(Fraction(t[1 + 2 * i])), float(Fraction(t[2 + 2 * i]))) for i in range(n)]
    dim = norb if mode == 1 else 2 * norb
    return numpy.array(vals).reshape((dim,) * len(letters))


def run(ctx):
    fqe = ctx.fqe
    import props.C01 as C01
    from openfermion import FermionOperator
    d, rng = ctx.driver, ctx.rng
    quick = ctx.tier == "quick"
    ncases = 36 if quick else 300
    for case in range(ncases):
        rank = rng.choice([1, 1, 2, 2, 2, 3] if quick else [1, 2, 2, 2, 3, 3, 4])
        norb = rng.choice([1, 2, 2, 3]) if rank <= 2 else (2 if rank == 3 or quick else 2)
        wk = rng.choice(["single", "single", "multi", "spinbroken"])
        ket = C01.make_wfn(ctx, wk, norb, rng)
        if rng.random() < 0.3:
            ket.scale(2)                       # unnormalised on purpose
        same_bra = rng.random() < 0.4
        bra = ket if same_bra else copy.deepcopy(ket)
        if not same_bra:
            U.random_fill(bra, rng)
        ek, eb = U.wfn_entries(ket), U.wfn_entries(bra)
        mode = 0 if wk == "spinbroken" else 1
        desc = {"wfn": wk, "norb": norb, "rank": rank, "sectors": sorted(ket.sectors()), "same_bra": same_bra, "case": case,
                "ket": [[a, b, [c.real, c.imag]] for a, b, c in ek], "bra": [[a, b, [c.real, c.imag]] for a, b, c in eb]}
        for pattern in all_patterns(rank, rng, 3 if quick else 5):
            normal_ordered = all(t.endswith("^") for t in pattern.split()[:rank]) and \
                not any(t.endswith("^") for t in pattern.split()[rank:])
            try:
                got = ket.rdm(pattern) if same_bra else ket.rdm(pattern, brawfn=bra)
            except Exception as exc:
                ctx.case(None)
                ctx.disagree(f"rdm-raises:rank{rank}:{type(exc).__name__}", f"rdm('{pattern}') raised {exc}",
                             {**desc, "pattern": pattern})
                continue
            want = spec_rdm(d, norb, mode, eb, ek, pattern)
            got = numpy.asarray(got)
            ok = got.shape == want.shape and bool(numpy.all(numpy.abs(got - want) <= 1e-9 * max(1.0, float(numpy.abs(want).max()) if want.size else 1.0)))
            ctx.case(("rdm", case, pattern), sample={k: desc[k] for k in ("wfn", "norb", "rank", "same_bra")} | {"pattern": pattern}
                     if case < 3 else None)
            ctx.count(f"rank{rank}:{'normal' if normal_ordered else 'reordered'}:{wk}")
            if not ok:
                maxdiff = float(numpy.max(numpy.abs(got - want))) if got.shape == want.shape else -1
                sig = f"rdm:rank{rank}:{'normal' if normal_ordered else 'reordered'}:{'diag' if same_bra else 'transition'}"
                if not normal_ordered:
                    ov = sum(numpy.conj(cb) * ck for (a, b, cb) in eb for (a2, b2, ck) in ek if (a, b) == (a2, b2))
                    if abs(ov - 1) > 1e-12:
                        sig = "rdm:reordered-pattern-with-overlap-not-one"
                if ctx.path == "PY" and not same_bra:
                    sig += ":py"
                ctx.disagree(sig, f"rdm('{pattern}') differs from <bra|pattern|ket>, max |diff| {maxdiff}", {**desc, "pattern": pattern})
        # ---- numeric-index elements ---------------------------------------------------------
        if wk != "spinbroken":
            for _ in range(3):
                r = rng.choice([1, 2]) if norb > 1 else 1
                cre = rng.sample(range(2 * norb), r)
                na = sum(1 for m in cre if m % 2 == 0)
                if na > norb or r - na > norb:
                    continue
                ann = rng.sample([m for m in range(2 * norb) if m % 2 == 0], na) + \
                    rng.sample([m for m in range(2 * norb) if m % 2 == 1], r - na)
                rng.shuffle(ann)
                string = " ".join(f"{m}^" for m in cre) + " " + " ".join(str(m) for m in ann)
                try:
                    got = complex(ket.rdm(string) if same_bra else ket.rdm(string, brawfn=bra))
                except Exception as exc:
                    ctx.disagree(f"rdm-element-raises:{type(exc).__name__}", f"rdm('{string}') raised {exc}", {**desc, "pattern": string})
                    continue
                term = [(m, 1) for m in cre] + [(m, 0) for m in ann]
                e = parse_c(d.ask(f"expect {norb} {fmt_vec(eb)} {fmt_vec(ek)} {fmt_op([(1.0, term)])}"))
                ctx.case(("element", case, string))
                ctx.count("element")
                if abs(got.real - float(e[0])) > 1e-9 * max(1.0, abs(float(e[0]))) or abs(got.imag - float(e[1])) > 1e-9 * max(1.0, abs(float(e[1]))):
                    ctx.disagree("rdm:element", f"rdm('{string}') = {got}, exact {e}", {**desc, "pattern": string})
            # numeric strings with repeated indices and arbitrary operator order (number- and Sz-conserving overall):
            # strings that normal-order to zero ('0^ 0^ 0 0') or to a constant plus terms ('0 0^') are matrix elements
            # like any other
            for _ in range(3):
                r = rng.choice([1, 2, 2, 3]) if norb > 1 else rng.choice([1, 2])
                cre = [rng.randrange(2 * norb) for _ in range(r)]
                na = sum(1 for m in cre if m % 2 == 0)
                ann = [rng.choice([m for m in range(2 * norb) if m % 2 == 0]) for _ in range(na)] + \
                    [rng.choice([m for m in range(2 * norb) if m % 2 == 1]) for _ in range(r - na)]
                if rng.random() < 0.5:
                    ann = list(cre)
                term = [(m, 1) for m in cre] + [(m, 0) for m in ann]
                if rng.random() < 0.6:
                    rng.shuffle(term)
                string = " ".join(f"{m}^" if dg else str(m) for m, dg in term)
                try:
                    got = complex(ket.rdm(string) if same_bra else ket.rdm(string, brawfn=bra))
                except Exception as exc:
                    ctx.disagree(f"rdm-element-raises:{type(exc).__name__}", f"rdm('{string}') raised {exc}", {**desc, "pattern": string})
                    continue
                e = parse_c(d.ask(f"expect {norb} {fmt_vec(eb)} {fmt_vec(ek)} {fmt_op([(1.0, term)])}"))
                # the same element through expectationValue(<numeric string>)
                try:
                    got2 = complex(ket.expectationValue(string) if same_bra else ket.expectationValue(string, brawfn=bra))
                    ctx.count("element:repeated-indices:expectationValue")
                    if abs(got2.real - float(e[0])) > 1e-9 or abs(got2.imag - float(e[1])) > 1e-9:
                        ctx.disagree("expectation:numeric-string", f"expectationValue('{string}') = {got2}, exact {e}",
                                     {**desc, "pattern": string})
                except Exception as exc:
                    ctx.disagree(f"expectation-string-raises:{type(exc).__name__}", f"expectationValue('{string}') raised {exc}",
                                 {**desc, "pattern": string})
                ctx.case(("element-repeat", case, string))
                ctx.count("element:repeated-indices")
                if abs(got.real - float(e[0])) > 1e-9 or abs(got.imag - float(e[1])) > 1e-9:
                    from openfermion import FermionOperator as _FO, normal_ordered as _no
                    nord = _no(_FO(tuple(term), 1.0))
                    sig = "rdm:element:string-normal-orders-to-a-constant" if all(len(t) == 0 for t in nord.terms) else "rdm:element:repeated"
                    ctx.disagree(sig, f"rdm('{string}') = {got}, exact {e}", {**desc, "pattern": string})
        # ---- expectation value of a Hamiltonian = <bra|H|ket> = tensors . RDMs ---------------
        if wk != "spinbroken" and rank <= 2:
            h1 = C01.rand_tensor(rng, norb, 1, 0.7, True)
            h2 = C01.rand_tensor(rng, norb, 2, 0.3, True)
            ham = fqe.get_restricted_hamiltonian((h1, h2), e_0=0)
            terms = U.restricted_terms([h1, h2], norb)
            try:
                if case % 2 == 0:
                    got = complex(fqe.expectationValue(ket, ham) if same_bra else fqe.expectationValue(ket, ham, bra))
                    ctx.count("expectation-via-module-wrapper")
                else:
                    got = complex(ket.expectationValue(ham) if same_bra else ket.expectationValue(ham, brawfn=bra))
                e = parse_c(d.ask(f"expect {norb} {fmt_vec(eb)} {fmt_vec(ek)} {fmt_op(terms)}"))
                ctx.case(("expect", case))
                ctx.count("expectation")
                if abs(got.real - float(e[0])) > 1e-9 * max(1.0, abs(float(e[0]))) or abs(got.imag - float(e[1])) > 1e-9 * max(1.0, abs(float(e[1]))):
                    ctx.disagree("expectation:restricted", f"expectationValue = {got}, exact {e}", desc)
                d1 = ket.rdm("i^ j") if same_bra else ket.rdm("i^ j", brawfn=bra)
                d2 = ket.rdm("i^ j^ k l") if same_bra else ket.rdm("i^ j^ k l", brawfn=bra)
                contr = complex(numpy.einsum("ij,ij", h1, d1) + numpy.einsum("ijkl,ijkl", h2, d2))
                if abs(contr - got) > 1e-9 * max(1, abs(got)):
                    ctx.disagree("expectation:contraction", f"tensor.RDM = {contr}, expectationValue = {got}", desc)
            except Exception as exc:
                ctx.disagree(f"expectation-raises:{type(exc).__name__}", str(exc), desc)

    # ---- every dagger placement of rank 3 and rank 4 (identity letter order), spin-summed, bra != ket ---------------
    for rank, nel, sz in ((3, 2, 0), (3, 3, 1), (4, 2, 0), (4, 3, -1)) if quick else \
            ((3, 2, 0), (3, 3, 1), (3, 4, 0), (4, 2, 0), (4, 3, -1), (4, 3, 1), (4, 4, 0)):
        norb = 2
        ket = fqe.Wavefunction([[nel, sz, norb]])
        U.random_fill(ket, rng, zero_p=0.0)
        bra = copy.deepcopy(ket)
        U.random_fill(bra, rng, zero_p=0.0)
        ek, eb = U.wfn_entries(ket), U.wfn_entries(bra)
        letters = "ijklmnop"[:2 * rank]
        for flags in itertools.product((0, 1), repeat=rank):
            dags = list(flags) + [1 - f for f in flags]
            pattern = " ".join(letters[p] + ("^" if dags[p] else "") for p in range(2 * rank))
            desc = {"wfn": "single", "norb": norb, "rank": rank, "sectors": [(nel, sz)], "same_bra": False, "pattern": pattern,
                    "ket": [[a, b, [c.real, c.imag]] for a, b, c in ek], "bra": [[a, b, [c.real, c.imag]] for a, b, c in eb]}
            try:
                got = numpy.asarray(ket.rdm(pattern, brawfn=bra))
            except Exception as exc:
                ctx.disagree(f"rdm-raises:rank{rank}:{type(exc).__name__}", f"rdm('{pattern}') raised {exc}", desc)
                continue
            want = spec_rdm(d, norb, 1, eb, ek, pattern)
            ctx.case(("ordering", rank, nel, sz, pattern))
            ctx.count(f"ordering-sweep:rank{rank}")
            if got.shape != want.shape or not numpy.allclose(got, want, atol=1e-9, rtol=0):
                maxdiff = float(numpy.max(numpy.abs(got - want))) if got.shape == want.shape else -1
                ctx.disagree(f"rdm:rank{rank}:ordering-sweep", f"rdm('{pattern}') differs from <bra|pattern|ket>, max |diff| {maxdiff}", desc)
    # ---- number-broken (Sz-conserving) wavefunctions: numeric-index elements, bra = ket and transition, for
    #      Sz-conserving strings that need not conserve the particle number (exact value: Spec in the convention
    #      iota * nbTwist, driver command `expectnb`) ---------------------------------------------------------------
    for case in range(16 if quick else 200):
        norb = rng.choice([2, 2, 3])
        sz = rng.randint(-norb + 1, norb - 1)
        ket = fqe.get_spin_conserving_wavefunction(sz, norb)
        bra = fqe.get_spin_conserving_wavefunction(sz, norb)
        U.random_fill(ket, rng, zero_p=0.0)
        U.random_fill(bra, rng, zero_p=0.0)
        ek, eb = U.wfn_entries(ket), U.wfn_entries(bra)
        for _ in range(4):
            p, q, r_, t_ = (rng.randrange(norb) for _ in range(4))
            form = rng.choice(["pair-create", "pair-destroy", "hop-alpha", "hop-beta", "number", "two-body"])
            term = {"pair-create": [(2 * p, 1), (2 * q + 1, 1)], "pair-destroy": [(2 * p + 1, 0), (2 * q, 0)],
                    "hop-alpha": [(2 * p, 1), (2 * q, 0)], "hop-beta": [(2 * p + 1, 1), (2 * q + 1, 0)],
                    "number": [(2 * p, 1), (2 * p, 0)],
                    "two-body": [(2 * p, 1), (2 * q + 1, 1), (2 * r_ + 1, 0), (2 * t_, 0)]}[form]
            string = " ".join(f"{m}^" if dg else f"{m}" for m, dg in term)
            for same in (True, False):
                desc = {"wfn": "numberbroken", "norb": norb, "sz": sz, "pattern": string, "same_bra": same,
                        "ket": [[a, b, [c.real, c.imag]] for a, b, c in ek], "bra": [[a, b, [c.real, c.imag]] for a, b, c in eb]}
                try:
                    got = complex(ket.rdm(string) if same else ket.rdm(string, brawfn=bra))
                except Exception as exc:
                    ctx.disagree(f"rdm-element-raises:numberbroken:{type(exc).__name__}", f"rdm('{string}') raised {exc}", desc)
                    continue
                e = parse_c(d.ask(f"expectnb {norb} {fmt_vec(ek if same else eb)} {fmt_vec(ek)} {fmt_op([(1.0, term)])}"))
                ex = complex(float(e[0]), float(e[1]))
                ctx.case(("nb-element", case, string, same) if ex != 0 else None)
                ctx.count(f"numberbroken-element:{form}:{'diag' if same else 'transition'}")
                if abs(got - ex) > 1e-9:
                    ctx.disagree("rdm:numberbroken-element:" + ("diag" if same else "transition"),
                                 f"rdm('{string}') = {got} on a number-broken wavefunction, exact {ex}", desc)
    # ---- sector-level accessors (OpenFermion-ordered spin-orbital RDMs and their spin blocks) ---------------------
    for case in range(4 if quick else 30):
        norb = 2 if (quick or case % 3) else 3
        n_ = rng.randint(1, 2 * norb - 1)
        szs = [s_ for s_ in range(-n_, n_ + 1, 2) if (n_ + s_) // 2 <= norb and (n_ - s_) // 2 <= norb]
        sz_ = rng.choice(szs)
        w = fqe.Wavefunction([[n_, sz_, norb]])
        U.random_fill(w, rng, zero_p=0.0)
        ents = U.wfn_entries(w)
        sec = w.sector((n_, sz_))
        nso = 2 * norb
        perm = [m // 2 + norb * (m % 2) for m in range(nso)]        # interleaved (OpenFermion) -> block (FQE) index
        d1 = spec_rdm(d, norb, 0, ents, ents, "i^ j")
        d2 = spec_rdm(d, norb, 0, ents, ents, "i^ j^ k l")
        desc = {"norb": norb, "sector": [n_, sz_], "ket": [[a, b, [c.real, c.imag]] for a, b, c in ents]}
        checks = []
        try:
            opdm, tpdm = sec.get_openfermion_rdms()
            checks.append(("get_openfermion_rdms[0]", numpy.asarray(opdm), d1[numpy.ix_(perm, perm)]))
            checks.append(("get_openfermion_rdms[1]", numpy.asarray(tpdm), d2[numpy.ix_(perm, perm, perm, perm)]))
            oa, ob = sec.get_spin_opdm()
            checks.append(("get_spin_opdm[alpha]", numpy.asarray(oa), d1[:norb, :norb]))
            checks.append(("get_spin_opdm[beta]", numpy.asarray(ob), d1[norb:, norb:]))
            checks.append(("get_ab_tpdm", numpy.asarray(sec.get_ab_tpdm()), d2[:norb, norb:, norb:, :norb]))
            o1, taa = sec.get_aa_tpdm()
            checks.append(("get_aa_tpdm[1]", numpy.asarray(taa), d2[:norb, :norb, :norb, :norb]))
            checks.append(("get_aa_tpdm[0]", numpy.asarray(o1), d1[:norb, :norb]))
            o2, tbb = sec.get_bb_tpdm()
            checks.append(("get_bb_tpdm[1]", numpy.asarray(tbb), d2[norb:, norb:, norb:, norb:]))
            if norb == 2:
                d3 = spec_rdm(d, norb, 0, ents, ents, "i^ j^ k^ l m n")
                checks.append(("get_three_pdm", numpy.asarray(sec.get_three_pdm()), d3[numpy.ix_(perm, perm, perm, perm, perm, perm)]))
        except Exception as exc:
            ctx.disagree(f"accessor-raises:{type(exc).__name__}", str(exc)[:300], desc)
        for name, got, want in checks:
            ctx.case(("accessor", case, name))
            ctx.count(f"accessor:{name}")
            if got.shape != want.shape or numpy.abs(got - want).max() > 1e-9:
                md = float(numpy.abs(got - want).max()) if got.shape == want.shape else -1
                ctx.disagree(f"rdm:accessor:{name.split('[')[0]}", f"{name} differs from the exact spin-orbital RDM, max |diff| {md}", desc)
    # ---- the rewriting driver of wick() against its Lean model (Model/Wick.lean, proved sound): random spin-orbital
    #      patterns, random "RDM" arrays; the tensor assembled from the model's normal form must be the tensor returned ----
    from fqe import wick as wick_mod
    for case in range(10 if quick else 120):
        rank = rng.choice([1, 2, 2, 3]) if quick else rng.choice([1, 2, 2, 3, 3, 4])
        nb_ = 2 if rank >= 3 else rng.choice([2, 3])
        n = 2 * rank
        flags = [1] * rank + [0] * rank
        rng.shuffle(flags)
        letters = "ijklmnop"[:n]
        pattern = " ".join(letters[p] + ("^" if flags[p] else "") for p in range(n))
        nr_ = numpy.random.RandomState(rng.randrange(2 ** 31))
        data = [(nr_.randint(-3, 4, (nb_,) * (2 * r)) + 1j * nr_.randint(-3, 4, (nb_,) * (2 * r))).astype(numpy.complex128)
                for r in range(1, rank + 1)]
        ov = complex(nr_.randint(1, 4), nr_.randint(-2, 3))
        desc = {"pattern": pattern, "norb": nb_, "rank": rank, "overlap": [ov.real, ov.imag], "case": case}
        try:
            got = numpy.asarray(wick_mod.wick(pattern, [d_.copy() for d_ in data], False, ov))
        except Exception as exc:
            ctx.disagree(f"wick-driver-raises:{type(exc).__name__}", f"wick('{pattern}', spinfree=False) raised {exc}", desc)
            continue
        toks = d.ask(f"wicknf {n} " + " ".join(f"{p} {flags[p]}" for p in range(n))).split()
        pos = 0
        k = int(toks[pos]); pos += 1
        want = numpy.zeros((nb_,) * n, dtype=numpy.complex128)
        for _ in range(k):
            neg = int(toks[pos]); nd = int(toks[pos + 1]); pos += 2
            deltas = [(int(toks[pos + 2 * q]), int(toks[pos + 2 * q + 1])) for q in range(nd)]; pos += 2 * nd
            nops = int(toks[pos]); pos += 1
            ops = [(int(toks[pos + 2 * q]), int(toks[pos + 2 * q + 1])) for q in range(nops)]; pos += 2 * nops
            sgn = -1.0 if neg else 1.0
            for idx in itertools.product(range(nb_), repeat=n):
                if any(idx[x] != idx[y] for x, y in deltas):
                    continue
                if nops:
                    want[idx] += sgn * data[nops // 2 - 1][tuple(idx[l] for l, _ in ops)]
                else:
                    want[idx] += sgn * ov
        ctx.case(("wick-driver", case, pattern))
        ctx.count(f"wick-driver:rank{rank}")
        if got.shape != want.shape or numpy.abs(got - want).max() > 1e-9:
            md = float(numpy.abs(got - want).max()) if got.shape == want.shape else -1
            ctx.disagree(f"wick:driver:rank{rank}", f"wick('{pattern}', spinfree=False) differs from the tensor assembled from the "
                         f"model's normal form ({k} entries), max |diff| {md}", desc)
    # ---- the spin-free variant of the driver (factor 2 for a contraction inside one spin slot, slot merging, final
    #      spin sort) against its executable Lean model (`wicknfsf`; tie only, no theorem) ---------------------------------
    for case in range(12 if quick else 150):
        rank = rng.choice([1, 2, 2, 3]) if quick else rng.choice([1, 2, 2, 3, 3, 4])
        nb_ = 2 if rank >= 3 else rng.choice([2, 3])
        n = 2 * rank
        half = [rng.randint(0, 1) for _ in range(rank)]
        flags = half + [1 - x for x in half]          # positions k and k+rank share a spin: one creates, one annihilates
        letters = "ijklmnop"[:n]
        pattern = " ".join(letters[p] + ("^" if flags[p] else "") for p in range(n))
        nr_ = numpy.random.RandomState(rng.randrange(2 ** 31))
        data = [(nr_.randint(-3, 4, (nb_,) * (2 * r)) + 1j * nr_.randint(-3, 4, (nb_,) * (2 * r))).astype(numpy.complex128)
                for r in range(1, rank + 1)]
        ov = complex(nr_.randint(1, 4), nr_.randint(-2, 3))
        desc = {"pattern": pattern, "norb": nb_, "rank": rank, "overlap": [ov.real, ov.imag], "case": case, "spinfree": True}
        try:
            got = numpy.asarray(wick_mod.wick(pattern, [d_.copy() for d_ in data], True, ov))
        except Exception as exc:
            ctx.disagree(f"wick-driver-raises:spinfree:{type(exc).__name__}", f"wick('{pattern}') raised {exc}", desc)
            continue
        toks = d.ask(f"wicknfsf {n} " + " ".join(f"{p} {flags[p]}" for p in range(n))).split()
        pos = 0
        k = int(toks[pos]); pos += 1
        want = numpy.zeros((nb_,) * n, dtype=numpy.complex128)
        for _ in range(k):
            neg = int(toks[pos]); twos = int(toks[pos + 1]); nd = int(toks[pos + 2]); pos += 3
            deltas = [(int(toks[pos + 2 * q]), int(toks[pos + 2 * q + 1])) for q in range(nd)]; pos += 2 * nd
            nops = int(toks[pos]); pos += 1
            ops = [(int(toks[pos + 3 * q]), int(toks[pos + 3 * q + 1])) for q in range(nops)]; pos += 3 * nops
            fac = (-1.0 if neg else 1.0) * 2.0 ** twos
            for idx in itertools.product(range(nb_), repeat=n):
                if any(idx[x] != idx[y] for x, y in deltas):
                    continue
                if nops:
                    want[idx] += fac * data[nops // 2 - 1][tuple(idx[l] for l, _ in ops)]
                else:
                    want[idx] += fac * ov
        ctx.case(("wick-driver-sf", case, pattern))
        ctx.count(f"wick-driver-spinfree:rank{rank}")
        if got.shape != want.shape or numpy.abs(got - want).max() > 1e-9:
            md = float(numpy.abs(got - want).max()) if got.shape == want.shape else -1
            ctx.disagree(f"wick:driver-spinfree:rank{rank}", f"wick('{pattern}', spinfree=True) differs from the tensor assembled from "
                         f"the model's normal form ({k} entries), max |diff| {md}", desc)
    # ---- string spaces longer than the internal blocks of the rank-2 kernels (100 x 100 blocks; >= 200 strings):
    #      randomly chosen tensor elements against the exact Spec value ------------------------------------------------
    from props.C10 import int_fill
    # ... and sparsely filled sectors of seven and more orbitals, where the reference path switches to its low-filling kernels
    wide = [(10, 0, 4), (10, 1, 6), (10, 4, 1), (7, 1, 2), (7, 2, 2), (7, 0, 2)] if quick else \
        [(10, 0, 4), (10, 1, 6), (10, 4, 1), (10, 5, 0), (10, 5, 1), (11, 1, 4), (9, 4, 4), (7, 1, 2), (7, 2, 2), (7, 0, 2),
         (7, 2, 1), (8, 2, 2), (7, 2, 0)]
    nr = numpy.random.RandomState(rng.randrange(2 ** 31))
    for norb, na, nb in wide:
        key = (na + nb, na - nb)
        ket = fqe.Wavefunction([[na + nb, na - nb, norb]])
        bra = fqe.Wavefunction([[na + nb, na - nb, norb]])
        for w in (ket, bra):
            shp = w.get_coeff(key).shape
            # sparse Gaussian-integer data: ~40 non-zero amplitudes spread over all blocks
            arr = numpy.zeros(shp, dtype=numpy.complex128)
            for _ in range(40):
                arr[nr.randint(shp[0]), nr.randint(shp[1])] = complex(nr.randint(-3, 4), nr.randint(-3, 4))
            arr[shp[0] - 1, shp[1] - 1] = 2.0
            arr[0, 0] = 1.0 - 1.0j
            w.set_wfn(strategy="from_data", raw_data={key: arr})
        ek, eb = U.wfn_entries(ket), U.wfn_entries(bra)
        for pattern, same in (("i^ j", False), ("i^ j^ k l", False), ("i^ j^ k l", True), ("i^ j k l^", False), ("i j k^ l^", True), ("i j^", True)):
            toks = pattern.split()
            try:
                got = numpy.asarray(ket.rdm(pattern) if same else ket.rdm(pattern, brawfn=bra))
            except Exception as exc:
                ctx.disagree(f"rdm-raises:wide:{type(exc).__name__}", f"rdm('{pattern}') raised {exc}", {"norb": norb, "nalpha": na, "nbeta": nb})
                continue
            # elements: the largest ones of the returned tensor plus random ones
            flat = numpy.argsort(-numpy.abs(got).ravel())[:12]
            idxs = [tuple(int(x) for x in numpy.unravel_index(f, got.shape)) for f in flat]
            idxs += [tuple(int(nr.randint(norb)) for _ in toks) for _ in range(12)]
            letters, pat = [], []
            for t in toks:
                if t[0] not in letters:
                    letters.append(t[0])
                pat.append((letters.index(t[0]), 1 if t.endswith("^") else 0))
            rank = len(toks) // 2
            groups = [0] * len(letters)
            for pos, t in enumerate(toks):
                groups[letters.index(t[0])] = pos % rank
            req = (f"rdmel {norb} 1 {fmt_vec(ek if same else eb)} {fmt_vec(ek)} {len(groups)} {' '.join(map(str, groups))} "
                   f"{len(pat)} " + " ".join(f"{l} {dg}" for l, dg in pat) + f" {len(idxs)} " + " ".join(" ".join(map(str, i)) for i in idxs))
            t = d.ask(req).split()
            vals = [complex(float(Fraction(t[1 + 2 * i])), float(Fraction(t[2 + 2 * i]))) for i in range(int(t[0]))]
            bad = [(i, complex(got[i]), v) for i, v in zip(idxs, vals) if abs(complex(got[i]) - v) > 1e-9]
            ctx.case(("wide", norb, na, nb, pattern, same))
            ctx.count("wide-sector-elements", len(idxs))
            if bad:
                ctx.disagree(f"rdm:wide-sector:rank{rank}", f"rdm('{pattern}') on a {ket.get_coeff(key).shape} sector: element {bad[0][0]} = "
                             f"{bad[0][1]}, exact {bad[0][2]} ({len(bad)} of {len(idxs)} sampled elements differ)",
                             {"norb": norb, "nalpha": na, "nbeta": nb, "pattern": pattern, "same_bra": same,
                              "ket": [[a, b, [c.real, c.imag]] for a, b, c in ek], "bra": [[a, b, [c.real, c.imag]] for a, b, c in eb]})


def replay(ctx, rep):
    run(ctx)
