"""C19 — Brillouin/ACSE residuals and generalised doubles factorisations equal what they define.

 * get_acse_residual_fqe: every element vs <psi|[p^ q^ r s, H]|psi> computed by the Lean Spec driver (operator
   products written out term by term, exact), with the stated antisymmetries;
 * RDM-contraction route: two_rdo_commutator / _symm / _antisymm / one_rdo_commutator_symm fed with the *exact*
   spin-orbital 2- and 3-RDMs from the Spec driver vs the same Spec commutator expectation values; and vs the
   wavefunction route;
 * doubles_factorization_svd / _takagi: the returned one-body operators are normal, and one_body_op + sum_l V_l U_l
   acts on random states exactly as the generator does (Spec action of both, written out in ladder operators)."""
import itertools

import numpy

import fqe_util as U
from lean_driver import fmt_vec, fmt_op, parse_c, parse_vec
from props.C03 import spec_rdm


def antisymm_generator(nr, nso, cplx=False):
    """antisymmetric in both index pairs and anti-Hermitian: A[p,q,r,s] = -conj(A[s,r,q,p])"""
    A = numpy.zeros((nso,) * 4, dtype=numpy.complex128 if cplx else numpy.float64)
    for p, q, r, s in itertools.product(range(nso), repeat=4):
        if p < q and s < r and p * nso + q < s * nso + r:
            v = float(nr.randint(1, 5)) / 4
            if cplx:
                v = v + 1j * float(nr.randint(-4, 5)) / 4
            vc = numpy.conj(v)
            A[p, q, r, s] = v
            A[p, q, s, r] = -v
            A[q, p, r, s] = -v
            A[q, p, s, r] = v
            A[s, r, q, p] = -vc
            A[r, s, q, p] = vc
            A[s, r, p, q] = vc
            A[r, s, p, q] = -vc
    return A


def run(ctx):
    fqe = ctx.fqe
    import props.C01 as C01
    from fqe.algorithm import brillouin_calculator as bc
    from fqe.algorithm import generalized_doubles_factorization as gdf
    d, rng = ctx.driver, ctx.rng
    quick = ctx.tier == "quick"
    nr = numpy.random.RandomState(ctx.seed * 19 + 7)
    # ---- ACSE residual, wavefunction route ---------------------------------------------------------
    for case in range(6 if quick else 30):
        norb = 2
        h1 = C01.rand_tensor(rng, norb, 1, 1.0, False)
        h1 = h1 + h1.T
        h2 = C01.symmetrize8(C01.rand_tensor(rng, norb, 2, 0.4, False))
        ham = fqe.get_restricted_hamiltonian((h1, h2))
        hterms = U.restricted_terms([h1, h2], norb)
        n, sz = rng.choice([(2, 0), (3, 1), (3, -1), (2, 0)])
        if case % 3 == 2:
            # several sectors, a sparsely filled one declared first
            first = rng.choice([(1, 1), (1, -1), (2, 0)])
            others = [x for x in [(3, 1), (3, -1), (4, 0), (2, 2), (2, -2)] if x != first]
            secs = [first] + rng.sample(others, rng.randint(1, 2))
            w = fqe.Wavefunction([[a_, b_, norb] for a_, b_ in secs])
        else:
            w = fqe.Wavefunction([[n, sz, norb]])
        U.random_fill(w, rng, zero_p=0.0)
        real_wfn = case % 4 == 3
        if real_wfn:
            # a real wavefunction: its density matrices are real arrays (float dtype), the generator may be complex
            w.set_wfn(strategy="from_data", raw_data={k: (numpy.real(w.get_coeff(k)) + 1.0).astype(numpy.complex128) for k in w.sectors()})
        ents = U.wfn_entries(w)
        desc = {"norb": norb, "sector": sorted(w.sectors()), "case": case, "real_wavefunction": real_wfn}
        try:
            res = bc.get_acse_residual_fqe(w, ham, norb)
        except Exception as exc:
            ctx.disagree(f"acse-raises:{type(exc).__name__}", str(exc)[:300], desc)
            continue
        nso = 2 * norb
        bad = 0
        worst = None
        several = len(list(w.sectors())) > 1
        for p, q, r, s in itertools.product(range(nso), repeat=4):
            # Sz-changing elements couple different Sz sectors, which a spin-conserving wavefunction object does not do
            # (documented domain restriction): with several sectors only the Sz-conserving elements are compared
            if several and ((p % 2) + (q % 2)) != ((r % 2) + (s % 2)):
                continue
            T = [(p, 1), (q, 1), (r, 0), (s, 0)]
            terms = [(c, T + t) for c, t in hterms] + [(-c, t + T) for c, t in hterms]
            e = parse_c(d.ask(f"expect {norb} {fmt_vec(ents)} {fmt_vec(ents)} {fmt_op(terms)}"))
            ex = complex(float(e[0]), float(e[1]))
            ctx.case(("acse", case, p, q, r, s) if ex != 0 else None)
            if abs(res[p, q, r, s] - ex) > 1e-8 * max(1.0, abs(ex)):
                bad += 1
                worst = worst or ((p, q, r, s), complex(res[p, q, r, s]), ex)
        ctx.count("acse-tensors")
        if bad:
            ctx.disagree("acse:wavefunction-route", f"{bad} elements differ from <[p^ q^ r s, H]>, e.g. {worst}", desc)
        # ---- gradient of the 2-RDM along the residual, wavefunction route --------------------------
        if case % 2 == 0:
            try:
                grad = numpy.asarray(bc.get_tpdm_grad_fqe(w, res, norb))
                sterms = [(complex(res[i, j, k, l]), [(i, 1), (j, 1), (k, 0), (l, 0)]) for i, j, k, l in
                          itertools.product(range(nso), repeat=4) if abs(res[i, j, k, l]) > 1e-12]
                badg, worstg = 0, None
                for p, q, r, s in itertools.product(range(nso), repeat=4):
                    if several and ((p % 2) + (q % 2)) != ((r % 2) + (s % 2)):
                        continue
                    T = [(p, 1), (q, 1), (r, 0), (s, 0)]
                    terms = [(c, T + t) for c, t in sterms] + [(-c, t + T) for c, t in sterms]
                    e = parse_c(d.ask(f"expect {norb} {fmt_vec(ents)} {fmt_vec(ents)} {fmt_op(terms)}"))
                    ex = complex(float(e[0]), float(e[1]))
                    ctx.case(("tpdm-grad", case, p, q, r, s) if ex != 0 else None)
                    if abs(grad[p, q, r, s] - ex) > 1e-7 * max(1.0, abs(ex)):
                        badg += 1
                        worstg = worstg or ((p, q, r, s), complex(grad[p, q, r, s]), ex)
                ctx.count("tpdm-grad-tensors")
                if badg:
                    ctx.disagree("acse:tpdm-grad:wavefunction-route", f"{badg} elements of get_tpdm_grad_fqe differ from "
                                 f"<[p^ q^ r s, S]>, S = sum res[ijkl] i^ j^ k l, e.g. {worstg}", desc)
            except Exception as exc:
                ctx.disagree(f"tpdm-grad-raises:{type(exc).__name__}", str(exc)[:300], desc)
        # ---- RDM-contraction route with exact RDMs from Spec ------------------------------------
        # spin-orbital tensors in OpenFermion (interleaved) indexing
        blk = lambda m: m // 2 + norb * (m % 2)
        perm = [blk(m) for m in range(nso)]
        d2 = spec_rdm(d, norb, 0, ents, ents, "i^ j^ k l")
        d2 = d2[numpy.ix_(perm, perm, perm, perm)]
        d3 = spec_rdm(d, norb, 0, ents, ents, "i^ j^ k^ l m n")
        d3 = d3[numpy.ix_(perm, perm, perm, perm, perm, perm)]
        if real_wfn and not numpy.abs(numpy.imag(d2)).max() > 0 and not numpy.abs(numpy.imag(d3)).max() > 0:
            d2, d3 = numpy.ascontiguousarray(numpy.real(d2)), numpy.ascontiguousarray(numpy.real(d3))
            ctx.count("real-dtype-density-matrices")
        # two-body operators A = sum A[i,j,k,l] i^ j^ k l: antisymmetric and Hermitian (-> general, _symm and the
        # one-body _symm routes) or antisymmetric and anti-Hermitian (-> general and _antisymm routes), real or complex
        cplx = case % 2 == 1
        gen0 = antisymm_generator(nr, nso, cplx=cplx)
        for herm in (True, False):
            A = 1j * gen0 if herm else gen0.astype(numpy.complex128)
            aterms = [(A[i, j, k, l], [(i, 1), (j, 1), (k, 0), (l, 0)]) for i, j, k, l in itertools.product(range(nso), repeat=4)
                      if A[i, j, k, l] != 0]
            routes = [("two_rdo_commutator", lambda: bc.two_rdo_commutator(A, d2, d3))]
            if herm:
                routes.append(("two_rdo_commutator_symm", lambda: bc.two_rdo_commutator_symm(A, d2, d3)))
            else:
                routes.append(("two_rdo_commutator_antisymm", lambda: bc.two_rdo_commutator_antisymm(A, d2, d3)))
            results = {}
            for name, fn in routes:
                try:
                    results[name] = numpy.asarray(fn())
                except Exception as exc:
                    ctx.disagree(f"rdo-commutator-raises:{name}:{type(exc).__name__}", str(exc)[:300], desc)
            bad, worst = {n: 0 for n in results}, {}
            for p, q, r, s in itertools.product(range(nso), repeat=4):
                T = [(p, 1), (q, 1), (r, 0), (s, 0)]
                terms = [(c, T + t) for c, t in aterms] + [(-c, t + T) for c, t in aterms]
                e = parse_c(d.ask(f"expect {norb} {fmt_vec(ents)} {fmt_vec(ents)} {fmt_op(terms)}"))
                ex = complex(float(e[0]), float(e[1]))
                ctx.case(("rdo", case, herm, p, q, r, s) if ex != 0 else None)
                for name, got in results.items():
                    if abs(got[p, q, r, s] - ex) > 1e-8 * max(1.0, abs(ex)):
                        bad[name] += 1
                        worst.setdefault(name, ((p, q, r, s), complex(got[p, q, r, s]), ex))
            for name in results:
                ctx.count(f"rdo-commutator-tensors:{name}:{'hermitian' if herm else 'antihermitian'}:{'complex' if cplx else 'real'}")
                if bad[name]:
                    sig = "acse:rdm-contraction-route" if name == "two_rdo_commutator" else f"acse:rdm-contraction-route:{name}"
                    ctx.disagree(sig, f"{bad[name]} elements of {name} differ from <[p^ q^ r s, A]>, e.g. {worst[name]}",
                                 {**desc, "hermitian": herm, "complex_tensor": cplx})
            if herm:
                try:
                    got1 = numpy.asarray(bc.one_rdo_commutator_symm(A, d2))
                    bad1, worst1 = 0, None
                    for p, q in itertools.product(range(nso), repeat=2):
                        T = [(p, 1), (q, 0)]
                        terms = [(c, T + t) for c, t in aterms] + [(-c, t + T) for c, t in aterms]
                        e = parse_c(d.ask(f"expect {norb} {fmt_vec(ents)} {fmt_vec(ents)} {fmt_op(terms)}"))
                        ex = complex(float(e[0]), float(e[1]))
                        ctx.case(("rdo1", case, p, q) if ex != 0 else None)
                        if abs(got1[p, q] - ex) > 1e-8 * max(1.0, abs(ex)):
                            bad1 += 1
                            worst1 = worst1 or ((p, q), complex(got1[p, q]), ex)
                    ctx.count("rdo-commutator-tensors:one_rdo_commutator_symm")
                    if bad1:
                        ctx.disagree("acse:rdm-contraction-route:one_rdo_commutator_symm",
                                     f"{bad1} elements of one_rdo_commutator_symm differ from <[p^ q, A]>, e.g. {worst1}", desc)
                except Exception as exc:
                    ctx.disagree(f"rdo-commutator-raises:one_rdo_commutator_symm:{type(exc).__name__}", str(exc)[:300], desc)
    # ---- ACSE residual of multi-sector wavefunctions on three orbitals (same-spin blocks are non-trivial only from
    #      three orbitals on): the same-spin elements and a random sample of the others -------------------------------
    for case in range(2 if quick else 12):
        norb = 3
        nso = 6
        h1 = C01.rand_tensor(rng, norb, 1, 0.6, False)
        h1 = h1 + h1.T
        h2 = C01.symmetrize8(C01.rand_tensor(rng, norb, 2, 0.06, False))
        ham = fqe.get_restricted_hamiltonian((h1, h2))
        hterms = U.restricted_terms([h1, h2], norb)
        first = rng.choice([(2, 0), (1, 1), (1, -1)])
        others = [(4, 0), (3, 1), (3, -1), (2, 2), (2, -2)]
        secs = ([first] + rng.sample(others, rng.randint(1, 2))) if case % 2 == 0 else (rng.sample(others, 2) + [first])
        w = fqe.Wavefunction([[a_, b_, norb] for a_, b_ in secs])
        U.random_fill(w, rng, zero_p=0.3)
        ents = U.wfn_entries(w)
        desc = {"norb": norb, "sectors_in_declared_order": [list(x) for x in secs], "case": case}
        try:
            res = bc.get_acse_residual_fqe(w, ham, norb)
        except Exception as exc:
            ctx.disagree(f"acse-raises:multi-sector:{type(exc).__name__}", str(exc)[:300], desc)
            continue
        elems = [(p, q, r, s) for p, q, r, s in itertools.product(range(nso), repeat=4)
                 if p % 2 == q % 2 == r % 2 == s % 2 and p != q and r != s]
        # (Sz-changing elements couple different Sz sectors, which a spin-conserving wavefunction object does not do:
        #  domain restriction, DESIGN 0.5 — only Sz-conserving elements are sampled)
        mixed = [(p, q, r, s) for p, q, r, s in itertools.product(range(nso), repeat=4)
                 if p % 2 + q % 2 == r % 2 + s % 2 and not (p % 2 == q % 2 == r % 2 == s % 2)]
        elems = rng.sample(elems, 40) + rng.sample(mixed, 40)
        bad, worst = 0, None
        for p, q, r, s in elems:
            T = [(p, 1), (q, 1), (r, 0), (s, 0)]
            terms = [(c, T + t) for c, t in hterms] + [(-c, t + T) for c, t in hterms]
            e = parse_c(d.ask(f"expect {norb} {fmt_vec(ents)} {fmt_vec(ents)} {fmt_op(terms)}"))
            ex = complex(float(e[0]), float(e[1]))
            ctx.case(("acse-multi", case, p, q, r, s) if ex != 0 else None)
            if abs(res[p, q, r, s] - ex) > 1e-8 * max(1.0, abs(ex)):
                bad += 1
                worst = worst or ((p, q, r, s), complex(res[p, q, r, s]), ex)
        ctx.count("acse-tensors:multi-sector")
        if bad:
            ctx.disagree("acse:wavefunction-route:multi-sector", f"{bad} of {len(elems)} sampled elements differ from <[p^ q^ r s, H]>, "
                         f"e.g. {worst}", desc)
    # ---- generalised doubles factorisation --------------------------------------------------------
    fams = ["real", "complex", "spinfree-itV", "acse-complex"]
    # regression corpus: degenerate generators with singular values 10-60 on which the Takagi route failed before
    # fix a42d4fa (RandomState seeds of the probe that exposed it); they run first on every tier
    corpus = [33, 39, 40, 47, 58]
    ncase = 8 if quick else 40
    for case in list(range(-len(corpus), 0)) + list(range(ncase)):
        nso = 4
        norb = 2
        fam = fams[case % len(fams)] if case >= 0 else "spinfree-itV-corpus"
        if fam == "real":
            gen = antisymm_generator(nr, nso)
        elif fam == "complex":
            gen = antisymm_generator(nr, nso, cplx=True)
        elif fam in ("spinfree-itV", "spinfree-itV-corpus"):
            # -i t V for a real spin-free two-body operator V (degenerate geminal spectrum)
            vr = nr if case >= 0 else numpy.random.RandomState(corpus[case + len(corpus)])
            v = vr.randint(-2, 3, (norb,) * 4).astype(float) / 4
            v = v + v.transpose(1, 0, 3, 2)
            v = v + v.transpose(3, 2, 1, 0)
            V = numpy.zeros((nso,) * 4)
            for sa, sb in itertools.product(range(2), repeat=2):
                V[sa::2, sb::2, sb::2, sa::2] = v
            V = V - V.transpose(1, 0, 2, 3)
            V = V - V.transpose(0, 1, 3, 2)
            V = V + V.transpose(3, 2, 1, 0)
            gen = -1j * (rng.choice([0.3, 3.0, 3.0]) if case >= 0 else 3.0) * V
        else:
            # the ACSE residual of a complex wavefunction with a spin-free Hamiltonian (what vbc feeds in)
            h1 = C01.rand_tensor(rng, norb, 1, 1.0, False)
            h1 = h1 + h1.T
            h2 = C01.symmetrize8(C01.rand_tensor(rng, norb, 2, 0.4, False))
            n_, sz_ = rng.choice([(3, 1), (3, -1), (2, 0)])
            wr = fqe.Wavefunction([[n_, sz_, norb]])
            U.random_fill(wr, rng, zero_p=0.0)
            wr.normalize()
            gen = numpy.asarray(bc.get_acse_residual_fqe(wr, fqe.get_restricted_hamiltonian((h1 / 4, h2 / 4)), norb))
            scale = numpy.abs(gen).max()
            if scale < 1e-6:
                continue
            gen = gen * (0.5 / scale)
        if not (numpy.allclose(gen, -gen.transpose(1, 0, 2, 3)) and numpy.allclose(gen, -gen.transpose(0, 1, 3, 2))
                and numpy.allclose(gen, -gen.transpose(3, 2, 1, 0).conj())):
            ctx.count(f"gdf:generator-not-admissible:{fam}")
            continue
        # generators of any size: the factorisation is homogeneous, a small generator is a generator
        gscale = [1.0, 1.0, 1e-6, 1e-9][case % 4] if case >= 0 else 1.0
        gen = gen * gscale
        desc = {"nso": nso, "case": case, "generator": fam, "scale": gscale}
        for method in (("svd", "takagi") if fam == "real" else ("takagi",)):
            try:
                if method == "svd":
                    ul, vl, ob, ul_ops, vl_ops, ob_op = gdf.doubles_factorization_svd(gen)
                    pairs = [(1.0, numpy.asarray(vl[l]), numpy.asarray(ul[l])) for l in range(len(ul))]
                    normal_mats = []
                    for l in range(len(ul)):
                        Sm, Dm = numpy.asarray(ul[l]) + numpy.asarray(vl[l]), numpy.asarray(ul[l]) - numpy.asarray(vl[l])
                        normal_mats += [Sm + 1j * Sm.T, Sm - 1j * Sm.T, Dm + 1j * Dm.T, Dm - 1j * Dm.T]
                else:
                    zlp, zlm, zl, ob = gdf.doubles_factorization_takagi(gen.astype(numpy.complex128))
                    pairs = [(0.25, numpy.asarray(m), numpy.asarray(m)) for m in list(zlp) + list(zlm)]
                    normal_mats = list(zlp) + list(zlm)
            except Exception as exc:
                ctx.disagree(f"gdf-raises:{method}:{type(exc).__name__}", str(exc)[:300], desc)
                continue
            w = fqe.get_number_conserving_wavefunction(2, norb)
            U.random_fill(w, rng, zero_p=0.0)
            ents = U.wfn_entries(w)
            gterms = [(gen[p, q, r, s], [(p, 1), (q, 1), (r, 0), (s, 0)]) for p, q, r, s in itertools.product(range(nso), repeat=4)
                      if gen[p, q, r, s] != 0 and p != q and r != s]
            want = U.spec_apply(d, norb, ents, gterms, 0)
            rterms = [(ob[p, q], [(p, 1), (q, 0)]) for p in range(nso) for q in range(nso) if ob[p, q] != 0]
            for fac, Vl, Ul in pairs:
                if not (numpy.abs(Ul).max() > 1e-12 * gscale ** 0.5 and numpy.abs(Vl).max() > 1e-12 * gscale ** 0.5):
                    continue
                for p, q, r, s in itertools.product(range(nso), repeat=4):
                    c = fac * Vl[p, q] * Ul[r, s]
                    if abs(c) > 1e-14 * gscale:
                        rterms.append((c, [(p, 1), (q, 0), (r, 1), (s, 0)]))
            got = U.spec_apply(d, norb, ents, rterms, 0)
            diff = 0.0
            for k in set(want) | set(got):
                a = want.get(k, (0, 0))
                b = got.get(k, (0, 0))
                diff = max(diff, abs(complex(float(a[0]), float(a[1])) - complex(float(b[0]), float(b[1]))))
            ctx.case(("gdf", method, case))
            ctx.count(f"gdf:{method}:{fam}")
            if diff > max(1e-8 * gscale, 1e-12):
                ctx.disagree(f"gdf:{method}:reassembly" + ("" if fam == "real" else f":{fam.replace('-corpus', '')}"), f"one_body_op + sum V_l U_l differs from the generator on a random state by {diff:.2e}", desc)
            # normality of the returned one-body operators
            for M in normal_mats:
                M = numpy.asarray(M)
                if numpy.abs(M @ M.conj().T - M.conj().T @ M).max() > 1e-9 * max(gscale, 1e-30):
                    ctx.disagree(f"gdf:{method}:normality", "a returned one-body operator is not normal", desc)
                    break


def replay(ctx, rep):
    run(ctx)
