"""C16 — polynomial propagators meet the requested accuracy or raise.

 * decision: for graded (||Ht||, accuracy, expansion) the outcome (state returned at order k / RuntimeError) of
   apply_generated_unitary is compared with the Lean control-flow model (Model/Algo.lean seriesLoop) fed with the
   break tests evaluated on the exact term norms (H's matrix comes from the Spec driver);
 * accuracy: a returned state's distance to expm(-itH) psi must be <= accuracy + rounding whenever the break order k
   satisfies ||Ht|| <= (k+1)/2 (then the geometric tail is bounded by the last term); breaks at smaller orders
   are the recorded finding class (last-term test) — reported as KNOWN-FINDING when they exceed the accuracy;
 * exact routes: norm drift for long times / large coefficients."""
import math

import numpy
from scipy.linalg import expm
from scipy.special import jv

import fqe_util as U
from props.C02 import hmatrix, vec_of, make_case


def run(ctx):
    fqe = ctx.fqe
    import props.C01 as C01
    d, rng = ctx.driver, ctx.rng
    quick = ctx.tier == "quick"
    ncases = 60 if quick else 3000
    for case in range(ncases):
        route = rng.choice(["taylor-dense", "sparse-multi"])
        norb = rng.choice([2, 2, 3])
        made = make_case(ctx, rng, route, norb)
        if made is None:
            continue
        ham, terms, e0, wk = made[:4]
        w = C01.make_wfn(ctx, "single", norb, rng)
        w.normalize()
        # the propagators are linear: the input need not have norm one, and the result has the norm of the input
        nscale = rng.choice([1.0, 1.0, 2.5, complex(0.2, -0.1), 1e-3])
        if nscale != 1.0:
            w.scale(nscale)
            ctx.count("input-norm-not-one")
        dets = U.wfn_dets(w)
        if len(dets) > 40:
            continue
        H = hmatrix(d, norb, dets, terms, e0)
        psi = vec_of(w, dets)
        algo = rng.choice(["taylor", "taylor", "chebyshev"])
        t = rng.choice([1e-3, 0.05, 0.3, 1.0, 3.0, 8.0, 20.0]) * rng.choice([1, -1])
        accuracy = rng.choice([1e-3, 1e-6, 1e-9, 1e-12, 1e-15])
        expansion = rng.choice([3, 5, 10, 20, 30, 60])
        # structured family: the state is an eigenvector sitting at the centre of the stated spectral window, so every
        # other Chebyshev term vanishes (isolated small terms long before convergence)
        centre = case % 5 == 4 and len(dets) >= 2
        centre_spec = None
        if centre:
            evs, evec = numpy.linalg.eigh(H)
            kk = rng.randrange(len(evs))
            for dt, c in zip(dets, evec[:, kk]):
                w[dt] = complex(c)
            psi = vec_of(w, dets)
            rad = float(numpy.abs(evs - evs[kk]).max()) + rng.choice([0.05, 0.5])
            centre_spec = [float(evs[kk]) - rad, float(evs[kk]) + rad]
            algo = "chebyshev"
            t = rng.choice([0.3, 1.0, 3.0, 8.0]) * rng.choice([1, -1])
            accuracy = rng.choice([1e-3, 1e-6, 1e-9])
            expansion = rng.choice([30, 60])
            if case % 10 == 9:
                # ... and the time puts the argument of the Bessel coefficients on the first zero of J_k for an even k:
                # an odd term (zero by parity) is followed by an even term whose coefficient vanishes, long before
                # the series has converged
                from scipy.special import jn_zeros
                kz = rng.choice([4, 6, 8])
                t = float(jn_zeros(kz, 1)[0]) / (rad / 0.9875) * rng.choice([1, -1])
                accuracy = 1e-3
                expansion = 60
        H0 = H - e0 * numpy.eye(len(dets))
        x = float(numpy.linalg.norm(t * H0, 2))
        desc = {"algo": algo, "norb": norb, "route": route, "sectors": sorted(w.sectors()), "t": t, "accuracy": accuracy,
                "expansion": expansion, "normHt": x, "e0": e0, "case": case, "eigenstate_at_window_centre": bool(centre)}
        # ---- break tests on the exact terms (float arithmetic mirroring the loop) ----
        tests, borderline = [0] * (expansion + 1), False
        if algo == "taylor":
            A = -1j * t * H0
            work = psi.copy()
            for k in range(1, expansion):
                work = A @ work
                val = numpy.linalg.norm(work) * (1.0 / math.factorial(k))
                if abs(val - accuracy) <= 1e-6 * accuracy:
                    borderline = True
                tests[k] = int(val < accuracy)
            spec = None
        else:
            ev = numpy.linalg.eigvalsh(H)
            spec = [float(ev.min()) - 0.05, float(ev.max()) + 0.05]
            if centre_spec is not None:
                spec = centre_spec
            wprime = 0.9875
            ascale = (spec[1] - spec[0]) / (2.0 * wprime)
            eshift = -(spec[0] + ascale * wprime)
            minus = psi.copy()
            current = (H @ minus + eshift * minus) / ascale
            for k in range(2, expansion):
                minus = -minus + (2.0 / ascale) * (H @ current) + (2.0 * eshift / ascale) * current
                current, minus = minus, current
                coeff = 2.0 * jv(k, ascale * t) * (-1j) ** k
                val = numpy.linalg.norm(current) * abs(coeff)
                if abs(val - accuracy) <= 1e-6 * accuracy:
                    borderline = True
                tests[k] = int(val < accuracy and k > abs(ascale * t))
        if borderline:
            ctx.count("borderline-skipped")
            continue
        model = d.ask(f"seriesloop {algo} {expansion} {len(tests)} {' '.join(map(str, tests))}")
        try:
            out = w.apply_generated_unitary(t, algo, ham, accuracy=accuracy, expansion=expansion, spec_lim=spec)
            outcome = "returned"
        except RuntimeError as exc:
            outcome = "raise" if "expansion limit reached" in str(exc) else f"RuntimeError:{exc}"
        except Exception as exc:
            outcome = f"{type(exc).__name__}:{exc}"
        ctx.case(("series", case), sample=desc if case < 4 else None)
        ctx.count(f"{algo}:{'returned' if outcome == 'returned' else 'raised'}")
        if centre:
            ctx.count("chebyshev:eigenstate-at-window-centre")
        if (outcome == "returned") != (model != "raise") or outcome not in ("returned", "raise"):
            ctx.disagree(f"series:decision:{algo}", f"outcome {outcome}, model {'returns at order ' + model if model != 'raise' else 'raises'}", desc)
            continue
        if outcome != "returned":
            continue
        k = int(model)
        got = vec_of(out, dets)
        want = expm(-1j * t * H) @ psi
        dist = float(numpy.abs(got - want).max())
        rounding = 1e-13 * math.exp(min(x, 50.0)) * max(1.0, k) * max(1.0, abs(nscale))
        desc.update({"break_order": k, "distance": dist})
        if dist > accuracy + rounding:
            if algo == "taylor" and x <= (k + 1) / 2:
                ctx.disagree("series:accuracy:taylor", f"distance {dist:.3e} > accuracy {accuracy:g} although ||Ht|| = {x:.2f} <= (k+1)/2, k={k}", desc)
            elif algo == "taylor":
                ctx.disagree("series:taylor-break-on-last-term-only", f"distance {dist:.3e} > accuracy {accuracy:g}; broke at order {k} with ||Ht|| = {x:.2f}", desc)
            else:
                ctx.disagree("series:chebyshev-break-on-last-term-only", f"distance {dist:.3e} > accuracy {accuracy:g}; broke at order {k}", desc)
    # ---- the same Hamiltonian object used for successive propagations over nearly equal times (an adaptive step,
    #      t then t (1 + 1e-6)): every call is exp(-i t_k H) for its own t_k ------------------------------------------
    for case in range(6 if quick else 40):
        norb = rng.choice([2, 3])
        # every dense class (the Taylor route rebuilds its generator from the caller's object in a class-specific way)
        sroute = ["taylor-dense", "diagcoulomb", "taylor-dense", "diagonal", "quadratic", "diagcoulomb"][case % 6]
        made = make_case(ctx, rng, sroute, norb)
        if made is None:
            continue
        ham, terms, e0, wk = made[:4]
        w = C01.make_wfn(ctx, "single", norb, rng)
        w.normalize()
        dets = U.wfn_dets(w)
        if len(dets) > 40 or len(dets) < 2:
            continue
        H = hmatrix(d, norb, dets, terms, e0)
        psi = vec_of(w, dets)
        ctx.count(f"successive-times:{sroute}")
        t0 = rng.choice([0.05, 0.3, 0.8])
        times = [t0, t0 * (1 + 1e-6), t0 * (1 - 3e-6), t0 + 1e-8, 2 * t0]
        for k_, tk in enumerate(times):
            api = "taylor" if k_ % 2 == 0 or k_ == 1 else "time_evolve"
            try:
                out = w.apply_generated_unitary(tk, "taylor", ham, accuracy=1e-13, expansion=80) if api == "taylor" else w.time_evolve(tk, ham)
            except Exception as exc:
                ctx.count(f"successive-raises:{type(exc).__name__}")
                break
            dist = float(numpy.abs(vec_of(out, dets) - expm(-1j * tk * H) @ psi).max())
            ctx.case(("successive-times", case, k_))
            ctx.count("successive-times")
            if dist > 1e-10:
                ctx.disagree("series:successive-times-on-one-hamiltonian", f"call {k_ + 1} ({api}) with t = {tk!r} on the same Hamiltonian "
                             f"object: distance {dist:.3e} to exp(-i t H) psi (earlier times {times[:k_]})",
                             {"norb": norb, "times": times, "call": k_, "case": case})
                break
    # ---- exact routes: unitarity for long times and large coefficients ---------------------------
    for case in range(36 if quick else 600):
        route = rng.choice(["diagonal", "quadratic", "quadratic-sso", "quadratic-sso", "quadratic-sb", "quadratic-gso", "diagcoulomb", "individual",
                            "individual-spinbroken", "individual-spinbroken"])
        norb = rng.choice([2, 3])
        made = make_case(ctx, rng, route, norb)
        if made is None:
            continue
        ham, terms, e0, wk = made[:4]
        w = C01.make_wfn(ctx, wk, norb, rng)
        w.normalize()
        t = rng.choice([200.0, -350.0, 1e4])
        try:
            out = w.time_evolve(t, ham)
            n = out.norm()
        except Exception as exc:
            ctx.disagree(f"unitarity-raises:{route}:{type(exc).__name__}", str(exc), {"route": route, "t": t})
            continue
        ctx.case(("unitarity", case))
        ctx.count(f"unitarity:{route}")
        if abs(n - 1) > 1e-9:
            ctx.disagree(f"unitarity:{route}", f"norm after t={t}: {n}", {"route": route, "t": t, "norb": norb})


def replay(ctx, rep):
    run(ctx)
