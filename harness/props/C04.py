"""C04 — accelerated (C) and reference (Python) paths compute the same results.

The C-path worker runs a deterministic battery of public operations, then launches a child interpreter that forces
the reference path and runs the *same* battery (same seed); every result array is compared: bitwise for integer
tables and for Gaussian-integer arithmetic, 1e-10 otherwise.  Includes systems whose orbital indices reach the top
of the range (one-electron sectors with norb in {31, 32, 33, 63, 64})."""
import json
import os
import subprocess
import sys

import numpy


def enc(x):
    a = numpy.asarray(x)
    if numpy.iscomplexobj(a):
        return {"c": [[float(v.real), float(v.imag)] for v in a.ravel()], "shape": list(a.shape)}
    return {"r": [float(v) for v in a.ravel()], "shape": list(a.shape)}


def battery(fqe, seed, tier):
    """returns {name: encoded array}; deterministic given (seed, tier)"""
    import random
    import copy
    sys.path.insert(0, os.path.dirname(os.path.dirname(os.path.abspath(__file__))))
    import fqe_util as U
    import props.C01 as C01
    from openfermion import FermionOperator, hermitian_conjugated
    import fqe.bitstring as bs
    import fqe.fci_graph as fg

    class Fake:
        pass
    ctx = Fake()
    ctx.fqe = fqe
    ctx.tier = tier
    rng = random.Random(f"{seed}-C04")
    out = {}
    quick = tier == "quick"
    # tables
    for norb, nele in [(4, 2), (5, 3), (6, 1), (31, 1), (32, 1), (33, 2), (63, 1), (64, 1), (64, 63)]:
        g = fg.FciGraph(nele, 0, norb)
        out[f"strings:{norb}:{nele}"] = enc([int(x) for x in g.string_alpha_all()][:400])
        out[f"gen:{norb}:{nele}"] = enc([int(x) for x in bs.lexicographic_bitstring_generator(nele, norb)][:400])
        for (i, j) in [(0, norb - 1), (norb - 1, 0), (norb // 2, norb // 2), (31 % norb, 32 % norb)]:
            out[f"map:{norb}:{nele}:{i}:{j}"] = enc(numpy.asarray(g.alpha_map(i, j)).ravel()[:600])
        if norb <= 6:
            out[f"dexc:{norb}:{nele}"] = enc(numpy.sort(g._dexca.reshape(-1, 3), axis=0))
    for w in [0, 1, 2**63, 2**64 - 1, rng.getrandbits(64), rng.getrandbits(64)]:
        out[f"bits:{w}"] = enc([bs.count_bits(w), bs.count_bits_above(w, 31), bs.count_bits_between(w, 3, 63)] +
                               [int(x) for x in bs.integer_index(w)])
    # high-index one-electron systems: sparse apply and single-term evolution
    for norb in ([31, 32, 33] if quick else [31, 32, 33, 40, 63, 64]):
        w = fqe.Wavefunction([[1, 1, norb]])
        U.random_fill(w, rng, zero_p=0.0)
        hi = norb - 1
        op = FermionOperator(((2 * hi, 1), (0, 0)), 1.0) + FermionOperator(((0, 1), (2 * hi, 0)), 1.0)
        ham = fqe.get_sparse_hamiltonian(op)
        out[f"hi-apply:{norb}"] = enc(w.apply(ham).get_coeff((1, 1)))
        w.normalize()
        out[f"hi-evolve:{norb}"] = enc(w.time_evolve(0.3, ham).get_coeff((1, 1)))
        out[f"hi-rdm:{norb}"] = enc(numpy.asarray(w.rdm("i^ j"))[[0, hi, hi], [hi, 0, hi]])
    # top-of-range orbitals with several electrons per spin channel: operator-string maps and sparse apply
    for norb, na, nb in ([(64, 2, 1), (63, 2, 0)] if quick else [(64, 2, 1), (63, 2, 0), (63, 3, 0), (63, 2, 2), (33, 3, 1), (32, 2, 1)]):
        w = fqe.Wavefunction([[na + nb, na - nb, norb]])
        g = w.sector((na + nb, na - nb)).get_fcigraph()
        hi = norb - 1
        for dag, undag in [([hi], [hi]), ([hi], [0]), ([0], [hi]), ([hi, 1], [hi - 1, 0]), ([hi - 1], [hi]), ([hi, hi - 1], [hi, hi - 1])]:
            if len(dag) > na:
                continue
            res = numpy.zeros((g.lena(), 3), dtype=numpy.uint64)
            cnt = g.make_mapping_each(res, True, dag, undag)
            out[f"mapeach:{norb}:{na}:{dag}:{undag}"] = enc([int(cnt)] + [int(x) for x in res[:cnt].ravel()][:3000])
        U.random_fill(w, rng, zero_p=0.0)
        for tag, op in [("num", FermionOperator(((2 * hi, 1), (2 * hi, 0)), 1.0)),
                        ("hop", FermionOperator(((2 * hi, 1), (2, 0)), 1.0) + FermionOperator(((2, 1), (2 * hi, 0)), 1.0))]:
            ham = fqe.get_sparse_hamiltonian(op)
            res = w.apply(ham).get_coeff((na + nb, na - nb))
            out[f"hi-multi-apply:{tag}:{norb}:{na}:{nb}"] = enc(res.ravel()[:: max(1, res.size // 4000)])
    # sectors wider than the internal column batch of the C kernels (450 columns): one, two and three batches
    wide = [(11, 1, 5), (11, 5, 1)] if quick else [(11, 1, 5), (11, 5, 1), (12, 4, 1), (12, 1, 4), (13, 1, 5), (13, 5, 1), (12, 6, 1)]
    for norb, na, nb in wide:
        w = fqe.Wavefunction([[na + nb, na - nb, norb]])
        U.random_fill(w, rng, zero_p=0.0)
        nrng = numpy.random.RandomState(rng.randrange(2**31))
        a = nrng.standard_normal((norb, norb)) + 1j * nrng.standard_normal((norb, norb))
        h = (a + a.conj().T) / 4.0
        q, _ = numpy.linalg.qr(a)
        _, _, _, t = copy.deepcopy(w).transform(q.copy())
        res = t.get_coeff((na + nb, na - nb))
        out[f"wide-transform:{norb}:{na}:{nb}"] = enc(res.ravel()[:: max(1, res.size // 6000)])
        w.normalize()
        res = w.time_evolve(0.2, fqe.get_restricted_hamiltonian((h,))).get_coeff((na + nb, na - nb))
        out[f"wide-evolve:{norb}:{na}:{nb}"] = enc(res.ravel()[:: max(1, res.size // 6000)])
        res = w.apply(fqe.get_restricted_hamiltonian((h,))).get_coeff((na + nb, na - nb))
        out[f"wide-apply:{norb}:{na}:{nb}"] = enc(res.ravel()[:: max(1, res.size // 6000)])
    # diagonal Hamiltonians in every storage form: length norb / 2 norb, float64 / complex128, equal / different spin halves
    for norb, secs in ((3, [[2, 0, 3], [3, 1, 3]]), (4, [[4, 0, 4]])):
        w = fqe.Wavefunction(secs)
        U.random_fill(w, rng, zero_p=0.0)
        nrd = numpy.random.RandomState(rng.randrange(2**31))
        for tag, hd in (("spatial-real", nrd.randint(-3, 4, norb).astype(numpy.float64)),
                        ("spatial-complex", nrd.randint(-3, 4, norb).astype(numpy.complex128)),
                        ("spin-real", nrd.randint(-3, 4, 2 * norb).astype(numpy.float64)),
                        ("spin-complex", nrd.randint(-3, 4, 2 * norb).astype(numpy.complex128))):
            ham = fqe.get_diagonal_hamiltonian(hd, e_0=0.5)
            res = w.apply(ham)
            for key in sorted(res.sectors()):
                out[f"diag-apply:{tag}:{norb}:{key}"] = enc(res.get_coeff(key))
            wn = copy.deepcopy(w)
            wn.normalize()
            ev = wn.time_evolve(0.3, ham)
            for key in sorted(ev.sectors()):
                out[f"diag-evolve:{tag}:{norb}:{key}"] = enc(ev.get_coeff(key))
    # Sz-mixing wavefunctions (all Sz sectors of one N, odd and even N) under one-body spin-orbital operators with a
    # single non-zero column - alpha and beta columns - (the single-column kernels of the data-set class), the orbital
    # rotation that is made of such operators, and the quadratic spin-mixing evolution
    for norb, nel in ([(3, 3), (3, 1), (4, 3), (3, 2)] if quick else [(3, 3), (3, 1), (4, 3), (3, 2), (4, 5), (4, 4), (5, 3)]):
        w = fqe.get_number_conserving_wavefunction(nel, norb)
        U.random_fill(w, rng, zero_p=0.0)
        nrs = numpy.random.RandomState(rng.randrange(2**31))
        for col in range(2 * norb):
            g1 = numpy.zeros((2 * norb, 2 * norb), dtype=numpy.complex128)
            g1[:, col] = nrs.randint(-2, 3, 2 * norb) + 1j * nrs.randint(-2, 3, 2 * norb)
            try:
                res = w.apply(fqe.get_gso_hamiltonian((g1,)))
                for key in sorted(res.sectors()):
                    out[f"sb-column:{norb}:{nel}:{col}:{key}"] = enc(res.get_coeff(key))
            except Exception as exc:
                out[f"sb-column:{norb}:{nel}:{col}"] = {"raise": type(exc).__name__}
        a = nrs.standard_normal((2 * norb, 2 * norb)) + 1j * nrs.standard_normal((2 * norb, 2 * norb))
        q, _ = numpy.linalg.qr(a)
        try:
            _, _, _, t = copy.deepcopy(w).transform(q.copy())
            for key in sorted(t.sectors()):
                out[f"sb-transform:{norb}:{nel}:{key}"] = enc(t.get_coeff(key))
        except Exception as exc:
            out[f"sb-transform:{norb}:{nel}"] = {"raise": type(exc).__name__}
        try:
            wn = copy.deepcopy(w)
            wn.normalize()
            ev = wn.time_evolve(0.3, fqe.get_gso_hamiltonian(((a + a.conj().T) / 4.0,)))
            for key in sorted(ev.sectors()):
                out[f"sb-evolve:{norb}:{nel}:{key}"] = enc(ev.get_coeff(key))
        except Exception as exc:
            out[f"sb-evolve:{norb}:{nel}"] = {"raise": type(exc).__name__}
    # apply / evolve / rdm / cirq on random small cases
    ncases = 40 if quick else 400
    for case in range(ncases + (8 if quick else 40)):
        # the last cases put at most one electron per spin into four orbitals (low-filling kernels of the reference path)
        spec = C01.gen_case(ctx, case, rng) if case < ncases else C01.gen_case(ctx, 100000 + case, rng, lowfilling=True)
        tens = [numpy.ascontiguousarray(C01.dec_arr(t)) for t in spec["tensors"]]
        hk = spec["ham"]
        if spec.get("broken") == "spin":
            w = fqe.Wavefunction(spec["params"], broken=["spin"])
        else:
            w = fqe.Wavefunction(spec["params"])
        U.random_fill(w, rng)
        e0 = complex(*spec["e0"])
        try:
            if hk in ("restricted", "restricted34"):
                ham = fqe.get_restricted_hamiltonian(tuple(tens), e_0=e0)
            elif hk in ("gso", "spinorb34"):
                ham = fqe.get_gso_hamiltonian(tuple(tens), e_0=e0)
            elif hk == "general":
                ham = fqe.get_general_hamiltonian(tuple(tens), e_0=e0)
            elif hk == "sso":
                ham = fqe.get_sso_hamiltonian(tuple(tens), e_0=e0)
            elif hk == "diagonal":
                ham = fqe.get_diagonal_hamiltonian(tens[0], e_0=e0)
            elif hk == "diagcoulomb":
                ham = fqe.get_diagonalcoulomb_hamiltonian(tens[0], e_0=e0)
            else:
                op = FermionOperator()
                for t, c in spec["op"]:
                    op += FermionOperator(tuple((int(m), int(dg)) for m, dg in t), complex(*c))
                ham = fqe.get_sparse_hamiltonian(op, conserve_spin=(spec["wfn"] != "spinbroken"), e_0=e0)
            res = w.apply(ham)
            for key in sorted(res.sectors()):
                out[f"apply:{case}:{hk}:{key}"] = enc(res.get_coeff(key))
        except Exception as exc:
            out[f"apply:{case}:{hk}"] = {"raise": type(exc).__name__}
        try:
            out[f"cirq:{case}"] = enc(fqe.to_cirq(w))
        except Exception as exc:
            out[f"cirq:{case}"] = {"raise": type(exc).__name__}
        # sector detection and import: amplitudes 2% to a factor 40 above and 2% to a factor 2 below a threshold of any size
        if spec["norb"] <= 3:
            try:
                vq = fqe.to_cirq(w)
                nzq = [i for i in range(vq.size) if vq[i] != 0]
                if nzq:
                    thr = [2.0 ** -18, 2.0 ** -7, 0.25, 4.0][case % 4]
                    vv = numpy.zeros_like(vq)
                    facs = [1.02, 1.5, 0.5, 40.0, 0.98, 1.2]
                    for n_, i in enumerate(nzq):
                        ph = vq[i] / abs(vq[i])
                        vv[i] = ph * thr * facs[n_ % len(facs)]
                    back = fqe.from_cirq(vv, thresh=thr)
                    out[f"detect:{case}"] = enc(numpy.array([[int(k[0]), int(k[1])] for k in sorted(back.sectors())], dtype=numpy.float64).reshape(-1, 2))
                    for key in sorted(back.sectors()):
                        out[f"import:{case}:{key}"] = enc(back.get_coeff(key))
            except Exception as exc:
                out[f"detect:{case}"] = {"raise": type(exc).__name__}
        if case % 10 == 0 and spec["norb"] <= 2:
            # low-filling sectors in seven orbitals (the reference path switches to its low-filling kernels there):
            # 1- and 2-particle transition RDMs with bra != ket
            for (na_, nb_) in ((1, 2), (2, 2), (2, 1)):
                try:
                    kk = fqe.Wavefunction([[na_ + nb_, na_ - nb_, 7]])
                    bb = fqe.Wavefunction([[na_ + nb_, na_ - nb_, 7]])
                    rr = numpy.random.RandomState(1000 * case + 10 * na_ + nb_)
                    for ww in (kk, bb):
                        shp = ww.get_coeff((na_ + nb_, na_ - nb_)).shape
                        ww.set_wfn(strategy="from_data", raw_data={(na_ + nb_, na_ - nb_): (rr.randint(-3, 4, shp) + 1j * rr.randint(-3, 4, shp)).astype(numpy.complex128)})
                    out[f"lowfill-rdm1:{case}:{na_}:{nb_}"] = enc(kk.rdm("i^ j", brawfn=bb))
                    out[f"lowfill-rdm2:{case}:{na_}:{nb_}"] = enc(kk.rdm("i^ j^ k l", brawfn=bb))
                except Exception as exc:
                    out[f"lowfill-rdm2:{case}:{na_}:{nb_}"] = {"raise": type(exc).__name__}
            try:
                from openfermion import parity_code
                out[f"cirqcode:{case}"] = enc(fqe.to_cirq(w, binarycode=parity_code(2 * spec["norb"])))
            except Exception as exc:
                out[f"cirqcode:{case}"] = {"raise": type(exc).__name__}
        if spec["wfn"] != "spinbroken" and spec["norb"] <= 3:
            for pat in ("i^ j", "i j^", "i^ j^ k l", "i^ k j^ l"):
                try:
                    bra = copy.deepcopy(w)
                    U.random_fill(bra, rng)
                    out[f"rdm:{case}:{pat}"] = enc(w.rdm(pat, brawfn=bra))
                except Exception as exc:
                    out[f"rdm:{case}:{pat}"] = {"raise": type(exc).__name__}
    return out


def run(ctx):
    here = os.path.dirname(os.path.dirname(os.path.abspath(__file__)))
    mine = battery(ctx.fqe, ctx.seed, ctx.tier)
    code = ("import sys, json; sys.path.insert(0, %r); from fqe_env import load_fqe; "
            "fqe = load_fqe(%r, 'PY'); import props.C04 as C04; "
            "print('@@B@@' + json.dumps(C04.battery(fqe, %d, %r)))") % (here, ctx.src, ctx.seed, ctx.tier)
    r = subprocess.run([sys.executable, "-c", code], stdout=subprocess.PIPE, stderr=subprocess.PIPE, text=True, cwd=here)
    line = [l for l in r.stdout.splitlines() if l.startswith("@@B@@")]
    if not line:
        ctx.disagree("cross:reference-battery-failed", r.stderr[-1500:], {"kind": "battery"})
        return
    other = json.loads(line[0][5:])
    for name in sorted(set(mine) | set(other)):
        a, b = mine.get(name), other.get(name)
        fam = name.split(":")[0]
        ctx.count(f"compared:{fam}")
        nontriv = a is not None and ("c" in a or ("r" in a and any(a["r"])))
        ctx.case(("cmp", name) if nontriv else None, sample={"name": name, "shape": a.get("shape") if a else None}
                 if fam in ("hi-evolve", "apply") and len(ctx.samples) < 4 else None)
        if a is None or b is None:
            ctx.disagree(f"cross:{fam}:missing", f"{name} present on one path only", {"name": name})
            continue
        if "raise" in a or "raise" in b:
            if a != b:
                ctx.disagree(f"cross:{fam}:exception-differs", f"{name}: C {a} PY {b}", {"name": name})
            continue
        if a["shape"] != b["shape"]:
            ctx.disagree(f"cross:{fam}:shape", f"{name}: shapes {a['shape']} vs {b['shape']}", {"name": name})
            continue
        va = numpy.array(a.get("c", a.get("r")), dtype=float)
        vb = numpy.array(b.get("c", b.get("r")), dtype=float)
        if va.shape != vb.shape:
            va = va.reshape(-1)
            vb = vb.reshape(-1)
            if va.size != vb.size:
                ctx.disagree(f"cross:{fam}:dtype", f"{name}: real/complex mismatch", {"name": name})
                continue
        tol = 0.0 if fam in ("strings", "gen", "map", "dexc", "bits", "mapeach") else 1e-10
        scale = max(1.0, float(numpy.abs(va).max()) if va.size else 1.0)
        diff = float(numpy.abs(va - vb).max()) if va.size else 0.0
        if diff > tol * scale:
            ctx.disagree(f"cross:{fam}", f"{name}: max |C - PY| = {diff:.3e}", {"name": name})


def replay(ctx, rep):
    run(ctx)
