"""Import the scratch build of fqe on a chosen code path.

`fqe.settings.use_accelerated_code` is read at import time by several modules
(`from fqe.settings import use_accelerated_code`), so the switch has to be set before the first
`import fqe`.  For the Python path we pre-load `fqe.settings` under a stub package, flip the
switch, and then import the real package.
"""
import importlib.util
import os
import sys
import types


def load_fqe(src, path):
    """path: 'C' or 'PY'.  Returns the imported fqe module."""
    assert path in ("C", "PY")
    if src not in sys.path:
        sys.path.insert(0, src)
    if "fqe" in sys.modules:
        raise RuntimeError("fqe already imported")
    if path == "PY":
        stub = types.ModuleType("fqe")
        stub.__path__ = [os.path.join(src, "fqe")]
        sys.modules["fqe"] = stub
        spec = importlib.util.spec_from_file_location("fqe.settings",
                                                      os.path.join(src, "fqe", "settings.py"))
        settings = importlib.util.module_from_spec(spec)
        sys.modules["fqe.settings"] = settings
        spec.loader.exec_module(settings)
        settings.use_accelerated_code = False
        del sys.modules["fqe"]
    import fqe
    import fqe.settings
    if path == "PY":
        fqe.settings = sys.modules["fqe.settings"]
        assert fqe.settings.use_accelerated_code is False
        import fqe.fci_graph
        assert fqe.fci_graph.use_accelerated_code is False
    else:
        assert fqe.settings.use_accelerated_code
    assert os.path.realpath(fqe.__file__).startswith(os.path.realpath(src)), fqe.__file__
    return fqe
