#!/bin/bash
# seed_rebase_check.sh <seed dir> — after rebasing a seeded patch onto the current /repo: demo must exit 0 on the clean
# tree and 1 with the patch (scratch builds of /repo's working tree; restores /repo afterwards)
sd=$1
cd /verif
run_demo() { src=$(/venv/bin/python -c "import sys; sys.path.insert(0,'/verif/harness'); import build_repo; print(build_repo.build())" | tail -1); PYTHONPATH=$src OMP_NUM_THREADS=2 /venv/bin/python $sd/demo.py > /tmp/seed_rebase_demo.out 2>&1; echo $?; }
[ -z "$(git -C /repo status --porcelain)" ] || { echo "/repo dirty"; exit 2; }
echo "clean: $(run_demo)"
git -C /repo apply $(realpath $sd/patch.diff) || { echo "patch does not apply"; exit 2; }
echo "changed: $(run_demo)"; tail -2 /tmp/seed_rebase_demo.out | cut -c1-200
git -C /repo checkout -- .
