"""Confirm a sub-agent's seeded change in its scratch worktree:  seed_confirm.py <worktree> <seeddir>

 1. clean tree: build, demo must exit 0;
 2. apply patch, rebuild if a C/pyx/h file changed, demo must exit non-zero;
 3. the repository's pinned test suite must pass exactly as the baseline says (stable_pass all pass);
 4. restore the tree.
Prints one JSON line."""
import json
import os
import subprocess
import sys
import tempfile
import xml.etree.ElementTree as ET

wt, sd = sys.argv[1], sys.argv[2]
env = dict(os.environ, PYTHONPATH=os.path.join(wt, "src"), OMP_NUM_THREADS="2", PYTHONDONTWRITEBYTECODE="1")
PY = "/venv/bin/python"


def sh(cmd, **kw):
    return subprocess.run(cmd, shell=True, cwd=wt, env=env, stdout=subprocess.PIPE, stderr=subprocess.STDOUT, text=True, **kw)


def build():
    r = sh(f"{PY} setup.py build_ext --inplace --force")
    return r.returncode == 0


def demo():
    r = sh(f"{PY} {os.path.join(sd, 'demo.py')}", timeout=1800)
    return r.returncode, r.stdout[-600:]


res = {"worktree": wt, "seed": sd}
patch = os.path.join(sd, "patch.diff")
sh("git checkout -- . ")
touched = subprocess.run(["git", "apply", "--numstat", patch], cwd=wt, stdout=subprocess.PIPE, text=True).stdout
files = [l.split("\t")[2] for l in touched.splitlines() if l.count("\t") >= 2]
native = any(f.endswith((".c", ".h", ".pyx", ".pxi")) for f in files)
res["files"] = files
if not os.path.exists(os.path.join(wt, "src/fqe/lib/libfqe.so")) or native:
    res["build_clean"] = build()
rc0, out0 = demo()
res["demo_clean_rc"] = rc0
a = sh(f"git apply {patch}")
res["applies"] = a.returncode == 0
if a.returncode == 0:
    if native:
        res["build_changed"] = build()
    rc1, out1 = demo()
    res["demo_changed_rc"], res["demo_changed_out"] = rc1, out1
    b = json.load(open("/root/.vp/BASELINE.json"))
    xml = tempfile.mktemp(suffix=".xml")
    sh(f"{PY} -m pytest -q -p no:cacheprovider --timeout=900 --continue-on-collection-errors --junitxml={xml}", timeout=3600)
    passed = set()
    try:
        for tc in ET.parse(xml).getroot().iter("testcase"):
            if not any(ch.tag in ("failure", "error", "skipped") for ch in tc):
                passed.add(tc.get("classname") + "::" + tc.get("name"))
        os.unlink(xml)
    except Exception as exc:
        res["suite_error"] = str(exc)
    missing = [t for t in b["stable_pass"] if t not in passed]
    res["suite_missing"] = missing[:10]
    res["suite_ok"] = not missing
sh("git checkout -- .")
if native:
    build()
res["confirmed"] = bool(res.get("applies") and rc0 == 0 and res.get("demo_changed_rc", 0) != 0 and res.get("suite_ok"))
print(json.dumps(res))
