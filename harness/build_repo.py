"""Scratch build of /repo's current working tree (C library + Cython extensions).

Checks never import /repo/src directly: its .so files may be stale with respect to edited C
sources.  The tree is copied (without .git, tests, *.so, build output) to a scratch directory
outside /repo and /verif, keyed by a hash of the copied sources, and built there with
`setup.py build_ext --inplace`.  Checks of one run share one build.
"""
import hashlib
import os
import shutil
import subprocess
import sys
import time
import fcntl

REPO = os.environ.get("FQE_REPO", "/repo")
PY = "/venv/bin/python"
SCRATCH_ROOT = os.path.join(os.environ.get("TMPDIR", "/tmp"), "fqeverif-scratch" + (
    "" if REPO == "/repo" else "-" + hashlib.sha1(REPO.encode()).hexdigest()[:8]))

EXCLUDE_DIRS = {".git", "tests", "build", "__pycache__", "docs", "rtd_docs", "profiling",
                "examples", ".pytest_cache", "dev"}


def _source_files():
    out = []
    for root, dirs, files in os.walk(REPO):
        dirs[:] = sorted(d for d in dirs if d not in EXCLUDE_DIRS and not d.endswith(".egg-info"))
        for f in sorted(files):
            if f.endswith((".so", ".pyc", ".o")):
                continue
            # the cythonized C files are build products of the .pyx
            if f in ("_fqe_data.c", "_linalg.c"):
                continue
            out.append(os.path.join(root, f))
    return out


def tree_hash():
    h = hashlib.sha256()
    for p in _source_files():
        h.update(os.path.relpath(p, REPO).encode())
        h.update(b"\0")
        with open(p, "rb") as fh:
            h.update(fh.read())
        h.update(b"\0")
    return h.hexdigest()[:16]


def build(verbose=False, variant="default"):
    """Returns the path of the scratch `src` directory of a build of the current tree."""
    os.makedirs(SCRATCH_ROOT, exist_ok=True)
    nolock = variant.endswith("-nolock")
    if nolock:
        variant = variant[:-len("-nolock")]
    lock = open(os.path.join(SCRATCH_ROOT, ".lock" if not nolock else ".lock2"), "w")
    fcntl.flock(lock, fcntl.LOCK_EX)
    try:
        th = tree_hash()
        dest = os.path.join(SCRATCH_ROOT, f"{variant}-{th}")
        marker = os.path.join(dest, ".built")
        if os.path.exists(marker):
            return os.path.join(dest, "src")
        # remove superseded builds of this variant
        for d in os.listdir(SCRATCH_ROOT):
            if d.startswith(variant + "-"):
                shutil.rmtree(os.path.join(SCRATCH_ROOT, d), ignore_errors=True)
        os.makedirs(dest)
        for p in _source_files():
            rel = os.path.relpath(p, REPO)
            tgt = os.path.join(dest, rel)
            os.makedirs(os.path.dirname(tgt), exist_ok=True)
            shutil.copy2(p, tgt)
        env = dict(os.environ)
        env.pop("PYTHONPATH", None)
        if variant == "asan":
            # sanitize the C kernel library only (the Cython glue takes minutes to build with sanitizers):
            # take the regular build and replace libfqe.so by an ASan+UBSan build of the same C sources,
            # with -DNDEBUG as in the shipped build (the C asserts are compiled out there: the one in
            # zdiagonal_coulomb_apply, `norbs < MAX_ORBS`, is off by one at norb = 64 and would abort)
            shutil.rmtree(dest, ignore_errors=True)
            base = os.path.dirname(build(verbose=verbose, variant="default-nolock"))
            shutil.copytree(base, dest)
            os.remove(os.path.join(dest, ".built"))
            lib = os.path.join(dest, "src", "fqe", "lib")
            csrc = [os.path.join(lib, f) for f in sorted(os.listdir(lib))
                    if f.endswith(".c") and not f.startswith("_")]
            cmd = ["gcc", "-O1", "-g", "-fsanitize=address,undefined", "-fno-omit-frame-pointer", "-fno-sanitize-recover=undefined",
                   "-DNDEBUG", "-fopenmp", "-fPIC", "-shared", "-I" + lib, "-o", os.path.join(lib, "libfqe.so")] + csrc
            t0 = time.time()
            r = subprocess.run(cmd, stdout=subprocess.PIPE, stderr=subprocess.STDOUT, text=True)
            if r.returncode != 0:
                sys.stderr.write(r.stdout[-4000:])
                shutil.rmtree(dest, ignore_errors=True)
                raise RuntimeError("sanitizer build of the C library failed")
            with open(marker, "w") as fh:
                fh.write(f"{time.time() - t0:.1f}\n")
            return os.path.join(dest, "src")
        elif variant == "noomp":
            env["CFLAGS"] = "-fno-openmp"
        t0 = time.time()
        r = subprocess.run([PY, "setup.py", "build_ext", "--inplace"], cwd=dest, env=env,
                           stdout=subprocess.PIPE, stderr=subprocess.STDOUT, text=True)
        if r.returncode != 0:
            sys.stderr.write(r.stdout[-4000:])
            shutil.rmtree(dest, ignore_errors=True)
            raise RuntimeError("scratch build of /repo failed")
        shutil.rmtree(os.path.join(dest, "build"), ignore_errors=True)
        with open(marker, "w") as fh:
            fh.write(f"{time.time() - t0:.1f}\n")
        if verbose:
            print(f"[build_repo] built {dest} in {time.time() - t0:.1f}s", file=sys.stderr)
        return os.path.join(dest, "src")
    finally:
        fcntl.flock(lock, fcntl.LOCK_UN)
        lock.close()


def clean():
    shutil.rmtree(SCRATCH_ROOT, ignore_errors=True)


if __name__ == "__main__":
    if len(sys.argv) > 1 and sys.argv[1] == "--clean":
        clean()
    else:
        print(build(verbose=True, variant=sys.argv[1] if len(sys.argv) > 1 else "default"))
