"""Generate /verif/MANIFEST.json from registry.py"""
import json
import os
import sys
HERE = os.path.dirname(os.path.abspath(__file__))
sys.path.insert(0, HERE)
import registry

ALL = [f"C{n:02d}" for n in range(1, 20)]
NOT_YET = getattr(registry, "NOT_APPLICABLE", {})

checks = []
for pid in ALL:
    if pid not in registry.PROPS:
        continue
    c = registry.PROPS[pid]
    checks.append({
        "property_id": pid,
        "quick_cmd": f"./check {pid} --tier quick",
        "thorough_cmd": f"./check {pid} --tier thorough",
        "evidence_file": f"/verif/evidence/{pid}.json",
        "replay_cmd_template": f"./check {pid} --replay {{path}}",
        "engine": "lean4+correspondence",
        "level_claimed": {"category": c["level"], "text": c["text"], "design_ref": c.get("design_ref", "DESIGN.md §5")},
        "level_note": c["note"],
        "technique": c["technique"],
    })
na = [{"property_id": pid, "reason": NOT_YET.get(pid, "check not built yet in this round (planned, see DESIGN.md §8)")}
      for pid in ALL if pid not in registry.PROPS]
manifest = {
    "version": 1,
    "setup_cmd": "/venv/bin/python harness/translate/cbits.py && /venv/bin/python harness/translate/omp.py && /venv/bin/python harness/translate/guards.py && /venv/bin/python harness/translate/persist.py && /venv/bin/python harness/translate/pyint.py && cd lean && lake build",
    "hooks": {"guard": "FQE_VERIF", "enable": "no source hooks: checks scratch-build /repo's working tree "
              "(harness/build_repo.py) and drive the public API",
              "baseline_off_cmd": "cd /repo && /venv/bin/python -m pytest -ra -q -p no:cacheprovider --timeout=900 "
                                  "--continue-on-collection-errors",
              "source_commits": [], "add_only": True},
    "engines": [{"name": "lean4+correspondence", "path": "lean/ + harness/",
                 "serves_properties": [c["property_id"] for c in checks],
                 "kind_free_text": "Lean 4 proofs about Spec/Model + differential correspondence of the executable "
                                   "model with the real library (line protocol), translators for C bit helpers"}],
    "checks": checks,
    "not_applicable": na,
    "notes": "See DESIGN.md. Known genuine defects are listed in known_findings.json.",
}
with open(os.path.join(os.path.dirname(HERE), "MANIFEST.json"), "w") as fh:
    json.dump(manifest, fh, indent=1)
print(f"{len(checks)} checks, {len(na)} not_applicable")
