"""Run /repo's pinned test suite and compare with /root/.vp/BASELINE.json stable_pass."""
import json, subprocess, sys, tempfile, os
import xml.etree.ElementTree as ET
b = json.load(open("/root/.vp/BASELINE.json"))
out = tempfile.mktemp(suffix=".xml")
cmd = b["cmd"].replace("<file>", out)
r = subprocess.run(cmd, shell=True, stdout=subprocess.PIPE, stderr=subprocess.STDOUT, text=True)
passed = set()
for tc in ET.parse(out).getroot().iter("testcase"):
    if not any(ch.tag in ("failure", "error", "skipped") for ch in tc):
        passed.add(tc.get("classname") + "::" + tc.get("name"))
missing = [t for t in b["stable_pass"] if t not in passed]
print(f"passed {len(passed)}; stable_pass {len(b['stable_pass'])}; missing {len(missing)}")
for m in missing[:20]:
    print("  MISSING", m)
os.unlink(out)
sys.exit(1 if missing else 0)
