"""Correspondence worker: runs one property's correspondence on one code path in its own process.

usage: worker.py <property> <C|PY> <quick|thorough> <seed> <scratch-src> [replay.json]
Prints one JSON object on the last line of stdout.
"""
import importlib
import json
import os
import random
import sys
import time
import traceback

HERE = os.path.dirname(os.path.abspath(__file__))
sys.path.insert(0, HERE)


class Ctx:
    def __init__(self, prop, path, tier, seed, src):
        self.prop, self.path, self.tier, self.seed, self.src = prop, path, tier, seed, src
        self.rng = random.Random(f"{seed}-{prop}")   # same cases on both paths
        self.evaluations = 0
        self.nontrivial = set()
        self.disagreements = []
        self.known_hits = []
        self.samples = []
        self.dist = {}
        self.notes = []
        self.t0 = time.time()
        self.budget_s = None
        self._driver = None

    @property
    def driver(self):
        if self._driver is None:
            from lean_driver import Driver
            self._driver = Driver()
        return self._driver

    def count(self, key, n=1):
        self.dist[key] = self.dist.get(key, 0) + n

    def case(self, nontrivial_key=None, sample=None):
        """register one evaluated case; nontrivial_key (hashable, distinct per distinct
        non-trivial case) or None when the case is trivial"""
        self.evaluations += 1
        if nontrivial_key is not None:
            self.nontrivial.add(nontrivial_key)
        if sample is not None and len(self.samples) < 4:
            self.samples.append(sample)

    def disagree(self, signature, what, replay):
        """implementation differs from model/spec.  signature identifies the input class for the
        known-findings file; replay is a JSON-serialisable description that re-executes the case."""
        if len(self.disagreements) < 50:
            self.disagreements.append({"signature": signature, "what": what, "replay": replay,
                                       "path": self.path})
        self.count("disagreements")

    def out_of_time(self):
        return self.budget_s is not None and time.time() - self.t0 > self.budget_s


def main():
    prop, path, tier, seed, src = sys.argv[1:6]
    replay = sys.argv[6] if len(sys.argv) > 6 else None
    ctx = Ctx(prop, path, tier, int(seed), src)
    from fqe_env import load_fqe
    ctx.fqe = load_fqe(src, path)
    mod = importlib.import_module(f"props.{prop}")
    err = None
    try:
        if replay:
            with open(replay) as fh:
                rep = json.load(fh)
            mod.replay(ctx, rep)
        else:
            mod.run(ctx)
    except Exception:
        err = traceback.format_exc()
    if ctx._driver is not None:
        ctx.driver.close()
    out = {"prop": prop, "path": path, "evaluations": ctx.evaluations,
           "distinct_nontrivial": len(ctx.nontrivial), "disagreements": ctx.disagreements,
           "samples": ctx.samples, "dist": ctx.dist, "notes": ctx.notes, "error": err,
           "driver_requests": ctx._driver.requests if ctx._driver else 0,
           "wall_s": round(time.time() - ctx.t0, 2)}
    print("\n@@RESULT@@" + json.dumps(out, default=str))


if __name__ == "__main__":
    main()
