"""Wrapper around the Lean line-protocol driver (native executable, fallback `lean --run`)."""
import os
import subprocess
from fractions import Fraction

LEAN_DIR = os.path.join(os.path.dirname(os.path.dirname(os.path.abspath(__file__))), "lean")
EXE = os.path.join(LEAN_DIR, ".lake", "build", "bin", "fqedriver")


class Driver:
    def __init__(self):
        if os.path.exists(EXE):
            cmd = [EXE]
        else:
            cmd = ["lake", "env", "lean", "--run", "Main.lean"]
        self.p = subprocess.Popen(cmd, cwd=LEAN_DIR, stdin=subprocess.PIPE, stdout=subprocess.PIPE,
                                  text=True, bufsize=1)
        self.requests = 0
        assert self.ask("ping") == "pong"

    def ask(self, line):
        self.requests += 1
        self.p.stdin.write(line + "\n")
        self.p.stdin.flush()
        out = self.p.stdout.readline()
        if not out:
            raise RuntimeError("Lean driver died on: " + line[:200])
        out = out.rstrip("\n")
        if out.startswith("error"):
            raise RuntimeError(f"Lean driver: {out} on: {line[:200]}")
        return out

    def close(self):
        try:
            self.p.stdin.close()
            self.p.wait(timeout=5)
        except Exception:
            self.p.kill()

    # ---- helpers -----------------------------------------------------------------------
    def nats(self, line):
        t = self.ask(line).split()
        n = int(t[0])
        assert len(t) == n + 1, (line, t[:5])
        return [int(x) for x in t[1:]]

    def triples(self, line):
        t = [int(x) for x in self.ask(line).split()]
        n = t[0]
        assert len(t) == 3 * n + 1
        return [tuple(t[1 + 3 * i:4 + 3 * i]) for i in range(n)]

    def triple_groups(self, line, with_key=False):
        """answer = concatenation of groups `[key] n triples`"""
        t = [int(x) for x in self.ask(line).split()]
        pos, out = 0, []
        while pos < len(t):
            key = None
            if with_key:
                key = t[pos]
                pos += 1
            n = t[pos]
            pos += 1
            grp = [tuple(t[pos + 3 * i:pos + 3 * i + 3]) for i in range(n)]
            pos += 3 * n
            out.append((key, grp) if with_key else grp)
        assert pos == len(t)
        return out


def fmt_rat(x):
    """exact token for an int / Fraction / integral float"""
    if isinstance(x, Fraction):
        return f"{x.numerator}/{x.denominator}" if x.denominator != 1 else str(x.numerator)
    if isinstance(x, int):
        return str(x)
    f = Fraction(x)  # exact value of the float
    return f"{f.numerator}/{f.denominator}" if f.denominator != 1 else str(f.numerator)


def fmt_c(z):
    z = complex(z)
    return fmt_rat(z.real) + " " + fmt_rat(z.imag)


def fmt_vec(entries):
    """entries: iterable of (a, b, complex)"""
    entries = list(entries)
    return " ".join([str(len(entries))] + [f"{a} {b} {fmt_c(c)}" for a, b, c in entries])


def fmt_op(terms):
    """terms: list of (coeff, [(mode, dag), ...])"""
    parts = [str(len(terms))]
    for c, t in terms:
        parts.append(fmt_c(c))
        parts.append(str(len(t)))
        for m, d in t:
            parts.append(f"{m} {int(d)}")
    return " ".join(parts)


def parse_vec(s):
    t = s.split()
    n = int(t[0])
    out = {}
    for i in range(n):
        a, b, re, im = t[1 + 4 * i:5 + 4 * i]
        out[(int(a), int(b))] = (Fraction(re), Fraction(im))
    return out


def parse_c(s):
    re, im = s.split()
    return Fraction(re), Fraction(im)
