"""check.py — decide one property:  check <id> [--tier quick|thorough] [--replay file]

1. Lean stage: regenerate Generated/*.lean from /repo, build Props/<id>.lean and the driver, audit the
   axioms of every theorem in Props/<id>.lean, grep for forbidden tokens.
2. Correspondence stage: scratch-build /repo's working tree, run props/<id>.py against the real
   library on both code paths, comparing with the Lean driver.
3. Decide: disagreements outside known_findings.json -> VIOLATION with replay; a broken proof
   obligation without a failing input -> VIOLATION ... no-failing-input-found.
Exit 0 = held, 1 = violation, 2 = the check itself could not run (timeout, build failure).
"""
import argparse
import hashlib
import json
import os
import re
import subprocess
import sys
import time
from concurrent.futures import ThreadPoolExecutor

HERE = os.path.dirname(os.path.abspath(__file__))
VERIF = os.path.dirname(HERE)
LEAN = os.path.join(VERIF, "lean")
sys.path.insert(0, HERE)
import build_repo  # noqa: E402
import registry  # noqa: E402

PY = "/venv/bin/python"
ALLOWED_AXIOMS = {"propext", "Classical.choice", "Quot.sound"}
FORBIDDEN = re.compile(r"\b(sorry|admit|native_decide|bv_decide|implemented_by)\b|^\s*axiom\s|\bunsafe\s|maxHeartbeats\s+0\b",
                       re.M)


def sh(cmd, cwd=None, timeout=None, env=None):
    r = subprocess.run(cmd, cwd=cwd, stdout=subprocess.PIPE, stderr=subprocess.STDOUT, text=True,
                       timeout=timeout, env=env)
    return r.returncode, r.stdout


def strip_comments(src):
    # remove nested /- -/ block comments and -- line comments
    out, i, depth = [], 0, 0
    while i < len(src):
        if src.startswith("/-", i):
            depth += 1
            i += 2
        elif src.startswith("-/", i) and depth:
            depth -= 1
            i += 2
        elif depth:
            i += 1
        elif src.startswith("--", i):
            j = src.find("\n", i)
            i = len(src) if j < 0 else j
        else:
            out.append(src[i])
            i += 1
    return "".join(out)


def lean_stage(pid, cfg, tier):
    res = {"ok": True, "problems": [], "theorems": [], "axioms": {}, "checker_cmd": ""}
    # translators
    for tr in cfg.get("translators", []):
        rc, out = sh([PY, os.path.join(HERE, "translate", tr)], cwd=VERIF)
        if rc != 0:
            res["ok"] = False
            res["problems"].append({"kind": "translator", "name": tr, "output": out[-2000:]})
    mods = [f"FqeVerif.Props.{pid}"]
    cmd = ["lake", "build"] + mods + ["fqedriver"]
    res["checker_cmd"] = "cd lean && " + " ".join(cmd) + f" && lake env lean .audit/{pid}.lean"
    rc, out = sh(cmd, cwd=LEAN, timeout=1500)
    if rc != 0:
        res["ok"] = False
        errs = [l for l in out.splitlines() if "error" in l][:10]
        res["problems"].append({"kind": "build", "modules": mods, "errors": errs, "output": out[-3000:]})
    # theorem inventory
    pfile = os.path.join(LEAN, "FqeVerif", "Props", f"{pid}.lean")
    src = strip_comments(open(pfile).read())
    ns = re.findall(r"^namespace\s+(\S+)", src, re.M)
    prefix = (ns[0] + ".") if ns else ""
    names = re.findall(r"^\s*theorem\s+([A-Za-z0-9_'.]+)", src, re.M)
    res["theorems"] = names
    if rc == 0 and names:
        os.makedirs(os.path.join(LEAN, ".audit"), exist_ok=True)
        afile = os.path.join(LEAN, ".audit", f"{pid}.lean")
        with open(afile, "w") as fh:
            fh.write(f"import FqeVerif.Props.{pid}\n")
            for n in names:
                fh.write(f"#print axioms {prefix}{n}\n")
        rc2, out2 = sh(["lake", "env", "lean", afile], cwd=LEAN, timeout=600)
        if rc2 != 0:
            res["ok"] = False
            res["problems"].append({"kind": "audit", "output": out2[-2000:]})
        cur = None
        text = out2.replace("\n  ", " ")
        for m in re.finditer(r"'([^']+)' (depends on axioms: \[([^\]]*)\]|does not depend on any axioms)", text):
            nm = m.group(1)
            ax = [a.strip() for a in (m.group(3) or "").split(",") if a.strip()]
            res["axioms"][nm[len(prefix):] if nm.startswith(prefix) else nm] = ax
        for n in names:
            if n not in res["axioms"]:
                res["ok"] = False
                res["problems"].append({"kind": "audit-missing", "theorem": n})
            elif not set(res["axioms"][n]) <= ALLOWED_AXIOMS:
                res["ok"] = False
                res["problems"].append({"kind": "axioms", "theorem": n, "axioms": res["axioms"][n]})
    # forbidden tokens anywhere in the project
    for root, _, files in os.walk(LEAN):
        if ".lake" in root or ".audit" in root:
            continue
        for f in files:
            if f.endswith(".lean"):
                body = strip_comments(open(os.path.join(root, f)).read())
                m = FORBIDDEN.search(body)
                if m:
                    res["ok"] = False
                    res["problems"].append({"kind": "forbidden-token", "file": os.path.join(root, f),
                                            "token": m.group(0).strip()})
    if tier == "thorough" and res["ok"] and cfg.get("leanchecker", True):
        rc3, out3 = sh(["lake", "env", "leanchecker"] + mods, cwd=LEAN, timeout=3000)
        res["leanchecker"] = "ok" if rc3 == 0 else out3[-1500:]
        if rc3 != 0:
            res["ok"] = False
            res["problems"].append({"kind": "leanchecker", "output": out3[-1500:]})
    return res


def run_worker(pid, path, tier, seed, src, replay=None, timeout=None, variant_env=None):
    cmd = [PY, os.path.join(HERE, "worker.py"), pid, path, tier, str(seed), src]
    if replay:
        cmd.append(replay)
    env = dict(os.environ)
    env.setdefault("OMP_NUM_THREADS", "4")
    env["PYTHONDONTWRITEBYTECODE"] = "1"
    if variant_env:
        env.update(variant_env)
    try:
        rc, out = sh(cmd, cwd=HERE, timeout=timeout, env=env)
    except subprocess.TimeoutExpired:
        return {"path": path, "timeout": True}
    for line in reversed(out.splitlines()):
        if line.startswith("@@RESULT@@"):
            r = json.loads(line[len("@@RESULT@@"):])
            r["rc"] = rc
            return r
    return {"path": path, "crashed": True, "rc": rc, "output": out[-3000:]}


def load_known():
    p = os.path.join(VERIF, "known_findings.json")
    if not os.path.exists(p):
        return []
    return json.load(open(p))


def main():
    ap = argparse.ArgumentParser()
    ap.add_argument("pid")
    ap.add_argument("--tier", default=os.environ.get("VERIF_TIER", "quick"))
    ap.add_argument("--replay")
    args = ap.parse_args()
    pid, tier = args.pid, args.tier
    if tier not in ("quick", "thorough"):
        tier = "quick"
    seed = int(os.environ.get("VERIF_SEED", "0") or 0)
    cfg = registry.PROPS[pid]
    t0 = time.time()
    os.makedirs(os.path.join(VERIF, "evidence"), exist_ok=True)
    if args.replay:
        args.replay = os.path.abspath(args.replay)
    os.makedirs(os.path.join(VERIF, "replays"), exist_ok=True)

    with ThreadPoolExecutor(max_workers=4) as ex:
        lean_f = ex.submit(lean_stage, pid, cfg, tier)
        try:
            src = build_repo.build()
        except Exception as e:  # the tree does not build: the check cannot run
            print(f"check {pid}: scratch build of /repo failed: {e}")
            sys.exit(2)
        lean = lean_f.result()
        # the workers need the driver executable, which lean_stage (re)builds
        wtimeout = cfg.get("timeout", {}).get(tier, 1500 if tier == "quick" else 6000)
        paths = cfg.get("paths", ["C", "PY"])
        futs = [ex.submit(run_worker, pid, p, tier, seed, src, args.replay, wtimeout) for p in paths]
        workers = [f.result() for f in futs]

    for w in workers:
        if w.get("timeout"):
            print(f"check {pid}: worker {w['path']} timed out")
            sys.exit(2)

    known = [k for k in load_known() if k.get("property") == pid and k.get("status") == "known"]
    violations, known_hits = [], {}
    for w in workers:
        if w.get("crashed") or w.get("error"):
            violations.append({"signature": "harness:worker-failed", "path": w.get("path"),
                               "what": "correspondence worker failed: " + (w.get("error") or w.get("output", ""))[-1500:],
                               "replay": {"kind": "worker-failure"}})
            continue
        for dsg in w["disagreements"]:
            hit = None
            for k in known:
                if k["signature"] == dsg["signature"] and (not k.get("paths") or dsg["path"] in k["paths"]):
                    hit = k
                    break
            if hit:
                known_hits.setdefault(hit["signature"], hit)
            else:
                violations.append(dsg)

    out_lines = []
    for sig, k in sorted(known_hits.items()):
        out_lines.append(f"KNOWN-FINDING: property={pid} {k['what']}")
    # known findings that the run is expected to re-observe but did not are only noted in evidence

    replay_path = None
    status = 0
    if violations:
        v = violations[0]
        h = hashlib.sha256(json.dumps(v, sort_keys=True, default=str).encode()).hexdigest()[:10]
        replay_path = os.path.join(VERIF, "replays", f"{pid}-{h}.json")
        with open(replay_path, "w") as fh:
            json.dump({"property": pid, "seed": seed, "tier": tier, "violation": v,
                       "all_violations": violations[:20],
                       "lean_problems": lean["problems"]}, fh, indent=1, default=str)
        out_lines.append(f"VIOLATION property={pid} replay={replay_path}")
        status = 1
    elif not lean["ok"]:
        # a proof obligation / translator / audit no longer checks and the correspondence found no
        # failing input: deepen the search once, then report without a failing input
        deep = []
        if tier == "quick" and not args.replay:
            with ThreadPoolExecutor(max_workers=2) as ex:
                futs = [ex.submit(run_worker, pid, p, "thorough", seed + 1, src, None, 1200)
                        for p in cfg.get("paths", ["C", "PY"])]
                deep = [f.result() for f in futs]
        found = [d for w in deep if not w.get("timeout") and not w.get("crashed") and not w.get("error")
                 for d in w.get("disagreements", [])
                 if not any(k["signature"] == d["signature"] for k in known)]
        h = hashlib.sha256(json.dumps(lean["problems"], sort_keys=True, default=str).encode()).hexdigest()[:10]
        replay_path = os.path.join(VERIF, "replays", f"{pid}-{h}.json")
        with open(replay_path, "w") as fh:
            json.dump({"property": pid, "seed": seed, "tier": tier,
                       "broken": lean["problems"], "theorems": lean["theorems"],
                       "failing_input": found[0] if found else None}, fh, indent=1, default=str)
        if found:
            out_lines.append(f"VIOLATION property={pid} replay={replay_path}")
        else:
            out_lines.append(f"VIOLATION property={pid} replay={replay_path} no-failing-input-found")
        status = 1

    # ---- evidence -------------------------------------------------------------------------
    evals = sum(w.get("evaluations", 0) for w in workers)
    # the same cases run on both paths: distinct cases are counted once
    distinct = max([w.get("distinct_nontrivial", 0) for w in workers] + [0])
    dist = {w["path"]: w.get("dist", {}) for w in workers}
    samples = []
    for w in workers:
        samples += w.get("samples", [])[:3]
    for n in lean["theorems"][:3]:
        samples.append({"obligation": n, "axioms": lean["axioms"].get(n)})
    discharged = sum(1 for n in lean["theorems"]
                     if n in lean["axioms"] and set(lean["axioms"][n]) <= ALLOWED_AXIOMS) if not any(
        p["kind"] in ("build", "translator") for p in lean["problems"]) else 0
    coverage = {
        "obligations": len(lean["theorems"]),
        "discharged": discharged,
        "checker_cmd": lean["checker_cmd"],
        "trusted_base": cfg.get("trusted_base", registry.TRUSTED_BASE),
        "theorems": lean["theorems"],
        "axioms_used": sorted({a for v in lean["axioms"].values() for a in v}),
        "partial_theorems": [n for n in lean["theorems"] if n.endswith("_partial")],
        "proved_negations": [n for n in lean["theorems"] if n.endswith("_fails")],
        "evaluations": evals,
        "distinct_nontrivial": distinct,
        "rule": cfg.get("rule", ""),
        "samples": samples,
        "traces_validated_against_impl": evals,
        "input_distribution": dist,
        "worker_notes": {w["path"]: w.get("notes", []) for w in workers},
        "driver_requests": sum(w.get("driver_requests", 0) for w in workers),
        "known_findings_reobserved": sorted(known_hits.keys()),
        "lean_problems": lean["problems"],
        "explanation": cfg.get("explanation", ""),
    }
    if "leanchecker" in lean:
        coverage["leanchecker"] = lean["leanchecker"]
    if cfg.get("exhaustive_note"):
        coverage["exhaustive_note"] = cfg["exhaustive_note"]
    ev = {"property_id": pid, "tier": tier, "seed": seed, "level": cfg["level"],
          "coverage": coverage, "assumptions": cfg.get("assumptions", registry.ASSUMPTIONS),
          "wall_s": round(time.time() - t0, 2), "violations": len(violations) + (0 if lean["ok"] or violations else 1)}
    with open(os.path.join(VERIF, "evidence", f"{pid}.json"), "w") as fh:
        json.dump(ev, fh, indent=1, default=str)
    for l in out_lines:
        print(l)
    print(f"check {pid} tier={tier} seed={seed}: theorems {discharged}/{len(lean['theorems'])} "
          f"evaluations={evals} distinct_nontrivial={distinct} violations={len(violations)} "
          f"known={len(known_hits)} wall={time.time() - t0:.1f}s")
    sys.exit(status)


if __name__ == "__main__":
    main()
