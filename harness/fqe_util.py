"""Helpers shared by the correspondence modules: states <-> driver vectors, operators <-> term lists."""
import itertools
from fractions import Fraction

import numpy

from lean_driver import fmt_vec, fmt_op, parse_vec, parse_c


def gint(rng, lo=-3, hi=3, complex_p=0.5, zero_p=0.2):
    if rng.random() < zero_p:
        return 0
    re = rng.randint(lo, hi)
    im = rng.randint(lo, hi) if rng.random() < complex_p else 0
    return complex(re, im)


def random_fill(wfn, rng, zero_p=0.2, complex_p=0.5):
    data = {}
    for key in wfn.sectors():
        sec = wfn.sector(key)
        arr = numpy.zeros(sec.coeff.shape, dtype=numpy.complex128)
        for i in range(arr.shape[0]):
            for j in range(arr.shape[1]):
                arr[i, j] = gint(rng, zero_p=zero_p, complex_p=complex_p)
        data[key] = arr
    if all(not a.any() for a in data.values()):
        k = next(iter(data))
        data[k][0, 0] = 1 + 2j
    wfn.set_wfn(strategy="from_data", raw_data=data)


def wfn_entries(wfn):
    """[(alpha string, beta string, coefficient)] over all sectors, zeros dropped"""
    out = []
    for key in sorted(wfn.sectors()):
        sec = wfn.sector(key)
        astr = [int(x) for x in sec._core.string_alpha_all()]
        bstr = [int(x) for x in sec._core.string_beta_all()]
        c = sec.coeff
        for i, a in enumerate(astr):
            for j, b in enumerate(bstr):
                if c[i, j] != 0:
                    out.append((a, b, complex(c[i, j])))
    return out


def wfn_dets(wfn):
    """all determinants (a, b) of the wavefunction's sectors"""
    dets = []
    for key in sorted(wfn.sectors()):
        sec = wfn.sector(key)
        for a in sec._core.string_alpha_all():
            for b in sec._core.string_beta_all():
                dets.append((int(a), int(b)))
    return dets


def wfn_dict(wfn):
    d = {}
    for key in sorted(wfn.sectors()):
        sec = wfn.sector(key)
        astr = [int(x) for x in sec._core.string_alpha_all()]
        bstr = [int(x) for x in sec._core.string_beta_all()]
        c = sec.coeff
        for i, a in enumerate(astr):
            for j, b in enumerate(bstr):
                d[(a, b)] = complex(c[i, j])
    return d


def mode_of_spinorb(p, norb):
    """FQE spin-orbital index (alpha block then beta block) -> OpenFermion mode"""
    return 2 * p if p < norb else 2 * (p - norb) + 1


def restricted_terms(tensors, norb):
    """spatial tensors T[i1..ir, j1..jr] -> sum over spins a†_{i1 s1}..a†_{ir sr} a_{j1 s1}..a_{jr sr}"""
    terms = []
    for T in tensors:
        r = T.ndim // 2
        for idx in zip(*numpy.nonzero(T)):
            c = complex(T[idx])
            for spins in itertools.product((0, 1), repeat=r):
                t = [(2 * int(idx[k]) + spins[k], 1) for k in range(r)]
                t += [(2 * int(idx[r + k]) + spins[k], 0) for k in range(r)]
                terms.append((c, t))
    return terms


def spinorb_terms(tensors, norb):
    """spin-orbital tensors T[p1..pr, q1..qr] -> a†_{p1}..a†_{pr} a_{q1}..a_{qr}"""
    terms = []
    for T in tensors:
        r = T.ndim // 2
        for idx in zip(*numpy.nonzero(T)):
            c = complex(T[idx])
            t = [(mode_of_spinorb(int(idx[k]), norb), 1) for k in range(r)]
            t += [(mode_of_spinorb(int(idx[r + k]), norb), 0) for k in range(r)]
            terms.append((c, t))
    return terms


def fermionop_terms(op):
    """OpenFermion FermionOperator -> term list (identity term = empty product)"""
    return [(complex(c), [(int(m), int(d)) for m, d in t]) for t, c in op.terms.items()]


def spec_apply(driver, norb, entries, terms, e0=0):
    """exact H|psi> (+ e0 psi) in FQE convention: dict (a,b) -> (Fraction re, Fraction im)"""
    terms = list(terms)
    if e0 != 0:
        terms.append((complex(e0), []))
    return parse_vec(driver.ask(f"apply {norb} {fmt_vec(entries)} {fmt_op(terms)}"))


def compare_wfn(out_wfn, expected, dets=None, tol=1e-9):
    """compare the coefficients of out_wfn with expected (dict of exact values) on the
    wavefunction's own determinants (= projection onto its sectors).  Returns list of mismatches."""
    got = wfn_dict(out_wfn)
    bad = []
    for det, z in got.items():
        e = expected.get(det, (Fraction(0), Fraction(0)))
        er, ei = float(e[0]), float(e[1])
        if tol == 0.0:
            ok = (z.real == er and z.imag == ei)
        else:
            scale = max(1.0, abs(complex(er, ei)))
            ok = abs(z - complex(er, ei)) <= tol * scale
        if not ok:
            bad.append((det, z, complex(er, ei)))
    return bad
