"""registry.py — one table for every property: what the check runs, what it claims.
MANIFEST.json is generated from this table (gen_manifest.py), so manifest and evidence agree."""

TRUSTED_BASE = [
    "Lean 4.33 kernel (thorough tier: re-checked by leanchecker)",
    "axioms: propext, Classical.choice, Quot.sound only (audited by #print axioms on every run)",
    "Spec/Fock.lean says what the property means (textbook Jordan-Wigner ladder operators; CAR proved)",
    "correspondence harness (Python) and the Lean compiler/runtime executing the driver",
    "numpy/BLAS, OpenFermion, scipy are called, not verified",
]
ASSUMPTIONS = [
    "theorems are about the Lean model; the tie to /repo is the correspondence run of this check "
    "(scratch build of the working tree, both code paths) and the translators",
    "inputs are Gaussian integers so the floating-point kernels compute exactly",
]

PROPS = {}

PROPS["C05"] = dict(
    level="proof",
    translators=["cbits.py", "pyint.py"],
    technique="Lean 4 theorems (bit helpers = arithmetic incl. C forms generated from bitstring.h over BitVec 64; "
              "single-excitation entries = Spec ladder action; injectivity; Z-matrix closed form, address = lexical "
              "rank and string table = lexical k-subsets for all (n, k); the generated Gosper step and the C "
              "generator loop = k-subsets in numeric order for all norb <= 63; operator-string loop and k-fold annihilation "
              "maps = ladder products with the kernels' sign) "
              "+ exhaustive table correspondence with the Lean model on both code paths",
    text="Machine-checked theorems for all word values / positions / strings / (norb, nele) about the bit helpers "
         "(Python forms and the C forms translated from bitstring.h and bitstring.c on every run), the string "
         "generators (reference enumerations, Gosper's hack on 64-bit words), Knowles-Handy addressing, the string "
         "table, the single-excitation tables, the operator-string maps and the k-fold annihilation maps between "
         "sectors and the de-excitation rows; the sector linking is an executable Lean model compared entry by entry with the real library for every "
         "(norb<=6/9, nele) and the 31..64 orbital boundary families.",
    note="Lean kernel; translator cbits.py gives C uint64_t the meaning BitVec 64 and __builtin_popcountll the "
         "meaning 'number of set bits'; that the real builders execute the modelled loops is established by the "
         "exhaustive table comparison, not by proof.",
    design_ref="DESIGN.md §5 C05",
    rule="cases = every helper call on boundary+random 64-bit words, every table of every (norb, nele) shape in the "
         "box; non-trivial = word != 0 / shape with 0 < nele < norb / table containing a negative sign; distinct by "
         "(kind, shape, indices)",
)

PROPS["C01"] = dict(
    level="proof",
    technique="Lean 4 theorems (CAR for the Spec ladder; one embedding iota intertwines FQE's determinant-level "
              "ladder step and every operator string with the Jordan-Wigner Spec) + exact Gaussian-integer "
              "correspondence of apply() for every Hamiltonian class with the Lean Spec driver on both code paths",
    text="The sign convention is proved to be one convention: for every operator string (any length/order), every "
         "determinant and both spins, FQE's kernel sign rule re-expressed through the single embedding iota equals the "
         "Jordan-Wigner Spec action (C01_iota_term), and Spec satisfies the CAR. The dense/diagonal/sparse routes of "
         "the real library are compared exactly (integer data, no tolerance) with the Spec driver over all "
         "Hamiltonian classes x symmetry modes x e0.",
    note="Lean kernel; the tensor-folding identities of the dense routes and the gathering parity of the sparse route "
         "are not yet theorems: they are carried by the exact correspondence (norb<=3 quick, <=4 thorough). "
         "Spin-orbital tensors are generated in the library's documented placement (spin-sorted, pair-symmetrised); "
         "number-broken wavefunctions are exercised in C09/C06 only.",
    design_ref="DESIGN.md §5 C01",
    rule="cases = random (Hamiltonian class, wavefunction kind, norb, e0, tensor/operator, state); non-trivial = the exact "
         "result has a negative or non-real amplitude; distinct by (class, wavefunction kind, norb, case index)",
)

PROPS["C07"] = dict(
    level="proof",
    technique="Lean 4 theorems (export sign = Spec embedding x sector factor; intertwining with the Jordan-Wigner "
              "image for count-preserving strings; proved negation across sectors) + exact correspondence of "
              "to_cirq/from_cirq with the Lean export model and Spec on both code paths",
    text="Proved: the export's sign is the Spec embedding iota times a factor depending only on (n_alpha, n_beta), so "
         "apply-then-export = export-then-JW-image for every operator string that preserves the counts; the cross-sector "
         "statement is proved false for the export as implemented (known finding). The correspondence compares every "
         "exported amplitude and index exactly with the Lean model, checks the intertwining against Spec on the exported "
         "vector, the round trip, and the sector set created by from_cirq at thresholds sitting exactly on amplitudes.",
    note="Lean kernel; only the Jordan-Wigner code is modelled (other binary codes: not claimed); index bijection, "
         "round trip and detection are decided by the exact correspondence (norb<=3 quick, <=4 thorough), not by theorems.",
    design_ref="DESIGN.md §5 C07",
    rule="cases = random wavefunctions (single/multi-sector/spin-broken/number-broken) exported, re-imported, and "
         "intertwined with random 1-2 term Hermitian operators; random sparse vectors imported at thresholds on the "
         "amplitude moduli; non-trivial = a negative/non-real amplitude present; distinct by (check kind, wavefunction "
         "kind, norb, case index)",
)

PROPS["C08"] = dict(
    level="proof",
    technique="Lean 4 theorems about the arithmetic model (refuse-iff-sector-sets-differ, pointwise axpy/scale, "
              "set/get frame law, max-magnitude selection, bilinearity over any commutative ring) + exact "
              "operation-history correspondence with the Lean driver on both code paths",
    text="The model of ax_plus_y/scale/getitem/setitem/max_element/dot is proved to be the corresponding vector "
         "operation (and to refuse exactly when the sector sets differ); random histories of 20-40 operations over a "
         "pool of wavefunctions are executed on the real library and every pool member is compared exactly with the "
         "model after every step (frame + value), Gaussian-integer data.",
    note="Lean kernel + Mathlib ring tactic; the tie to the code is the history correspondence (not a translator); "
         "normalize/norm are compared with tolerance 1e-9 (sqrt).",
    design_ref="DESIGN.md §5 C08",
    rule="cases = steps of random operation histories (axpy/add/sub/iadd/scale/dot/vdot/norm/max/get/set/set_wfn/"
         "empty_copy/deepcopy/mismatched operands); every step is non-trivial (state differs); distinct by (history, step)",
)

PROPS["C09"] = dict(
    level="proof",
    translators=["pyint.py"],
    technique="Lean 4 theorems (accept iff possible, fixed-N / fixed-Sz sector sets exactly as promised, number "
              "operator = occupation, T^2 = (-1)^N; the Python sector arithmetic translated from /repo on every run = the "
              "model) + exhaustive constructor box and exact operator-value "
              "correspondence against the Spec operators on both code paths",
    text="The sector bookkeeping model is proved to accept exactly the possible (nele, m_s, norb) and to produce exactly "
         "the promised sector sets; the whole argument box (including impossible values) is executed against the real "
         "constructors with shapes; N, Sz, S^2 (written out as S-S+ + Sz + Sz^2 in ladder operators) expectation and "
         "transition values are compared with the Spec driver exactly; time reversal with the model phase; <N>,<Sz>,<S^2> "
         "are checked constant under spin-free evolution.",
    note="Lean kernel; S^2's closed formula and [H,S^2]=0 are not theorems (decided by the correspondence, norb<=3/4); "
         "time reversal is specified by its action on determinants (Kramers pairing alpha<->beta with conjugation).",
    design_ref="DESIGN.md §5 C09",
    rule="cases = every (nele, m_s, norb) in the box norb<=4 (6 thorough), nele in -1..2norb+1, m_s in -norb-1..norb+1 for "
         "each constructor (exhaustive), plus random (bra, ket) pairs per operator, plus evolution runs; non-trivial = "
         "valid sector / non-empty promised set / operator value case; distinct by arguments",
    exhaustive_note="constructor box enumerated completely",
)

PROPS["C15"] = dict(
    level="proof",
    translators=["persist.py"],
    technique="Lean 4 theorems (the event shape of the real Wavefunction.read/save, regenerated by translate/persist.py, meets "
              "the premises: one load outside any loop before the first store, one dump, directory resolved at call time; "
              "deterministic prefix-reader lemma: every strict prefix of a completely consumed stream "
              "is refused; failed load leaves the receiver unchanged; directory resolution) + exhaustive crash-point "
              "enumeration (truncation at every byte) and chdir histories on the real library",
    text="The logic of save/read is proved on the model (prefix lemma for any deterministic reader, atomic read, location "
         "= caller's path or cwd at call time); the law assumed of pickle is validated by truncating every saved file at "
         "every byte offset (read must raise, receiver snapshot unchanged), by damaged header/STOP bytes, by bitwise round "
         "trips into a new object with a battery of later operations, and by chdir histories with and without a path.",
    note="Lean kernel; pickle itself is trusted to be a deterministic stream reader (validated exhaustively per file, not "
         "proved); filesystem semantics (partial writes by the OS) are represented by truncation only.",
    design_ref="DESIGN.md §5 C15",
    rule="cases = round trips, every truncation offset of every saved file (exhaustive per file), header/STOP damage, "
         "location histories; each offset is a distinct non-trivial case",
    exhaustive_note="every byte offset of every generated file",
)

PROPS["C03"] = dict(
    level="proof",
    technique="Lean 4 theorems (both Wick rewriting steps — swap and contraction — preserve the Spec action inside any "
              "operator string; numeric elements = Spec matrix elements through iota) + exact element-by-element "
              "correspondence of every returned tensor with <bra|pattern|ket> from the Spec driver on both code paths",
    text="Each returned tensor (normal-ordered and arbitrarily reordered patterns of rank 1-3 quick / 1-4 thorough, diagonal "
         "and transition, unnormalised states, spin-summed and spin-orbital) is compared exactly with the Spec matrix "
         "elements computed in Lean; numeric-index elements and Hamiltonian expectation values (also as tensor.RDM "
         "contractions) likewise. The soundness of the reordering rules the library relies on is proved for every "
         "determinant and every context.",
    note="Lean kernel; the D-vector formulas of rdm1..rdm1234 and the Wick driver loop are not modelled function by "
         "function: their outputs are compared with Spec (norb<=3, rank<=3 quick; rank 4 at norb=2 thorough).",
    design_ref="DESIGN.md §5 C03",
    rule="cases = (wavefunction kind, rank, pattern ordering, bra=ket or transition) tensors, numeric elements, "
         "Hamiltonian expectation values; every case compares a full tensor; distinct by (case index, pattern)",
)

PROPS["C06"] = dict(
    level="proof",
    translators=["guards.py"],
    technique="Lean 4 theorems (reverse_bubble_list's swap count is the fermionic sign for distinct modes in any context; "
              "normal-ordering steps sound; interleaved<->block index bijection) + exact correspondence: the built "
              "object's apply() vs the Spec action of the source expression, flags/e_0/iht truthfulness, both paths",
    text="The sign bookkeeping both conversion routes rest on (bubble sort with swap counting) is modelled, compared with the "
         "real reverse_bubble_list on random key lists, and proved to produce (-1)^swaps for any string with distinct "
         "modes in any context; the reordering steps of normal ordering are proved sound. Whatever class build_hamiltonian "
         "selects for random Hermitian polynomials with arbitrary factor order, duplicates and identity terms, the object is "
         "applied to random wavefunctions and compared with the Spec action of the source expression; rank/dim/flags/e_0/iht "
         "are checked against the expression.",
    note="Lean kernel; OpenFermion's normal_ordered/is_hermitian are called, not verified; the class cascade itself is not a "
         "Lean model: its outcome is judged by the action of the object it returns (norb<=3).",
    design_ref="DESIGN.md §5 C06",
    rule="cases = random operator expressions per family (diagonal, restricted, sso, gso, diagonal-Coulomb, mixed ranks, <=2 "
         "terms) x 2 wavefunctions, bubble-sort key lists, tensor tuples; non-trivial = exact result has a negative/non-real "
         "amplitude; distinct by (case, repetition)",
)

PROPS["C02"] = dict(
    level="proof",
    translators=["guards.py"],
    technique="Lean 4 theorems (scalar part enters exactly once on every route/algorithm of the decision model; in-place "
              "refusal iff Taylor route; group law / identity / inverse of the closed-form single-term evolution; phase "
              "group law of the diagonal routes) + correspondence against expm of the exact Spec matrix of H",
    text="The route cascade and scalar accounting are modelled and proved (once on every route); the closed-form routes "
         "are proved to be one-parameter groups algebraically. Every route (diagonal, quadratic restricted and GSO, "
         "diagonal-Coulomb, single term, sparse multi-term Taylor, dense Taylor, Chebyshev) is executed on the real library "
         "with e_0 != 0 and compared with expm(-itH) psi where H's matrix is produced exactly by the Spec driver; norm, "
         "in-place = out-of-place, t1 then t2 = t1+t2, -t undoes t, and the in-place refusal decision are checked.",
    note="Lean kernel + Mathlib ring/linear_combination; identification of the closed forms with the analytic exponential "
         "and the quadratic route (orbital rotation, see C12) are decided numerically (tolerance 1e-8, scipy.linalg.expm "
         "trusted); number-broken wavefunctions are not exercised here.",
    design_ref="DESIGN.md §5 C02",
    rule="cases = (route, wavefunction kind, t in {0, 0.13, -0.31, 0.5, 1.1}, e0 in {0, 0.7, -1.25}, api) evolutions + "
         "in-place, composition and inverse re-evolutions; non-trivial = t != 0; distinct by case index",
)

PROPS["C16"] = dict(
    level="proof",
    translators=["guards.py"],
    technique="Lean 4 theorems about the loop control flow (returns at the first order passing the test — for Chebyshev the "
              "first two consecutive orders — and raises iff none does: never an unconverged return) + correspondence of "
              "the outcome and of the distance to expm over graded (||Ht||, accuracy, expansion)",
    text="Converge-or-raise is proved for the model of both loops; on the real library the outcome (state at order k or "
         "RuntimeError) is compared with the model fed with the break tests on exact term norms, and a returned state's "
         "distance to expm(-itH)psi (H's matrix exact from Spec) must be within accuracy + rounding whenever the break order "
         "dominates ||Ht||; long-time norm drift of the exact routes is measured.",
    note="Lean kernel; the analytic tail bound (remainder <= last term for ||Ht|| <= (k+1)/2) is used as the acceptance "
         "criterion but not formalised; floating-point accumulation for long times is measured, not proved (partial).",
    design_ref="DESIGN.md §5 C16",
    rule="cases = (algorithm, Hamiltonian, t in 1e-3..20, accuracy 1e-3..1e-15, expansion 3..60) runs + long-time runs of the "
         "exact routes; every case is distinct by index; borderline tests (|term - accuracy| <= 1e-6 accuracy) are skipped and "
         "counted",
)

PROPS["C04"] = dict(
    level="proof",
    paths=["C"],
    technique="Lean 4 theorems (the Python and C constructions of the operator-string masks and hence their tables are "
              "equal; C bit helpers generated from bitstring.h = Python helpers; marshalling through int vs uint64) + "
              "exact cross-run of one deterministic battery of public calls on both code paths",
    text="Where the two paths implement different algorithms the model has both and they are proved equal for all inputs "
         "(mask construction, bit helpers with the 2ull<<63 wrap, 32-bit marshalling characterised exactly); every other "
         "pair is decided by running the same seeded battery (string tables, maps, apply of all Hamiltonian classes, "
         "single-term evolution and RDMs with orbital indices 30..63, Wick-reordered RDMs, qubit export) in two interpreters "
         "and comparing every array: bitwise for tables and integer data, 1e-10 otherwise.",
    note="Lean kernel; the cross-run is a differential test within the explored box (norb<=4 for dense data, one-electron "
         "sectors up to norb=64 thorough / 33 quick); every other check of this suite also runs on both paths against the "
         "same model.",
    design_ref="DESIGN.md §5 C04",
    rule="cases = named result arrays of the battery (tables, helper values, apply/evolve/rdm/cirq results); non-trivial = "
         "array with a non-zero entry; distinct by result name",
)

PROPS["C11"] = dict(
    level="proof",
    technique="Lean 4 theorems about the abstract pool machine (frame for out-of-place and in-place steps, history "
              "independence of returned values, frame over arbitrary out-of-place sequences) + byte-level snapshot "
              "refinement check of generated operation histories on the real library",
    text="The machine whose steps are the library's public calls with their pure meaning is proved to leave every other "
         "object untouched and to return values depending only on argument values. That the library refines it is checked "
         "over histories of 30-60 calls: SHA-1 snapshots of every live object (coefficients, tensors, operator tables, graph "
         "string tables and maps) before/after each step, re-evaluation of recorded calls later in the history (after copies "
         "were mutated, cross-sector maps were linked, the code-path switch was flipped and restored), objects built under "
         "the other switch setting, and the helpers named in the anchors.",
    note="Lean kernel; the theorems are true of the machine by construction - the decisive part is the refinement check "
         "(differential, within the explored histories, norb<=3 plus low-filling shapes norb 7-8).",
    design_ref="DESIGN.md §5 C11",
    rule="cases = steps of generated histories (every step snapshots the whole pool) + replayed calls + objects built under "
         "the other code path; each step is distinct by (history, step)",
)

PROPS["C14"] = dict(
    level="proof",
    translators=["guards.py"],
    technique="Lean 4 theorems (refused <=> incompatible for the transcribed guards of apply/time_evolve, ax_plus_y, the "
              "constructor, the propagator arguments, the operator-index guard and the RDM-pattern parser; the inventory of "
              "all 103 raise/assert guards of the anchored modules and the branch skeleton of apply, regenerated from the "
              "Python sources by translate/guards.py, equal the reviewed tables) + exhaustive run of the incompatible-argument product and a "
              "hostile-value battery in guarded child interpreters (also under python -O)",
    text="The decision tables are proved equivalent to the written-out incompatibility predicates; the real entry points "
         "are driven through the full product of incompatible combinations (outcome class from the Lean table, operand "
         "snapshots before/after, admitted calls checked against Spec), and a battery of hostile values (operator indices "
         "beyond norb and beyond 64, wrong shapes/dtypes/orders, malformed RDM strings, impossible constructor arguments) "
         "runs in child interpreters with and without -O: termination by signal or non-zero status, or an answer where a "
         "refusal is due, is a violation.",
    note="Lean kernel; only the listed guards are modelled (not every raise site of the library); 'never terminates the "
         "interpreter' is established for the executed battery only (partial).",
    design_ref="DESIGN.md §5 C14",
    rule="cases = every cell of the incompatibility tables x entry point, plus each hostile attempt x interpreter mode; "
         "every case distinct by its arguments",
    exhaustive_note="decision tables enumerated completely for norb=2",
)

PROPS["C18"] = dict(
    level="proof",
    technique="Lean 4 theorems about the outer-loop control flow (a returned answer comes from an iteration >= 1 that passed "
              "the convergence test within the size limit; all earlier iterations failed it) + correspondence of returned "
              "eigenpairs against exact spectra (numpy eigh of given matrices / of the exact Spec matrix of FQE Hamiltonians)",
    text="Control flow proved on the model: the loop can only return a converged iteration, otherwise it ends in "
         "ConvergenceError. On the real routines: plain matrices (generic, diagonally dominant, degenerate, complex Hermitian) "
         "and FQE restricted Hamiltonians whose sector matrix is produced exactly by the Spec driver; a returned result must "
         "be the lowest eigenvalues to 1e-6 with normalised vectors and small residual; raising ConvergenceError is accepted.",
    note="Lean kernel; accuracy of an iterative method is not a theorem here (partial): 'lowest eigenpairs' is decided against "
         "numpy.linalg.eigh (trusted) on dimensions <= 20; the Ritz/residual bounds are not formalised.",
    design_ref="DESIGN.md §5 C18",
    rule="cases = random Hermitian matrices by family x nroots, random restricted Hamiltonians by (norb, nalpha, nbeta); "
         "every case distinct by index",
)

PROPS["C12"] = dict(
    level="proof",
    technique="Lean 4 theorems (in-place safety of every column step: table entries read determinants with the column orbital "
              "occupied and write determinants with it empty; diagonal entries are scalings) + correspondence of "
              "transform() with the exact many-body image Gamma((R P)^dagger) computed by minors in the Lean Spec driver",
    text="PARTIAL proof: the structural facts that make the column-by-column in-place algorithm sound are proved for all "
         "strings and orbitals; that the ordered product of the column factors equals Gamma of the LU-reassembled matrix "
         "needs multiplicativity of Gamma (Cauchy-Binet, not in Mathlib v4.33) and is not proved. The whole statement is "
         "checked against Spec/Rotate.lean (exact determinants of the dyadic-rational matrix entries): restricted, "
         "spin-block-diagonal and spin-mixing rotations; generic, real, signed/phase permutation, pivot-forcing and "
         "near-identity unitaries; reported factors L U = (R P)^dagger, norm, and restoration by the adjoint with the factors.",
    note="Lean kernel; scipy.linalg.lu / solve_triangular are called, not verified (law P L U = A checked per case); the "
         "deciding part for the full property is the numerical correspondence (norb<=3, tolerance 1e-9).",
    design_ref="DESIGN.md §5 C12",
    rule="cases = (rotation form, unitary family, wavefunction kind, norb) transformations + back transformations; every case "
         "distinct by index",
)

PROPS["C17"] = dict(
    level="proof",
    technique="Lean 4 theorems (every charge-charge generator n_p n_q is diagonal with eigenvalue occ(p)occ(q); phases of "
              "successive diagonal evolutions multiply; a Trotter step is the ordered fold of its factors) + correspondence "
              "of every helper with Gamma(u) by exact minors / exact diagonal phases from the Lean Spec driver",
    text="PARTIAL proof: the diagonal helpers and the sequencing are proved on the Spec; the Givens helpers equal Gamma(u) only "
         "through OpenFermion's givens_decomposition_square (external) and multiplicativity of Gamma (see C12), so they are "
         "decided numerically: evolve_fqe_givens, per-sector and unrestricted variants vs Gamma(u) (generic, real, permutation, "
         "near-identity unitaries), all charge-charge helpers and evolve_fqe_diagonal_coulomb vs exp(-i t sum v n n) with "
         "eigenvalues from Spec, a double-factorised Trotter step vs the ordered product, and LowRankTrotter's data through "
         "second-order convergence of a Trotter step to expm of the exact H.",
    note="Lean kernel + Mathlib ring; tolerance 1e-7 for Givens (angles below 1e-8 are skipped by the helper), 1e-9 for the "
         "diagonal helpers; OpenFermion's low-rank routines are called, not verified.",
    design_ref="DESIGN.md §5 C17",
    rule="cases = (helper, unitary family / v matrix, wavefunction, norb, t) runs; every case distinct by index",
)

PROPS["C19"] = dict(
    level="proof",
    technique="Lean 4 theorems (the overlap combination of the ACSE element equals <[T,A]>; the non-commutative ring "
              "identities behind the sum-of-squares form of the doubles factorisation, by noncomm_ring) + exact "
              "element-by-element correspondence of the residual tensors with Spec commutator expectation values and "
              "of the reassembled factorisation with the generator's Spec action",
    text="PARTIAL proof: the scalar and ring algebra the routines rely on is proved in general; SVD/Takagi are external, so "
         "'squares plus remainder sum back to the generator' is decided by applying both operators (written out in ladder "
         "operators) to random states with the Spec driver. Every element of get_acse_residual_fqe and of two_rdo_commutator "
         "(fed with exact 2- and 3-RDMs produced by the Spec driver) is compared with <psi|[p^ q^ r s, A]|psi> computed in Lean; "
         "normality of every returned one-body operator is checked.",
    note="Lean kernel + Mathlib ring/noncomm_ring; numpy SVD and the Takagi routine are called, not verified; norb = 2 (nso = 4).",
    design_ref="DESIGN.md §5 C19",
    rule="cases = tensor elements (256 per tensor) of the two routes, factorisation reassemblies per method; non-trivial = "
         "non-zero exact element; distinct by (case, indices)",
)

PROPS["C10"] = dict(
    level="proof",
    paths=["C"],
    translators=["omp.py"],
    technique="Lean 4 theorems (the OpenMP pragma inventory and the shared-write table of every parallel construct, regenerated "
              "from the C sources, equal the reviewed lists; no shared scalar writes; index "
              "disjointness of the row-partition and map-injective disciplines; batching arithmetic) + bitwise multi-thread / "
              "multi-schedule / no-OpenMP differential run on exact integer data",
    text="PARTIAL: the translator re-reads every #pragma omp (78 constructs) on each run, together with, for the statement each "
         "one governs, the shared variables written directly inside it and the functions called; Lean checks both tables "
         "against the reviewed, classified ones and proves that no shared scalar is written inside any parallel construct, so "
         "adding/moving/altering a parallel construct, hoisting a buffer out of a loop or introducing a shared accumulator "
         "breaks an obligation; the two disciplines "
         "that make the loops race free are proved at the index level (row partition; targets of one excitation map are "
         "pairwise distinct, from C05). An actual interleaving cannot be exhibited by the model: independence of the thread "
         "count is decided by running one battery over all accelerated kernels at 1/2/3/(5/8)/16 threads, static and dynamic "
         "schedules, repeated, and in a build with OpenMP disabled; with integer-valued data all results must agree bitwise.",
    note="Lean kernel; the classification of each loop into a discipline is by review (trusted), only the disciplines' index "
         "arithmetic is proved; OpenMP runtime, compiler and hardware memory model are outside the model; ThreadSanitizer is "
         "not usable (libgomp is not TSan-aware).",
    design_ref="DESIGN.md §5 C10",
    rule="cases = (configuration, result array) comparisons against the single-thread run; configurations = thread counts x "
         "schedules x repetitions + the no-OpenMP build; every comparison distinct by (configuration, result name)",
)

PROPS["C13"] = dict(
    level="proof",
    paths=["C"],
    translators=["cbits.py", "omp.py"],
    technique="Lean 4 theorems (every shift in the translated C bit helpers has a count < 64; batch arithmetic stays inside the "
              "row; row/scratch index ranges of distinct iterations are disjoint and inside the block; cross-sector maps are "
              "only linked for dn <= maxspin) + AddressSanitizer/UBSan build of the same C sources driven over boundary shapes",
    text="PARTIAL: memory safety of compiled C is not a property of a model. Proved: the index arithmetic of the helpers as "
         "translated from the headers (no undefined shifts for positions < 64, incl. 2ull << 63), the column batching "
         "(non-empty, inside [0, lenb), last batch ends at lenb) and the occ[16] bound of make_mapping_each_set (dn <= 2). "
         "Executed: the C library rebuilt with -fsanitize=address,undefined (OpenMP kept, NDEBUG as shipped) and driven "
         "through the public API over empty/full shells, one orbital, lenb on both sides of 450 and 900, 9/10/11 beta "
         "strings, lena = 126, orbital indices 30-33 and 62-63, spin-broken containers; any sanitizer report is a failing "
         "input; results are compared with the regular build.",
    note="Lean kernel; the sanitizer run covers executed paths only; int32 index products overflow only for sectors far beyond "
         "what the sandbox can allocate (not exercised); the C assert `norbs < MAX_ORBS` in zdiagonal_coulomb_apply is off by one "
         "at norb = 64 but compiled out in the shipped build (noted in DESIGN.md).",
    design_ref="DESIGN.md §5 C13",
    rule="cases = result arrays of the boundary-shape battery under the sanitizers (each compared with the regular build); every "
         "array distinct by name",
)
