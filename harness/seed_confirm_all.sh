#!/bin/bash
# confirm the seeds of one worktree sequentially: seed_confirm_all.sh <ID> [root=/tmp/seed]
id=$1
root=${2:-/tmp/seed}
for n in 1 2; do
  if [ -f $root/$id/_seed/$n/patch.diff ] && [ ! -s $root/$id.confirm$n.json ]; then
    /venv/bin/python /verif/harness/seed_confirm.py $root/$id $root/$id/_seed/$n > $root/$id.confirm$n.json 2>$root/$id.confirm$n.err
  fi
done
