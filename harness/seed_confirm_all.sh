#!/bin/bash
# confirm both seeds of one worktree sequentially: seed_confirm_all.sh <ID>
id=$1
for n in 1 2; do
  if [ -f /tmp/seed/$id/_seed/$n/patch.diff ] && [ ! -s /tmp/seed/$id.confirm$n.json ]; then
    /venv/bin/python /verif/harness/seed_confirm.py /tmp/seed/$id /tmp/seed/$id/_seed/$n > /tmp/seed/$id.confirm$n.json 2>/tmp/seed/$id.confirm$n.err
  fi
done
