/-
  Main.lean — line-protocol driver.  One request per input line (space separated tokens),
  one answer line per request.  Imports Spec and Model only (no Mathlib), so it is built as a
  native executable; `lake env lean --run Main.lean` is the fallback.
-/
import FqeVerif.Spec.State
import FqeVerif.Model.Maps
import FqeVerif.Driver.Cmds

def main : IO Unit := do
  let stdin ← IO.getStdin
  let stdout ← IO.getStdout
  Driver.loop stdin stdout
