import FqeVerif.Spec.Fock
import FqeVerif.Spec.Embed
import FqeVerif.Lemmas.Embed
