/-
  Driver/Parse.lean — token reader for the line protocol.
-/
import FqeVerif.Spec.State
namespace Driver
open Fock

structure PState where
  toks : Array String
  pos : Nat

abbrev P := StateT PState (Except String)

def tok : P String := do
  let s ← get
  if h : s.pos < s.toks.size then
    set { s with pos := s.pos + 1 }
    return s.toks[s.pos]
  else throw "unexpected end of line"

def nat : P Nat := do
  let t ← tok
  match t.toNat? with
  | some n => return n
  | none => throw s!"bad nat {t}"

def int : P Int := do
  let t ← tok
  match t.toInt? with
  | some n => return n
  | none => throw s!"bad int {t}"

def rat : P Rat := do
  let t ← tok
  match parseRat? t with
  | some r => return r
  | none => throw s!"bad rat {t}"

def gq : P GQ := do
  let re ← rat
  let im ← rat
  return ⟨re, im⟩

def many {α} (n : Nat) (p : P α) : P (List α) := do
  let mut out : Array α := #[]
  for _ in [0:n] do
    out := out.push (← p)
  return out.toList

def natList : P (List Nat) := do
  let n ← nat
  many n nat

/-- `<n> {a b re im}*n` -/
def vec : P Vec := do
  let n ← nat
  let l ← many n (do
    let a ← nat; let b ← nat; let c ← gq
    return ((a, b), c))
  return Vec.ofList l

/-- `<len> {mode dag}*len` -/
def term : P Term := do
  let n ← nat
  many n (do
    let m ← nat; let d ← nat
    return (m, d != 0))

/-- `<nterms> {re im term}*nterms` -/
def op : P Op := do
  let n ← nat
  many n (do
    let c ← gq; let t ← term
    return (c, t))

def showVec (v : Vec) : String :=
  let l := v.sorted
  " ".intercalate (toString l.length :: l.map (fun ((a, b), c) => s!"{a} {b} {c.toStr}"))

def showNats (l : List Nat) : String := " ".intercalate (toString l.length :: l.map toString)
def showInts (l : List Int) : String := " ".intercalate (toString l.length :: l.map toString)

end Driver
