/-
  Driver/Cmds.lean — the commands of the line protocol.
-/
import FqeVerif.Driver.Parse
import FqeVerif.Spec.Rotate
import FqeVerif.Model.Maps
import FqeVerif.Model.Cirq
import FqeVerif.Model.Sectors
import FqeVerif.Model.Hamil
import FqeVerif.Model.Evolve
import FqeVerif.Model.Algo
import FqeVerif.Model.Guards
import FqeVerif.Model.Wick
namespace Driver
open Fock Model

def b2n (b : Bool) : Nat := if b then 1 else 0

def showTriples (l : List (Nat × Nat × Nat)) : String :=
  " ".intercalate (toString l.length :: l.map (fun (a, b, c) => s!"{a} {b} {c}"))

/-- all tuples in `{0..n-1}^k`, row-major -/
def tuples (n : Nat) : Nat → List (List Nat)
  | 0 => [[]]
  | k+1 => (tuples n k).flatMap (fun t => (List.range n).map (fun x => t ++ [x]))

/-- reduced density tensor `⟨bra| pattern |ket⟩` for every index tuple (Spec, exact).
    `mode = 1`: spin-summed over the spin groups, letters range over spatial orbitals;
    `mode = 0`: spin-orbital, letters range over `2*norb` FQE spin orbitals (alpha block, beta block). -/
def rdmSpecAt (norb mode : Nat) (bra ket : Vec) (groups : List Nat) (pat : List (Nat × Bool))
    (idxs : List (List Nat)) : List GQ :=
  let ngroups := (groups.foldl max 0) + 1
  let sbra := iota norb bra
  let sket := iota norb ket
  if mode == 1 then
    idxs.map fun idx =>
      (tuples 2 ngroups).foldl (fun acc spins =>
        let term : Term := pat.map fun (l, dg) => (2 * idx.getD l 0 + spins.getD (groups.getD l 0) 0, dg)
        acc + inner sbra (applyOpSpec [(1, term)] sket)) 0
  else
    idxs.map fun idx =>
      let term : Term := pat.map fun (l, dg) =>
        let p := idx.getD l 0
        ((if p < norb then 2 * p else 2 * (p - norb) + 1), dg)
      inner sbra (applyOpSpec [(1, term)] sket)

def rdmSpec (norb mode : Nat) (bra ket : Vec) (groups : List Nat) (pat : List (Nat × Bool)) : List GQ :=
  rdmSpecAt norb mode bra ket groups pat (tuples (if mode == 1 then norb else 2 * norb) groups.length)

def showRefusal : Option Refusal → String
  | none => "ok"
  | some .typeError => "TypeError"
  | some .valueError => "ValueError"
  | some .assertionError => "AssertionError"

def cmd (name : String) : P String := do
  match name with
  | "ping" => return "pong"
  -- Spec: exact operator action in FQE's determinant convention
  | "apply" => do
      let norb ← nat; let v ← vec; let o ← op
      return showVec (applyOpFqe norb o v)
  -- the same in the convention of number-broken (Sz-conserving) wavefunctions
  | "applynb" => do
      let norb ← nat; let v ← vec; let o ← op
      return showVec (applyOpFqeNB norb o v)
  | "expectnb" => do
      let norb ← nat; let bra ← vec; let ket ← vec; let o ← op
      return GQ.toStr (inner (iotaNB norb bra) (applyOpSpec o (iotaNB norb ket)))
  -- Spec action without ι (Jordan–Wigner / OpenFermion convention in and out)
  | "applyspec" => do
      let v ← vec; let o ← op
      return showVec (applyOpSpec o v)
  | "iota" => do
      let norb ← nat; let v ← vec
      return showVec (iota norb v)
  -- ⟨bra| op |ket⟩, states in FQE convention
  | "expect" => do
      let norb ← nat; let bra ← vec; let ket ← vec; let o ← op
      return (inner bra (applyOpFqe norb o ket)).toStr
  | "inner" => do
      let bra ← vec; let ket ← vec
      return (inner bra ket).toStr
  | "embedsign" => do
      let norb ← nat; let a ← nat; let b ← nat
      return toString (b2n (embedSign norb a b))
  -- Model: bit helpers (Python forms)
  | "count_bits" => do let s ← nat; return toString (countBits s)
  | "count_above" => do let s ← nat; let p ← nat; return toString (countBitsAbove s p)
  | "count_below" => do let s ← nat; let p ← nat; return toString (countBitsBelow s p)
  | "count_between" => do let s ← nat; let p ← nat; let q ← nat; return toString (countBitsBetween s p q)
  | "occupation" => do let s ← nat; return showNats (integerIndex s)
  | "set_bit" => do let s ← nat; let p ← nat; return toString (setBit s p)
  | "unset_bit" => do let s ← nat; let p ← nat; return toString (unsetBit s p)
  | "get_bit" => do let s ← nat; let p ← nat; return toString (getBit s p)
  -- Model: strings and addressing
  | "gen_py" => do let norb ← nat; let nele ← nat; return showNats (subsetsAsc norb nele)
  | "gen_c" => do let norb ← nat; let nele ← nat; return showNats (stringsC norb nele)
  | "strings" => do let norb ← nat; let nele ← nat; return showNats (stringTable norb nele)
  | "strings_lex" => do let norb ← nat; let nele ← nat; return showNats (subsetsLex norb nele)
  | "zmatrix" => do
      let norb ← nat; let nele ← nat
      return showInts (zMatrix norb nele).flatten
  | "address" => do
      let norb ← nat; let nele ← nat; let s ← nat
      return toString (addressOf norb nele s)
  -- Model: maps.  `<norb> <nele> <i> <j>` -> triples (source string, target string, parity)
  | "mapping" => do
      let norb ← nat; let nele ← nat; let i ← nat; let j ← nat
      let l := buildMapping (stringTable norb nele) i j
      return showTriples (l.map (fun (s, t, p) => (s, t, b2n p)))
  -- all maps of one graph side in one answer: for i, j in order: `<n> triples`
  | "mapping_all" => do
      let norb ← nat; let nele ← nat
      let st := stringTable norb nele
      let parts := (List.range norb).flatMap fun i => (List.range norb).map fun j =>
        showTriples ((buildMapping st i j).map (fun (s, t, p) => (s, t, b2n p)))
      return " ".intercalate parts
  | "deexc" => do
      let norb ← nat; let nele ← nat
      let rows := mapToDeexc norb (stringTable norb nele)
      return " ".intercalate (rows.map fun r => showTriples (r.map (fun (s, idx, p) => (s, idx, b2n p))))
  | "mapeach_py" => do
      let norb ← nat; let nele ← nat; let dag ← natList; let undag ← natList
      return showTriples (makeMappingEachPy (stringTable norb nele) dag undag)
  | "mapeach_c" => do
      let norb ← nat; let nele ← nat; let dag ← natList; let undag ← natList
      return showTriples (makeMappingEachC (stringTable norb nele) dag undag)
  | "mapset" => do
      let norb ← nat; let nele ← nat; let dn ← nat
      let l := makeMappingEachSet norb dn (stringTable norb nele)
      return " ".intercalate (l.map fun (mask, es) => s!"{mask} " ++ showTriples es)
  -- Model: qubit export.  `<norb> vec` -> `<n> {index re im}` sorted by index
  | "tocirq" => do
      let norb ← nat; let v ← vec
      let l := v.toList.map (fun ((a, b), c) => (cirqIndex norb a b, GQ.signed (cirqSign norb a b) c))
      let l := (l.toArray.qsort (fun x y => x.1 < y.1)).toList
      return " ".intercalate (toString l.length :: l.map (fun (i, c) => s!"{i} {c.toStr}"))
  -- export under a linear binary code: `<norb> <2norb column masks> vec`
  | "tocirq_code" => do
      let norb ← nat
      let cols ← many (2 * norb) nat
      let v ← vec
      let l := v.toList.map (fun ((a, b), c) => (cirqIndexCode norb cols a b, GQ.signed (cirqSign norb a b) c))
      let l := (l.toArray.qsort (fun x y => x.1 < y.1)).toList
      return " ".intercalate (toString l.length :: l.map (fun (i, c) => s!"{i} {c.toStr}"))
  | "cirqindex" => do
      let norb ← nat; let a ← nat; let b ← nat
      return s!"{cirqIndex norb a b} {b2n (cirqSign norb a b)} {b2n (embedSign norb a b)}"
  -- vector arithmetic on explicit vectors (exact)
  | "vaxpy" => do
      let s ← gq; let x ← vec; let y ← vec
      return showVec (x.fold (fun acc k c => acc.addTo k (s * c)) y)
  | "vdot" => do
      let x ← vec; let y ← vec
      return (x.fold (fun acc k c => match y[k]? with
        | none => acc
        | some d => acc + c * d) (0 : GQ)).toStr
  | "vmaxnormsq" => do
      let x ← vec
      let m := x.fold (fun (acc : Rat) _ c => if acc < c.normSq then c.normSq else acc) 0
      return GQ.ratToString m
  -- Model: sector bookkeeping
  | "alphabeta" => do
      let nele ← int; let ms ← int; let norb ← int
      match alphaBeta nele ms norb with
      | none => return "raise"
      | some (na, nb) => return s!"{na} {nb}"
  | "fixedn" => do
      let nele ← int; let norb ← int
      let l := fixedNSectors nele norb
      return " ".intercalate (toString l.length :: l.map (fun (n, s) => s!"{n} {s}"))
  | "fixedsz" => do
      let sz ← int; let norb ← int
      let l := fixedSzSectors sz norb
      return " ".intercalate (toString l.length :: l.map (fun (n, s) => s!"{n} {s}"))
  | "trsign" => do
      let na ← nat; let nb ← nat
      return toString (b2n (timeRevSign na nb))
  | "binom" => do
      let n ← nat; let k ← nat
      return toString (binom n k)
  | "rdm" => do
      let norb ← nat; let mode ← nat; let bra ← vec; let ket ← vec
      let groups ← natList
      let n ← nat
      let pat ← many n (do let l ← nat; let d ← nat; return (l, d != 0))
      let t := rdmSpec norb mode bra ket groups pat
      return " ".intercalate (toString t.length :: t.map GQ.toStr)
  -- selected elements only: as `rdm`, followed by `<k>` and k index tuples (one index per letter)
  | "rdmel" => do
      let norb ← nat; let mode ← nat; let bra ← vec; let ket ← vec
      let groups ← natList
      let n ← nat
      let pat ← many n (do let l ← nat; let d ← nat; return (l, d != 0))
      let k ← nat
      let idxs ← many k (many groups.length nat)
      let t := rdmSpecAt norb mode bra ket groups pat idxs
      return " ".intercalate (toString t.length :: t.map GQ.toStr)
  -- Model: normal form of the Wick driver (spin-orbital requests).  `<n> (label dag)*n` ->
  -- `<k>` then per entry `neg nd (x y)*nd nops (label dag)*nops`
  | "wicknf" => do
      let n ← nat
      let pat ← many n (do let l ← nat; let d ← nat; return (l, d != 0))
      let items := wickNormalForm pat
      let showItem := fun (it : WItem) =>
        s!"{b2n it.neg} {it.deltas.length} " ++ " ".intercalate (it.deltas.map (fun d => s!"{d.1} {d.2}")) ++
        s!" {it.ops.length} " ++ " ".intercalate (it.ops.map (fun o => s!"{o.1} {b2n o.2}"))
      return s!"{items.length} " ++ " ".intercalate (items.map showItem)
  -- spin-free variant: per entry `neg twos nd (x y)*nd nops (label dag slot)*nops`
  | "wicknfsf" => do
      let n ← nat
      let pat ← many n (do let l ← nat; let d ← nat; return (l, d != 0))
      let items := wickNormalFormSF pat
      let showItem := fun (it : WItemSF) =>
        s!"{b2n it.neg} {it.twos} {it.deltas.length} " ++ " ".intercalate (it.deltas.map (fun d => s!"{d.1} {d.2}")) ++
        s!" {it.ops.length} " ++ " ".intercalate (it.ops.map (fun o => s!"{o.1} {b2n o.2.1} {o.2.2}"))
      return s!"{items.length} " ++ " ".intercalate (items.map showItem)
  -- Model: reverse_bubble_list on a list of keys: `<n> keys` -> `<swaps> <n> sorted keys`
  | "bubble" => do
      let l ← natList
      let (sorted, swaps) := bubbleDesc (fun (k : Nat) => k) l.length l
      return s!"{swaps} " ++ showNats sorted
  -- Model: time_evolve route and in-place refusal: `<sparse> <individual> <quadratic> <diagonal> <diagcoulomb>`
  | "route" => do
      let a ← nat; let b ← nat; let c ← nat; let d ← nat; let e ← nat
      let h : HamInfo := ⟨a != 0, b != 0, c != 0, d != 0, e != 0⟩
      let r := match route h with
        | .individual => "individual" | .diagonal => "diagonal" | .quadratic => "quadratic"
        | .diagCoulomb => "diagcoulomb" | .taylor => "taylor"
      return s!"{r} {b2n (inplaceRefused h)} {(sitesTimeEvolve h).length}"
  -- Model: series loop control flow.  `<taylor|chebyshev> <expansion> <n> b_0 .. b_{n-1}` (b_k = break test at order k)
  | "seriesloop" => do
      let algo ← tok; let expansion ← nat; let bs ← natList
      let test := fun k => bs.getD k 0 != 0
      let r := if algo == "taylor" then taylorLoop test expansion else chebyshevLoop test expansion
      match r with
      | none => return "raise"
      | some k => return toString k
  -- Model: guards.  answers `ok` / `TypeError` / `ValueError` / `AssertionError`
  | "admit_apply" => do
      let wN ← nat; let hN ← nat; let cls ← tok; let dim ← nat; let norb ← nat
      let c ← match cls with
        | "sparse" => pure HamClass.sparse | "diagonal" => pure HamClass.diagonal
        | "diagcoulomb" => pure HamClass.diagCoulomb | "restricted" => pure HamClass.restricted
        | "spinorbital" => pure HamClass.spinOrbital | _ => throw "bad class"
      return showRefusal (admitApply (wN != 0) (hN != 0) c dim norb)
  | "admit_axpy" => do let s ← nat; return showRefusal (admitAxpy (s != 0))
  | "admit_ctor" => do
      let a ← nat; let b ← nat; let c ← nat; let d ← nat
      return showRefusal (admitCtor (a != 0) (b != 0) (c != 0) (d != 0))
  | "admit_unitary" => do
      let a ← nat; let b ← nat; let c ← nat; let d ← nat
      return showRefusal (admitGeneratedUnitary (a != 0) (b != 0) (c != 0) (d != 0))
  | "admit_opidx" => do
      let norb ← nat; let idxs ← natList
      return showRefusal (admitOpIndices norb idxs)
  -- `admit_pattern <spinfree> <n> (label dag shaped)*n`
  | "admit_pattern" => do
      let sf ← nat; let n ← nat
      let toks ← many n (do let l ← nat; let d ← nat; let s ← nat; return (⟨l, d != 0, s != 0⟩ : Tok))
      return showRefusal (admitPattern (sf != 0) toks)
  -- Spec: many-body image of a one-body matrix.  `<norb> vec <(2norb)^2 entries re im, row-major, mode indexing>`
  | "gamma" => do
      let norb ← nat; let v ← vec
      let n := 2 * norb
      let flat ← many (n * n) gq
      let M := (List.range n).map (fun i => (List.range n).map (fun j => flat.getD (i * n + j) 0))
      return showVec (gammaFqe norb M v)
  | _ => throw s!"unknown command {name}"

def handle (line : String) : String :=
  let toks := (line.splitOn " ").filter (· ≠ "") |>.toArray
  if toks.size == 0 then "error empty" else
  match (do let c ← tok; cmd c : P String).run { toks := toks, pos := 0 } with
  | .ok (s, st) => if st.pos == toks.size then s else "error trailing tokens"
  | .error e => "error " ++ e

partial def loop (hin hout : IO.FS.Stream) : IO Unit := do
  let line ← hin.getLine
  if line.isEmpty then return ()
  let l := (line.replace "\n" "").replace "\r" ""
  hout.putStrLn (handle l)
  hout.flush
  loop hin hout

end Driver
