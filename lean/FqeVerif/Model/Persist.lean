/-
  Model/Persist.lean — `Wavefunction.save` / `read`: where the file goes, and an abstract
  deterministic stream reader (the law assumed of `pickle.load`).
-/
namespace Model

/-- directory used by `save`/`read`: the caller's `path`, else the current directory *at the call* -/
def resolveDir (path : Option String) (cwdAtImport cwdAtCall : String) : String :=
  match path with
  | some p => p
  | none => cwdAtCall

/-- one step of a deterministic reader -/
inductive Step (S : Type) where
  | cont (s : S)   -- needs more input
  | done           -- object complete (pickle: STOP opcode consumed)
  | err            -- malformed input
deriving Repr

/-- run a reader over a byte list: `some k` = finished successfully after consuming exactly `k` bytes;
    `none` = malformed input or end of input before completion (pickle raises in both cases) -/
def runReader {S B : Type} (step : S → B → Step S) : S → List B → Option Nat
  | _, [] => none
  | s, b :: rest =>
    match step s b with
    | .done => some 1
    | .err => none
    | .cont s' => (runReader step s' rest).map (· + 1)

/-- `read`: load first, assign afterwards; a failed load leaves the receiver as it was -/
def readInto {W D : Type} (load : Option D) (assign : W → D → W) (w : W) : W × Bool :=
  match load with
  | none => (w, false)
  | some d => (assign w d, true)

end Model
