/-
  Model/Hamil.lean — pieces of the operator → Hamiltonian "compiler":
  `reverse_bubble_list` (sorting operator factors while counting adjacent swaps), used by
  `gather_nbody_spin_sectors` (sparse route) and `fermionops_tomatrix` (dense route).
-/
import FqeVerif.Spec.Fock
namespace Model
open Fock

/-- one pass of `reverse_bubble_list`, carrying the element currently being bubbled: adjacent swap
    whenever `key a < key b`; returns the new list and the number of swaps of this pass -/
def bubbleGo {α : Type} (key : α → Nat) : α → List α → List α × Nat
  | a, [] => ([a], 0)
  | a, b :: rest =>
    if key a < key b then
      let r := bubbleGo key a rest
      (b :: r.1, r.2 + 1)
    else
      let r := bubbleGo key b rest
      (a :: r.1, r.2)

def bubblePass {α : Type} (key : α → Nat) : List α → List α × Nat
  | [] => ([], 0)
  | a :: rest => bubbleGo key a rest

/-- `reverse_bubble_list`: repeat passes (at most `fuel` of them, the source uses `len(arr)`),
    stopping when a pass does not swap; returns the sorted list and the total swap count -/
def bubbleDesc {α : Type} (key : α → Nat) : Nat → List α → List α × Nat
  | 0, l => (l, 0)
  | fuel+1, l =>
    let (l', n) := bubblePass key l
    if n = 0 then (l', 0) else
    let (l'', m) := bubbleDesc key fuel l'
    (l'', n + m)

end Model
