/-
  Model/Maps.lean — excitation tables (`FciGraph._build_mapping`, `map_to_deexc`,
  `make_mapping_each`, `FciGraphSet.make_mapping_each_set`, `_map_to_deexc_alpha_icol`).
  Entries carry *strings*, the harness converts addresses through the string table
  (whose own correctness is the subject of the addressing theorems).
-/
import FqeVerif.Model.Strings
namespace Model

/-- one map entry of `_build_mapping` for string `s`, excitation `i <- j`:
    `(source string, target string, parity)`, parity `true` = sign `-1` -/
def mappingEntry (i j s : Nat) : Option (Nat × Nat × Bool) :=
  if getBit s j ≠ 0 ∧ getBit s i = 0 then
    some (s, unsetBit (setBit s i) j, countBitsBetween s i j % 2 = 1)
  else if i = j ∧ getBit s i ≠ 0 then some (s, s, false)
  else none

/-- `_build_mapping[(i,j)]` over a string table, in table order -/
def buildMapping (strings : List Nat) (i j : Nat) : List (Nat × Nat × Bool) :=
  strings.filterMap (mappingEntry i j)

/-- `make_mapping_each`, Python masks: a creator index is put in `dag_mask` only if it is not
    also an annihilator index -/
def dagMaskPy (dag undag : List Nat) : Nat :=
  dag.foldl (fun m i => if undag.contains i then m else setBit m i) 0

/-- `make_mapping_each`, C masks: all creator bits set, then annihilator bits cleared -/
def dagMaskC (dag undag : List Nat) : Nat :=
  undag.foldl unsetBit (dag.foldl setBit 0)

def undagMask (undag : List Nat) : Nat := undag.foldl setBit 0

/-- the inner loops of `make_mapping_each` for one admitted string: `(target, parity count)` -/
def mapEachStep (dag undag : List Nat) (s : Nat) : Nat × Nat :=
  let (cur, par) := undag.reverse.foldl
      (fun (cp : Nat × Nat) i => (unsetBit cp.1 i, cp.2 + countBitsAbove cp.1 i)) (s, 0)
  dag.reverse.foldl (fun (cp : Nat × Nat) i => (setBit cp.1 i, cp.2 + countBitsAbove cp.1 i)) (cur, par)

/-- `make_mapping_each`: `(index in table, target string, parity % 2)` -/
def makeMappingEach (dagMask : Nat) (strings : List Nat) (dag undag : List Nat) :
    List (Nat × Nat × Nat) :=
  let um := undagMask undag
  (List.zip (List.range strings.length) strings).filterMap fun (idx, cur) =>
    if (cur &&& dagMask) = 0 ∧ ((cur &&& um) ^^^ um) = 0 then
      let (t, p) := mapEachStep dag undag cur
      some (idx, t, p % 2)
    else none

def makeMappingEachPy (strings dag undag : List Nat) := makeMappingEach (dagMaskPy dag undag) strings dag undag
def makeMappingEachC (strings dag undag : List Nat) := makeMappingEach (dagMaskC dag undag) strings dag undag

/-- `make_mapping_each_set`, one annihilation mask: `(source, target, parity count)` -/
def mapSetEntry (ops : List Nat) (source : Nat) : Nat × Nat × Nat :=
  let n := ops.length
  let last := ops.getD (n - 1) 0
  let init : Nat × Nat := (unsetBit source last, countBitsAbove source last * n)
  let (t, p) := (List.range (n - 1)).reverse.foldl
    (fun (tp : Nat × Nat) iop =>
      (unsetBit tp.1 (ops.getD iop 0),
       tp.2 + (iop + 1) * countBitsBetween source (ops.getD iop 0) (ops.getD (iop + 1) 0))) init
  (source, t, p)

/-- `make_mapping_each_set`: for every `dn`-subset (numeric order) the list over admitted sources -/
def makeMappingEachSet (norb dn : Nat) (strings : List Nat) : List (Nat × List (Nat × Nat × Nat)) :=
  (subsetsAsc norb dn).map fun mask =>
    (mask, (strings.filter (fun s => ((s &&& mask) ^^^ mask) = 0)).map (mapSetEntry (integerIndex mask)))

/-- `map_to_deexc`: for each target (address order) the entries `(source, i*norb+j, parity)` in the
    order maps are visited (`i` outer, `j` inner, entries in table order) -/
def mapToDeexc (norb : Nat) (strings : List Nat) : List (List (Nat × Nat × Bool)) :=
  let all : List (Nat × Nat × Nat × Bool) :=
    (List.range norb).flatMap fun i => (List.range norb).flatMap fun j =>
      (buildMapping strings i j).map fun (s, t, p) => (t, s, i * norb + j, p)
  strings.map fun t => (all.filter (fun e => e.1 = t)).map (fun e => e.2)

end Model
