/-
  Model/Sectors.lean — sector bookkeeping (`alpha_beta_electrons`, `validate_config`,
  `get_number_conserving_wavefunction`, `get_spin_conserving_wavefunction`) and the time-reversal
  phase of `TimeReversalOp.contract`.
-/
namespace Model

/-- `alpha_beta_electrons` followed by `FqeData.__init__`/`validate_config`: `none` = raises -/
def alphaBeta (nele ms : Int) (norb : Int) : Option (Nat × Nat) :=
  if nele < 0 then none
  else if nele < ms.natAbs then none
  else if (nele + ms) % 2 ≠ 0 then none
  else
    let na := (nele + ms) / 2
    let nb := nele - na
    if na < 0 ∨ nb < 0 ∨ norb < 0 ∨ norb < na ∨ norb < nb then none
    else some (na.toNat, nb.toNat)

/-- sector keys `(nele, m_s)` of `get_number_conserving_wavefunction(nele, norb)` -/
def fixedNSectors (nele norb : Int) : List (Int × Int) :=
  let maxb := min norb nele
  let minb := nele - maxb
  if maxb < minb then [] else
  (List.range (maxb - minb + 1).toNat).map (fun (k : Nat) => (nele, nele - (minb + (k : Int)) * 2))

/-- sector keys of `get_spin_conserving_wavefunction(s_z, norb)` -/
def fixedSzSectors (sz norb : Int) : List (Int × Int) :=
  let lo : Int := if sz ≥ 0 then sz else 0
  let hi : Int := if sz ≥ 0 then norb + 1 else norb + sz + 1
  if hi ≤ lo then [] else
  (List.range (hi - lo).toNat).map (fun (k : Nat) => (2 * (lo + (k : Int)) - sz, sz))

/-- sign of `T |a;b⟩ = ± |b;a⟩` for a determinant with `(na, nb)` electrons: `(-1)^(nb (na+1))` -/
def timeRevSign (na nb : Nat) : Bool := (nb * (na + 1)) % 2 = 1

end Model
