/-
  Model/Pool.lean — the abstract object-pool machine for C11: a pool of values addressed by ids and
  operations that are either *pure* (read some objects, create a new one) or *in place* (overwrite
  exactly the named target).  What each operation computes is a parameter (`f`), supplied by the
  pure functions of the other models.
-/
namespace Model

abbrev Pool (V : Type) := List V     -- object id = index

inductive PoolOp (V : Type) where
  /-- out-of-place: evaluate `f` on the values of `args`, store the result as a new object -/
  | pure (args : List Nat) (f : List V → V)
  /-- in place: overwrite object `target` by `f` of the values of `target :: args` -/
  | inplace (target : Nat) (args : List Nat) (f : List V → V)

variable {V : Type}

def readArgs (p : Pool V) (args : List Nat) : Option (List V) := args.mapM (fun i => p[i]?)

/-- one step: the new pool and the value produced (`none` = a named object does not exist: refused,
    pool unchanged) -/
def poolStep (p : Pool V) : PoolOp V → Pool V × Option V
  | .pure args f =>
    match readArgs p args with
    | none => (p, none)
    | some vs => let r := f vs; (p ++ [r], some r)
  | .inplace t args f =>
    match readArgs p (t :: args) with
    | none => (p, none)
    | some vs => let r := f vs; (p.set t r, some r)

def poolRun (p : Pool V) (ops : List (PoolOp V)) : Pool V := ops.foldl (fun q o => (poolStep q o).1) p

end Model
