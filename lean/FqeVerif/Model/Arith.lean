/-
  Model/Arith.lean — wavefunction arithmetic (`Wavefunction.ax_plus_y/scale/__add__/__sub__/
  __getitem__/__setitem__/max_element`, `fqe.dot/vdot`) as operations on the coefficient vector.
  Generic in the scalar; the driver instantiates it with exact Gaussian rationals.
-/
namespace Model

/-- a wavefunction: its determinant list (sector keys in order, then addresses) and one coefficient
    per determinant -/
structure Wfn (R : Type) where
  dets : List (Nat × Nat)
  coeff : List R

variable {R : Type}

/-- `ax_plus_y`: refused unless both operands have the same sector set (here: same determinant list) -/
def axpy [Add R] [Mul R] (s : R) (x y : Wfn R) : Option (Wfn R) :=
  if x.dets = y.dets then some ⟨y.dets, List.zipWith (fun a b => s * a + b) x.coeff y.coeff⟩ else none

def scale [Mul R] (s : R) (x : Wfn R) : Wfn R := ⟨x.dets, x.coeff.map (fun a => s * a)⟩

/-- `__getitem__`: coefficient of determinant `k` (`none` = KeyError) -/
def getItem (x : Wfn R) (k : Nat × Nat) : Option R :=
  match x.dets.idxOf? k with
  | none => none
  | some i => x.coeff[i]?

/-- `__setitem__` -/
def setItem (x : Wfn R) (k : Nat × Nat) (v : R) : Option (Wfn R) :=
  match x.dets.idxOf? k with
  | none => none
  | some i => if i < x.coeff.length then some ⟨x.dets, x.coeff.set i v⟩ else none

/-- `fqe.dot` (no conjugation) over a common determinant list -/
def dot [Add R] [Mul R] [Zero R] (x y : Wfn R) : R :=
  (List.zipWith (fun a b => a * b) x.coeff y.coeff).foldl (· + ·) 0

/-- an element maximising the measure `f` (first one among equals); `none` for the empty list -/
def argmaxBy (f : R → Nat) : List R → Option R
  | [] => none
  | a :: l => match argmaxBy f l with
    | none => some a
    | some b => if f b ≤ f a then some a else some b

end Model
