/-
  Model/Evolve.lean — decision logic of `Wavefunction.time_evolve` / `apply_generated_unitary`:
  which route is taken, and at which sites the scalar part `e_0` of the Hamiltonian enters.
-/
namespace Model

/-- what `time_evolve` looks at -/
structure HamInfo where
  sparse : Bool          -- isinstance(hamil, SparseHamiltonian)
  individual : Bool      -- hamil.is_individual()
  quadratic : Bool
  diagonal : Bool
  diagCoulomb : Bool
deriving DecidableEq, Repr

inductive Route where
  | individual | diagonal | quadratic | diagCoulomb | taylor
deriving DecidableEq, Repr

/-- the cascade of `time_evolve` -/
def route (h : HamInfo) : Route :=
  if h.sparse && h.individual then .individual
  else if h.quadratic then (if h.diagonal then .diagonal else .quadratic)
  else if h.diagCoulomb then .diagCoulomb
  else .taylor

/-- `inplace=True` is refused exactly here -/
def inplaceRefused (h : HamInfo) : Bool :=
  !(h.sparse && h.individual) && !((h.quadratic && h.diagonal) || h.diagCoulomb) && !h.quadratic

/-- places where a factor `exp(-i t e_0)` (or an `e_0 ψ` inside the series) can enter -/
inductive Site where
  | timeEvolveTail          -- `final_wfn.scale(exp(-i t e_0))` at the end of time_evolve
  | generatedUnitaryTail    -- the same at the end of apply_generated_unitary (Taylor)
  | insideSeries            -- `e_0 ψ` added by `apply` of the propagation data at every order
  | insideChebyshev         -- the Chebyshev recurrence applies the full Hamiltonian
deriving DecidableEq, Repr

inductive Algo where
  | taylor | chebyshev
deriving DecidableEq, Repr

/-- scalar carried by the propagation data `iht(t)`: dense classes return bare tensors; the sparse
    class returns a copy whose `e_0` is reset -/
def ihtCarriesScalar (_sparse : Bool) : Bool := false

/-- sites at which the scalar enters in `apply_generated_unitary` -/
def sitesGeneratedUnitary (algo : Algo) (sparse : Bool) : List Site :=
  match algo with
  | .taylor => (if ihtCarriesScalar sparse then [Site.insideSeries] else []) ++ [Site.generatedUnitaryTail]
  | .chebyshev => [Site.insideChebyshev]

/-- sites at which the scalar enters in `time_evolve` -/
def sitesTimeEvolve (h : HamInfo) : List Site :=
  match route h with
  | .taylor => sitesGeneratedUnitary .taylor h.sparse      -- delegated; the tail is skipped
  | _ => [Site.timeEvolveTail]

/-- one step of the closed-form single-term evolution on a pair (source amplitude `x`, target amplitude `y`)
    of determinants connected by the operator string: `c = cos(t|λ|)`, `s = sin(t|λ|)`,
    `u = λ̂·sign`, `v = conj(λ̂)·sign`, `i` the imaginary unit -/
def pairStep {R : Type} [Add R] [Mul R] [Sub R] (i c s u v : R) (xy : R × R) : R × R :=
  (c * xy.1 - i * s * v * xy.2, c * xy.2 - i * s * u * xy.1)

end Model
