/-
  Model/Algo.lean — control flow of the polynomial propagators of `apply_generated_unitary`
  (`for order in range(lo, expansion): ...; if test: break` / `else: raise RuntimeError`).
-/
namespace Model

/-- the loop over `order ∈ [lo, expansion)`: `some k` = broke at order `k` (the state accumulated up to
    and including order `k` is returned); `none` = the range was exhausted, `RuntimeError` is raised.
    `test k` is the break condition `‖term_k‖ · |coeff_k| < accuracy` evaluated at order `k`. -/
def seriesLoop (test : Nat → Bool) (lo : Nat) : Nat → Option Nat
  | 0 => none
  | n+1 => if test lo then some lo else seriesLoop test (lo + 1) n

/-- Taylor: orders `1 .. expansion-1` -/
def taylorLoop (test : Nat → Bool) (expansion : Nat) : Option Nat := seriesLoop test 1 (expansion - 1)
/-- the Chebyshev loop breaks only when the current *and* the previous term passed the test
    (`previous_small`), because single Chebyshev terms can vanish by parity -/
def chebLoop (test : Nat → Bool) (lo : Nat) (prev : Bool) : Nat → Option Nat
  | 0 => none
  | n+1 => if test lo && prev then some lo else chebLoop test (lo + 1) (test lo) n

/-- Chebyshev: orders `2 .. expansion-1` -/
def chebyshevLoop (test : Nat → Bool) (expansion : Nat) : Option Nat := chebLoop test 2 false (expansion - 2)

/-- Davidson–Liu outer loop (`davidsonliu`, `davidsonliu_fqe`): iteration `k` works in a subspace of
    `size0 + k * nroots` vectors; the loop runs while that size is at most `limit`; it returns at the first
    iteration whose Ritz values moved by less than epsilon (`conv k`); the comparison value before the
    first iteration is `inf`, so iteration 0 never converges.  `none` = ConvergenceError (or, for the
    FQE variant, falling out of the loop). -/
def davidsonLoop (conv : Nat → Bool) (size0 nroots limit : Nat) : Nat → Nat → Option Nat
  | 0, _ => none
  | fuel+1, k =>
    if size0 + k * nroots ≤ limit then
      (if k ≠ 0 ∧ conv k then some k else davidsonLoop conv size0 nroots limit fuel (k + 1))
    else none

end Model
