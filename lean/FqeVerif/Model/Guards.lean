/-
  Model/Guards.lean — the guards of the public entry points, transcribed as decision functions:
  which requests are refused, and with which kind of exception.
-/
namespace Model

inductive Refusal where
  | typeError | valueError | assertionError
deriving DecidableEq, Repr

inductive HamClass where
  | sparse | diagonal | diagCoulomb | restricted | spinOrbital   -- spinOrbital: GSO / SSO / General
deriving DecidableEq, Repr

/-- `Wavefunction.apply(hamil)`: conservation flags first, then (dense classes only) the dimension -/
def admitApply (wfnConservesNumber hamConservesNumber : Bool) (cls : HamClass) (dim norb : Nat) :
    Option Refusal :=
  if wfnConservesNumber ≠ hamConservesNumber then some .typeError
  else match cls with
    | .sparse => none
    | .diagonal => if dim = norb ∨ dim = 2 * norb then none else some .valueError
    | .diagCoulomb => none
    | .restricted => if dim = norb then none else some .valueError
    | .spinOrbital => if dim = 2 * norb then none else some .valueError

/-- `ax_plus_y`: sector sets must coincide -/
def admitAxpy (sameSectorSet : Bool) : Option Refusal := if sameSectorSet then none else some .valueError

/-- `Wavefunction(param, broken)` -/
def admitCtor (brokenSpin brokenNumber : Bool) (norbsConsistent : Bool) (allSectorsPossible : Bool) :
    Option Refusal :=
  if brokenSpin && brokenNumber then some .typeError
  else if !norbsConsistent then some .valueError
  else if !allSectorsPossible then some .valueError
  else none

/-- `apply_generated_unitary(time, algo, hamil, accuracy, expansion, spec_lim)` argument guards -/
def admitGeneratedUnitary (expansionIsInt : Bool) (algoKnown : Bool) (isChebyshev : Bool) (specLimGiven : Bool) :
    Option Refusal :=
  if !expansionIsInt then some .typeError
  else if !algoKnown then some .assertionError
  else if isChebyshev && !specLimGiven then some .assertionError
  else none

/-- `openfermion_utils.largest_operator_index`: largest even and largest odd mode index, `-1` when absent -/
def largestIndex (idxs : List Nat) : Int × Int :=
  idxs.foldl (fun (acc : Int × Int) (i : Nat) => if i % 2 = 1 then (acc.1, max (i : Int) acc.2) else (max (i : Int) acc.1, acc.2)) (-1, -1)

/-- the orbital-range guard of `fqe_decorators.fermionops_tomatrix` (Python `//` is floor division) -/
def admitOpIndices (norb : Nat) (idxs : List Nat) : Option Refusal :=
  let m := largestIndex idxs
  if (norb : Int) ≤ m.1 / 2 then some .valueError
  else if (norb : Int) ≤ m.2 / 2 then some .valueError
  else none

/-- one whitespace-separated token of an RDM pattern: its label, whether it carries `^`, and whether it has one
    of the two accepted shapes (`x` or `x^`) -/
structure Tok where
  label : Nat
  dag : Bool
  shaped : Bool
deriving Repr

/-- spin slot of the token at position `idx` (`index % nrank` for spin-free requests) -/
def spinSlot (spinfree : Bool) (nrank idx : Nat) : Nat := if spinfree then idx % nrank else 0

/-- the loop of `wick.process_string`; `out` holds `(label, dagger, spin slot)` of the tokens already accepted -/
def patternGo (spinfree : Bool) (nrank : Nat) : Nat → List (Nat × Bool × Nat) → List Tok → Option Refusal
  | _, _, [] => none
  | idx, out, t :: ts =>
    if !t.shaped then some .valueError
    else if out.any (fun o => o.1 == t.label) then some .assertionError
    else if spinfree && out.any (fun o => o.2.2 == spinSlot spinfree nrank idx && o.2.1 == t.dag) then some .valueError
    else patternGo spinfree nrank (idx + 1) (out ++ [(t.label, t.dag, spinSlot spinfree nrank idx)]) ts

/-- `wick.process_string(target)` -/
def admitPattern (spinfree : Bool) (toks : List Tok) : Option Refusal :=
  if toks.length % 2 = 1 then some .assertionError
  else patternGo spinfree (toks.length / 2) 0 [] toks

end Model
