/-
  Model/Guards.lean — the guards of the public entry points, transcribed as decision functions:
  which requests are refused, and with which kind of exception.
-/
namespace Model

inductive Refusal where
  | typeError | valueError | assertionError
deriving DecidableEq, Repr

inductive HamClass where
  | sparse | diagonal | diagCoulomb | restricted | spinOrbital   -- spinOrbital: GSO / SSO / General
deriving DecidableEq, Repr

/-- `Wavefunction.apply(hamil)`: conservation flags first, then (dense classes only) the dimension -/
def admitApply (wfnConservesNumber hamConservesNumber : Bool) (cls : HamClass) (dim norb : Nat) :
    Option Refusal :=
  if wfnConservesNumber ≠ hamConservesNumber then some .typeError
  else match cls with
    | .sparse => none
    | .diagonal => if dim = norb ∨ dim = 2 * norb then none else some .valueError
    | .diagCoulomb => none
    | .restricted => if dim = norb then none else some .valueError
    | .spinOrbital => if dim = 2 * norb then none else some .valueError

/-- `ax_plus_y`: sector sets must coincide -/
def admitAxpy (sameSectorSet : Bool) : Option Refusal := if sameSectorSet then none else some .valueError

/-- `Wavefunction(param, broken)` -/
def admitCtor (brokenSpin brokenNumber : Bool) (norbsConsistent : Bool) (allSectorsPossible : Bool) :
    Option Refusal :=
  if brokenSpin && brokenNumber then some .typeError
  else if !norbsConsistent then some .valueError
  else if !allSectorsPossible then some .valueError
  else none

/-- `apply_generated_unitary(time, algo, hamil, accuracy, expansion, spec_lim)` argument guards -/
def admitGeneratedUnitary (expansionIsInt : Bool) (algoKnown : Bool) (isChebyshev : Bool) (specLimGiven : Bool) :
    Option Refusal :=
  if !expansionIsInt then some .typeError
  else if !algoKnown then some .assertionError
  else if isChebyshev && !specLimGiven then some .assertionError
  else none

end Model
