/-
  Model/Wick.lean — the rewriting driver of `fqe.wick.wick` for spin-orbital requests (`spinfree = False`):
  a work list of `(Kronecker deltas, remaining operators, sign)`; one pass rewrites, in every entry, the first
  undaggered operator that is immediately followed by a daggered one:
      a_x a†_y  =  − a†_y a_x  +  δ_xy
  and the passes are repeated until no entry changes.  Operators carry labels (positions of the letters in the
  requested pattern); the tensors are filled afterwards by letting the labels range over the orbitals.
-/
namespace Model

structure WItem where
  deltas : List (Nat × Nat)
  ops : List (Nat × Bool)
  neg : Bool
deriving Repr, DecidableEq

/-- the first adjacent pair (undaggered, daggered): `(operators before, x, y, operators after)` -/
def splitPair : List (Nat × Bool) → Option (List (Nat × Bool) × Nat × Nat × List (Nat × Bool))
  | [] => none
  | [_] => none
  | (x, dx) :: (y, dy) :: post =>
    if dx = false ∧ dy = true then some ([], x, y, post)
    else (splitPair ((y, dy) :: post)).map (fun r => ((x, dx) :: r.1, r.2.1, r.2.2.1, r.2.2.2))

/-- one rewriting step on one entry: unchanged when normal ordered, otherwise the swapped entry (sign flipped)
    and the contracted entry (one more delta, two operators fewer) -/
def wstep (it : WItem) : List WItem :=
  match splitPair it.ops with
  | none => [it]
  | some (pre, x, y, post) =>
    [⟨it.deltas, pre ++ [(y, true), (x, false)] ++ post, !it.neg⟩,
     ⟨it.deltas ++ [(x, y)], pre ++ post, it.neg⟩]

/-- `process_one`: every entry once; the flag tells whether any entry was rewritten -/
def processOne (l : List WItem) : List WItem × Bool :=
  (l.flatMap wstep, l.any (fun it => (splitPair it.ops).isSome))

/-- `while processed: current, processed = process_one(current)` with fuel -/
def wnormalize : Nat → List WItem → List WItem
  | 0, l => l
  | fuel+1, l =>
    let r := processOne l
    if r.2 then wnormalize fuel r.1 else r.1

/-- the normal form of a pattern given as `(label, dagger)` list -/
def wickNormalForm (pattern : List (Nat × Bool)) : List WItem :=
  wnormalize (pattern.length * pattern.length + 1) [⟨[], pattern, false⟩]

end Model

/-! ### the spin-free variant (`spinfree = True`): operators also carry a spin slot (position mod rank); a contraction
    inside one slot doubles the factor, a contraction between two slots merges them; at the end creators and
    annihilators are bubble-sorted by slot, every swap flipping the sign.  Executable model, tied to the library by the
    correspondence run (`wicknfsf`); soundness: Lemmas/WickSF.lean. -/
namespace Model

structure WItemSF where
  deltas : List (Nat × Nat)
  ops : List (Nat × Bool × Nat)        -- (label, dagger, slot)
  neg : Bool
  twos : Nat                           -- factor = ± 2^twos
deriving Repr, DecidableEq

def splitPairSF : List (Nat × Bool × Nat) →
    Option (List (Nat × Bool × Nat) × (Nat × Bool × Nat) × (Nat × Bool × Nat) × List (Nat × Bool × Nat))
  | [] => none
  | [_] => none
  | x :: y :: post =>
    if x.2.1 = false ∧ y.2.1 = true then some ([], x, y, post)
    else (splitPairSF (y :: post)).map (fun r => (x :: r.1, r.2.1, r.2.2.1, r.2.2.2))

def wstepSF (it : WItemSF) : List WItemSF :=
  match splitPairSF it.ops with
  | none => [it]
  | some (pre, x, y, post) =>
    let rest := pre ++ post
    let contracted : WItemSF :=
      if y.2.2 = x.2.2 then ⟨it.deltas ++ [(x.1, y.1)], rest, it.neg, it.twos + 1⟩
      else ⟨it.deltas ++ [(x.1, y.1)],
            rest.map (fun o => if o.2.2 = y.2.2 then (o.1, o.2.1, x.2.2) else o), it.neg, it.twos⟩
    [⟨it.deltas, pre ++ [y, x] ++ post, !it.neg, it.twos⟩, contracted]

def wnormalizeSF : Nat → List WItemSF → List WItemSF
  | 0, l => l
  | fuel+1, l =>
    let out := l.flatMap wstepSF
    if l.any (fun it => (splitPairSF it.ops).isSome) then wnormalizeSF fuel out else out

/-- one left-to-right sweep `for j in 1 .. n-1: if slot[j-1] > slot[j]: swap` over a list, carrying the element that
    currently sits at position `j-1`; returns the new list and the parity of the number of swaps -/
def sweepCarry (c : Nat × Bool × Nat) : List (Nat × Bool × Nat) → List (Nat × Bool × Nat) × Bool
  | [] => ([c], false)
  | b :: t =>
    if c.2.2 > b.2.2 then
      let r := sweepCarry c t
      (b :: r.1, !r.2)
    else
      let r := sweepCarry b t
      (c :: r.1, r.2)

def sweep : List (Nat × Bool × Nat) → List (Nat × Bool × Nat) × Bool
  | [] => ([], false)
  | a :: t => sweepCarry a t

/-- `k` sweeps (a sweep over a sorted list changes nothing, so `length` sweeps reach the fixed point at which the
    library's `while processed` loop stops) -/
def sweeps : Nat → List (Nat × Bool × Nat) → List (Nat × Bool × Nat) × Bool
  | 0, l => (l, false)
  | k+1, l =>
    let r := sweep l
    let r2 := sweeps k r.1
    (r2.1, r.2 ^^ r2.2)

/-- the closing spin sort: the first half (creators) and the second half (annihilators) of the operators are each
    bubble-sorted by slot, every exchange flipping the sign (the library interleaves the two sweeps in one loop over
    `j`; the halves are disjoint, so the result is the same) -/
def finishSF (it : WItemSF) : WItemSF :=
  let n := it.ops.length / 2
  let c := sweeps n (it.ops.take n)
  let a := sweeps n (it.ops.drop n)
  ⟨it.deltas, c.1 ++ a.1, (it.neg ^^ c.2) ^^ a.2, it.twos⟩

/-- initial work-list entry of a spin-free request: slot = position mod rank -/
def initSF (pattern : List (Nat × Bool)) : WItemSF :=
  ⟨[], pattern.zipIdx.map (fun (o, i) => (o.1, o.2, if pattern.length / 2 = 0 then 0 else i % (pattern.length / 2))), false, 0⟩

/-- normal form of a spin-free pattern `(label, dagger)` -/
def wickNormalFormSF (pattern : List (Nat × Bool)) : List WItemSF :=
  (wnormalizeSF (pattern.length * pattern.length + 1) [initSF pattern]).map finishSF

end Model
