/-
  Model/Wick.lean — the rewriting driver of `fqe.wick.wick` for spin-orbital requests (`spinfree = False`):
  a work list of `(Kronecker deltas, remaining operators, sign)`; one pass rewrites, in every entry, the first
  undaggered operator that is immediately followed by a daggered one:
      a_x a†_y  =  − a†_y a_x  +  δ_xy
  and the passes are repeated until no entry changes.  Operators carry labels (positions of the letters in the
  requested pattern); the tensors are filled afterwards by letting the labels range over the orbitals.
-/
namespace Model

structure WItem where
  deltas : List (Nat × Nat)
  ops : List (Nat × Bool)
  neg : Bool
deriving Repr, DecidableEq

/-- the first adjacent pair (undaggered, daggered): `(operators before, x, y, operators after)` -/
def splitPair : List (Nat × Bool) → Option (List (Nat × Bool) × Nat × Nat × List (Nat × Bool))
  | [] => none
  | [_] => none
  | (x, dx) :: (y, dy) :: post =>
    if dx = false ∧ dy = true then some ([], x, y, post)
    else (splitPair ((y, dy) :: post)).map (fun r => ((x, dx) :: r.1, r.2.1, r.2.2.1, r.2.2.2))

/-- one rewriting step on one entry: unchanged when normal ordered, otherwise the swapped entry (sign flipped)
    and the contracted entry (one more delta, two operators fewer) -/
def wstep (it : WItem) : List WItem :=
  match splitPair it.ops with
  | none => [it]
  | some (pre, x, y, post) =>
    [⟨it.deltas, pre ++ [(y, true), (x, false)] ++ post, !it.neg⟩,
     ⟨it.deltas ++ [(x, y)], pre ++ post, it.neg⟩]

/-- `process_one`: every entry once; the flag tells whether any entry was rewritten -/
def processOne (l : List WItem) : List WItem × Bool :=
  (l.flatMap wstep, l.any (fun it => (splitPair it.ops).isSome))

/-- `while processed: current, processed = process_one(current)` with fuel -/
def wnormalize : Nat → List WItem → List WItem
  | 0, l => l
  | fuel+1, l =>
    let r := processOne l
    if r.2 then wnormalize fuel r.1 else r.1

/-- the normal form of a pattern given as `(label, dagger)` list -/
def wickNormalForm (pattern : List (Nat × Bool)) : List WItem :=
  wnormalize (pattern.length * pattern.length + 1) [⟨[], pattern, false⟩]

end Model

/-! ### the spin-free variant (`spinfree = True`): operators also carry a spin slot (position mod rank); a contraction
    inside one slot doubles the factor, a contraction between two slots merges them; at the end creators and
    annihilators are bubble-sorted by slot, every swap flipping the sign.  Executable model, tied to the library by the
    correspondence run (`wicknfsf`); its soundness theorem is not proved. -/
namespace Model

structure WItemSF where
  deltas : List (Nat × Nat)
  ops : List (Nat × Bool × Nat)        -- (label, dagger, slot)
  neg : Bool
  twos : Nat                           -- factor = ± 2^twos
deriving Repr, DecidableEq

def splitPairSF : List (Nat × Bool × Nat) →
    Option (List (Nat × Bool × Nat) × (Nat × Bool × Nat) × (Nat × Bool × Nat) × List (Nat × Bool × Nat))
  | [] => none
  | [_] => none
  | x :: y :: post =>
    if x.2.1 = false ∧ y.2.1 = true then some ([], x, y, post)
    else (splitPairSF (y :: post)).map (fun r => (x :: r.1, r.2.1, r.2.2.1, r.2.2.2))

def wstepSF (it : WItemSF) : List WItemSF :=
  match splitPairSF it.ops with
  | none => [it]
  | some (pre, x, y, post) =>
    let rest := pre ++ post
    let contracted : WItemSF :=
      if y.2.2 = x.2.2 then ⟨it.deltas ++ [(x.1, y.1)], rest, it.neg, it.twos + 1⟩
      else ⟨it.deltas ++ [(x.1, y.1)],
            rest.map (fun o => if o.2.2 = y.2.2 then (o.1, o.2.1, x.2.2) else o), it.neg, it.twos⟩
    [⟨it.deltas, pre ++ [y, x] ++ post, !it.neg, it.twos⟩, contracted]

def wnormalizeSF : Nat → List WItemSF → List WItemSF
  | 0, l => l
  | fuel+1, l =>
    let out := l.flatMap wstepSF
    if l.any (fun it => (splitPairSF it.ops).isSome) then wnormalizeSF fuel out else out

/-- one sweep `for j in range(1, nterms)` of the final spin sort over an array of operators -/
def spinSweep (nterms : Nat) : Nat → Array (Nat × Bool × Nat) × Bool × Bool → Array (Nat × Bool × Nat) × Bool × Bool
  | 0, st => st
  | k+1, st =>
    let j := nterms - (k + 1)                  -- j runs 1 .. nterms-1 as k+1 runs nterms-1 .. 1
    let (c, neg, ch) := st
    let sl := fun (i : Nat) => (c.getD i (0, false, 0)).2.2
    let (c, neg, ch) := if sl (j - 1) > sl j then (c.swapIfInBounds (j - 1) j, !neg, true) else (c, neg, ch)
    let sl := fun (i : Nat) => (c.getD i (0, false, 0)).2.2
    let (c, neg, ch) :=
      if sl (j - 1 + nterms) > sl (j + nterms) then (c.swapIfInBounds (j - 1 + nterms) (j + nterms), !neg, true) else (c, neg, ch)
    spinSweep nterms k (c, neg, ch)

def spinSort (nterms : Nat) : Nat → Array (Nat × Bool × Nat) × Bool → Array (Nat × Bool × Nat) × Bool
  | 0, st => st
  | fuel+1, (c, neg) =>
    let (c', neg', ch) := spinSweep nterms (nterms - 1) (c, neg, false)
    if ch then spinSort nterms fuel (c', neg') else (c', neg')

def finishSF (it : WItemSF) : WItemSF :=
  let nterms := it.ops.length / 2
  let (c, neg) := spinSort nterms (it.ops.length * it.ops.length + 1) (it.ops.toArray, it.neg)
  ⟨it.deltas, c.toList, neg, it.twos⟩

/-- normal form of a spin-free pattern `(label, dagger)`, slots = position mod rank -/
def wickNormalFormSF (pattern : List (Nat × Bool)) : List WItemSF :=
  let rank := pattern.length / 2
  let ops := pattern.zipIdx.map (fun (o, i) => (o.1, o.2, if rank = 0 then 0 else i % rank))
  (wnormalizeSF (pattern.length * pattern.length + 1) [⟨[], ops, false, 0⟩]).map finishSF

end Model
