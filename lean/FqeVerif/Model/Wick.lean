/-
  Model/Wick.lean — the rewriting driver of `fqe.wick.wick` for spin-orbital requests (`spinfree = False`):
  a work list of `(Kronecker deltas, remaining operators, sign)`; one pass rewrites, in every entry, the first
  undaggered operator that is immediately followed by a daggered one:
      a_x a†_y  =  − a†_y a_x  +  δ_xy
  and the passes are repeated until no entry changes.  Operators carry labels (positions of the letters in the
  requested pattern); the tensors are filled afterwards by letting the labels range over the orbitals.
-/
namespace Model

structure WItem where
  deltas : List (Nat × Nat)
  ops : List (Nat × Bool)
  neg : Bool
deriving Repr, DecidableEq

/-- the first adjacent pair (undaggered, daggered): `(operators before, x, y, operators after)` -/
def splitPair : List (Nat × Bool) → Option (List (Nat × Bool) × Nat × Nat × List (Nat × Bool))
  | [] => none
  | [_] => none
  | (x, dx) :: (y, dy) :: post =>
    if dx = false ∧ dy = true then some ([], x, y, post)
    else (splitPair ((y, dy) :: post)).map (fun r => ((x, dx) :: r.1, r.2.1, r.2.2.1, r.2.2.2))

/-- one rewriting step on one entry: unchanged when normal ordered, otherwise the swapped entry (sign flipped)
    and the contracted entry (one more delta, two operators fewer) -/
def wstep (it : WItem) : List WItem :=
  match splitPair it.ops with
  | none => [it]
  | some (pre, x, y, post) =>
    [⟨it.deltas, pre ++ [(y, true), (x, false)] ++ post, !it.neg⟩,
     ⟨it.deltas ++ [(x, y)], pre ++ post, it.neg⟩]

/-- `process_one`: every entry once; the flag tells whether any entry was rewritten -/
def processOne (l : List WItem) : List WItem × Bool :=
  (l.flatMap wstep, l.any (fun it => (splitPair it.ops).isSome))

/-- `while processed: current, processed = process_one(current)` with fuel -/
def wnormalize : Nat → List WItem → List WItem
  | 0, l => l
  | fuel+1, l =>
    let r := processOne l
    if r.2 then wnormalize fuel r.1 else r.1

/-- the normal form of a pattern given as `(label, dagger)` list -/
def wickNormalForm (pattern : List (Nat × Bool)) : List WItem :=
  wnormalize (pattern.length * pattern.length + 1) [⟨[], pattern, false⟩]

end Model
