/-
  Model/Strings.lean — string generation and Knowles–Handy addressing
  (`fqe/bitstring.py`, `fqe/fci_graph.py`, `lib/bitstring.c`, `lib/fci_graph.c`).
-/
import FqeVerif.Model.Bits
namespace Model

/-- binomial coefficient, multiplicative form (exact at every step) -/
def binom (n k : Nat) : Nat :=
  if k > n then 0 else
  (List.range k).foldl (fun acc i => acc * (n - i) / (i + 1)) 1

/-- all `k`-subsets of `{0..n-1}` as masks, in increasing numeric order:
    what `sorted(reverse_integer_index(c) for c in combinations(range(n), k))` produces -/
def subsetsAsc : Nat → Nat → List Nat
  | _, 0 => [0]
  | 0, _+1 => []
  | n+1, k+1 =>
    if n < k then [] else subsetsAsc n (k+1) ++ (subsetsAsc n k).map (· + 2^n)

/-- all `k`-subsets of `{0..n-1}` as masks, in lexical order of the ascending occupation tuples
    (the documented order of the string tables) -/
def subsetsLex : Nat → Nat → List Nat
  | _, 0 => [0]
  | 0, _+1 => []
  | n+1, k+1 =>
    if n < k then [] else
    (subsetsLex n k).map (fun t => 2 * t + 1) ++ (subsetsLex n (k+1)).map (fun t => 2 * t)

/-- one step of Gosper's hack as written in `lexicographic_bitstring_generator` (C),
    on 64-bit words (`m = 2^64`) -/
def gosperNext (combo : Nat) : Nat :=
  let m := 2^64
  let x := combo &&& ((m - combo) % m)
  let y := (combo + x) % m
  let z := andNot combo y
  let c := (z / x) >>> 1
  c ||| y

/-- the C generator loop: `while (combo < (1ull << norb)) { *out++ = combo; combo = next }`,
    with fuel = the size of the output buffer -/
def gosperLoop : Nat → Nat → Nat → List Nat
  | 0, _, _ => []
  | fuel+1, norb, combo =>
    if combo < (1 <<< norb) % 2^64 then combo :: gosperLoop fuel norb (gosperNext combo) else []

def stringsC (norb nele : Nat) : List Nat :=
  if nele = 0 then [0] else gosperLoop (binom norb nele) norb ((1 <<< nele) - 1)

/-- the Python Z matrix (`_get_Z_matrix`), entry `Z[k-1][ll-1]`, as a function of 0-based
    row `r = k-1` and 0-based column `c = ll-1`; entries not assigned by the loops are 0 -/
def zEntry (norb nele r c : Nat) : Int :=
  let k := r + 1
  let ll := c + 1
  if k < nele then
    if k ≤ ll ∧ ll ≤ norb - nele + k then
      ((List.range (norb - k + 1)).filter (fun m => norb - ll + 1 ≤ m)).foldl
        (fun acc m => acc + ((binom m (nele - k) : Int) - (binom (m - 1) (nele - k - 1) : Int))) 0
    else 0
  else if k = nele then
    if nele ≤ ll ∧ ll ≤ norb then (ll : Int) - (nele : Int) else 0
  else 0

def zMatrix (norb nele : Nat) : List (List Int) :=
  (List.range nele).map (fun r => (List.range norb).map (fun c => zEntry norb nele r c))

/-- `_build_string_address`: `sum(Z[i, occ[i]])` -/
def addressOf (norb nele : Nat) (s : Nat) : Int :=
  let occ := integerIndex s
  (List.zip (List.range occ.length) occ).foldl (fun acc (i, o) => acc + zEntry norb nele i o) 0

/-- `_build_strings`: scatter the generated strings by address; `none` marks a slot never written -/
def buildStrings (norb nele : Nat) : List (Option Nat) :=
  let gen := subsetsAsc norb nele
  let len := binom norb nele
  let init : Array (Option Nat) := Array.replicate len none
  (gen.foldl (fun (arr : Array (Option Nat)) s =>
      let ad := addressOf norb nele s
      if ad < 0 then arr else arr.setIfInBounds ad.toNat (some s)) init).toList

/-- strings in address order (slots never written show as 0, as `numpy.zeros` would) -/
def stringTable (norb nele : Nat) : List Nat := (buildStrings norb nele).map (·.getD 0)

end Model
