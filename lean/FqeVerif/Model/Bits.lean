/-
  Model/Bits.lean — the bit helpers of `fqe/bitstring.py` on unbounded naturals
  (Python ints), written the way the Python source writes them.
-/
namespace Model

/-- `bin(s).count('1')`, structurally recursive on a fuel argument (so that the kernel can
    evaluate it); `s` itself is always enough fuel -/
def countBitsAux : Nat → Nat → Nat
  | 0, _ => 0
  | f+1, s => if s = 0 then 0 else s % 2 + countBitsAux f (s / 2)

def countBits (s : Nat) : Nat := countBitsAux s s

/-- `s & ~m` for a non-negative Python int `s` and a non-negative mask `m` -/
def andNot (s m : Nat) : Nat := s ^^^ (s &&& m)

/-- `get_bit`: `s & (1 << pos)` -/
def getBit (s pos : Nat) : Nat := s &&& (1 <<< pos)
/-- `set_bit` -/
def setBit (s pos : Nat) : Nat := s ||| (1 <<< pos)
/-- `unset_bit`: `s & ~(1 << pos)` -/
def unsetBit (s pos : Nat) : Nat := andNot s (1 <<< pos)

/-- `count_bits_above`: `count_bits(s & ~((1 << (pos+1)) - 1))` -/
def countBitsAbove (s pos : Nat) : Nat := countBits (andNot s ((1 <<< (pos + 1)) - 1))
/-- `count_bits_below`: `count_bits(s & ((1 << pos) - 1))` -/
def countBitsBelow (s pos : Nat) : Nat := countBits (s &&& ((1 <<< pos) - 1))
/-- `count_bits_between` -/
def countBitsBetween (s p1 p2 : Nat) : Nat :=
  let mask := ((((1 <<< p1) - 1) ^^^ ((1 <<< (p2 + 1)) - 1)) &&&
               (((1 <<< p2) - 1) ^^^ ((1 <<< (p1 + 1)) - 1)))
  countBits (s &&& mask)

/-- `gbit_index` / `integer_index`: ascending list of set-bit positions -/
def occAux : Nat → Nat → Nat → List Nat
  | 0, _, _ => []
  | fuel+1, w, idx =>
    if w = 0 then [] else
      (if w % 2 = 1 then [idx] else []) ++ occAux fuel (w / 2) (idx + 1)

def integerIndex (s : Nat) : List Nat := occAux (s + 1) s 0

/-- `reverse_integer_index` -/
def reverseIntegerIndex (occ : List Nat) : Nat := occ.foldl setBit 0

end Model
