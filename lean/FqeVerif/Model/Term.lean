/-
  Model/Term.lean — FQE's determinant-level action of an operator string: every ladder factor acts
  with the kernels' sign rule (`fqeLadder`: occupied orbitals *above*, beta steps carry (-1)^{n_alpha}).
  This is what the sparse route computes once the alpha and beta sub-strings are gathered
  (`make_mapping_each` on each spin string, `(-1)^{nalpha·nbeta_ops}` prefactors).
-/
import FqeVerif.Spec.Embed
namespace Model
open Fock

/-- operator-string action in FQE's convention; the rightmost factor acts first -/
def fqeApplyTerm (norb : Nat) : Term → Nat → Nat → Option (Bool × Nat × Nat)
  | [], a, b => some (false, a, b)
  | (m, dag) :: rest, a, b =>
    match fqeApplyTerm norb rest a b with
    | none => none
    | some (s, a', b') =>
      match fqeLadder norb dag (m % 2 == 1) (m / 2) a' b' with
      | none => none
      | some (s', a'', b'') => some (s ^^ s', a'', b'')

end Model
