/-
  Model/Cirq.lean — qubit export/import (`_to_cirq`, `_from_cirq`, `_prepare_cirq_from_to_metadata`,
  `from_cirq` sector detection), Jordan–Wigner code.
-/
import FqeVerif.Spec.Embed
namespace Model
open Fock

/-- contribution of one spin string to the cirq index: qubit `2p + spin` is bit `nq-1-(2p+spin)` -/
def cirqPart (norb spin s : Nat) : Nat → Nat
  | 0 => 0
  | p+1 => cirqPart norb spin s p + (if s.testBit p then 2 ^ (2 * norb - 1 - (2 * p + spin)) else 0)

/-- `cirq_aid[a] ^ cirq_bid[b]` -/
def cirqIndex (norb a b : Nat) : Nat := cirqPart norb 0 a norb ^^^ cirqPart norb 1 b norb

/-- the sign `_to_cirq` attaches: parity of `sum_{j in b} #{i in a : up(i) > down(j)}` -/
def cirqSign (norb a b : Nat) : Bool := cross norb a b norb

/-- number of electrons of a string -/
def nelec (norb s : Nat) : Nat := (List.range norb).foldl (fun n p => if s.testBit p then n + 1 else n) 0

end Model
