/-
  Model/Cirq.lean — qubit export/import (`_to_cirq`, `_from_cirq`, `_prepare_cirq_from_to_metadata`,
  `from_cirq` sector detection), Jordan–Wigner code.
-/
import FqeVerif.Spec.Embed
namespace Model
open Fock

/-- contribution of one spin string to the cirq index: qubit `2p + spin` is bit `nq-1-(2p+spin)` -/
def cirqPart (norb spin s : Nat) : Nat → Nat
  | 0 => 0
  | p+1 => cirqPart norb spin s p + (if s.testBit p then 2 ^ (2 * norb - 1 - (2 * p + spin)) else 0)

/-- `cirq_aid[a] ^ cirq_bid[b]` -/
def cirqIndex (norb a b : Nat) : Nat := cirqPart norb 0 a norb ^^^ cirqPart norb 1 b norb

/-- the sign `_to_cirq` attaches: parity of `sum_{j in b} #{i in a : up(i) > down(j)}` -/
def cirqSign (norb a b : Nat) : Bool := cross norb a b norb

/-- number of electrons of a string -/
def nelec (norb s : Nat) : Nat := (List.range norb).foldl (fun n p => if s.testBit p then n + 1 else n) 0

/-- export index under a linear binary code: `cols[m]` is the image of mode `m` as a qubit mask
    (bit `nq-1-q` = qubit `q`); the image of a determinant is the XOR of the images of its occupied modes
    (`_prepare_cirq_from_to_metadata` with a `BinaryCode`: encoder · occupation vector mod 2) -/
def cirqIndexCode (norb : Nat) (cols : List Nat) (a b : Nat) : Nat :=
  (List.range (2 * norb)).foldl (fun acc m =>
    let occ := if m % 2 = 0 then a.testBit (m / 2) else b.testBit (m / 2)
    if occ then acc ^^^ cols.getD m 0 else acc) 0

end Model
