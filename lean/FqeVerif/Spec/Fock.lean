/-
  Spec/Fock.lean — the reference semantics.

  Fermionic Fock space on `2*norb` modes in the OpenFermion index convention
  (mode `2p` = alpha orbital `p`, mode `2p+1` = beta orbital `p`), Jordan–Wigner
  representation.  A basis state is the pair (alpha mask, beta mask).
  Signs are `Bool` parities (`true` = minus) combined with `^^`.

  No imports beyond core Lean: this file is also linked into the driver executable.
-/
namespace Fock

/-- parity of the number of set bits strictly below position `q` -/
def par (n : Nat) : Nat → Bool
  | 0 => false
  | q+1 => par n q ^^ n.testBit q

/-- toggle bit `q` -/
def flip (n q : Nat) : Nat := n ^^^ (1 <<< q)

/-- single-string ladder operator in the ascending (Jordan–Wigner) convention:
    annihilate (`dag = false`) / create (`dag = true`) position `q` on string `n`;
    `none` = zero vector, `some (s, m)` = `(-1)^s |m⟩` -/
def ladder (dag : Bool) (q n : Nat) : Option (Bool × Nat) :=
  if n.testBit q = dag then none else some (par n q, flip n q)

/-- parity of occupied modes below mode `m` for the pair `(a, b)` -/
def parModes (a b : Nat) (m : Nat) : Bool := par a ((m + 1) / 2) ^^ par b (m / 2)

/-- Spec ladder operator on mode `m` (spin = `m % 2`, orbital = `m / 2`) -/
def specLadder (dag : Bool) (m : Nat) (a b : Nat) : Option (Bool × Nat × Nat) :=
  if m % 2 = 0 then
    (if a.testBit (m / 2) = dag then none else some (parModes a b m, flip a (m / 2), b))
  else
    (if b.testBit (m / 2) = dag then none else some (parModes a b m, a, flip b (m / 2)))

/-- a product of ladder operators, written as in a FermionOperator key:
    `[(q,true),(r,false)]` is `a†_q a_r`; the rightmost factor acts first -/
abbrev Term := List (Nat × Bool)

/-- action of a product of ladder operators on a basis state -/
def applyTerm : Term → Nat → Nat → Option (Bool × Nat × Nat)
  | [], a, b => some (false, a, b)
  | (m, dag) :: rest, a, b =>
    match applyTerm rest a b with
    | none => none
    | some (s, a', b') =>
      match specLadder dag m a' b' with
      | none => none
      | some (s', a'', b'') => some (s ^^ s', a'', b'')

/-! ### basic bit lemmas -/

theorem testBit_one (k : Nat) : Nat.testBit 1 k = decide (k = 0) := by
  cases k with
  | zero => simp
  | succ k => simp [Nat.testBit_succ]

theorem testBit_flip (n q r : Nat) : (flip n q).testBit r = (n.testBit r ^^ decide (q = r)) := by
  unfold flip
  rw [Nat.testBit_xor, Nat.testBit_shiftLeft, testBit_one]
  by_cases h : q = r
  · subst h; simp
  · by_cases h2 : q ≤ r
    · have : r - q ≠ 0 := by omega
      simp [h, h2, this]
    · simp [h, h2]

theorem par_succ (n q : Nat) : par n (q + 1) = (par n q ^^ n.testBit q) := rfl

theorem par_flip (n q p : Nat) : par (flip n q) p = (par n p ^^ decide (q < p)) := by
  induction p with
  | zero => simp [par]
  | succ p ih =>
    simp only [par, ih, testBit_flip]
    by_cases h1 : q < p
    · have : q ≠ p := by omega
      have h2 : q < p + 1 := by omega
      simp [h1, h2, this]
    · by_cases h3 : q = p
      · subst h3; simp
      · have h2 : ¬ q < p + 1 := by omega
        simp [h1, h2, h3]

theorem flip_comm (n p q : Nat) : flip (flip n p) q = flip (flip n q) p := by
  unfold flip; rw [Nat.xor_assoc, Nat.xor_comm (1 <<< p), ← Nat.xor_assoc]

theorem flip_flip (n p : Nat) : flip (flip n p) p = n := by
  unfold flip; rw [Nat.xor_assoc, Nat.xor_self, Nat.xor_zero]

theorem par_flip_ge (s q k : Nat) (h : q < k) : par (flip s q) k = !par s k := by
  rw [par_flip]; simp [h]

theorem par_flip_le (s q k : Nat) (h : k ≤ q) : par (flip s q) k = par s k := by
  rw [par_flip]; have : ¬ q < k := by omega
  simp [this]

/-! ### the canonical anticommutation relations for `ladder` -/

/-- the composite of two single-string ladder steps (`q` acts first) -/
def ladder2 (d1 : Bool) (p : Nat) (d2 : Bool) (q : Nat) (n : Nat) : Option (Bool × Nat) :=
  match ladder d2 q n with
  | none => none
  | some (s, m) => match ladder d1 p m with
    | none => none
    | some (s', m') => some (s ^^ s', m')

/-- CAR, off-diagonal: for `p ≠ q` any two ladder operators anticommute on every basis state -/
theorem car_offdiag (d1 d2 : Bool) (p q n : Nat) (h : p ≠ q) :
    (ladder2 d1 p d2 q n).map (fun x => (!x.1, x.2)) = ladder2 d2 q d1 p n := by
  unfold ladder2 ladder
  have hpq : decide (q = p) = false := by simp; omega
  have hqp : decide (p = q) = false := by simp; omega
  by_cases a : n.testBit q = d2 <;> by_cases b : n.testBit p = d1 <;>
    simp [a, b, testBit_flip, par_flip, hpq, hqp, flip_comm n p q]
  · have hlt : decide (q < p) = !decide (p < q) := by
      by_cases h1 : p < q
      · have : ¬ q < p := by omega
        simp [h1, this]
      · have : q < p := by omega
        simp [h1, this]
    rw [hlt]
    cases par n q <;> cases par n p <;> cases decide (p < q) <;> rfl

/-- CAR, diagonal: `a_p a_p† + a_p† a_p = 1` on every basis state: exactly one of the two
    orders is defined and it returns the state with sign `+` -/
theorem car_diag (p n : Nat) :
    (ladder2 false p true p n = some (false, n) ∧ ladder2 true p false p n = none) ∨
    (ladder2 false p true p n = none ∧ ladder2 true p false p n = some (false, n)) := by
  have hflip : flip (flip n p) p = n := flip_flip n p
  unfold ladder2 ladder
  cases a : n.testBit p <;> simp [a, testBit_flip, par_flip, hflip]

/-- two annihilators (or two creators) on the same mode give zero -/
theorem car_square (d : Bool) (p n : Nat) : ladder2 d p d p n = none := by
  unfold ladder2 ladder
  cases a : n.testBit p <;> cases d <;> simp [a, testBit_flip]

end Fock
