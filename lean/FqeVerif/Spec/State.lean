/-
  Spec/State.lean — finitely supported vectors over the determinant basis and the linear
  extension of `applyTerm` (executable; used by the driver).
  A state handed over by the harness is in FQE's determinant convention; `ι` is applied on the
  way in and on the way out, so the driver answers "what FQE coefficients does the exact
  operator action produce".
-/
import Std.Data.HashMap
import FqeVerif.Spec.Embed
import FqeVerif.Spec.Scalar
namespace Fock

abbrev Vec := Std.HashMap (Nat × Nat) GQ

def Vec.addTo (v : Vec) (k : Nat × Nat) (x : GQ) : Vec :=
  if x.isZero then v else
  match v[k]? with
  | none => v.insert k x
  | some y => let z := y + x; if z.isZero then v.erase k else v.insert k z

def Vec.ofList (l : List ((Nat × Nat) × GQ)) : Vec :=
  l.foldl (fun v (k, x) => v.addTo k x) {}

def Vec.sorted (v : Vec) : List ((Nat × Nat) × GQ) :=
  (v.toList.toArray.qsort (fun x y => x.1.1 < y.1.1 || (x.1.1 == y.1.1 && x.1.2 < y.1.2))).toList

/-- an operator: a list of `(coefficient, term)` -/
abbrev Op := List (GQ × Term)

/-- Spec action of an operator on a Spec-convention vector -/
def applyOpSpec (op : Op) (v : Vec) : Vec :=
  v.fold (fun acc (k : Nat × Nat) c =>
    op.foldl (fun acc (ct : GQ × Term) =>
      match applyTerm ct.2 k.1 k.2 with
      | none => acc
      | some (s, a', b') => acc.addTo (a', b') (GQ.signed s (ct.1 * c))) acc) {}

/-- ι : FQE convention → Spec convention (an involution on vectors) -/
def iota (norb : Nat) (v : Vec) : Vec :=
  v.fold (fun acc k c => acc.insert k (GQ.signed (embedSign norb k.1 k.2) c)) {}

/-- exact operator action expressed in FQE's determinant convention -/
def applyOpFqe (norb : Nat) (op : Op) (v : Vec) : Vec := iota norb (applyOpSpec op (iota norb v))

/-- ι for number-broken wavefunctions (beta axis reversed without signs) -/
def iotaNB (norb : Nat) (v : Vec) : Vec :=
  v.fold (fun acc k c => acc.insert k (GQ.signed (embedSignNB norb k.1 k.2) c)) {}

/-- exact operator action expressed in the convention of number-broken wavefunctions -/
def applyOpFqeNB (norb : Nat) (op : Op) (v : Vec) : Vec := iotaNB norb (applyOpSpec op (iotaNB norb v))

/-- `⟨bra|ket⟩`, conjugate-linear in the first slot (convention independent) -/
def inner (bra ket : Vec) : GQ :=
  bra.fold (fun acc k c => match ket[k]? with
    | none => acc
    | some d => acc + c.conj * d) 0

end Fock
