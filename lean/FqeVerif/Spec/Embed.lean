/-
  Spec/Embed.lean — the one embedding ι of FQE's determinant convention into Spec.

  FQE kernels use "descending" strings: a string is a†_high … a†_low |vac⟩ (signs count the
  occupied orbitals *above* the one acted on), and a determinant is {alpha string}{beta string}|vac⟩.
  ι (a,b) = (-1)^(embedSign norb a b) |(a,b)⟩_Spec.
-/
import FqeVerif.Spec.Fock
namespace Fock

/-- parity of occupied orbitals strictly above `q` (orbitals `< norb`) -/
def parAbove (norb s q : Nat) : Bool := par s norb ^^ par s (q + 1)

/-- parity of the electron count of a string -/
def parN (norb s : Nat) : Bool := par s norb

/-- FQE's ladder step on a determinant: an alpha step acts on `a` alone with the sign
    "occupied above"; a beta step acts on `b` and carries the extra `(-1)^{n_alpha}` -/
def fqeLadder (norb : Nat) (dag : Bool) (spin : Bool) (q : Nat) (a b : Nat) :
    Option (Bool × Nat × Nat) :=
  if spin = false then
    (if a.testBit q = dag then none else some (parAbove norb a q, flip a q, b))
  else
    (if b.testBit q = dag then none else some (parN norb a ^^ parAbove norb b q, a, flip b q))

/-- parity of n(n-1)/2 where n = #electrons in string s restricted to orbitals < k -/
def tri (s : Nat) : Nat → Bool
  | 0 => false
  | k+1 => tri s k ^^ (s.testBit k && par s k)

/-- parity of #{(i,j) : i ∈ a, j ∈ b, i > j, i < norb, j < k} -/
def cross (norb a b : Nat) : Nat → Bool
  | 0 => false
  | j+1 => cross norb a b j ^^ (b.testBit j && parAbove norb a j)

/-- the sign of ι on determinant `(a, b)` -/
def embedSign (norb a b : Nat) : Bool := cross norb a b norb ^^ tri a norb ^^ tri b norb

/-- number-broken wavefunctions store the beta strings particle-hole inverted by a plain reversal of the beta axis
    (no signs); relative to ι this leaves the extra factor `Π_{p ∈ b} (-1)^(norb-1-p)` on determinant `(a, b)` -/
def nbTwistAux (norb b : Nat) : Nat → Bool
  | 0 => false
  | p+1 => nbTwistAux norb b p ^^ (b.testBit p && decide ((norb - 1 - p) % 2 = 1))

def nbTwist (norb b : Nat) : Bool := nbTwistAux norb b norb

/-- the embedding used by number-broken (Sz-conserving) wavefunctions -/
def embedSignNB (norb a b : Nat) : Bool := embedSign norb a b ^^ nbTwist norb b

end Fock
