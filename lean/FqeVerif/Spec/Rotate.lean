/-
  Spec/Rotate.lean — the many-body image Γ(M) of a one-body matrix M on spin orbitals (modes):
  Γ(M) a†_{m1} … a†_{mN}|vac⟩ = Π_k (Σ_p M[p, m_k] a†_p)|vac⟩, hence
  ⟨D'|Γ(M)|D⟩ = det M[occ(D'), occ(D)]   (rows/columns = occupied modes in ascending order).
  Exact over Gaussian rationals; executable (driver only).
-/
import FqeVerif.Spec.State
namespace Fock

/-- determinant by Laplace expansion along the first row (matrices are at most 2·norb wide) -/
partial def detGQ (m : List (List GQ)) : GQ :=
  match m with
  | [] => 1
  | row :: rest =>
    (List.zip (List.range row.length) row).foldl (fun acc (j, x) =>
      if x.isZero then acc else
      let minor := rest.map (fun r => (List.zip (List.range r.length) r).filterMap (fun (k, y) => if k = j then none else some y))
      let term := x * detGQ minor
      if j % 2 = 0 then acc + term else acc - term) 0

/-- occupied modes of a determinant, ascending -/
def occModes (norb a b : Nat) : List Nat :=
  (List.range (2 * norb)).filter (fun m => if m % 2 = 0 then a.testBit (m / 2) else b.testBit (m / 2))

/-- all determinants `(a, b)` with `n` electrons in `norb` orbitals -/
def detsWithN (norb n : Nat) : List (Nat × Nat) :=
  (List.range (2 ^ norb)).flatMap fun a => (List.range (2 ^ norb)).filterMap fun b =>
    if (occModes norb a b).length = n then some (a, b) else none

/-- Γ(M) applied to a Spec-convention vector; `M` in mode indexing, `M[p][q]` -/
def gammaSpec (norb : Nat) (M : List (List GQ)) (v : Vec) : Vec :=
  v.fold (fun acc (k : Nat × Nat) c =>
    let src := occModes norb k.1 k.2
    (detsWithN norb src.length).foldl (fun acc (t : Nat × Nat) =>
      let tgt := occModes norb t.1 t.2
      let sub := tgt.map (fun p => src.map (fun q => (M.getD p []).getD q 0))
      acc.addTo t (detGQ sub * c)) acc) {}

/-- Γ(M) in FQE's determinant convention -/
def gammaFqe (norb : Nat) (M : List (List GQ)) (v : Vec) : Vec := iota norb (gammaSpec norb M (iota norb v))

end Fock
