/-
  Spec/Scalar.lean — exact Gaussian rationals for the executable reference semantics.
-/
namespace Fock

structure GQ where
  re : Rat
  im : Rat
deriving BEq, Repr, Inhabited

namespace GQ
def zero : GQ := ⟨0, 0⟩
def one : GQ := ⟨1, 0⟩
def I : GQ := ⟨0, 1⟩
def add (x y : GQ) : GQ := ⟨x.re + y.re, x.im + y.im⟩
def sub (x y : GQ) : GQ := ⟨x.re - y.re, x.im - y.im⟩
def neg (x : GQ) : GQ := ⟨-x.re, -x.im⟩
def mul (x y : GQ) : GQ := ⟨x.re * y.re - x.im * y.im, x.re * y.im + x.im * y.re⟩
def conj (x : GQ) : GQ := ⟨x.re, -x.im⟩
def normSq (x : GQ) : Rat := x.re * x.re + x.im * x.im
def isZero (x : GQ) : Bool := x.re == 0 && x.im == 0
def ofInt (n : Int) : GQ := ⟨(n : Rat), 0⟩
def smulRat (r : Rat) (x : GQ) : GQ := ⟨r * x.re, r * x.im⟩
def inv (x : GQ) : GQ := let n := x.normSq; ⟨x.re / n, -x.im / n⟩
def div (x y : GQ) : GQ := x.mul y.inv
/-- multiply by `(-1)^s` -/
def signed (s : Bool) (x : GQ) : GQ := if s then x.neg else x
instance : Add GQ := ⟨add⟩
instance : Sub GQ := ⟨sub⟩
instance : Neg GQ := ⟨neg⟩
instance : Mul GQ := ⟨mul⟩
instance : Zero GQ := ⟨zero⟩
instance : One GQ := ⟨one⟩

def ratToString (r : Rat) : String :=
  if r.den == 1 then toString r.num else s!"{r.num}/{r.den}"
def toStr (x : GQ) : String := s!"{ratToString x.re} {ratToString x.im}"
end GQ

def parseRat? (s : String) : Option Rat :=
  match s.splitOn "/" with
  | [n] => n.toInt?.map (fun (i : Int) => (i : Rat))
  | [n, d] => do
      let ni ← n.toInt?
      let di ← d.toNat?
      if di == 0 then none else some ((ni : Rat) / (di : Rat))
  | _ => none

end Fock
