/-
  Props/C09.lean — property theorems for C09 (symmetry sectors and operators).

   * a single-sector request is accepted exactly for the possible (nele, m_s, norb), and then the
     electron counts are the unique (nα, nβ) with nα+nβ = nele, nα−nβ = m_s           : C09_alpha_beta
   * the fixed-N constructor produces exactly all Sz sectors with 0 ≤ nα, nβ ≤ norb    : C09_fixedN
   * the fixed-Sz constructor produces exactly all N sectors with 0 ≤ nα, nβ ≤ norb    : C09_fixedSz
   * the number operator of a mode is the occupation (so N and Sz are the counts)        : C09_number_op
   * time reversal squares to (−1)^N                                                     : C09_T_square
  S² (= S₋S₊ + Sz + Sz²) values and conservation under spin-free dynamics are decided by the exact
  correspondence against the Spec operator written in ladder operators.
   * the sector arithmetic *as it stands in /repo* (`alpha_beta_electrons`, `validate_config`,
     `get_number_conserving_wavefunction`, `get_spin_conserving_wavefunction`, `map_broken_symmetry`, translated on
     every run by harness/translate/pyint.py) is the Model's                            : C09_py_*
-/
import FqeVerif.Model.Sectors
import FqeVerif.Spec.Fock
import FqeVerif.Lemmas.PyInt
namespace C09
open Model Fock

theorem C09_alpha_beta (nele ms norb : Int) (na nb : Nat) :
    alphaBeta nele ms norb = some (na, nb) ↔
      ((na : Int) + nb = nele ∧ (na : Int) - nb = ms ∧ (na : Int) ≤ norb ∧ (nb : Int) ≤ norb) := by
  unfold alphaBeta
  constructor
  · intro h
    split at h
    · cases h
    · split at h
      · cases h
      · split at h
        · cases h
        · simp only at h
          split at h
          · cases h
          · rename_i h1 h2 h3 h4
            simp only [Option.some.injEq, Prod.mk.injEq] at h
            obtain ⟨ha, hb⟩ := h
            omega
  · intro ⟨h1, h2, h3, h4⟩
    have e1 : ¬ nele < 0 := by omega
    have e2 : ¬ nele < (ms.natAbs : Int) := by omega
    have e3 : ¬ (nele + ms) % 2 ≠ 0 := by omega
    have e4 : (nele + ms) / 2 = na := by omega
    simp only [e1, e2, e3, if_false, e4]
    have e6 : ¬ ((na : Int) < 0 ∨ nele - (na : Int) < 0 ∨ norb < 0 ∨ norb < (na : Int) ∨
        norb < nele - (na : Int)) := by omega
    have e7 : (nele - (na : Int)).toNat = nb := by omega
    simp only [e6, if_false, e7, Int.toNat_natCast]

/-- an impossible request is refused -/
theorem C09_alpha_beta_reject (nele ms norb : Int) :
    alphaBeta nele ms norb = none ↔
      ¬ ∃ na nb : Nat, (na : Int) + nb = nele ∧ (na : Int) - nb = ms ∧ (na : Int) ≤ norb ∧ (nb : Int) ≤ norb := by
  constructor
  · intro h ⟨na, nb, hh⟩
    have := (C09_alpha_beta nele ms norb na nb).2 hh
    rw [h] at this; cases this
  · intro h
    cases hab : alphaBeta nele ms norb with
    | none => rfl
    | some p =>
      exfalso; apply h
      exact ⟨p.1, p.2, (C09_alpha_beta nele ms norb p.1 p.2).1 hab⟩

/-- all Sz for fixed N: the constructor's sector list is exactly the set promised -/
theorem C09_fixedN (nele norb n s : Int) :
    (n, s) ∈ fixedNSectors nele norb ↔
      n = nele ∧ ∃ na nb : Int, 0 ≤ na ∧ 0 ≤ nb ∧ na ≤ norb ∧ nb ≤ norb ∧ na + nb = nele ∧ na - nb = s := by
  unfold fixedNSectors
  simp only
  constructor
  · intro h
    split at h
    · simp at h
    · rename_i hlt
      simp only [List.mem_map, List.mem_range, Prod.mk.injEq] at h
      obtain ⟨k, hk, hn, hs⟩ := h
      refine ⟨hn.symm, nele - (nele - min norb nele + k), nele - min norb nele + k, ?_, ?_, ?_, ?_, ?_, ?_⟩ <;> omega
  · intro ⟨hn, na, nb, h1, h2, h3, h4, h5, h6⟩
    have hlt : ¬ min norb nele < nele - min norb nele := by omega
    simp only [hlt, if_false, List.mem_map, List.mem_range, Prod.mk.injEq]
    refine ⟨(nb - (nele - min norb nele)).toNat, ?_, hn.symm, ?_⟩ <;> omega

/-- all N for fixed Sz -/
theorem C09_fixedSz (sz norb n s : Int) :
    (n, s) ∈ fixedSzSectors sz norb ↔
      s = sz ∧ ∃ na nb : Int, 0 ≤ na ∧ 0 ≤ nb ∧ na ≤ norb ∧ nb ≤ norb ∧ na + nb = n ∧ na - nb = sz := by
  unfold fixedSzSectors
  by_cases hz : sz ≥ 0
  · simp only [hz, if_true]
    by_cases hlt : norb + 1 ≤ sz
    · simp only [hlt, if_true, List.not_mem_nil, false_iff]
      intro ⟨_, na, nb, _, _, _, _, _, _⟩
      omega
    · simp only [hlt, if_false, List.mem_map, List.mem_range, Prod.mk.injEq]
      constructor
      · intro ⟨k, hk, hn, hs⟩
        refine ⟨hs.symm, sz + k, k, ?_, ?_, ?_, ?_, ?_, ?_⟩ <;> omega
      · intro ⟨hs, na, nb, h1, h2, h3, h4, h5, h6⟩
        refine ⟨(na - sz).toNat, ?_, ?_, hs.symm⟩ <;> omega
  · simp only [hz, if_false]
    by_cases hlt : norb + sz + 1 ≤ 0
    · simp only [hlt, if_true, List.not_mem_nil, false_iff]
      intro ⟨_, na, nb, _, _, _, _, _, _⟩
      omega
    · simp only [hlt, if_false, List.mem_map, List.mem_range, Prod.mk.injEq]
      constructor
      · intro ⟨k, hk, hn, hs⟩
        refine ⟨hs.symm, k, k - sz, ?_, ?_, ?_, ?_, ?_, ?_⟩ <;> omega
      · intro ⟨hs, na, nb, h1, h2, h3, h4, h5, h6⟩
        refine ⟨na.toNat, ?_, ?_, hs.symm⟩ <;> omega

example : fixedNSectors 3 2 = [(3, 1), (3, -1)] ∧ fixedSzSectors (-1) 2 = [(1, -1), (3, -1)] := by decide

/-- the number operator `a†_m a_m` of any mode acts as the occupation of that mode: identity with
    sign + on states where it is occupied, zero otherwise; hence `N` and `Sz` are the electron counts -/
theorem C09_number_op (m a b : Nat) :
    applyTerm [(m, true), (m, false)] a b =
      if (if m % 2 = 0 then a.testBit (m / 2) else b.testBit (m / 2)) then some (false, a, b) else none := by
  unfold applyTerm applyTerm applyTerm specLadder
  by_cases hm : m % 2 = 0
  · have e : (m + 1) / 2 = m / 2 := by omega
    simp only [hm, if_true]
    cases ha : a.testBit (m / 2)
    · simp
    · simp [ha, testBit_flip, Fock.flip_flip, parModes, par_flip, e]
  · have e : (m + 1) / 2 = m / 2 + 1 := by omega
    simp only [hm, if_false]
    cases hb : b.testBit (m / 2)
    · simp
    · simp [hb, testBit_flip, Fock.flip_flip, parModes, par_flip, e]

/-- time reversal: `T² = (−1)^N` on every determinant -/
theorem C09_T_square (na nb : Nat) :
    (timeRevSign na nb ^^ timeRevSign nb na) = decide ((na + nb) % 2 = 1) := by
  unfold timeRevSign
  have h1 : (nb * (na + 1)) % 2 = ((nb % 2) * ((na + 1) % 2)) % 2 := Nat.mul_mod _ _ _
  have h2 : (na * (nb + 1)) % 2 = ((na % 2) * ((nb + 1) % 2)) % 2 := Nat.mul_mod _ _ _
  rcases Nat.mod_two_eq_zero_or_one na with ha | ha <;> rcases Nat.mod_two_eq_zero_or_one nb with hb | hb
  all_goals
    have ha1 : (na + 1) % 2 = 1 - na % 2 := by omega
    have hb1 : (nb + 1) % 2 = 1 - nb % 2 := by omega
    rw [h1, h2, ha1, hb1, ha, hb]
    have : (na + nb) % 2 = (na % 2 + nb % 2) % 2 := Nat.add_mod _ _ _
    rw [this, ha, hb]
    decide

/-! ### the Python sector arithmetic as it stands in /repo (generated by `harness/translate/pyint.py`) -/

/-- generated `alpha_beta_electrons` followed by generated `validate_config` = `alphaBeta`, refusals included; with
    `C09_alpha_beta` / `C09_alpha_beta_reject` this states which requests the real constructor accepts -/
theorem C09_py_alpha_beta (nele ms norb : Int) :
    (GenPy.alpha_beta_electrons nele ms).bind
        (fun ab => (GenPy.validate_config ab.1 ab.2 norb).map (fun _ => (ab.1.toNat, ab.2.toNat)))
      = alphaBeta nele ms norb :=
  GenPy.py_alpha_beta nele ms norb

/-- generated `get_number_conserving_wavefunction` builds exactly `fixedNSectors` with `broken=['spin']`, and refuses
    a request for which no sector exists (`C09_fixedN` says when that is) -/
theorem C09_py_fixedN (nele norb : Int) :
    GenPy.get_number_conserving_wavefunction nele norb =
      if (fixedNSectors nele norb).isEmpty then none
      else some ((fixedNSectors nele norb).map (fun x => (x.1, x.2, norb)), ["spin"]) :=
  GenPy.py_fixedN nele norb

/-- generated `get_spin_conserving_wavefunction` never reads an unbound local, builds exactly `fixedSzSectors`
    with `broken=['number']`, and refuses a request for which no sector exists -/
theorem C09_py_fixedSz (sz norb : Int) :
    GenPy.get_spin_conserving_wavefunction sz norb =
      if (fixedSzSectors sz norb).isEmpty then none
      else some ((fixedSzSectors sz norb).map (fun x => (x.1, x.2, norb)), ["number"]) :=
  GenPy.py_fixedSz sz norb

/-- generated `map_broken_symmetry`: exactly the beta particle–hole pairs between the fixed-Sz sectors and the
    sectors of `norb + s_z` electrons -/
theorem C09_py_map_broken_symmetry (sz norb : Int) (e : (Int × Int) × (Int × Int)) :
    e ∈ GenPy.map_broken_symmetry sz norb ↔
      (e.2.1 = e.1.1 ∧ e.2.2 = norb - e.1.2 ∧ e.1.1 - e.1.2 = sz ∧ e.2.1 + e.2.2 = norb + sz ∧
        norb + sz - min norb (norb + sz) ≤ e.2.2 ∧ e.2.2 ≤ min norb (norb + sz)) :=
  GenPy.py_map_broken_symmetry sz norb e

example : GenPy.get_number_conserving_wavefunction 2 2 = some ([(2, 2, 2), (2, 0, 2), (2, -2, 2)], ["spin"]) := by decide
example : GenPy.get_number_conserving_wavefunction 7 3 = none := by decide
example : GenPy.get_spin_conserving_wavefunction 4 3 = none := by decide
example : GenPy.alpha_beta_electrons 3 1 = some (2, 1) := by decide
example : GenPy.alpha_beta_electrons 3 2 = none := by decide

end C09
