/-
  Props/C17.lean — property theorems for C17 (low-rank / Givens / charge-charge helpers) — PARTIAL.

   * every charge-charge generator `n_p n_q` (any spin orbitals, `p = q` allowed) is diagonal on
     determinants with eigenvalue occ(p)·occ(q): so all these generators commute, each single-term
     evolution multiplies an amplitude by a phase, and the ordered product of the helper's evolutions
     is the diagonal unitary with phases exp(−i t Σ v_pq occ(p) occ(q))              : C17_charge_term_diagonal
   * phases of successive diagonal evolutions multiply (exp(a)·exp(b) = exp(a+b))        : C17_phase_product
   * a Trotter step is the ordered composition of its factors                            : C17_trotter_fold
  The Givens helpers equal Γ(u) only through the external law of `givens_decomposition_square` and
  multiplicativity of Γ (see C12): decided numerically against Spec/Rotate.lean.
-/
import FqeVerif.Props.C09
import FqeVerif.Lemmas.TermAlgebra
import Mathlib.Tactic.Ring
namespace C17
open Fock

/-- occupation of mode `m` in determinant `(a, b)` -/
def occ (m a b : Nat) : Bool := if m % 2 = 0 then a.testBit (m / 2) else b.testBit (m / 2)

theorem C17_charge_term_diagonal (p q a b : Nat) :
    applyTerm [(p, true), (p, false), (q, true), (q, false)] a b =
      if occ p a b && occ q a b then some (false, a, b) else none := by
  have h : [(p, true), (p, false), (q, true), (q, false)] = [(p, true), (p, false)] ++ [(q, true), (q, false)] := rfl
  rw [h, applyTerm_append, C09.C09_number_op q a b]
  unfold thenApply occ
  by_cases hq : (if q % 2 = 0 then a.testBit (q / 2) else b.testBit (q / 2)) = true
  · simp only [hq, if_true]
    rw [C09.C09_number_op p a b]
    by_cases hp : (if p % 2 = 0 then a.testBit (p / 2) else b.testBit (p / 2)) = true
    · simp [hp]
    · simp [hp]
  · simp [hq]

/-- successive diagonal evolutions multiply their phases -/
theorem C17_phase_product {R : Type} [CommRing R] (cexp : R → R) (hexp : ∀ x y, cexp (x + y) = cexp x * cexp y)
    (e₁ e₂ x : R) : cexp e₂ * (cexp e₁ * x) = cexp (e₁ + e₂) * x := by
  rw [hexp]; ring

/-- a Trotter step applies its factors in order: folding the step list composes the maps -/
theorem C17_trotter_fold {S : Type} (steps₁ steps₂ : List (S → S)) (ψ : S) :
    (steps₁ ++ steps₂).foldl (fun s f => f s) ψ = steps₂.foldl (fun s f => f s) (steps₁.foldl (fun s f => f s) ψ) := by
  rw [List.foldl_append]

example : applyTerm [(0, true), (0, false), (3, true), (3, false)] 0b01 0b10 = some (false, 0b01, 0b10) := by decide

end C17
