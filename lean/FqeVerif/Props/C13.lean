/-
  Props/C13.lean — property theorems for C13 (kernels stay inside their buffers) — PARTIAL.

   * no undefined shift: every shift performed by the C bit helpers, as translated from bitstring.h on
     every run, has a count < 64 for orbital positions < 64 (including the wrap-around 2ull << 63)  : C13_shifts
   * the column batching of the accelerated kernels never leaves the row: each batch is non-empty,
     inside [0, lenb), and the last one ends exactly at lenb                                        : C13_batches
   * a block addressed as `base + i·stride + k` with `i < n`, `k < stride` stays inside `n·stride`  : C13_block_in_bounds
   * the stack array `occ[16]` of make_mapping_each_set: cross-sector maps are linked only for
     |Δnα|, |Δnβ| ≤ maxspin, and the library constructs its sets with maxspin ≤ 2 < 16             : C13_occ16
  Memory safety of the compiled code itself is decided by the AddressSanitizer/UBSan run over
  boundary shapes (correspondence).
-/
import FqeVerif.Props.C05
import FqeVerif.Props.C10
namespace C13
open Model

theorem C13_shifts (s : BitVec 64) (i j : Nat) (hi : i < 64) (hj : j < 64) :
    (∀ c ∈ GenC.count_bits_between_shifts s i j, c < 64) ∧
    (∀ c ∈ GenC.count_bits_above_shifts s i, c < 64) ∧
    (∀ c ∈ GenC.set_bit_shifts s i, c < 64) ∧
    (∀ c ∈ GenC.unset_bit_shifts s i, c < 64) ∧
    (∀ c ∈ GenC.check_bit_shifts s i, c < 64) :=
  C05.C05_c_shifts s i j hi hj

theorem C13_batches (lenb nbatch : Nat) (hl : 0 < lenb) (hb : nbatch < (lenb - 1) / GenOmp.ZAXPY_STRIDE + 1) :
    0 < min GenOmp.ZAXPY_STRIDE (lenb - nbatch * GenOmp.ZAXPY_STRIDE) ∧
    nbatch * GenOmp.ZAXPY_STRIDE + min GenOmp.ZAXPY_STRIDE (lenb - nbatch * GenOmp.ZAXPY_STRIDE) ≤ lenb :=
  let h := C10.C10_batches lenb GenOmp.ZAXPY_STRIDE nbatch (by decide) hl hb
  ⟨h.1, h.2.1⟩

theorem C13_block_in_bounds (n stride i k : Nat) (hi : i < n) (hk : k < stride) : i * stride + k < n * stride := by
  have h1 : (i + 1) * stride ≤ n * stride := Nat.mul_le_mul_right _ hi
  rw [Nat.add_mul, Nat.one_mul] at h1
  omega

/-- the linking condition of `FciGraphSet._link` -/
def linked (maxparticle maxspin : Nat) (dna dnb : Int) : Bool :=
  decide ((dna + dnb).natAbs ≤ maxparticle) && decide (max dna.natAbs dnb.natAbs ≤ maxspin)

theorem C13_occ16 (maxparticle maxspin : Nat) (dna dnb : Int) (hms : maxspin ≤ 2)
    (h : linked maxparticle maxspin dna dnb = true) : dna.natAbs < 16 ∧ dnb.natAbs < 16 := by
  unfold linked at h
  simp only [Bool.and_eq_true, decide_eq_true_eq] at h
  have := h.2
  omega

example : linked 2 2 (-2) 0 = true ∧ linked 2 2 3 0 = false := by decide

end C13
