/-
  Props/C14.lean — property theorems for C14 (incompatible requests are refused).

  For the transcribed guards (Model/Guards.lean) "refused ⇔ incompatible" is proved with the
  incompatibility written out as a predicate on the request:
   * apply / time_evolve: number-conservation mismatch in either direction, or a dense Hamiltonian of
     the wrong orbital dimension                                                   : C14_apply_refuse
   * ax_plus_y: different sector sets                                               : C14_axpy_refuse
   * constructor: both symmetries broken, inconsistent orbital counts, impossible sectors : C14_ctor_refuse
   * propagator arguments: non-integer expansion, unknown algorithm, Chebyshev without spectral bounds : C14_unitary_refuse
  That the library's guards are these, that operands are unchanged after a refusal, that admitted
  calls return the correct result and that no argument values terminate the interpreter is decided by
  the correspondence (each case in its own guarded subprocess batch).
-/
import FqeVerif.Model.Guards
namespace C14
open Model

/-- what "incompatible" means for `apply` -/
def ApplyIncompatible (wN hN : Bool) (cls : HamClass) (dim norb : Nat) : Prop :=
  wN ≠ hN ∨
  (cls = .restricted ∧ dim ≠ norb) ∨ (cls = .spinOrbital ∧ dim ≠ 2 * norb) ∨
  (cls = .diagonal ∧ dim ≠ norb ∧ dim ≠ 2 * norb)

theorem C14_apply_refuse (wN hN : Bool) (cls : HamClass) (dim norb : Nat) :
    (admitApply wN hN cls dim norb).isSome ↔ ApplyIncompatible wN hN cls dim norb := by
  unfold admitApply ApplyIncompatible
  by_cases h : wN = hN
  · subst h
    cases cls <;> simp <;> omega
  · simp [h]

/-- the number-conservation mismatch is a `TypeError` in both directions, whatever else is wrong -/
theorem C14_apply_conservation (wN hN : Bool) (cls : HamClass) (dim norb : Nat) (h : wN ≠ hN) :
    admitApply wN hN cls dim norb = some .typeError := by
  unfold admitApply; simp [h]

theorem C14_axpy_refuse (same : Bool) : (admitAxpy same).isSome ↔ same = false := by
  cases same <;> simp [admitAxpy]

theorem C14_ctor_refuse (bs bn nc ok : Bool) :
    (admitCtor bs bn nc ok).isSome ↔ ((bs = true ∧ bn = true) ∨ nc = false ∨ ok = false) := by
  cases bs <;> cases bn <;> cases nc <;> cases ok <;> simp [admitCtor]

theorem C14_unitary_refuse (isInt known cheb spec : Bool) :
    (admitGeneratedUnitary isInt known cheb spec).isSome ↔
      (isInt = false ∨ known = false ∨ (cheb = true ∧ spec = false)) := by
  cases isInt <;> cases known <;> cases cheb <;> cases spec <;> simp [admitGeneratedUnitary]

example : admitApply true true .restricted 3 2 = some .valueError ∧ admitApply true false .sparse 0 2 = some .typeError ∧
    admitApply true true .spinOrbital 4 2 = none := by decide

end C14
