/-
  Props/C14.lean — property theorems for C14 (incompatible requests are refused).

  For the transcribed guards (Model/Guards.lean) "refused ⇔ incompatible" is proved with the
  incompatibility written out as a predicate on the request:
   * apply / time_evolve: number-conservation mismatch in either direction, or a dense Hamiltonian of
     the wrong orbital dimension                                                   : C14_apply_refuse
   * ax_plus_y: different sector sets                                               : C14_axpy_refuse
   * constructor: both symmetries broken, inconsistent orbital counts, impossible sectors : C14_ctor_refuse
   * propagator arguments: non-integer expansion, unknown algorithm, Chebyshev without spectral bounds : C14_unitary_refuse
  That the library's guards are these, that operands are unchanged after a refusal, that admitted
  calls return the correct result and that no argument values terminate the interpreter is decided by
  the correspondence (each case in its own guarded subprocess batch).
-/
import FqeVerif.Model.Guards
import FqeVerif.Generated.GuardInventory
namespace C14
open Model

/-- what "incompatible" means for `apply` -/
def ApplyIncompatible (wN hN : Bool) (cls : HamClass) (dim norb : Nat) : Prop :=
  wN ≠ hN ∨
  (cls = .restricted ∧ dim ≠ norb) ∨ (cls = .spinOrbital ∧ dim ≠ 2 * norb) ∨
  (cls = .diagonal ∧ dim ≠ norb ∧ dim ≠ 2 * norb)

theorem C14_apply_refuse (wN hN : Bool) (cls : HamClass) (dim norb : Nat) :
    (admitApply wN hN cls dim norb).isSome ↔ ApplyIncompatible wN hN cls dim norb := by
  unfold admitApply ApplyIncompatible
  by_cases h : wN = hN
  · subst h
    cases cls <;> simp <;> omega
  · simp [h]

/-- the number-conservation mismatch is a `TypeError` in both directions, whatever else is wrong -/
theorem C14_apply_conservation (wN hN : Bool) (cls : HamClass) (dim norb : Nat) (h : wN ≠ hN) :
    admitApply wN hN cls dim norb = some .typeError := by
  unfold admitApply; simp [h]

theorem C14_axpy_refuse (same : Bool) : (admitAxpy same).isSome ↔ same = false := by
  cases same <;> simp [admitAxpy]

theorem C14_ctor_refuse (bs bn nc ok : Bool) :
    (admitCtor bs bn nc ok).isSome ↔ ((bs = true ∧ bn = true) ∨ nc = false ∨ ok = false) := by
  cases bs <;> cases bn <;> cases nc <;> cases ok <;> simp [admitCtor]

theorem C14_unitary_refuse (isInt known cheb spec : Bool) :
    (admitGeneratedUnitary isInt known cheb spec).isSome ↔
      (isInt = false ∨ known = false ∨ (cheb = true ∧ spec = false)) := by
  cases isInt <;> cases known <;> cases cheb <;> cases spec <;> simp [admitGeneratedUnitary]

/-! ### operator indices beyond the orbital range (dense conversion `fermionops_tomatrix`) -/

theorem largestIndex_fold (idxs : List Nat) (acc : Int × Int) (B : Int) :
    let m := idxs.foldl (fun (acc : Int × Int) (i : Nat) => if i % 2 = 1 then (acc.1, max (i : Int) acc.2) else (max (i : Int) acc.1, acc.2)) acc
    (B ≤ m.1 ↔ B ≤ acc.1 ∨ ∃ i ∈ idxs, i % 2 = 0 ∧ B ≤ (i : Int)) ∧
    (B ≤ m.2 ↔ B ≤ acc.2 ∨ ∃ i ∈ idxs, i % 2 = 1 ∧ B ≤ (i : Int)) := by
  induction idxs generalizing acc with
  | nil => simp
  | cons x xs ih =>
    simp only [List.foldl_cons]
    have h := ih (if x % 2 = 1 then (acc.1, max (x : Int) acc.2) else (max (x : Int) acc.1, acc.2))
    simp only [] at h ⊢
    obtain ⟨h1, h2⟩ := h
    by_cases hx : x % 2 = 1
    · simp only [hx, if_true] at h1 h2 ⊢
      constructor
      · rw [h1]
        constructor
        · rintro (a | ⟨i, hi, e, b⟩)
          · exact Or.inl a
          · exact Or.inr ⟨i, List.mem_cons_of_mem _ hi, e, b⟩
        · rintro (a | ⟨i, hi, e, b⟩)
          · exact Or.inl a
          · rcases List.mem_cons.1 hi with rfl | hi
            · omega
            · exact Or.inr ⟨i, hi, e, b⟩
      · rw [h2]
        constructor
        · rintro (a | ⟨i, hi, e, b⟩)
          · by_cases q : B ≤ (x : Int)
            · exact Or.inr ⟨x, List.mem_cons_self, hx, q⟩
            · exact Or.inl (by omega)
          · exact Or.inr ⟨i, List.mem_cons_of_mem _ hi, e, b⟩
        · rintro (a | ⟨i, hi, e, b⟩)
          · exact Or.inl (by omega)
          · rcases List.mem_cons.1 hi with rfl | hi
            · exact Or.inl (by omega)
            · exact Or.inr ⟨i, hi, e, b⟩
    · have hx0 : x % 2 = 0 := by omega
      simp only [hx, if_false] at h1 h2 ⊢
      constructor
      · rw [h1]
        constructor
        · rintro (a | ⟨i, hi, e, b⟩)
          · by_cases q : B ≤ (x : Int)
            · exact Or.inr ⟨x, List.mem_cons_self, hx0, q⟩
            · exact Or.inl (by omega)
          · exact Or.inr ⟨i, List.mem_cons_of_mem _ hi, e, b⟩
        · rintro (a | ⟨i, hi, e, b⟩)
          · exact Or.inl (by omega)
          · rcases List.mem_cons.1 hi with rfl | hi
            · exact Or.inl (by omega)
            · exact Or.inr ⟨i, hi, e, b⟩
      · rw [h2]
        constructor
        · rintro (a | ⟨i, hi, e, b⟩)
          · exact Or.inl a
          · exact Or.inr ⟨i, List.mem_cons_of_mem _ hi, e, b⟩
        · rintro (a | ⟨i, hi, e, b⟩)
          · exact Or.inl a
          · rcases List.mem_cons.1 hi with rfl | hi
            · omega
            · exact Or.inr ⟨i, hi, e, b⟩

/-- the dense conversion refuses an operator exactly when one of its mode indices lies outside
    `0 .. 2·norb − 1` (either spin) -/
theorem C14_opindex_refuse (norb : Nat) (idxs : List Nat) :
    (admitOpIndices norb idxs).isSome ↔ ∃ i ∈ idxs, 2 * norb ≤ i := by
  unfold admitOpIndices largestIndex
  have h := largestIndex_fold idxs (-1, -1) (2 * (norb : Int))
  simp only [] at h
  obtain ⟨h1, h2⟩ := h
  generalize (idxs.foldl (fun (acc : Int × Int) (i : Nat) => if i % 2 = 1 then (acc.1, max (i : Int) acc.2) else (max (i : Int) acc.1, acc.2)) ((-1 : Int), (-1 : Int))) = m at h1 h2
  have e1 : ((norb : Int) ≤ m.1 / 2) ↔ 2 * (norb : Int) ≤ m.1 := by omega
  have e2 : ((norb : Int) ≤ m.2 / 2) ↔ 2 * (norb : Int) ≤ m.2 := by omega
  simp only []
  constructor
  · intro hs
    by_cases c1 : (norb : Int) ≤ m.1 / 2
    · rcases h1.1 (e1.1 c1) with a | ⟨i, hi, _, b⟩
      · omega
      · exact ⟨i, hi, by omega⟩
    · by_cases c2 : (norb : Int) ≤ m.2 / 2
      · rcases h2.1 (e2.1 c2) with a | ⟨i, hi, _, b⟩
        · omega
        · exact ⟨i, hi, by omega⟩
      · simp [c1, c2] at hs
  · rintro ⟨i, hi, b⟩
    by_cases ev : i % 2 = 0
    · have : (norb : Int) ≤ m.1 / 2 := e1.2 (h1.2 (Or.inr ⟨i, hi, ev, by omega⟩))
      simp [this]
    · have : (norb : Int) ≤ m.2 / 2 := e2.2 (h2.2 (Or.inr ⟨i, hi, by omega, by omega⟩))
      by_cases c1 : (norb : Int) ≤ m.1 / 2 <;> simp [c1, this]

/-! ### RDM / Wick patterns -/

theorem patternGo_none (sf : Bool) (nr : Nat) (ts : List Tok) (idx : Nat) (out : List (Nat × Bool × Nat))
    (h : patternGo sf nr idx out ts = none) :
    (∀ t ∈ ts, t.shaped = true) ∧ (ts.map (·.label)).Nodup ∧ ∀ t ∈ ts, ∀ o ∈ out, o.1 ≠ t.label := by
  induction ts generalizing idx out with
  | nil => simp
  | cons t ts ih =>
    rw [patternGo] at h
    by_cases hs : t.shaped = true
    · simp only [hs, Bool.not_true, Bool.false_eq_true, if_false] at h
      by_cases hu : out.any (fun o => o.1 == t.label) = true
      · simp [hu] at h
      · simp only [hu, Bool.false_eq_true, if_false] at h
        by_cases hc : (sf && out.any (fun o => o.2.2 == spinSlot sf nr idx && o.2.1 == t.dag)) = true
        · simp [hc] at h
        · simp only [hc, Bool.false_eq_true, if_false] at h
          obtain ⟨a, b, c⟩ := ih _ _ h
          have hu' : ∀ o ∈ out, o.1 ≠ t.label := by
            intro o ho e
            apply hu
            rw [List.any_eq_true]
            exact ⟨o, ho, by simp [e]⟩
          refine ⟨?_, ?_, ?_⟩
          · intro x hx
            rcases List.mem_cons.1 hx with rfl | hx
            · exact hs
            · exact a x hx
          · rw [List.map_cons, List.nodup_cons]
            refine ⟨?_, b⟩
            intro hm
            obtain ⟨x, hx, e⟩ := List.mem_map.1 hm
            exact c x hx (t.label, t.dag, spinSlot sf nr idx) (by simp) e.symm
          · intro x hx o ho
            rcases List.mem_cons.1 hx with rfl | hx
            · exact hu' o ho
            · exact c x hx o (by simp [ho])
    · simp [hs] at h

/-- a pattern that repeats a label — daggered or not, in any position —, has an odd number of tokens or contains a
    token that is not of the form `x` / `x^` is refused -/
theorem C14_pattern_refuse (sf : Bool) (toks : List Tok)
    (h : toks.length % 2 = 1 ∨ (∃ t ∈ toks, t.shaped = false) ∨ ¬ (toks.map (·.label)).Nodup) :
    (admitPattern sf toks).isSome := by
  unfold admitPattern
  by_cases hl : toks.length % 2 = 1
  · simp [hl]
  · simp only [hl, if_false]
    cases hp : patternGo sf (toks.length / 2) 0 [] toks with
    | some r => rfl
    | none =>
      obtain ⟨a, b, _⟩ := patternGo_none sf _ toks 0 [] hp
      rcases h with h | ⟨t, ht, hs⟩ | h
      · exact absurd h hl
      · rw [a t ht] at hs; cases hs
      · exact absurd b h

theorem patternGo_admits (nr : Nat) (ts : List Tok) (idx : Nat) (out : List (Nat × Bool × Nat))
    (hs : ∀ t ∈ ts, t.shaped = true) (hn : (ts.map (·.label)).Nodup) (hd : ∀ t ∈ ts, ∀ o ∈ out, o.1 ≠ t.label) :
    patternGo false nr idx out ts = none := by
  induction ts generalizing idx out with
  | nil => rfl
  | cons t ts ih =>
    rw [patternGo]
    have h1 : t.shaped = true := hs t List.mem_cons_self
    have h2 : out.any (fun o => o.1 == t.label) = false := by
      rw [List.any_eq_false]
      intro o ho
      simpa using hd t List.mem_cons_self o ho
    simp only [h1, Bool.not_true, Bool.false_eq_true, if_false, h2, Bool.false_and]
    rw [List.map_cons, List.nodup_cons] at hn
    apply ih
    · intro x hx; exact hs x (List.mem_cons_of_mem _ hx)
    · exact hn.2
    · intro x hx o ho
      rcases List.mem_append.1 ho with ho | ho
      · exact hd x (List.mem_cons_of_mem _ hx) o ho
      · simp at ho
        subst ho
        intro e
        exact hn.1 (List.mem_map.2 ⟨x, hx, e.symm⟩)

/-- spin-orbital (not spin-free) patterns: refused exactly for the three malformations above -/
theorem C14_pattern_iff (toks : List Tok) :
    (admitPattern false toks).isSome ↔
      (toks.length % 2 = 1 ∨ (∃ t ∈ toks, t.shaped = false) ∨ ¬ (toks.map (·.label)).Nodup) := by
  constructor
  · intro h
    by_cases a : toks.length % 2 = 1
    · exact Or.inl a
    · by_cases b : ∃ t ∈ toks, t.shaped = false
      · exact Or.inr (Or.inl b)
      · by_cases c : (toks.map (·.label)).Nodup
        · exfalso
          unfold admitPattern at h
          simp only [a, if_false] at h
          rw [patternGo_admits _ toks 0 [] (by
            intro t ht
            cases hs : t.shaped with
            | true => rfl
            | false => exact absurd ⟨t, ht, hs⟩ b) c (by simp)] at h
          cases h
        · exact Or.inr (Or.inr c)
  · exact C14_pattern_refuse false toks

example : (admitPattern true [⟨0, false, true⟩, ⟨0, true, true⟩]).isSome ∧
    (admitPattern true [⟨0, false, true⟩, ⟨1, false, true⟩, ⟨0, true, true⟩, ⟨2, true, true⟩]).isSome ∧
    admitPattern true [⟨0, true, true⟩, ⟨1, false, true⟩] = none ∧
    admitOpIndices 3 [0, 6, 2] = some .valueError ∧ admitOpIndices 3 [0, 5, 2] = none := by decide

example : admitApply true true .restricted 3 2 = some .valueError ∧ admitApply true false .sparse 0 2 = some .typeError ∧
    admitApply true true .spinOrbital 4 2 = none := by decide

/-! ### guard inventory (regenerated from the Python sources on every run by harness/translate/guards.py) -/

/-- the reviewed guards of the anchored modules: (file, function, raise/assert, exception class, triggering condition) -/
def reviewedGuards : List (String × String × String × String × String) := [
  ("src/fqe/wavefunction.py", "Wavefunction.__init__", "raise", "TypeError", "not self._conserve_spin and (not self._conserve_number)"),
  ("src/fqe/wavefunction.py", "Wavefunction.__init__", "raise", "ValueError", "len(user_input_norbs) != 1 && param"),
  ("src/fqe/wavefunction.py", "Wavefunction.ax_plus_y", "raise", "ValueError", "self._civec.keys() != wfn._civec.keys()"),
  ("src/fqe/wavefunction.py", "Wavefunction.ax_plus_y", "raise", "ValueError", "self._norb != wfn._norb"),
  ("src/fqe/wavefunction.py", "Wavefunction.apply", "raise", "TypeError", "self._conserve_number && not self._conserve_number or not hamil.conserve_number()"),
  ("src/fqe/wavefunction.py", "Wavefunction.apply", "raise", "TypeError", "hamil.conserve_number() && not self._conserve_number or not hamil.conserve_number()"),
  ("src/fqe/wavefunction.py", "Wavefunction.apply", "raise", "ValueError", "hamil.dim() != expected && not (isinstance(hamil, diagonal_coulomb.DiagonalCoulomb))"),
  ("src/fqe/wavefunction.py", "Wavefunction._apply_array", "assert", "AssertionError", "array[0].shape[0] == self._norb or array[0].shape[0] == self._norb * 2"),
  ("src/fqe/wavefunction.py", "Wavefunction._apply_array", "assert", "AssertionError", "array[0].shape[0] == self._norb * 2"),
  ("src/fqe/wavefunction.py", "Wavefunction._apply_diagonal_coulomb", "raise", "ValueError", "hamil.dim() != self._norb"),
  ("src/fqe/wavefunction.py", "Wavefunction._number_sectors", "raise", "ValueError", "set(self._civec.keys()).intersection(sp_compl) != sp_compl"),
  ("src/fqe/wavefunction.py", "Wavefunction.apply_generated_unitary", "assert", "AssertionError", "isinstance(hamil, hamiltonian.Hamiltonian)"),
  ("src/fqe/wavefunction.py", "Wavefunction.apply_generated_unitary", "raise", "TypeError", "not isinstance(expansion, int)"),
  ("src/fqe/wavefunction.py", "Wavefunction.apply_generated_unitary", "assert", "AssertionError", "algo in algo_avail"),
  ("src/fqe/wavefunction.py", "Wavefunction.apply_generated_unitary", "raise", "RuntimeError", "algo == 'taylor'"),
  ("src/fqe/wavefunction.py", "Wavefunction.apply_generated_unitary", "assert", "AssertionError", "spec_lim"),
  ("src/fqe/wavefunction.py", "Wavefunction.apply_generated_unitary", "raise", "RuntimeError", "algo == 'chebyshev' && not (algo == 'taylor')"),
  ("src/fqe/wavefunction.py", "Wavefunction.read", "raise", "TypeError", "not isinstance(sector[1], FqeData)"),
  ("src/fqe/wavefunction.py", "Wavefunction.set_wfn", "raise", "ValueError", "strategy == 'from_data' and (not raw_data)"),
  ("src/fqe/wavefunction.py", "Wavefunction.set_wfn", "raise", "ValueError", "numpy.shape(data) != (sector.lena(), sector.lenb()) && strategy == 'from_data'"),
  ("src/fqe/wavefunction.py", "Wavefunction.set_wfn", "raise", "ValueError", "len(self.sectors()) != 1 && strategy == 'hartree-fock'"),
  ("src/fqe/wavefunction.py", "Wavefunction.transform", "assert", "AssertionError", "external == (upp is not None)"),
  ("src/fqe/wavefunction.py", "Wavefunction.transform", "assert", "AssertionError", "numpy.allclose(rotation, low @ upp)"),
  ("src/fqe/wavefunction.py", "Wavefunction.transform.transpose_matrix", "assert", "AssertionError", "low.shape[1] == ndim and upp.shape == (ndim, ndim)"),
  ("src/fqe/wavefunction.py", "Wavefunction.transform.process_matrix", "assert", "AssertionError", "low.shape[1] == ndim and upp.shape == (ndim, ndim)"),
  ("src/fqe/wavefunction.py", "Wavefunction.transform", "assert", "AssertionError", "numpy.max(numpy.abs(rotation[:norb, norb:])) + numpy.max(numpy.abs(rotation[norb:, :norb])) < 1e-08"),
  ("src/fqe/wavefunction.py", "Wavefunction.transform", "raise", "ValueError", "not (rotation.shape[0] == norb * 2) && not (rotation.shape[0] == norb)"),
  ("src/fqe/wavefunction.py", "Wavefunction.time_evolve", "assert", "AssertionError", "isinstance(hamil, hamiltonian.Hamiltonian)"),
  ("src/fqe/wavefunction.py", "Wavefunction.time_evolve", "raise", "TypeError", "self._conserve_number && not self._conserve_number or not hamil.conserve_number()"),
  ("src/fqe/wavefunction.py", "Wavefunction.time_evolve", "raise", "TypeError", "hamil.conserve_number() && not self._conserve_number or not hamil.conserve_number()"),
  ("src/fqe/wavefunction.py", "Wavefunction.time_evolve", "raise", "ValueError", "hamil.dim() != expected && not isinstance(hamil, (sparse_hamiltonian.SparseHamiltonian, diagonal_hamiltonian.Diagonal))"),
  ("src/fqe/wavefunction.py", "Wavefunction.time_evolve", "raise", "ValueError", "inplace and (not is_diag and (not hamil.quadratic())) && not (isinstance(hamil, sparse_hamiltonian.SparseHamiltonian) and hamil.is_individual())"),
  ("src/fqe/wavefunction.py", "Wavefunction.expectationValue", "raise", "TypeError", "not isinstance(ops, hamiltonian.Hamiltonian)"),
  ("src/fqe/wavefunction.py", "Wavefunction._apply_individual_nbody", "assert", "AssertionError", "isinstance(hamil, sparse_hamiltonian.SparseHamiltonian)"),
  ("src/fqe/wavefunction.py", "Wavefunction._apply_individual_nbody", "raise", "ValueError", "hamil.nterms() > 1"),
  ("src/fqe/wavefunction.py", "Wavefunction._apply_individual_nbody", "raise", "ValueError", "oper[0] >= self._norb"),
  ("src/fqe/wavefunction.py", "Wavefunction._apply_individual_nbody", "raise", "ValueError", "oper[0] >= self._norb"),
  ("src/fqe/wavefunction.py", "Wavefunction._apply_individual_nbody", "raise", "ValueError", "len(daga) + len(dagb) != len(undaga) + len(undagb)"),
  ("src/fqe/wavefunction.py", "Wavefunction._evolve_individual_nbody", "raise", "TypeError", "not isinstance(hamil, sparse_hamiltonian.SparseHamiltonian)"),
  ("src/fqe/wavefunction.py", "Wavefunction._evolve_individual_nbody", "raise", "ValueError", "hamil.nterms() > 2"),
  ("src/fqe/wavefunction.py", "Wavefunction._evolve_individual_nbody", "raise", "ValueError", "not check && self._conserve_number"),
  ("src/fqe/wavefunction.py", "Wavefunction._evolve_individual_nbody", "raise", "ValueError", "not check && self._conserve_number"),
  ("src/fqe/wavefunction.py", "Wavefunction._evolve_individual_nbody", "raise", "ValueError", "numpy.abs(numpy.imag(coeff0)) > 1e-08 && not (hamil.nterms() == 2)"),
  ("src/fqe/wavefunction.py", "Wavefunction._evolve_individual_nbody", "raise", "ValueError", "oper[0] >= self._norb"),
  ("src/fqe/wavefunction.py", "Wavefunction._evolve_individual_nbody", "raise", "ValueError", "oper[0] >= self._norb"),
  ("src/fqe/wavefunction.py", "Wavefunction._evolve_individual_nbody", "raise", "ValueError", "not numpy.abs(coeff0 - numpy.conj(coeff1) * parity) < 1e-08 && hamil.nterms() == 2"),
  ("src/fqe/wavefunction.py", "Wavefunction._compute_rdm", "assert", "AssertionError", "rank > 0"),
  ("src/fqe/wavefunction.py", "Wavefunction._compute_rdm", "assert", "AssertionError", "rank < 5"),
  ("src/fqe/wavefunction.py", "Wavefunction._compute_rdm", "assert", "AssertionError", "brawfn is None or key in brawfn.sectors()"),
  ("src/fqe/wavefunction.py", "Wavefunction._compute_rdm", "assert", "AssertionError", "brawfn is None or nkey in brawfn._number_sectors().keys()"),
  ("src/fqe/util.py", "alpha_beta_electrons", "raise", "ValueError", "nele < 0"),
  ("src/fqe/util.py", "alpha_beta_electrons", "raise", "ValueError", "nele < abs(m_s)"),
  ("src/fqe/util.py", "alpha_beta_electrons", "raise", "ValueError", "(nele + m_s) % 2 != 0"),
  ("src/fqe/util.py", "validate_config", "raise", "ValueError", "nalpha < 0"),
  ("src/fqe/util.py", "validate_config", "raise", "ValueError", "nbeta < 0"),
  ("src/fqe/util.py", "validate_config", "raise", "ValueError", "norb < 0"),
  ("src/fqe/util.py", "validate_config", "raise", "ValueError", "norb < nalpha or norb < nbeta"),
  ("src/fqe/util.py", "validate_tuple", "assert", "AssertionError", "isinstance(matrices, tuple)"),
  ("src/fqe/util.py", "validate_tuple", "assert", "AssertionError", "isinstance(term, numpy.ndarray)"),
  ("src/fqe/util.py", "validate_tuple", "assert", "AssertionError", "2 * (rank + 1) == term.ndim"),
  ("src/fqe/fqe_decorators.py", "build_hamiltonian", "raise", "TypeError", "not isinstance(ops, FermionOperator)"),
  ("src/fqe/fqe_decorators.py", "build_hamiltonian", "assert", "AssertionError", "is_hermitian(ops)"),
  ("src/fqe/fqe_decorators.py", "build_hamiltonian", "assert", "AssertionError", "len(dtypes) == 1"),
  ("src/fqe/fqe_decorators.py", "split_openfermion_tensor", "raise", "ValueError", "rank % 2"),
  ("src/fqe/fqe_decorators.py", "fermionops_tomatrix", "raise", "ValueError", "norb <= ablk // 2"),
  ("src/fqe/fqe_decorators.py", "fermionops_tomatrix", "raise", "ValueError", "norb <= bblk // 2"),
  ("src/fqe/fqe_decorators.py", "fermionops_tomatrix", "raise", "ValueError", "rank % 2"),
  ("src/fqe/fqe_decorators.py", "fermionops_tomatrix", "raise", "ValueError", "not term[i][1] && i < rank // 2"),
  ("src/fqe/fqe_decorators.py", "fermionops_tomatrix", "raise", "ValueError", "term[i][1] && not (i < rank // 2)"),
  ("src/fqe/fqe_decorators.py", "process_rank2_matrix", "raise", "ValueError", "not numpy.allclose(mat, mat.conj().T)"),
  ("src/fqe/fqe_decorators.py", "check_diagonal_coulomb", "assert", "AssertionError", "mat.shape == (dim, dim, dim, dim)"),
  ("src/fqe/wick.py", "wick.process_string", "assert", "AssertionError", "len(rawinp) % 2 != 1"),
  ("src/fqe/wick.py", "wick.process_string", "raise", "ValueError", "not (len(iop) == 1 or (len(iop) == 2 and iop[1] == '^'))"),
  ("src/fqe/wick.py", "wick.process_string", "assert", "AssertionError", "iop[0] not in used"),
  ("src/fqe/wick.py", "wick.process_string", "raise", "ValueError", "spinfree and other[2] == ispin and (other[1] == dagger)"),
  ("src/fqe/wick.py", "wick", "assert", "AssertionError", "len(targ) % 2 == 0"),
  ("src/fqe/wick.py", "wick", "assert", "AssertionError", "len(data) >= rank"),
  ("src/fqe/wick.py", "wick", "assert", "AssertionError", "len(cops) % 2 == 0"),
  ("src/fqe/wick.py", "wick", "assert", "AssertionError", "len(term[1]) % 2 == 0"),
  ("src/fqe/wick.py", "wickfill", "assert", "AssertionError", "srank * 2 == len(indices)"),
  ("src/fqe/wick.py", "wickfill", "assert", "AssertionError", "len(delta) == 1"),
  ("src/fqe/wick.py", "wickfill", "assert", "AssertionError", "not delta"),
  ("src/fqe/wick.py", "wickfill", "assert", "AssertionError", "len(delta) == 2"),
  ("src/fqe/wick.py", "wickfill", "assert", "AssertionError", "len(delta) == 1"),
  ("src/fqe/wick.py", "wickfill", "assert", "AssertionError", "not delta"),
  ("src/fqe/wick.py", "wickfill", "assert", "AssertionError", "len(delta) == 3"),
  ("src/fqe/wick.py", "wickfill", "assert", "AssertionError", "len(delta) == 2"),
  ("src/fqe/wick.py", "wickfill", "assert", "AssertionError", "len(delta) == 1"),
  ("src/fqe/wick.py", "wickfill", "assert", "AssertionError", "not delta"),
  ("src/fqe/wick.py", "wickfill", "assert", "AssertionError", "len(delta) == 4"),
  ("src/fqe/wick.py", "wickfill", "assert", "AssertionError", "len(delta) == 3"),
  ("src/fqe/wick.py", "wickfill", "assert", "AssertionError", "len(delta) == 2"),
  ("src/fqe/wick.py", "wickfill", "assert", "AssertionError", "len(delta) == 1"),
  ("src/fqe/wick.py", "wickfill", "assert", "AssertionError", "not delta"),
  ("src/fqe/fqe_ops/fqe_ops_utils.py", "validate_rdm_string", "assert", "AssertionError", "nops % 2 == 0"),
  ("src/fqe/fqe_ops/fqe_ops_utils.py", "validate_rdm_string", "raise", "TypeError", "not (annihilation.match(opr)) && not (creation.match(opr))"),
  ("src/fqe/fqe_ops/fqe_ops_utils.py", "validate_rdm_string", "assert", "AssertionError", "nani == ncre"),
  ("src/fqe/fqe_ops/fqe_ops_utils.py", "validate_rdm_string", "raise", "TypeError", "not (annihilation.match(opr)) && not (creation.match(opr))"),
  ("src/fqe/fqe_ops/fqe_ops_utils.py", "validate_rdm_string", "raise", "ValueError", "nani != ncre"),
  ("src/fqe/hamiltonians/general_hamiltonian.py", "General.__init__", "raise", "TypeError", "not isinstance(matrix, numpy.ndarray)"),
  ("src/fqe/hamiltonians/general_hamiltonian.py", "General.__init__", "raise", "ValueError", "matrix.ndim % 2"),
  ("src/fqe/hamiltonians/general_hamiltonian.py", "General.__init__", "assert", "AssertionError", "self._tensor"),
  ("src/fqe/hamiltonians/diagonal_hamiltonian.py", "Diagonal.__init__", "raise", "ValueError", "hdiag.ndim != 1"),
  ("src/fqe/hamiltonians/restricted_hamiltonian.py", "RestrictedHamiltonian.__init__", "raise", "TypeError", "not (isinstance(rank, int) and isinstance(matrix, numpy.ndarray))"),
  ("src/fqe/hamiltonians/restricted_hamiltonian.py", "RestrictedHamiltonian.__init__", "raise", "ValueError", "matrix.ndim % 2"),
  ("src/fqe/hamiltonians/restricted_hamiltonian.py", "RestrictedHamiltonian.__init__", "assert", "AssertionError", "self._tensor"),
  ("src/fqe/hamiltonians/sparse_hamiltonian.py", "SparseHamiltonian.dim", "raise", "NotImplementedError", "unconditional"),
  ("src/fqe/_fqe_control.py", "get_spin_conserving_wavefunction", "raise", "ValueError", "not param"),
  ("src/fqe/_fqe_control.py", "get_number_conserving_wavefunction", "raise", "ValueError", "not param"),
  ("src/fqe/_fqe_control.py", "get_hamiltonian_from_openfermion", "assert", "AssertionError", "isinstance(ops, FermionOperator)")]

set_option maxRecDepth 100000 in
/-- every guard present in the current sources is a reviewed one with the reviewed condition and exception class, and
    none has disappeared (a removed, moved, weakened or re-typed guard changes the regenerated table) -/
theorem C14_guard_inventory : GenGuards.inventory = reviewedGuards := by decide +kernel

/-- the guards the decision models of `Model/Guards.lean` transcribe, with the transcribed conditions -/
def modelledGuards : List (String × String × String × String × String) := [
  ("src/fqe/fqe_decorators.py", "fermionops_tomatrix", "raise", "ValueError", "norb <= ablk // 2"),
  ("src/fqe/fqe_decorators.py", "fermionops_tomatrix", "raise", "ValueError", "norb <= bblk // 2"),
  ("src/fqe/wick.py", "wick.process_string", "assert", "AssertionError", "iop[0] not in used"),
  ("src/fqe/wick.py", "wick.process_string", "assert", "AssertionError", "len(rawinp) % 2 != 1"),
  ("src/fqe/wavefunction.py", "Wavefunction.ax_plus_y", "raise", "ValueError", "self._civec.keys() != wfn._civec.keys()"),
  ("src/fqe/wavefunction.py", "Wavefunction.apply_generated_unitary", "raise", "TypeError", "not isinstance(expansion, int)")]

set_option maxRecDepth 100000 in
/-- … are present in the current sources -/
theorem C14_modelled_guards_present : modelledGuards.all (fun g => GenGuards.inventory.contains g) = true := by
  decide +kernel

/-! ### branch skeleton of the transcribed function (regenerated by harness/translate/guards.py) -/

/-- the guards of `Wavefunction.apply` in the order Model/Guards.lean `admitApply` transcribes them (conservation flags first, then the dimension) -/
def C14_apply_skeletonReviewed : List String := ["if not self._conserve_number or not hamil.conserve_number()", "if self._conserve_number", "raise TypeError", "endif", "if hamil.conserve_number()", "raise TypeError", "endif", "endif", "if isinstance(hamil, sparse_hamiltonian.SparseHamiltonian)", "if hamil.nterms() == 0", "else", "endif", "else", "if self._conserve_spin and (not self._conserve_number)", "else", "endif", "if isinstance(hamil, diagonal_hamiltonian.Diagonal)", "else", "if isinstance(hamil, diagonal_coulomb.DiagonalCoulomb)", "else", "if isinstance(hamil, restricted_hamiltonian.RestrictedHamiltonian)", "else", "endif", "if hamil.dim() != expected", "raise ValueError", "endif", "endif", "endif", "if self._conserve_spin and (not self._conserve_number)", "endif", "endif", "return"]

set_option maxRecDepth 100000 in
theorem C14_apply_skeleton : (GenGuards.decisionSkeleton.find? (fun e => e.1 == "src/fqe/wavefunction.py" && e.2.1 == "Wavefunction.apply")).map (·.2.2) =
    some C14_apply_skeletonReviewed := by decide +kernel

end C14
