/-
  Props/C10.lean — property theorems for C10 (independence of threads and schedule) — PARTIAL.

  Every `#pragma omp` of src/fqe/lib/*.c is inventoried by harness/translate/omp.py on every run
  (Generated/OmpInventory.lean).  `reviewed` below is the list of parallel constructs that were read and
  classified by the discipline that makes them race free:
    rowPartition    — iteration `i` writes only locations `base + i·stride + k`, `k < stride`
                      (output row / per-map block / per-thread scratch)               : C10_row_partition
    mapInjective    — iterations are entries of one excitation map; they write at the entry's target,
                      and targets of one map are pairwise distinct                     : C10_map_injective
    idempotentStore — different iterations may store to one cell, always the same value (`= 1`)
    region          — a bare `parallel` region; the work-sharing loops inside are listed separately
   * the inventory generated from the current sources is exactly the reviewed list     : C10_inventory
     (a new pragma, a pragma moved to another loop, a serial loop made parallel, a changed schedule /
      reduction clause breaks this obligation)
   * the batching arithmetic used inside the parallel kernels covers every column once  : C10_batches
  The model proves index disjointness only; it cannot exhibit an interleaving.  Actual independence of
  the thread count is decided by the exact differential run (1…16 threads, static/dynamic schedules,
  repeated, and a build without OpenMP): with integer-valued data a lost update is a wrong integer.
-/
import FqeVerif.Generated.OmpInventory
import FqeVerif.Props.C05
namespace C10
open Model

inductive Discipline where
  | rowPartition | mapInjective | idempotentStore | region | atomicStore
deriving DecidableEq, Repr

/-- the reviewed parallel constructs, in source order -/
def reviewed : List ((String × String × String × String) × Discipline) := [
  (("cirq_utils.c", "detect_cirq_sectors", "parallel for schedule(static)", "alpha_id from 0 while alpha_id < alpha_states"), Discipline.idempotentStore),
  (("cirq_utils.c", "detect_cirq_sectors", "atomic write", "-"), Discipline.atomicStore),
  (("fci_graph.c", "calculate_Z_matrix", "parallel for schedule(static) collapse(2)", "km from 0 while km < nele - 1"), Discipline.rowPartition),
  (("fci_graph.c", "map_deexc", "parallel for schedule(static)", "i from 0 while i < size"), Discipline.mapInjective),
  (("fci_graph.c", "build_mapping_strings", "parallel for schedule(static)", "mapno from 0 while mapno < nmaps"), Discipline.rowPartition),
  (("fci_graph.c", "calculate_string_address", "parallel for schedule(static)", "i from 0 while i < length"), Discipline.rowPartition),
  (("fci_graph.c", "map_to_deexc_alpha_icol", "parallel for schedule(dynamic)", "i from 0 while i < norb"), Discipline.rowPartition),
  (("fci_graph.c", "make_mapping_each_set", "parallel for schedule(dynamic)", "c from 0 while c < msize"), Discipline.rowPartition),
  (("fqe_data.c", "lm_apply_array12_same_spin", "parallel for schedule(static) shared(dexc, out, h2e, coeff)", "s1 from 0 while s1 < states1"), Discipline.rowPartition),
  (("fqe_data.c", "lm_apply_array12_diff_spin", "parallel for schedule(static)", "i from 0 while i < beta_states * nbdexc"), Discipline.rowPartition),
  (("fqe_data.c", "lm_apply_array12_diff_spin", "parallel for schedule(static) shared(adexc, bdexc, out, h2e, coeff)", "s1 from 0 while s1 < alpha_states"), Discipline.rowPartition),
  (("fqe_data.c", "lm_apply_array1_old", "parallel for schedule(static) shared(dexc, out, h1e, coeff)", "s1 from 0 while s1 < states1"), Discipline.rowPartition),
  (("fqe_data.c", "lm_apply_array1_sparse", "parallel", "-"), Discipline.region),
  (("fqe_data.c", "lm_apply_array1_sparse", "for schedule(static)", "ii from 0 while ii < nsig*states2"), Discipline.rowPartition),
  (("fqe_data.c", "lm_apply_array1_sparse", "for schedule(static)", "isig from 0 while isig < nsig"), Discipline.rowPartition),
  (("fqe_data.c", "lm_apply_array1_sparse", "for schedule(static)", "s2 from 0 while s2 < states2"), Discipline.rowPartition),
  (("fqe_data.c", "lm_apply_array1", "parallel for schedule(static)", "s1 from 0 while s1 < states1"), Discipline.rowPartition),
  (("fqe_data.c", "lm_apply_array1_column_alpha", "parallel for schedule(static)", "a from 0 while a < nexc0"), Discipline.rowPartition),
  (("fqe_data.c", "lm_apply_array1_column_alpha", "parallel for schedule(static)", "i from 0 while i < nexc2"), Discipline.rowPartition),
  (("fqe_data.c", "zdvec_make", "parallel for schedule(dynamic)", "mapno from 0 while mapno < nr_maps"), Discipline.rowPartition),
  (("fqe_data.c", "zdiagonal_coulomb_part", "parallel for schedule(static)", "i from 0 while i < states"), Discipline.rowPartition),
  (("fqe_data.c", "zdiagonal_coulomb_apply", "parallel for schedule(static)", "as from 0 while as < alpha_states"), Discipline.rowPartition),
  (("fqe_data.c", "zdiagonal_coulomb_apply", "parallel for schedule(static)", "bs from 0 while bs < beta_states"), Discipline.rowPartition),
  (("fqe_data.c", "zdiagonal_coulomb_apply", "parallel shared(aocc, bocc, output, array, adiag, bdiag)", "-"), Discipline.region),
  (("fqe_data.c", "zdiagonal_coulomb_apply", "for schedule(static)", "as from 0 while as < alpha_states"), Discipline.rowPartition),
  (("fqe_data.c", "zdiagonal_coulomb", "parallel for schedule(static)", "as from 0 while as < alpha_states"), Discipline.rowPartition),
  (("fqe_data.c", "zdiagonal_coulomb", "parallel for schedule(static)", "bs from 0 while bs < beta_states"), Discipline.rowPartition),
  (("fqe_data.c", "zdiagonal_coulomb", "parallel for schedule(static)", "i from 0 while i < norbs"), Discipline.rowPartition),
  (("fqe_data.c", "zdiagonal_coulomb", "parallel for schedule(static)", "i from 0 while i < norbs * norbs"), Discipline.rowPartition),
  (("fqe_data.c", "zdiagonal_coulomb", "parallel shared(aocc, bocc, output, arrayexp, adiag, bdiag)", "-"), Discipline.region),
  (("fqe_data.c", "zdiagonal_coulomb", "for schedule(static)", "as from 0 while as < alpha_states"), Discipline.rowPartition),
  (("fqe_data.c", "make_dvec_part", "parallel for schedule(static)", "map from maps while map < &maps[nmaps]"), Discipline.mapInjective),
  (("fqe_data.c", "lm_apply_array12_same_spin_opt", "parallel", "-"), Discipline.region),
  (("fqe_data.c", "lm_apply_array12_same_spin_opt", "for schedule(static, 1)", "s1 from 0 while s1 < states1"), Discipline.rowPartition),
  (("fqe_data.c", "lm_apply_array12_diff_spin_omp1", "parallel", "-"), Discipline.region),
  (("fqe_data.c", "lm_apply_array12_diff_spin_omp1", "for schedule(static)", "ii from 0 while ii < nsig*beta_states"), Discipline.rowPartition),
  (("fqe_data.c", "lm_apply_array12_diff_spin_omp1", "for schedule(static)", "isig from 0 while isig < nsig"), Discipline.rowPartition),
  (("fqe_data.c", "lm_apply_array12_diff_spin_omp1", "for schedule(static)", "s2 from 0 while s2 < beta_states"), Discipline.rowPartition),
  (("fqe_data.c", "apply_array12_lowfillingab", "parallel for schedule(dynamic) collapse(2)", "i from 0 while i < norb"), Discipline.rowPartition),
  (("fqe_data.c", "apply_array12_lowfillingaa", "parallel for schedule(static)", "ijn from 0 while ijn < nlt"), Discipline.rowPartition),
  (("fqe_data.c", "apply_individual_nbody1_accumulate", "parallel for schedule(static)", "i from 0 while i < n"), Discipline.rowPartition),
  (("fqe_data.c", "_from_to_cirq", "parallel for schedule(static)", "beta_id from 0 while beta_id < beta_states"), Discipline.rowPartition),
  (("fqe_data.c", "sparse_scale", "parallel for schedule(static)", "i from 0 while i < ni"), Discipline.rowPartition),
  (("fqe_data.c", "apply_diagonal_inplace", "parallel for schedule(static)", "i from 0 while i < lena"), Discipline.rowPartition),
  (("fqe_data.c", "apply_diagonal_inplace", "parallel for schedule(static)", "i from 0 while i < lenb"), Discipline.rowPartition),
  (("fqe_data.c", "apply_diagonal_inplace", "parallel for schedule(static) collapse(2)", "i from 0 while i < lena"), Discipline.rowPartition),
  (("fqe_data.c", "apply_diagonal_inplace_real", "parallel for schedule(static)", "i from 0 while i < lena"), Discipline.rowPartition),
  (("fqe_data.c", "apply_diagonal_inplace_real", "parallel for schedule(static)", "i from 0 while i < lenb"), Discipline.rowPartition),
  (("fqe_data.c", "apply_diagonal_inplace_real", "parallel for schedule(static) collapse(2)", "i from 0 while i < lena"), Discipline.rowPartition),
  (("fqe_data.c", "evolve_diagonal_inplace", "parallel for schedule(static)", "i from 0 while i < lena"), Discipline.rowPartition),
  (("fqe_data.c", "evolve_diagonal_inplace", "parallel for schedule(static)", "i from 0 while i < lenb"), Discipline.rowPartition),
  (("fqe_data.c", "evolve_diagonal_inplace", "parallel for schedule(static) collapse(2)", "i from 0 while i < lena"), Discipline.rowPartition),
  (("fqe_data.c", "evolve_diagonal_inplace_real", "parallel for schedule(static)", "i from 0 while i < lena"), Discipline.rowPartition),
  (("fqe_data.c", "evolve_diagonal_inplace_real", "parallel for schedule(static)", "i from 0 while i < lenb"), Discipline.rowPartition),
  (("fqe_data.c", "evolve_diagonal_inplace_real", "parallel for schedule(static) collapse(2)", "i from 0 while i < lena"), Discipline.rowPartition),
  (("fqe_data.c", "calculate_dvec1", "parallel for schedule(dynamic) collapse(2)", "i from 0 while i < norb"), Discipline.rowPartition),
  (("fqe_data.c", "calculate_dvec2", "parallel for schedule(dynamic) collapse(2)", "i from 0 while i < norb"), Discipline.rowPartition),
  (("fqe_data.c", "calculate_dvec1_j", "parallel for schedule(dynamic)", "i from 0 while i < norb"), Discipline.rowPartition),
  (("fqe_data.c", "calculate_dvec2_j", "parallel for schedule(dynamic)", "i from 0 while i < norb"), Discipline.rowPartition),
  (("fqe_data.c", "make_nh123_real", "parallel for schedule(static) collapse(2)", "i from 0 while i < twon"), Discipline.rowPartition),
  (("fqe_data.c", "make_nh123", "parallel for schedule(static) collapse(2)", "i from 0 while i < twon"), Discipline.rowPartition),
  (("mylapack.c", "zimatadd", "parallel for schedule(static) collapse(2)", "i from 0 while i < nlim"), Discipline.rowPartition),
  (("mylapack.c", "zimatadd", "parallel for schedule(static)", "i from 0 while i < nlim"), Discipline.rowPartition),
  (("mylapack.c", "transpose", "parallel for schedule(static) collapse(2)", "i from 0 while i < nlim"), Discipline.rowPartition),
  (("mylapack.c", "transpose", "parallel for schedule(static)", "i from 0 while i < nlim"), Discipline.rowPartition),
  (("wick.c", "wickfill", "parallel for schedule(static)", "i from 0 while i < norb"), Discipline.rowPartition),
  (("wick.c", "wickfill", "parallel for schedule(static)", "i from 0 while i < norb"), Discipline.rowPartition),
  (("wick.c", "wickfill", "parallel for schedule(static)", "ij from 0 while ij < norb * norb"), Discipline.rowPartition),
  (("wick.c", "wickfill", "parallel for schedule(static)", "ij from 0 while ij < norb * norb"), Discipline.rowPartition),
  (("wick.c", "wickfill", "parallel for schedule(static)", "ij from 0 while ij < norb * norb"), Discipline.rowPartition),
  (("wick.c", "wickfill", "parallel for schedule(static)", "i from 0 while i < norb"), Discipline.rowPartition),
  (("wick.c", "wickfill", "parallel for schedule(static)", "ijk from 0 while ijk < norb * norb * norb"), Discipline.rowPartition),
  (("wick.c", "wickfill", "parallel for schedule(static)", "ijk from 0 while ijk < norb * norb * norb"), Discipline.rowPartition),
  (("wick.c", "wickfill", "parallel for schedule(static)", "ijk from 0 while ijk < norb * norb * norb"), Discipline.rowPartition),
  (("wick.c", "wickfill", "parallel for schedule(static)", "ijkl from 0 while ijkl < norb * norb * norb * norb"), Discipline.rowPartition),
  (("wick.c", "wickfill", "parallel for schedule(static)", "ijkl from 0 while ijkl < norb * norb * norb * norb"), Discipline.rowPartition),
  (("wick.c", "wickfill", "parallel for schedule(static)", "ijkl from 0 while ijkl < norb * norb * norb * norb"), Discipline.rowPartition),
  (("wick.c", "wickfill", "parallel for schedule(static)", "ijkl from 0 while ijkl < norb * norb * norb * norb"), Discipline.rowPartition),
  (("wick.c", "wickfill", "parallel for schedule(static)", "ijkl from 0 while ijkl < norb * norb * norb * norb"), Discipline.rowPartition)
]

/-- the reviewed shared-write table (same order as `reviewed`): for each construct the shared arrays written
    directly, the shared scalars written directly (none), and the functions called inside the governed statement -/
def reviewedBodies : List (String × String × List String × List String × List String) := [
  ("cirq_utils.c", "detect_cirq_sectors", ["paramarray"], [], ["cabs"]),
  ("cirq_utils.c", "detect_cirq_sectors", ["paramarray"], [], []),
  ("fci_graph.c", "calculate_Z_matrix", ["out"], [], []),
  ("fci_graph.c", "map_deexc", ["index"], [], []),
  ("fci_graph.c", "build_mapping_strings", ["mapl"], [], ["CHECK_BIT", "SET_BIT", "UNSET_BIT", "count_bits_between", "fprintf", "string_to_index"]),
  ("fci_graph.c", "calculate_string_address", ["out"], [], ["string_to_index"]),
  ("fci_graph.c", "map_to_deexc_alpha_icol", [], [], ["assert"]),
  ("fci_graph.c", "make_mapping_each_set", ["down", "up"], [], ["UNSET_BIT", "assert", "count_bits", "count_bits_above", "count_bits_between", "get_occupation"]),
  ("fqe_data.c", "lm_apply_array12_same_spin", [], [], ["blasfunc->zaxpy"]),
  ("fqe_data.c", "lm_apply_array12_diff_spin", ["prefactors", "targetbs"], [], []),
  ("fqe_data.c", "lm_apply_array12_diff_spin", [], [], []),
  ("fqe_data.c", "lm_apply_array1_old", [], [], ["blasfunc->zaxpy"]),
  ("fqe_data.c", "lm_apply_array1_sparse", ["ctemp"], [], ["blasfunc->zaxpy"]),
  ("fqe_data.c", "lm_apply_array1_sparse", ["ctemp"], [], []),
  ("fqe_data.c", "lm_apply_array1_sparse", [], [], ["blasfunc->zaxpy"]),
  ("fqe_data.c", "lm_apply_array1_sparse", [], [], []),
  ("fqe_data.c", "lm_apply_array1", [], [], ["blasfunc->zaxpy"]),
  ("fqe_data.c", "lm_apply_array1_column_alpha", [], [], ["MIN", "blasfunc->zaxpy"]),
  ("fqe_data.c", "lm_apply_array1_column_alpha", [], [], ["MIN", "blasfunc->zscal"]),
  ("fqe_data.c", "zdvec_make", [], [], ["zdvec_make_part"]),
  ("fqe_data.c", "zdiagonal_coulomb_part", ["output"], [], []),
  ("fqe_data.c", "zdiagonal_coulomb_apply", [], [], ["get_occupation"]),
  ("fqe_data.c", "zdiagonal_coulomb_apply", [], [], ["get_occupation"]),
  ("fqe_data.c", "zdiagonal_coulomb_apply", [], [], ["assert"]),
  ("fqe_data.c", "zdiagonal_coulomb_apply", ["aarrays"], [], []),
  ("fqe_data.c", "zdiagonal_coulomb", [], [], ["get_occupation"]),
  ("fqe_data.c", "zdiagonal_coulomb", [], [], ["get_occupation"]),
  ("fqe_data.c", "zdiagonal_coulomb", ["diagexp"], [], ["cexp"]),
  ("fqe_data.c", "zdiagonal_coulomb", ["arrayexp"], [], ["cexp"]),
  ("fqe_data.c", "zdiagonal_coulomb", [], [], ["assert"]),
  ("fqe_data.c", "zdiagonal_coulomb", ["aarrays"], [], []),
  ("fqe_data.c", "make_dvec_part", [], [], ["blasfunc->zaxpy"]),
  ("fqe_data.c", "lm_apply_array12_same_spin_opt", [], [], ["blasfunc->zaxpy", "free", "safe_malloc"]),
  ("fqe_data.c", "lm_apply_array12_same_spin_opt", ["temp"], [], ["blasfunc->zaxpy"]),
  ("fqe_data.c", "lm_apply_array12_diff_spin_omp1", ["ctemp"], [], ["blasfunc->zaxpy", "omp_get_thread_num"]),
  ("fqe_data.c", "lm_apply_array12_diff_spin_omp1", ["ctemp"], [], []),
  ("fqe_data.c", "lm_apply_array12_diff_spin_omp1", [], [], ["blasfunc->zaxpy"]),
  ("fqe_data.c", "lm_apply_array12_diff_spin_omp1", [], [], ["blasfunc->zaxpy", "omp_get_thread_num"]),
  ("fqe_data.c", "apply_array12_lowfillingab", [], [], []),
  ("fqe_data.c", "apply_array12_lowfillingaa", [], [], []),
  ("fqe_data.c", "apply_individual_nbody1_accumulate", [], [], []),
  ("fqe_data.c", "_from_to_cirq", [], [], []),
  ("fqe_data.c", "sparse_scale", ["data"], [], []),
  ("fqe_data.c", "apply_diagonal_inplace", [], [], ["integer_index_accumulate"]),
  ("fqe_data.c", "apply_diagonal_inplace", [], [], ["integer_index_accumulate"]),
  ("fqe_data.c", "apply_diagonal_inplace", ["data"], [], []),
  ("fqe_data.c", "apply_diagonal_inplace_real", [], [], ["integer_index_accumulate_real"]),
  ("fqe_data.c", "apply_diagonal_inplace_real", [], [], ["integer_index_accumulate_real"]),
  ("fqe_data.c", "apply_diagonal_inplace_real", ["data"], [], []),
  ("fqe_data.c", "evolve_diagonal_inplace", ["alpha"], [], ["cexp", "integer_index_accumulate"]),
  ("fqe_data.c", "evolve_diagonal_inplace", ["beta"], [], ["cexp", "integer_index_accumulate"]),
  ("fqe_data.c", "evolve_diagonal_inplace", ["data"], [], []),
  ("fqe_data.c", "evolve_diagonal_inplace_real", ["alpha"], [], ["exp", "integer_index_accumulate_real"]),
  ("fqe_data.c", "evolve_diagonal_inplace_real", ["beta"], [], ["exp", "integer_index_accumulate_real"]),
  ("fqe_data.c", "evolve_diagonal_inplace_real", ["data"], [], []),
  ("fqe_data.c", "calculate_dvec1", [], [], []),
  ("fqe_data.c", "calculate_dvec2", [], [], []),
  ("fqe_data.c", "calculate_dvec1_j", [], [], []),
  ("fqe_data.c", "calculate_dvec2_j", [], [], []),
  ("fqe_data.c", "make_nh123_real", [], [], []),
  ("fqe_data.c", "make_nh123", [], [], []),
  ("mylapack.c", "zimatadd", ["out"], [], []),
  ("mylapack.c", "zimatadd", ["out"], [], []),
  ("mylapack.c", "transpose", ["out"], [], []),
  ("mylapack.c", "transpose", ["out"], [], []),
  ("wick.c", "wickfill", ["target"], [], []),
  ("wick.c", "wickfill", ["target"], [], []),
  ("wick.c", "wickfill", ["target"], [], []),
  ("wick.c", "wickfill", ["target"], [], []),
  ("wick.c", "wickfill", ["target"], [], []),
  ("wick.c", "wickfill", ["target"], [], []),
  ("wick.c", "wickfill", ["target"], [], []),
  ("wick.c", "wickfill", ["target"], [], []),
  ("wick.c", "wickfill", ["target"], [], []),
  ("wick.c", "wickfill", ["target"], [], []),
  ("wick.c", "wickfill", ["target"], [], []),
  ("wick.c", "wickfill", ["target"], [], []),
  ("wick.c", "wickfill", ["target"], [], []),
  ("wick.c", "wickfill", ["target"], [], [])
]

/-- every OpenMP construct present in the current sources is a reviewed one, and vice versa -/
theorem C10_inventory : GenOmp.inventory = reviewed.map (·.1) := by decide

/-- the loop bodies still write the reviewed shared objects and call the reviewed functions (a buffer hoisted out of
    a loop, a new shared accumulator, a new call inside a parallel loop changes the regenerated table) -/
theorem C10_bodies : GenOmp.bodies = reviewedBodies := by decide

/-- no parallel construct writes a scalar that is shared between its iterations / threads
    (every directly written shared object is an indexed array or a dereferenced pointer) -/
theorem C10_no_shared_scalar_write : ∀ b ∈ GenOmp.bodies, b.2.2.2.1 = [] := by decide

/-- one table row per construct -/
theorem C10_bodies_aligned : GenOmp.bodies.map (fun b => (b.1, b.2.1)) = GenOmp.inventory.map (fun e => (e.1, e.2.1)) := by
  decide

/-- row partition: distinct iterations write disjoint index ranges -/
theorem C10_row_partition (stride i j a b : Nat) (ha : a < stride) (hb : b < stride) (hij : i ≠ j) :
    i * stride + a ≠ j * stride + b := by
  intro h
  have h1 : (i * stride + a) / stride = i := by
    rw [Nat.mul_comm, Nat.mul_add_div (by omega : 0 < stride), Nat.div_eq_of_lt ha, Nat.add_zero]
  have h2 : (j * stride + b) / stride = j := by
    rw [Nat.mul_comm, Nat.mul_add_div (by omega : 0 < stride), Nat.div_eq_of_lt hb, Nat.add_zero]
  rw [h] at h1
  exact hij (h1.symm.trans h2)

/-- map parallelism: two different entries of one single-excitation map never write to the same
    target determinant -/
theorem C10_map_injective (i j s s' : Nat) (e e' : Nat × Nat × Bool)
    (h : mappingEntry i j s = some e) (h' : mappingEntry i j s' = some e') (hne : s ≠ s') :
    e.2.1 ≠ e'.2.1 :=
  fun ht => hne (C05.C05_single_exc_injective i j s s' e e' h h' ht)

/-- the column batching `nbin = (lenb-1)/stride + 1`, `clenb = min(stride, lenb - nbatch·stride)`:
    batches are non-empty, stay inside `[0, lenb)` and the last one ends exactly at `lenb` -/
theorem C10_batches (lenb stride nbatch : Nat) (hs : 0 < stride) (hl : 0 < lenb)
    (hb : nbatch < (lenb - 1) / stride + 1) :
    0 < min stride (lenb - nbatch * stride) ∧
    nbatch * stride + min stride (lenb - nbatch * stride) ≤ lenb ∧
    (nbatch + 1 = (lenb - 1) / stride + 1 → nbatch * stride + min stride (lenb - nbatch * stride) = lenb) := by
  have h1 : nbatch ≤ (lenb - 1) / stride := by omega
  have h2 : nbatch * stride ≤ lenb - 1 := (Nat.le_div_iff_mul_le hs).1 h1
  refine ⟨?_, ?_, ?_⟩
  · rw [Nat.lt_min]; omega
  · have := Nat.min_le_right stride (lenb - nbatch * stride); omega
  · intro hlast
    have h3 : (lenb - 1) / stride = nbatch := by omega
    have h4 : lenb - 1 < stride * ((lenb - 1) / stride + 1) := Nat.lt_mul_div_succ (lenb - 1) hs
    rw [h3, Nat.mul_add, Nat.mul_one, Nat.mul_comm] at h4
    have h5 : lenb - nbatch * stride ≤ stride := by omega
    rw [Nat.min_eq_right h5]
    omega

end C10
