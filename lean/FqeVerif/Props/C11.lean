/-
  Props/C11.lean — property theorems for C11 (inputs intact, results independent of call history).

  For the abstract pool machine (Model/Pool.lean), whose operations are the library's public calls
  with their *pure* meaning supplied as a parameter:
   * frame, out-of-place: every object that existed before still has its value afterwards  : C11_frame_pure
   * frame, in-place: only the named target can change                                      : C11_frame_inplace
   * history independence: the value produced by a call depends only on the values of its
     arguments — two pools (reached by any histories) that agree on the arguments give the
     same result                                                                              : C11_history_independent
   * over any sequence of out-of-place operations no pre-existing object ever changes        : C11_frame_run
  These hold of the machine by construction; that the *library* refines the machine (no hidden
  shared mutable state: shared FciGraph caches, lru_cache'd Z matrices, shared symmetry maps, the
  module-level code-path switch, helpers writing into caller arrays) is decided by the byte-level
  snapshot correspondence over generated histories.
-/
import FqeVerif.Model.Pool
namespace C11
open Model

variable {V : Type}

theorem C11_frame_pure (p : Pool V) (args : List Nat) (f : List V → V) (i : Nat) (hi : i < p.length) :
    (poolStep p (.pure args f)).1[i]? = p[i]? := by
  simp only [poolStep]
  cases h : readArgs p args with
  | none => rfl
  | some vs => simp [List.getElem?_append_left hi]

theorem C11_frame_inplace (p : Pool V) (t : Nat) (args : List Nat) (f : List V → V) (i : Nat) (hne : i ≠ t) :
    (poolStep p (.inplace t args f)).1[i]? = p[i]? := by
  simp only [poolStep]
  cases h : readArgs p (t :: args) with
  | none => rfl
  | some vs => simp [List.getElem?_set_ne (Ne.symm hne)]

theorem readArgs_congr (p q : Pool V) (args : List Nat) (h : ∀ i ∈ args, p[i]? = q[i]?) :
    readArgs p args = readArgs q args := by
  unfold readArgs
  induction args with
  | nil => rfl
  | cons a t ih =>
    simp only [List.mapM_cons]
    rw [h a List.mem_cons_self, ih (fun i hi => h i (List.mem_cons_of_mem _ hi))]

/-- the value returned by a call depends only on the values of the objects it is given -/
theorem C11_history_independent (p q : Pool V) (args : List Nat) (f : List V → V)
    (h : ∀ i ∈ args, p[i]? = q[i]?) :
    (poolStep p (.pure args f)).2 = (poolStep q (.pure args f)).2 := by
  simp only [poolStep]
  rw [readArgs_congr p q args h]
  cases h2 : readArgs q args <;> rfl

def isPure : PoolOp V → Bool
  | .pure _ _ => true
  | .inplace _ _ _ => false

theorem poolStep_length_ge (p : Pool V) (o : PoolOp V) : p.length ≤ (poolStep p o).1.length := by
  cases o with
  | pure args f =>
    simp only [poolStep]
    cases h : readArgs p args <;> simp
  | inplace t args f =>
    simp only [poolStep]
    cases h : readArgs p (t :: args) <;> simp

/-- no sequence of out-of-place operations changes an object that existed at the start -/
theorem C11_frame_run (ops : List (PoolOp V)) : ∀ (p : Pool V) (i : Nat), i < p.length →
    (∀ o ∈ ops, isPure o = true) → (poolRun p ops)[i]? = p[i]? := by
  induction ops with
  | nil => intro p i _ _; rfl
  | cons o rest ih =>
    intro p i hi hpure
    unfold poolRun
    simp only [List.foldl_cons]
    have ho : isPure o = true := hpure o List.mem_cons_self
    have hlen := poolStep_length_ge p o
    have := ih (poolStep p o).1 i (by omega) (fun o' ho' => hpure o' (List.mem_cons_of_mem _ ho'))
    unfold poolRun at this
    rw [this]
    cases o with
    | pure args f => exact C11_frame_pure p args f i hi
    | inplace t args f => simp [isPure] at ho

example : poolRun [1, 2] [.pure [0, 1] (fun vs => vs.foldl (· + ·) 0), .inplace 0 [2] (fun vs => vs.foldl (· + ·) 0)]
    = [4, 2, 3] := by decide

end C11
