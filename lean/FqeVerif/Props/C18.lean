/-
  Props/C18.lean — property theorems for C18 (Davidson solver).

   * the outer loop returns only at an iteration k ≥ 1 whose convergence test passed and whose
     subspace still fits the limit; otherwise it ends without a converged answer (ConvergenceError):
     it cannot return before at least one eigenproblem has been compared with its predecessor : C18_returns_only_converged
   * every iteration before the returned one failed the test                                    : C18_first_converged
  That the returned Ritz pairs are the lowest eigenpairs to about the threshold is not a theorem of the
  algorithm (it stops on stagnation of the Ritz values); it is decided by the correspondence against exact
  spectra — partial.
-/
import FqeVerif.Model.Algo
namespace C18
open Model

theorem davidsonLoop_some (conv : Nat → Bool) (size0 nroots limit : Nat) :
    ∀ (fuel k r : Nat), davidsonLoop conv size0 nroots limit fuel k = some r →
      (k ≤ r ∧ r ≠ 0 ∧ conv r = true ∧ size0 + r * nroots ≤ limit ∧
        ∀ j, k ≤ j → j < r → (j = 0 ∨ conv j = false)) := by
  intro fuel
  induction fuel with
  | zero => intro k r h; simp [davidsonLoop] at h
  | succ fuel ih =>
    intro k r h
    unfold davidsonLoop at h
    by_cases hs : size0 + k * nroots ≤ limit
    · simp only [hs, if_true] at h
      by_cases hc : k ≠ 0 ∧ conv k = true
      · simp only [hc, ne_eq, not_false_eq_true, and_self, if_true, Option.some.injEq] at h
        subst h
        exact ⟨Nat.le_refl _, hc.1, hc.2, hs, fun j h1 h2 => by omega⟩
      · have hc' : ¬ (k ≠ 0 ∧ conv k = true) := hc
        simp only [hc', if_false] at h
        obtain ⟨h1, h2, h3, h4, h5⟩ := ih (k + 1) r h
        refine ⟨by omega, h2, h3, h4, ?_⟩
        intro j hj1 hj2
        by_cases hjk : j = k
        · subst hjk
          by_cases h0 : j = 0
          · left; exact h0
          · right
            cases hcj : conv j
            · rfl
            · exact absurd ⟨h0, hcj⟩ hc'
        · exact h5 j (by omega) hj2
    · simp [hs] at h

/-- a returned answer comes from an iteration ≥ 1 that passed the convergence test inside the size limit -/
theorem C18_returns_only_converged (conv : Nat → Bool) (size0 nroots limit fuel r : Nat)
    (h : davidsonLoop conv size0 nroots limit fuel 0 = some r) :
    1 ≤ r ∧ conv r = true ∧ size0 + r * nroots ≤ limit := by
  obtain ⟨_, h2, h3, h4, _⟩ := davidsonLoop_some conv size0 nroots limit fuel 0 r h
  exact ⟨by omega, h3, h4⟩

theorem C18_first_converged (conv : Nat → Bool) (size0 nroots limit fuel r : Nat)
    (h : davidsonLoop conv size0 nroots limit fuel 0 = some r) :
    ∀ j, 1 ≤ j → j < r → conv j = false := by
  obtain ⟨_, _, _, _, h5⟩ := davidsonLoop_some conv size0 nroots limit fuel 0 r h
  intro j hj1 hj2
  rcases h5 j (by omega) hj2 with h0 | hc
  · omega
  · exact hc

example : davidsonLoop (fun k => decide (3 ≤ k)) 2 1 10 20 0 = some 3 ∧
    davidsonLoop (fun _ => true) 2 1 10 20 0 = some 1 ∧ davidsonLoop (fun _ => false) 2 1 10 20 0 = none := by
  decide

end C18
