/-
  Props/C03.lean — property theorems for C03 (RDMs and expectation values are true matrix elements).

  An RDM request for an arbitrary operator ordering is reduced by the library to the normal-ordered
  RDMs by repeated use of two rewriting steps; both are proved sound for the Spec action on every
  determinant, inside any operator-string context:
   * swap of adjacent operators on different modes = sign change                 : C03_wick_swap
   * same mode: `a a† = 1 − a† a`, the pair contracts to the shorter string      : C03_wick_contract
   (the fully contracted string is the identity, whose matrix element is ⟨bra|ket⟩ — the factor the
    library used to drop; repaired by a fix: commit, see known_findings.json)
   * a numeric-index request is a Spec matrix element: determinant-level action of the operator
     string in FQE's convention equals the Spec action through ι                  : C03_element
   * the rewriting driver of `wick` (work list, passes until nothing changes; Model/Wick.lean, spin-orbital
     requests): for every pattern, every assignment of orbitals to its letters, every bra functional and
     determinant, the signed sum over the work list of Π δ · ⟨f| remaining operators |a,b⟩ is the matrix
     element of the requested pattern — after one step, one pass and the whole loop; a pass that rewrites
     nothing leaves only normal-ordered entries, and the fuel of the model always suffices
                                                       : C03_wick_step, C03_wick_loop, C03_wick_normal_form, C03_wick_complete
   * the spin-free variant of the driver (slots, factor 2 for a contraction inside a slot, merging of two slots,
     closing spin sort): for every number-conserving pattern the final work list carries the spin-summed matrix
     element of the pattern                              : C03_wick_sf_step, C03_wick_sf_finish, C03_wick_sf_sound
  Element-by-element equality of every returned tensor with ⟨bra|pattern|ket⟩ (all orderings, ranks 1–4,
  transition quantities, both paths) is decided by the exact correspondence.
-/
import FqeVerif.Lemmas.TermAlgebra
import FqeVerif.Props.C01
import FqeVerif.Lemmas.Wick
import FqeVerif.Lemmas.WickSF
namespace C03
open Fock Model

theorem C03_wick_swap (pre post : Term) (d1 d2 : Bool) (m1 m2 a b : Nat) (h : m1 ≠ m2) :
    applyTerm (pre ++ [(m1, d1), (m2, d2)] ++ post) a b =
      negRes (applyTerm (pre ++ [(m2, d2), (m1, d1)] ++ post) a b) :=
  term_swap pre post d1 d2 m1 m2 a b h

theorem C03_wick_contract (pre post : Term) (m a b : Nat) :
    (applyTerm (pre ++ [(m, false), (m, true)] ++ post) a b = applyTerm (pre ++ post) a b ∧
      applyTerm (pre ++ [(m, true), (m, false)] ++ post) a b = none) ∨
    (applyTerm (pre ++ [(m, false), (m, true)] ++ post) a b = none ∧
      applyTerm (pre ++ [(m, true), (m, false)] ++ post) a b = applyTerm (pre ++ post) a b) :=
  term_contract pre post m a b

/-- the fully contracted string acts as the identity: its matrix element is the overlap -/
theorem C03_identity_term (a b : Nat) : applyTerm [] a b = some (false, a, b) := rfl

theorem C03_element (norb : Nat) (t : Term) (a b : Nat) (ht : C01.TermOk norb t) :
    C01.twist norb a b (fqeApplyTerm norb t a b) = applyTerm t a b :=
  C01.C01_iota_term norb t a b ht

example : applyTerm [(0, false), (0, true)] 0 0 = some (false, 0, 0) ∧
    applyTerm [(0, true), (0, false)] 0 0 = none := by decide

/-- one rewriting step of the driver (`a_x a†_y → −a†_y a_x + δ_xy`) preserves the matrix element -/
theorem C03_wick_step (ρ : Nat → Nat) (f : Nat → Nat → Int) (a b : Nat) (it : WItem) :
    evalList ρ f a b (wstep it) = evalItem ρ f a b it :=
  wstep_sound ρ f a b it

/-- the whole loop, started from the requested pattern: the work list it ends with has the matrix element of the
    pattern itself, for every orbital assignment `ρ`, bra functional `f` and determinant `(a, b)` -/
theorem C03_wick_loop (ρ : Nat → Nat) (f : Nat → Nat → Int) (a b : Nat) (pattern : List (Nat × Bool)) :
    evalList ρ f a b (wickNormalForm pattern) =
      evalRes f (applyTerm (pattern.map (fun o => (ρ o.1, o.2))) a b) := by
  unfold wickNormalForm
  rw [wnormalize_sound]
  simp [evalList, evalItem, deltasOk, itemTerm]

/-- when a pass reports that nothing was rewritten, every entry is normal ordered (creators before annihilators),
    i.e. it is read off the particle RDMs directly -/
theorem C03_wick_normal_form (l : List WItem) (h : (processOne l).2 = false) :
    ∀ it ∈ (processOne l).1, isNormal it.ops = true :=
  processOne_done l h

/-- **the Wick driver is correct for every pattern** (spin-orbital requests): its result consists of normal-ordered
    entries only (the loop terminates within its fuel: every pass lowers the number of inversions), and their signed,
    delta-weighted sum is the matrix element of the requested pattern, for every orbital assignment, bra functional
    and determinant -/
theorem C03_wick_complete (ρ : Nat → Nat) (f : Nat → Nat → Int) (a b : Nat) (pattern : List (Nat × Bool)) :
    (∀ c ∈ wickNormalForm pattern, isNormal c.ops = true) ∧
    evalList ρ f a b (wickNormalForm pattern) = evalRes f (applyTerm (pattern.map (fun o => (ρ o.1, o.2))) a b) :=
  ⟨wickNormalForm_normal pattern, C03_wick_loop ρ f a b pattern⟩

/-! ### the spin-free variant (`spinfree = True`, the route of every spin-summed RDM request) -/

/-- one rewriting step of the spin-free driver — swap, or contraction inside one slot (factor 2) / between two slots
    (the slots are merged) — preserves the spin-summed matrix element of a well-formed entry -/
theorem C03_wick_sf_step (ρ : Nat → Nat) (f : Nat → Nat → Int) (a b R : Nat) (it : WItemSF) (hwf : wfSF R it) :
    evalListSF ρ f a b R (wstepSF it) = evalItemSF ρ f a b R it ∧ ∀ c ∈ wstepSF it, wfSF R c :=
  ⟨wstepSF_sound ρ f a b R it hwf, wstepSF_wf R it hwf⟩

/-- the closing spin sort preserves the value of an entry whose halves each hold operators of one kind -/
theorem C03_wick_sf_finish (ρ : Nat → Nat) (f : Nat → Nat → Int) (a b R : Nat) (it : WItemSF) (d1 d2 : Bool)
    (h1 : ∀ o ∈ it.ops.take (it.ops.length / 2), o.2.1 = d1)
    (h2 : ∀ o ∈ it.ops.drop (it.ops.length / 2), o.2.1 = d2) :
    evalItemSF ρ f a b R (finishSF it) = evalItemSF ρ f a b R it :=
  finishSF_sound ρ f a b R it d1 d2 h1 h2

/-- **the spin-free Wick driver is correct for every number-conserving pattern**: with `2R` operators, slot =
    position mod `R`, for every assignment `ρ` of orbitals to the letters, every bra functional `f` and every
    determinant `(a, b)`, the work list after the rewriting loop (which ends within its fuel on normal-ordered
    entries) and the closing spin sort satisfies
        Σ_entries ± 2^twos · [deltas] · 2^(R − #deltas) · Σ_{spins of the R slots} ⟨f| remaining operators |a,b⟩
          = 2^R · Σ_{spins of the R slots} ⟨f| pattern |a,b⟩ .
    Each contraction leaves one slot without operators, whose spin sum is the factor 2 that `2^(R − #deltas)`
    takes out: an entry contributes `± 2^twos · δ…δ ·` (spin-free lower-rank element over its live slots), which is what
    the library reads from the lower-rank spin-free RDM. -/
theorem C03_wick_sf_sound (ρ : Nat → Nat) (f : Nat → Nat → Int) (a b R : Nat) (pattern : List (Nat × Bool))
    (hR : 0 < R) (hlen : pattern.length = 2 * R) (hbal : nDag pattern = nUndag pattern) :
    evalListSF ρ f a b R (wickNormalFormSF pattern) =
      2 ^ R * spinSum R (opsVal ρ f a b (initSF pattern).ops) :=
  wickNormalFormSF_sound ρ f a b R pattern hR hlen hbal

/-- the hypotheses are met by the library's own patterns, e.g. `i j^ k^ l` (rank 2); and the normal form of
    `i j^` is `−j^ i + 2 δ_ij` -/
example : (0 < 2) ∧ [(0, false), (1, true), (2, true), (3, false)].length = 2 * 2 ∧
    nDag [(0, false), (1, true), (2, true), (3, false)] = nUndag [(0, false), (1, true), (2, true), (3, false)] := by
  decide

example : wickNormalFormSF [(0, false), (1, true)] =
    [⟨[], [(1, true, 0), (0, false, 0)], true, 0⟩, ⟨[(0, 1)], [], false, 1⟩] := by decide

end C03
