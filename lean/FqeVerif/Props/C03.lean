/-
  Props/C03.lean — property theorems for C03 (RDMs and expectation values are true matrix elements).

  An RDM request for an arbitrary operator ordering is reduced by the library to the normal-ordered
  RDMs by repeated use of two rewriting steps; both are proved sound for the Spec action on every
  determinant, inside any operator-string context:
   * swap of adjacent operators on different modes = sign change                 : C03_wick_swap
   * same mode: `a a† = 1 − a† a`, the pair contracts to the shorter string      : C03_wick_contract
   (the fully contracted string is the identity, whose matrix element is ⟨bra|ket⟩ — the factor the
    library used to drop; repaired by a fix: commit, see known_findings.json)
   * a numeric-index request is a Spec matrix element: determinant-level action of the operator
     string in FQE's convention equals the Spec action through ι                  : C03_element
   * the rewriting driver of `wick` (work list, passes until nothing changes; Model/Wick.lean, spin-orbital
     requests): for every pattern, every assignment of orbitals to its letters, every bra functional and
     determinant, the signed sum over the work list of Π δ · ⟨f| remaining operators |a,b⟩ is the matrix
     element of the requested pattern — after one step, one pass and the whole loop; a pass that rewrites
     nothing leaves only normal-ordered entries, and the fuel of the model always suffices
                                                       : C03_wick_step, C03_wick_loop, C03_wick_normal_form, C03_wick_complete
  Element-by-element equality of every returned tensor with ⟨bra|pattern|ket⟩ (all orderings, ranks 1–4,
  transition quantities, both paths) is decided by the exact correspondence.
-/
import FqeVerif.Lemmas.TermAlgebra
import FqeVerif.Props.C01
import FqeVerif.Lemmas.Wick
namespace C03
open Fock Model

theorem C03_wick_swap (pre post : Term) (d1 d2 : Bool) (m1 m2 a b : Nat) (h : m1 ≠ m2) :
    applyTerm (pre ++ [(m1, d1), (m2, d2)] ++ post) a b =
      negRes (applyTerm (pre ++ [(m2, d2), (m1, d1)] ++ post) a b) :=
  term_swap pre post d1 d2 m1 m2 a b h

theorem C03_wick_contract (pre post : Term) (m a b : Nat) :
    (applyTerm (pre ++ [(m, false), (m, true)] ++ post) a b = applyTerm (pre ++ post) a b ∧
      applyTerm (pre ++ [(m, true), (m, false)] ++ post) a b = none) ∨
    (applyTerm (pre ++ [(m, false), (m, true)] ++ post) a b = none ∧
      applyTerm (pre ++ [(m, true), (m, false)] ++ post) a b = applyTerm (pre ++ post) a b) :=
  term_contract pre post m a b

/-- the fully contracted string acts as the identity: its matrix element is the overlap -/
theorem C03_identity_term (a b : Nat) : applyTerm [] a b = some (false, a, b) := rfl

theorem C03_element (norb : Nat) (t : Term) (a b : Nat) (ht : C01.TermOk norb t) :
    C01.twist norb a b (fqeApplyTerm norb t a b) = applyTerm t a b :=
  C01.C01_iota_term norb t a b ht

example : applyTerm [(0, false), (0, true)] 0 0 = some (false, 0, 0) ∧
    applyTerm [(0, true), (0, false)] 0 0 = none := by decide

/-- one rewriting step of the driver (`a_x a†_y → −a†_y a_x + δ_xy`) preserves the matrix element -/
theorem C03_wick_step (ρ : Nat → Nat) (f : Nat → Nat → Int) (a b : Nat) (it : WItem) :
    evalList ρ f a b (wstep it) = evalItem ρ f a b it :=
  wstep_sound ρ f a b it

/-- the whole loop, started from the requested pattern: the work list it ends with has the matrix element of the
    pattern itself, for every orbital assignment `ρ`, bra functional `f` and determinant `(a, b)` -/
theorem C03_wick_loop (ρ : Nat → Nat) (f : Nat → Nat → Int) (a b : Nat) (pattern : List (Nat × Bool)) :
    evalList ρ f a b (wickNormalForm pattern) =
      evalRes f (applyTerm (pattern.map (fun o => (ρ o.1, o.2))) a b) := by
  unfold wickNormalForm
  rw [wnormalize_sound]
  simp [evalList, evalItem, deltasOk, itemTerm]

/-- when a pass reports that nothing was rewritten, every entry is normal ordered (creators before annihilators),
    i.e. it is read off the particle RDMs directly -/
theorem C03_wick_normal_form (l : List WItem) (h : (processOne l).2 = false) :
    ∀ it ∈ (processOne l).1, isNormal it.ops = true :=
  processOne_done l h

/-- **the Wick driver is correct for every pattern** (spin-orbital requests): its result consists of normal-ordered
    entries only (the loop terminates within its fuel: every pass lowers the number of inversions), and their signed,
    delta-weighted sum is the matrix element of the requested pattern, for every orbital assignment, bra functional
    and determinant -/
theorem C03_wick_complete (ρ : Nat → Nat) (f : Nat → Nat → Int) (a b : Nat) (pattern : List (Nat × Bool)) :
    (∀ c ∈ wickNormalForm pattern, isNormal c.ops = true) ∧
    evalList ρ f a b (wickNormalForm pattern) = evalRes f (applyTerm (pattern.map (fun o => (ρ o.1, o.2))) a b) :=
  ⟨wickNormalForm_normal pattern, C03_wick_loop ρ f a b pattern⟩

end C03
