/-
  Props/C16.lean — property theorems for C16 (polynomial propagators meet the accuracy or raise).

   * converge-or-raise: the loop returns at order `k` iff `k` is the first order in the range whose
     term passed the accuracy test, and raises iff no order in the range passed — it can never return
     after exhausting the range                                                    : C16_returns_iff, C16_raises_iff
   * the returned order is below the expansion limit                               : C16_return_below_limit
   * the remainder of the Taylor series after a break at order k: when ‖tH‖ ≤ (k+1)/2 the omitted terms, any
     number of them, add up to less than the requested accuracy (any ordered field, abstract term-norm
     bounds)                                                                       : C16_taylor_tail
  The break test looks at the last term only, so without ‖tH‖ ≤ (k+1)/2 the remainder can exceed the requested
  accuracy (a recorded finding); the distance to exp(−iHt)ψ is measured against expm of the exact Spec matrix by
  the correspondence.
-/
import Mathlib.Algebra.Order.Field.Basic
import Mathlib.Algebra.BigOperators.Group.Finset.Basic
import Mathlib.Tactic.Ring
import Mathlib.Tactic.Linarith
import Mathlib.Tactic.Positivity
import FqeVerif.Model.Algo
import FqeVerif.Generated.GuardInventory
namespace C16
open Model

theorem seriesLoop_some (test : Nat → Bool) : ∀ (n lo k : Nat),
    seriesLoop test lo n = some k ↔ (lo ≤ k ∧ k < lo + n ∧ test k = true ∧ ∀ j, lo ≤ j → j < k → test j = false) := by
  intro n
  induction n with
  | zero =>
    intro lo k
    simp only [seriesLoop, Nat.add_zero]
    constructor
    · intro h; cases h
    · intro ⟨h1, h2, _, _⟩; omega
  | succ n ih =>
    intro lo k
    unfold seriesLoop
    by_cases ht : test lo = true
    · simp only [ht, if_true, Option.some.injEq]
      constructor
      · intro h; subst h
        exact ⟨Nat.le_refl _, by omega, ht, fun j h1 h2 => by omega⟩
      · intro ⟨h1, h2, h3, h4⟩
        by_cases hk : lo = k
        · exact hk
        · have := h4 lo (Nat.le_refl _) (by omega)
          rw [ht] at this; cases this
    · have htf : test lo = false := by simpa using ht
      simp only [htf, Bool.false_eq_true, if_false]
      rw [ih (lo + 1) k]
      constructor
      · intro ⟨h1, h2, h3, h4⟩
        refine ⟨by omega, by omega, h3, ?_⟩
        intro j hj1 hj2
        by_cases hj : j = lo
        · subst hj; exact htf
        · exact h4 j (by omega) hj2
      · intro ⟨h1, h2, h3, h4⟩
        have hne : lo ≠ k := by
          intro e; subst e; rw [htf] at h3; cases h3
        exact ⟨by omega, by omega, h3, fun j hj1 hj2 => h4 j (by omega) hj2⟩

theorem seriesLoop_none (test : Nat → Bool) : ∀ (n lo : Nat),
    seriesLoop test lo n = none ↔ ∀ k, lo ≤ k → k < lo + n → test k = false := by
  intro n
  induction n with
  | zero => intro lo; simp [seriesLoop]; intro k h1 h2; omega
  | succ n ih =>
    intro lo
    unfold seriesLoop
    by_cases ht : test lo = true
    · simp only [ht, if_true]
      constructor
      · intro h; cases h
      · intro h
        have := h lo (Nat.le_refl _) (by omega)
        rw [ht] at this; cases this
    · have htf : test lo = false := by simpa using ht
      simp only [htf, Bool.false_eq_true, if_false]
      rw [ih (lo + 1)]
      constructor
      · intro h k h1 h2
        by_cases hk : k = lo
        · subst hk; exact htf
        · exact h k (by omega) (by omega)
      · intro h k h1 h2
        exact h k (by omega) (by omega)

/-- the Taylor propagator returns the partial sum of order `k` exactly when `k` is the first order in
    `[1, expansion)` whose term passed the accuracy test -/
theorem C16_returns_iff (test : Nat → Bool) (expansion k : Nat) :
    taylorLoop test expansion = some k ↔
      (1 ≤ k ∧ k < expansion ∧ test k = true ∧ ∀ j, 1 ≤ j → j < k → test j = false) := by
  unfold taylorLoop
  rw [seriesLoop_some]
  constructor
  · intro ⟨h1, h2, h3, h4⟩; exact ⟨h1, by omega, h3, h4⟩
  · intro ⟨h1, h2, h3, h4⟩; exact ⟨h1, by omega, h3, h4⟩

/-- it raises exactly when no order below the limit passed the test: never an unconverged return -/
theorem C16_raises_iff (test : Nat → Bool) (expansion : Nat) :
    taylorLoop test expansion = none ↔ ∀ k, 1 ≤ k → k < expansion → test k = false := by
  unfold taylorLoop
  rw [seriesLoop_none]
  constructor
  · intro h k h1 h2; exact h k h1 (by omega)
  · intro h k h1 h2; exact h k h1 (by omega)

theorem seriesLoop_congr (f g : Nat → Bool) : ∀ (n lo : Nat), (∀ k, lo ≤ k → f k = g k) →
    seriesLoop f lo n = seriesLoop g lo n := by
  intro n
  induction n with
  | zero => intro lo _; rfl
  | succ n ih =>
    intro lo h
    unfold seriesLoop
    rw [h lo (Nat.le_refl _), ih (lo + 1) (fun k hk => h k (by omega))]

/-- the combined break test of the Chebyshev loop at order `k`, started at `lo` with flag `prev` -/
def pairTest (test : Nat → Bool) (lo : Nat) (prev : Bool) (k : Nat) : Bool :=
  test k && (if k = lo then prev else test (k - 1))

theorem chebLoop_eq (test : Nat → Bool) : ∀ (n lo : Nat) (prev : Bool),
    chebLoop test lo prev n = seriesLoop (pairTest test lo prev) lo n := by
  intro n
  induction n with
  | zero => intro lo prev; rfl
  | succ n ih =>
    intro lo prev
    unfold chebLoop seriesLoop
    have h0 : pairTest test lo prev lo = (test lo && prev) := by simp [pairTest]
    rw [h0, ih (lo + 1) (test lo)]
    have hc : seriesLoop (pairTest test (lo + 1) (test lo)) (lo + 1) n =
        seriesLoop (pairTest test lo prev) (lo + 1) n := by
      apply seriesLoop_congr
      intro k hk
      unfold pairTest
      have h1 : k ≠ lo := by omega
      by_cases h2 : k = lo + 1
      · subst h2; simp
      · simp [h1, h2]
    rw [hc]

/-- the Chebyshev propagator returns at order `k` exactly when `k` is the first order in `[3, expansion)`
    such that the terms of orders `k-1` and `k` both passed the accuracy test -/
theorem C16_chebyshev_returns_iff (test : Nat → Bool) (expansion k : Nat) :
    chebyshevLoop test expansion = some k ↔
      (3 ≤ k ∧ k < expansion ∧ test k = true ∧ test (k - 1) = true ∧
        ∀ j, 3 ≤ j → j < k → (test j && test (j - 1)) = false) := by
  unfold chebyshevLoop
  rw [chebLoop_eq, seriesLoop_some]
  unfold pairTest
  constructor
  · intro ⟨h1, h2, h3, h4⟩
    have hk2 : k ≠ 2 := by
      intro e; subst e; simp at h3
    simp only [hk2, if_false, Bool.and_eq_true] at h3
    refine ⟨by omega, by omega, h3.1, h3.2, ?_⟩
    intro j hj1 hj2
    have := h4 j (by omega) hj2
    have hj : j ≠ 2 := by omega
    simpa [hj] using this
  · intro ⟨h1, h2, h3, h4, h5⟩
    have hk2 : k ≠ 2 := by omega
    refine ⟨by omega, by omega, by simp [hk2, h3, h4], ?_⟩
    intro j hj1 hj2
    by_cases hj : j = 2
    · subst hj; simp
    · have := h5 j (by omega) hj2
      simpa [hj] using this

theorem C16_chebyshev_raises_iff (test : Nat → Bool) (expansion : Nat) :
    chebyshevLoop test expansion = none ↔
      ∀ k, 3 ≤ k → k < expansion → (test k && test (k - 1)) = false := by
  unfold chebyshevLoop
  rw [chebLoop_eq, seriesLoop_none]
  unfold pairTest
  constructor
  · intro h k h1 h2
    have := h k (by omega) (by omega)
    have hk : k ≠ 2 := by omega
    simpa [hk] using this
  · intro h k h1 h2
    by_cases hk : k = 2
    · subst hk; simp
    · have := h k (by omega) (by omega)
      simpa [hk] using this

theorem C16_return_below_limit (test : Nat → Bool) (expansion k : Nat)
    (h : taylorLoop test expansion = some k) : k < expansion :=
  ((C16_returns_iff test expansion k).1 h).2.1

example : taylorLoop (fun k => decide (5 ≤ k)) 30 = some 5 ∧ taylorLoop (fun k => decide (50 ≤ k)) 30 = none ∧
    chebyshevLoop (fun k => decide (k % 2 = 1 ∨ 8 ≤ k)) 30 = some 8 := by
  decide

/-! ### branch skeleton of the transcribed function (regenerated by harness/translate/guards.py) -/

/-- the loops of `apply_generated_unitary` that Model/Algo.lean transcribes: Taylor breaks on one small term, Chebyshev on two in a row, both raise from the loop's else branch -/
def C16_series_skeletonReviewed : List String := ["if not isinstance(expansion, int)", "raise TypeError", "endif", "if not isinstance(hamil, sparse_hamiltonian.SparseHamiltonian) and self._conserve_spin and (not self._conserve_number)", "else", "endif", "if base is not self and (not hamil.conserve_number())", "endif", "if algo == 'taylor'", "if isinstance(hamil, diagonal_coulomb.DiagonalCoulomb)", "endif", "for order in range(1, max_expansion)", "if work.norm() * numpy.abs(coeff) < accuracy", "break", "endif", "loop-else", "raise RuntimeError", "endloop", "else", "if algo == 'chebyshev'", "for order in range(2, max_expansion)", "if small and previous_small", "break", "endif", "loop-else", "raise RuntimeError", "endloop", "endif", "endif", "if algo == 'taylor' and numpy.abs(hamil.e_0() * time) > 1e-15", "endif", "if self._conserve_spin and (not self._conserve_number)", "endif", "return"]

set_option maxRecDepth 100000 in
theorem C16_series_skeleton : (GenGuards.decisionSkeleton.find? (fun e => e.1 == "src/fqe/wavefunction.py" && e.2.1 == "Wavefunction.apply_generated_unitary")).map (·.2.2) =
    some C16_series_skeletonReviewed := by decide +kernel

/-! ### the remainder of the Taylor series after the break -/

section tail
variable {K : Type} [Field K] [LinearOrder K] [IsStrictOrderedRing K]

/-- a sequence whose terms at least halve from index `k` on: every finite tail after `k` is bounded by term `k` -/
theorem tail_le_of_halving (t : Nat → K) (k : Nat) (hpos : ∀ j, 0 ≤ t j)
    (hhalf : ∀ j, k ≤ j → t (j + 1) ≤ t j / 2) :
    ∀ n, (∑ i ∈ Finset.range n, t (k + 1 + i)) ≤ t k - t (k + n) := by
  intro n
  induction n with
  | zero => simp
  | succ n ih =>
    rw [Finset.sum_range_succ]
    have h1 := hhalf (k + n) (by omega)
    have e : k + 1 + n = k + n + 1 := by omega
    have e2 : k + (n + 1) = k + n + 1 := by omega
    rw [e, e2]
    have := hpos (k + n + 1)
    linarith

/-- **Taylor remainder after the break.**  Let `ν j` bound the norm of the `j`-th term of the series
    (`ν (j+1) ≤ x/(j+1) · ν j`, which holds for `‖(−itH)^j ψ‖ / j!` with `x = ‖tH‖`).  If the loop breaks at order `k`
    because `ν k < accuracy`, and `x ≤ (k+1)/2`, then the terms omitted after order `k` — any number of them — add up to
    less than `accuracy`: the returned state is within the requested accuracy of every longer partial sum (hence of
    the limit).  Without `x ≤ (k+1)/2` the statement fails (recorded finding: the test looks at the last term only). -/
theorem C16_taylor_tail (ν : Nat → K) (x acc : K) (k : Nat) (hν : ∀ j, 0 ≤ ν j)
    (hstep : ∀ j, ν (j + 1) ≤ x / ((j : K) + 1) * ν j) (hk : x ≤ ((k : K) + 1) / 2) (hbreak : ν k < acc) :
    ∀ n, (∑ i ∈ Finset.range n, ν (k + 1 + i)) < acc := by
  intro n
  have hhalf : ∀ j, k ≤ j → ν (j + 1) ≤ ν j / 2 := by
    intro j hj
    have hj' : (k : K) ≤ (j : K) := by exact_mod_cast hj
    have hpos : (0 : K) < (j : K) + 1 := by positivity
    have hq : x / ((j : K) + 1) ≤ 1 / 2 := by
      rw [div_le_iff₀ hpos]
      linarith
    calc ν (j + 1) ≤ x / ((j : K) + 1) * ν j := hstep j
      _ ≤ 1 / 2 * ν j := mul_le_mul_of_nonneg_right hq (hν j)
      _ = ν j / 2 := by ring
  have := tail_le_of_halving ν k hν hhalf n
  have := hν (k + n)
  linarith

/-- the premises are satisfiable: `ν j = (1/4)^j` with `x = 1/4`, break at `k = 2` for accuracy `1/10` -/
example : (∑ i ∈ Finset.range 3, ((1 : ℚ) / 4) ^ (2 + 1 + i)) < 1 / 10 := by
  norm_num [Finset.sum_range_succ]


end tail

end C16
