/-
  Props/C01.lean — property theorems for C01 (apply = exact operator action, one sign convention).

   * Spec is a representation of the canonical anticommutation relations        : C01_car_*
   * one embedding ι (sign `embedSign`) intertwines FQE's determinant-level ladder step with the
     Spec ladder operator, for both spins, creation and annihilation             : C01_iota_ladder
   * hence for every operator string (any length, any order, repeated indices)   : C01_iota_term
     — the same ι for every sector and every string: "one fixed sign convention".
   * the folding the dense 1+2-body kernels rest on (`h1e -= einsum('ikkj->ij', g)`, `g = -moveaxis(h2e, 1, 2)`,
     then products of single excitations): p† q† r s = δ_qr p† s − (p† r)(q† s) on every determinant,
     as an identity of signed results and as an identity of all matrix elements   : C01_two_body_fold(_eval)
  The dense routes are otherwise tied to the same Spec by the exact correspondence run; the foldings of
  the three- and four-body kernels are not proved (DESIGN.md §5 C01).
-/
import FqeVerif.Lemmas.Embed
import FqeVerif.Lemmas.Car
import FqeVerif.Lemmas.TermAlgebra
import FqeVerif.Model.Term
namespace C01
open Fock Model

/-- CAR for distinct modes: any two Spec ladder operators anticommute on every determinant -/
theorem C01_car_offdiag (d1 d2 : Bool) (m1 m2 a b : Nat) (h : m1 ≠ m2) :
    (specLadder2 d1 m1 d2 m2 a b).map (fun x => (!x.1, x.2)) = specLadder2 d2 m2 d1 m1 a b :=
  spec_car_offdiag d1 d2 m1 m2 a b h

/-- CAR, same mode: `a_m a_m† + a_m† a_m = 1` -/
theorem C01_car_diag (m a b : Nat) :
    (specLadder2 false m true m a b = some (false, a, b) ∧ specLadder2 true m false m a b = none) ∨
    (specLadder2 false m true m a b = none ∧ specLadder2 true m false m a b = some (false, a, b)) :=
  spec_car_diag m a b

/-- CAR: `a_m a_m = 0 = a_m† a_m†` -/
theorem C01_car_square (d : Bool) (m a b : Nat) : specLadder2 d m d m a b = none :=
  spec_car_square d m a b

/-- re-express an FQE-convention result in Spec convention: multiply the sign by ι(source)·ι(target) -/
def twist (norb a b : Nat) (r : Option (Bool × Nat × Nat)) : Option (Bool × Nat × Nat) :=
  r.map (fun x => (x.1 ^^ embedSign norb a b ^^ embedSign norb x.2.1 x.2.2, x.2.1, x.2.2))

/-- ι intertwines the kernels' ladder step with the Spec (Jordan–Wigner) ladder operator on mode
    `2q + spin`, for every determinant, both spins, creation and annihilation -/
theorem C01_iota_ladder (norb : Nat) (dag spin : Bool) (q a b : Nat) (hq : q < norb) :
    twist norb a b (fqeLadder norb dag spin q a b) =
      specLadder dag (2 * q + (if spin then 1 else 0)) a b := by
  unfold twist fqeLadder specLadder
  cases spin
  · have h1 : (2 * q + 0) % 2 = 0 := by omega
    have h2 : (2 * q + 0) / 2 = q := by omega
    simp only [if_true, Bool.false_eq_true, if_false, h1, h2]
    by_cases h : a.testBit q = dag
    · simp [h]
    · simp only [h, if_false, Option.map_some]
      rw [embed_alpha norb a b q hq]
      have h3 : 2 * q + 0 = 2 * q := by omega
      rw [h3]
      generalize embedSign norb a b = e; generalize parAbove norb a q = x
      generalize parModes a b (2 * q) = y
      cases e <;> cases x <;> cases y <;> rfl
  · have h1 : (2 * q + 1) % 2 = 1 := by omega
    have h2 : (2 * q + 1) / 2 = q := by omega
    have h3 : ¬ ((2 * q + 1) % 2 = 0) := by omega
    simp only [if_true, h3, if_false, h2, Bool.true_eq_false]
    by_cases h : b.testBit q = dag
    · simp [h]
    · simp only [h, if_false, Option.map_some]
      rw [embed_beta norb a b q hq]
      generalize embedSign norb a b = e; generalize parN norb a = n
      generalize parAbove norb b q = x; generalize parModes a b (2 * q + 1) = y
      cases e <;> cases n <;> cases x <;> cases y <;> rfl

/-- every mode of the string addresses an orbital `< norb` -/
def TermOk (norb : Nat) (t : Term) : Prop := ∀ f ∈ t, f.1 / 2 < norb

/-- **one sign convention for every operator string**: for any product of ladder operators, of any
    length and in any order, FQE's determinant-level action re-expressed through ι is exactly the
    Spec action: same support, same target, same sign -/
theorem C01_iota_term (norb : Nat) (t : Term) (a b : Nat) (ht : TermOk norb t) :
    twist norb a b (fqeApplyTerm norb t a b) = applyTerm t a b := by
  induction t with
  | nil => simp [twist, fqeApplyTerm, applyTerm]
  | cons f rest ih =>
    obtain ⟨m, dag⟩ := f
    have hrest : TermOk norb rest := fun g hg => ht g (List.mem_cons_of_mem _ hg)
    have hm : m / 2 < norb := ht (m, dag) List.mem_cons_self
    have ih' := ih hrest
    unfold fqeApplyTerm applyTerm
    rw [← ih']
    cases hr : fqeApplyTerm norb rest a b with
    | none => simp [twist]
    | some r =>
      obtain ⟨s, a', b'⟩ := r
      have hl := C01_iota_ladder norb dag (m % 2 == 1) (m / 2) a' b' hm
      have hmode : 2 * (m / 2) + (if (m % 2 == 1) = true then 1 else 0) = m := by
        by_cases h2 : m % 2 = 1
        · simp [h2]; omega
        · have : m % 2 = 0 := by omega
          simp [this]; omega
      rw [hmode] at hl
      simp only [twist, Option.map_some]
      rw [← hl]
      cases hf : fqeLadder norb dag (m % 2 == 1) (m / 2) a' b' with
      | none => simp [twist]
      | some r2 =>
        obtain ⟨s', a'', b''⟩ := r2
        simp only [twist, Option.map_some]
        generalize embedSign norb a b = e0; generalize embedSign norb a' b' = e1
        generalize embedSign norb a'' b'' = e2
        cases s <;> cases s' <;> cases e0 <;> cases e1 <;> cases e2 <;> rfl

/-- the hypotheses are met by a concrete non-trivial case in which the two conventions differ by a
    sign (a†_{0β} a_{1β} on |α:{0,1}, β:{1}⟩, norb = 2) -/
example : TermOk 2 [(1, true), (3, false)] ∧
    fqeApplyTerm 2 [(1, true), (3, false)] 3 2 = some (false, 3, 1) ∧
    applyTerm [(1, true), (3, false)] 3 2 = some (true, 3, 1) := by
  refine ⟨?_, by decide, by decide⟩
  intro f hf
  simp at hf
  rcases hf with rfl | rfl <;> decide

/-- matrix element `⟨f| r⟩` of a signed single-determinant result against an arbitrary integer-valued bra -/
def evalRes (f : Nat → Nat → Int) (r : Option (Bool × Nat × Nat)) : Int :=
  match r with
  | none => 0
  | some (s, a, b) => if s then - f a b else f a b

theorem evalRes_negRes (f : Nat → Nat → Int) (r : Option (Bool × Nat × Nat)) :
    evalRes f (negRes r) = - evalRes f r := by
  unfold evalRes negRes
  cases r with
  | none => rfl
  | some x =>
    obtain ⟨s, a, b⟩ := x
    cases s <;> simp

/-- the two-body folding used by every dense kernel, on every determinant `|a,b⟩` and for any four modes:
    `q ≠ r`: `p† q† r s = −(p† r)(q† s)`;
    `q = r`: exactly one of `p† q† q s`, `(p† q)(q† s)` survives and it equals `p† s` -/
theorem C01_two_body_fold (p q r s a b : Nat) :
    (q ≠ r → applyTerm [(p, true), (q, true), (r, false), (s, false)] a b =
        negRes (thenApply [(p, true), (r, false)] (applyTerm [(q, true), (s, false)] a b))) ∧
    (q = r →
      (applyTerm [(p, true), (q, true), (r, false), (s, false)] a b = applyTerm [(p, true), (s, false)] a b ∧
        thenApply [(p, true), (r, false)] (applyTerm [(q, true), (s, false)] a b) = none) ∨
      (applyTerm [(p, true), (q, true), (r, false), (s, false)] a b = none ∧
        thenApply [(p, true), (r, false)] (applyTerm [(q, true), (s, false)] a b) =
          applyTerm [(p, true), (s, false)] a b)) := by
  have happ : thenApply [(p, true), (r, false)] (applyTerm [(q, true), (s, false)] a b) =
      applyTerm ([(p, true)] ++ [(r, false), (q, true)] ++ [(s, false)]) a b := by
    rw [← applyTerm_append]; rfl
  constructor
  · intro hne
    rw [happ]
    exact term_swap [(p, true)] [(s, false)] true false q r a b hne
  · intro he
    subst he
    rw [happ]
    rcases term_contract [(p, true)] [(s, false)] q a b with ⟨h1, h2⟩ | ⟨h1, h2⟩
    · right
      exact ⟨h2, h1⟩
    · left
      exact ⟨h2, h1⟩

/-- the same as an identity of all matrix elements: `⟨f| p† q† r s |a,b⟩ = δ_qr ⟨f| p† s |a,b⟩ − ⟨f| (p† r)(q† s) |a,b⟩` -/
theorem C01_two_body_fold_eval (f : Nat → Nat → Int) (p q r s a b : Nat) :
    evalRes f (applyTerm [(p, true), (q, true), (r, false), (s, false)] a b) =
      (if q = r then evalRes f (applyTerm [(p, true), (s, false)] a b) else 0) -
        evalRes f (thenApply [(p, true), (r, false)] (applyTerm [(q, true), (s, false)] a b)) := by
  obtain ⟨h1, h2⟩ := C01_two_body_fold p q r s a b
  by_cases h : q = r
  · rcases h2 h with ⟨x, y⟩ | ⟨x, y⟩
    · rw [x, y]; simp [h, evalRes]
    · rw [x, y]; simp [h, evalRes]
  · rw [h1 h, evalRes_negRes]; simp [h]

example : applyTerm [(0, true), (2, true), (2, false), (4, false)] 0b110 0 = some (true, 0b011, 0) ∧
    applyTerm [(0, true), (4, false)] 0b110 0 = some (true, 0b011, 0) ∧
    applyTerm [(0, true), (6, true), (2, false), (4, false)] 0b110 0 ≠ none := by decide

end C01
