/-
  Props/C01.lean — property theorems for C01 (apply = exact operator action, one sign convention).

   * Spec is a representation of the canonical anticommutation relations        : C01_car_*
   * one embedding ι (sign `embedSign`) intertwines FQE's determinant-level ladder step with the
     Spec ladder operator, for both spins, creation and annihilation             : C01_iota_ladder
   * hence for every operator string (any length, any order, repeated indices)   : C01_iota_term
     — the same ι for every sector and every string: "one fixed sign convention".
   * the folding the dense 1+2-body kernels rest on (`h1e -= einsum('ikkj->ij', g)`, `g = -moveaxis(h2e, 1, 2)`,
     then products of single excitations): p† q† r s = δ_qr p† s − (p† r)(q† s) on every determinant,
     as an identity of signed results and as an identity of all matrix elements   : C01_two_body_fold(_eval)
   * the folding of the three-body kernels (`_apply_array_spatial123`, `_apply_array_spin123`: products of three
     single excitations plus two-body and one-body corrections): (p†s)(q†t)(r†u) = −p†q†r†stu + δ_sr p†q†tu
     − δ_tr p†q†su − δ_sq p†r†tu + δ_sq δ_tr p†u, obtained as the normal form the proved Wick driver computes
     for that product                                                              : C01_three_body_fold
   * the four-body product (p†t)(q†u)(r†v)(s†w) has 15 normal-ordered pieces       : C01_four_body_fold
  The dense routes are otherwise tied to the same Spec by the exact correspondence run.
-/
import FqeVerif.Lemmas.Embed
import FqeVerif.Lemmas.Car
import FqeVerif.Lemmas.TermAlgebra
import FqeVerif.Lemmas.Wick
import FqeVerif.Model.Term
namespace C01
open Fock Model

/-- CAR for distinct modes: any two Spec ladder operators anticommute on every determinant -/
theorem C01_car_offdiag (d1 d2 : Bool) (m1 m2 a b : Nat) (h : m1 ≠ m2) :
    (specLadder2 d1 m1 d2 m2 a b).map (fun x => (!x.1, x.2)) = specLadder2 d2 m2 d1 m1 a b :=
  spec_car_offdiag d1 d2 m1 m2 a b h

/-- CAR, same mode: `a_m a_m† + a_m† a_m = 1` -/
theorem C01_car_diag (m a b : Nat) :
    (specLadder2 false m true m a b = some (false, a, b) ∧ specLadder2 true m false m a b = none) ∨
    (specLadder2 false m true m a b = none ∧ specLadder2 true m false m a b = some (false, a, b)) :=
  spec_car_diag m a b

/-- CAR: `a_m a_m = 0 = a_m† a_m†` -/
theorem C01_car_square (d : Bool) (m a b : Nat) : specLadder2 d m d m a b = none :=
  spec_car_square d m a b

/-- re-express an FQE-convention result in Spec convention: multiply the sign by ι(source)·ι(target) -/
def twist (norb a b : Nat) (r : Option (Bool × Nat × Nat)) : Option (Bool × Nat × Nat) :=
  r.map (fun x => (x.1 ^^ embedSign norb a b ^^ embedSign norb x.2.1 x.2.2, x.2.1, x.2.2))

/-- ι intertwines the kernels' ladder step with the Spec (Jordan–Wigner) ladder operator on mode
    `2q + spin`, for every determinant, both spins, creation and annihilation -/
theorem C01_iota_ladder (norb : Nat) (dag spin : Bool) (q a b : Nat) (hq : q < norb) :
    twist norb a b (fqeLadder norb dag spin q a b) =
      specLadder dag (2 * q + (if spin then 1 else 0)) a b := by
  unfold twist fqeLadder specLadder
  cases spin
  · have h1 : (2 * q + 0) % 2 = 0 := by omega
    have h2 : (2 * q + 0) / 2 = q := by omega
    simp only [if_true, Bool.false_eq_true, if_false, h1, h2]
    by_cases h : a.testBit q = dag
    · simp [h]
    · simp only [h, if_false, Option.map_some]
      rw [embed_alpha norb a b q hq]
      have h3 : 2 * q + 0 = 2 * q := by omega
      rw [h3]
      generalize embedSign norb a b = e; generalize parAbove norb a q = x
      generalize parModes a b (2 * q) = y
      cases e <;> cases x <;> cases y <;> rfl
  · have h1 : (2 * q + 1) % 2 = 1 := by omega
    have h2 : (2 * q + 1) / 2 = q := by omega
    have h3 : ¬ ((2 * q + 1) % 2 = 0) := by omega
    simp only [if_true, h3, if_false, h2, Bool.true_eq_false]
    by_cases h : b.testBit q = dag
    · simp [h]
    · simp only [h, if_false, Option.map_some]
      rw [embed_beta norb a b q hq]
      generalize embedSign norb a b = e; generalize parN norb a = n
      generalize parAbove norb b q = x; generalize parModes a b (2 * q + 1) = y
      cases e <;> cases n <;> cases x <;> cases y <;> rfl

/-- every mode of the string addresses an orbital `< norb` -/
def TermOk (norb : Nat) (t : Term) : Prop := ∀ f ∈ t, f.1 / 2 < norb

/-- **one sign convention for every operator string**: for any product of ladder operators, of any
    length and in any order, FQE's determinant-level action re-expressed through ι is exactly the
    Spec action: same support, same target, same sign -/
theorem C01_iota_term (norb : Nat) (t : Term) (a b : Nat) (ht : TermOk norb t) :
    twist norb a b (fqeApplyTerm norb t a b) = applyTerm t a b := by
  induction t with
  | nil => simp [twist, fqeApplyTerm, applyTerm]
  | cons f rest ih =>
    obtain ⟨m, dag⟩ := f
    have hrest : TermOk norb rest := fun g hg => ht g (List.mem_cons_of_mem _ hg)
    have hm : m / 2 < norb := ht (m, dag) List.mem_cons_self
    have ih' := ih hrest
    unfold fqeApplyTerm applyTerm
    rw [← ih']
    cases hr : fqeApplyTerm norb rest a b with
    | none => simp [twist]
    | some r =>
      obtain ⟨s, a', b'⟩ := r
      have hl := C01_iota_ladder norb dag (m % 2 == 1) (m / 2) a' b' hm
      have hmode : 2 * (m / 2) + (if (m % 2 == 1) = true then 1 else 0) = m := by
        by_cases h2 : m % 2 = 1
        · simp [h2]; omega
        · have : m % 2 = 0 := by omega
          simp [this]; omega
      rw [hmode] at hl
      simp only [twist, Option.map_some]
      rw [← hl]
      cases hf : fqeLadder norb dag (m % 2 == 1) (m / 2) a' b' with
      | none => simp [twist]
      | some r2 =>
        obtain ⟨s', a'', b''⟩ := r2
        simp only [twist, Option.map_some]
        generalize embedSign norb a b = e0; generalize embedSign norb a' b' = e1
        generalize embedSign norb a'' b'' = e2
        cases s <;> cases s' <;> cases e0 <;> cases e1 <;> cases e2 <;> rfl

/-- the hypotheses are met by a concrete non-trivial case in which the two conventions differ by a
    sign (a†_{0β} a_{1β} on |α:{0,1}, β:{1}⟩, norb = 2) -/
example : TermOk 2 [(1, true), (3, false)] ∧
    fqeApplyTerm 2 [(1, true), (3, false)] 3 2 = some (false, 3, 1) ∧
    applyTerm [(1, true), (3, false)] 3 2 = some (true, 3, 1) := by
  refine ⟨?_, by decide, by decide⟩
  intro f hf
  simp at hf
  rcases hf with rfl | rfl <;> decide

/-- the two-body folding used by every dense kernel, on every determinant `|a,b⟩` and for any four modes:
    `q ≠ r`: `p† q† r s = −(p† r)(q† s)`;
    `q = r`: exactly one of `p† q† q s`, `(p† q)(q† s)` survives and it equals `p† s` -/
theorem C01_two_body_fold (p q r s a b : Nat) :
    (q ≠ r → applyTerm [(p, true), (q, true), (r, false), (s, false)] a b =
        negRes (thenApply [(p, true), (r, false)] (applyTerm [(q, true), (s, false)] a b))) ∧
    (q = r →
      (applyTerm [(p, true), (q, true), (r, false), (s, false)] a b = applyTerm [(p, true), (s, false)] a b ∧
        thenApply [(p, true), (r, false)] (applyTerm [(q, true), (s, false)] a b) = none) ∨
      (applyTerm [(p, true), (q, true), (r, false), (s, false)] a b = none ∧
        thenApply [(p, true), (r, false)] (applyTerm [(q, true), (s, false)] a b) =
          applyTerm [(p, true), (s, false)] a b)) := by
  have happ : thenApply [(p, true), (r, false)] (applyTerm [(q, true), (s, false)] a b) =
      applyTerm ([(p, true)] ++ [(r, false), (q, true)] ++ [(s, false)]) a b := by
    rw [← applyTerm_append]; rfl
  constructor
  · intro hne
    rw [happ]
    exact term_swap [(p, true)] [(s, false)] true false q r a b hne
  · intro he
    subst he
    rw [happ]
    rcases term_contract [(p, true)] [(s, false)] q a b with ⟨h1, h2⟩ | ⟨h1, h2⟩
    · right
      exact ⟨h2, h1⟩
    · left
      exact ⟨h2, h1⟩

/-- the same as an identity of all matrix elements: `⟨f| p† q† r s |a,b⟩ = δ_qr ⟨f| p† s |a,b⟩ − ⟨f| (p† r)(q† s) |a,b⟩` -/
theorem C01_two_body_fold_eval (f : Nat → Nat → Int) (p q r s a b : Nat) :
    evalRes f (applyTerm [(p, true), (q, true), (r, false), (s, false)] a b) =
      (if q = r then evalRes f (applyTerm [(p, true), (s, false)] a b) else 0) -
        evalRes f (thenApply [(p, true), (r, false)] (applyTerm [(q, true), (s, false)] a b)) := by
  obtain ⟨h1, h2⟩ := C01_two_body_fold p q r s a b
  by_cases h : q = r
  · rcases h2 h with ⟨x, y⟩ | ⟨x, y⟩
    · rw [x, y]; simp [h, evalRes]
    · rw [x, y]; simp [h, evalRes]
  · rw [h1 h, evalRes_negRes]; simp [h]

example : applyTerm [(0, true), (2, true), (2, false), (4, false)] 0b110 0 = some (true, 0b011, 0) ∧
    applyTerm [(0, true), (4, false)] 0b110 0 = some (true, 0b011, 0) ∧
    applyTerm [(0, true), (6, true), (2, false), (4, false)] 0b110 0 ≠ none := by decide

/-- three-body folding: a product of three single excitations in terms of normal-ordered strings, on every
    determinant and for every six modes (any coincidences among them) -/
theorem C01_three_body_fold (f : Nat → Nat → Int) (p q r s t u a b : Nat) :
    evalRes f (applyTerm [(p, true), (s, false), (q, true), (t, false), (r, true), (u, false)] a b) =
      - evalRes f (applyTerm [(p, true), (q, true), (r, true), (s, false), (t, false), (u, false)] a b)
      + (if s = r then evalRes f (applyTerm [(p, true), (q, true), (t, false), (u, false)] a b) else 0)
      - (if t = r then evalRes f (applyTerm [(p, true), (q, true), (s, false), (u, false)] a b) else 0)
      - (if s = q then evalRes f (applyTerm [(p, true), (r, true), (t, false), (u, false)] a b) else 0)
      + (if s = q ∧ t = r then evalRes f (applyTerm [(p, true), (u, false)] a b) else 0) := by
  have nf : wickNormalForm [(0, true), (3, false), (1, true), (4, false), (2, true), (5, false)] =
      [⟨[], [(0, true), (1, true), (2, true), (3, false), (4, false), (5, false)], true⟩,
       ⟨[(3, 2)], [(0, true), (1, true), (4, false), (5, false)], false⟩,
       ⟨[(4, 2)], [(0, true), (1, true), (3, false), (5, false)], true⟩,
       ⟨[(3, 1)], [(0, true), (2, true), (4, false), (5, false)], true⟩,
       ⟨[(3, 1), (4, 2)], [(0, true), (5, false)], false⟩] := by decide
  have h := wnormalize_sound (fun l => [p, q, r, s, t, u].getD l 0) f a b
    ([(0, true), (3, false), (1, true), (4, false), (2, true), (5, false)].length *
      [(0, true), (3, false), (1, true), (4, false), (2, true), (5, false)].length + 1)
    [⟨[], [(0, true), (3, false), (1, true), (4, false), (2, true), (5, false)], false⟩]
  unfold wickNormalForm at nf
  rw [nf] at h
  simp only [evalList, evalItem, deltasOk, itemTerm, List.map_cons, List.map_nil, List.sum_cons, List.sum_nil,
    List.all_cons, List.all_nil, List.getD_cons_zero, List.getD_cons_succ, Bool.and_true, beq_iff_eq,
    Bool.and_eq_true, if_true, Bool.false_eq_true, if_false, Int.add_zero] at h
  rw [← h]
  by_cases h1 : s = r <;> by_cases h2 : t = r <;> by_cases h3 : s = q <;> simp [h1, h2, h3] <;> omega

/-- the product of four single excitations `(p†t)(q†u)(r†v)(s†w)` equals the signed sum of the 15 normal-ordered
    pieces (1 four-body, 6 three-body, 7 two-body, 1 one-body string, with their Kronecker deltas) that the Wick
    driver lists — the decomposition `_apply_array_spatial1234` / `_apply_array_spin1234` fold into `nh1e`, `nh2e`,
    `nh3e` — on every determinant and for every eight modes -/
theorem C01_four_body_fold (ρ : Nat → Nat) (f : Nat → Nat → Int) (a b : Nat) :
    let pattern : List (Nat × Bool) :=
      [(0, true), (4, false), (1, true), (5, false), (2, true), (6, false), (3, true), (7, false)]
    evalList ρ f a b (wickNormalForm pattern) =
        evalRes f (applyTerm (pattern.map (fun o => (ρ o.1, o.2))) a b) ∧
      (wickNormalForm pattern).length = 15 ∧
      (wickNormalForm pattern).all (fun it => isNormal it.ops) = true ∧
      ((wickNormalForm pattern).map (fun it => it.ops.length / 2)).count 4 = 1 ∧
      ((wickNormalForm pattern).map (fun it => it.ops.length / 2)).count 3 = 6 ∧
      ((wickNormalForm pattern).map (fun it => it.ops.length / 2)).count 2 = 7 ∧
      ((wickNormalForm pattern).map (fun it => it.ops.length / 2)).count 1 = 1 := by
  intro pattern
  refine ⟨?_, by decide, by decide, by decide, by decide, by decide, by decide⟩
  unfold wickNormalForm
  rw [wnormalize_sound]
  simp [evalList, evalItem, deltasOk, itemTerm]

end C01
