/-
  Props/C02.lean — property theorems for C02 (time evolution = exp(-iHt), scalar phase once).

   * the scalar part enters exactly once on every route of `time_evolve` and for both algorithms of
     `apply_generated_unitary`                                                   : C02_scalar_once_time_evolve,
                                                                                   C02_scalar_once_generated_unitary
     (on the tree as found it entered twice on the Taylor route, at every order for sparse multi-term
      Hamiltonians and twice for Chebyshev — genuine defects, repaired by fix: commits)
   * in-place evolution is refused exactly for the route that cannot support it     : C02_inplace
   * the closed-form single-term evolution is a one-parameter group on every connected pair of
     determinants: U(c₁,s₁)U(c₂,s₂) = U(c₁c₂−s₁s₂, s₁c₂+c₁s₂), U(1,0) = 1, U(c,−s)U(c,s) = (c²+s²)·1,
     so with the addition theorems t₁ then t₂ equals t₁+t₂ and −t undoes t             : C02_individual_group, _identity, _inverse
   * diagonal routes: phases multiply (group law) given exp(a+b) = exp a · exp b      : C02_diag_group
  That each route returns exp(−itH)ψ numerically is decided by the correspondence against
  expm of the exact Spec matrix of H.
-/
import FqeVerif.Model.Evolve
import Mathlib.Tactic.Ring
import Mathlib.Tactic.LinearCombination
namespace C02
open Model

theorem C02_scalar_once_time_evolve (h : HamInfo) : (sitesTimeEvolve h).length = 1 := by
  unfold sitesTimeEvolve
  cases route h <;> simp [sitesGeneratedUnitary, ihtCarriesScalar]

theorem C02_scalar_once_generated_unitary (algo : Algo) (sparse : Bool) :
    (sitesGeneratedUnitary algo sparse).length = 1 := by
  cases algo <;> simp [sitesGeneratedUnitary, ihtCarriesScalar]

/-- every route is reachable (the statement above is not vacuous) -/
example : route ⟨true, true, false, false, false⟩ = .individual ∧ route ⟨false, false, true, true, false⟩ = .diagonal ∧
    route ⟨false, false, true, false, false⟩ = .quadratic ∧ route ⟨false, false, false, false, true⟩ = .diagCoulomb ∧
    route ⟨true, false, false, false, false⟩ = .taylor := by decide

/-- in-place evolution is refused exactly on the Taylor route -/
theorem C02_inplace (h : HamInfo) : inplaceRefused h = true ↔ route h = .taylor := by
  obtain ⟨a, b, c, d, e⟩ := h
  cases a <;> cases b <;> cases c <;> cases d <;> cases e <;> decide

variable {R : Type} [CommRing R]

/-- group law of the closed-form single-term evolution on a connected pair of determinants -/
theorem C02_individual_group (i c₁ s₁ c₂ s₂ u v x y : R) (hi : i * i = -1) (huv : u * v = 1) :
    pairStep i c₁ s₁ u v (pairStep i c₂ s₂ u v (x, y)) =
      pairStep i (c₁ * c₂ - s₁ * s₂) (s₁ * c₂ + c₁ * s₂) u v (x, y) := by
  unfold pairStep
  simp only [Prod.mk.injEq]
  constructor
  · linear_combination (s₁ * s₂ * x * u * v) * hi - (s₁ * s₂ * x) * huv
  · linear_combination (s₁ * s₂ * y * u * v) * hi - (s₁ * s₂ * y) * huv

theorem C02_individual_identity (i u v x y : R) : pairStep i 1 0 u v (x, y) = (x, y) := by
  unfold pairStep
  simp

/-- evolving back: `U(c,−s) U(c,s) = (c² + s²)·1`, the identity when `c² + s² = 1` -/
theorem C02_individual_inverse (i c s u v x y : R) (hi : i * i = -1) (huv : u * v = 1)
    (hcs : c * c + s * s = 1) :
    pairStep i c (-s) u v (pairStep i c s u v (x, y)) = (x, y) := by
  rw [C02_individual_group i c (-s) c s u v x y hi huv]
  have h1 : c * c - -s * s = 1 := by linear_combination hcs
  have h2 : -s * c + c * s = 0 := by ring
  rw [h1, h2]
  exact C02_individual_identity i u v x y

/-- diagonal routes multiply each amplitude by a phase; phases compose additively in time -/
theorem C02_diag_group (cexp : R → R) (hexp : ∀ a b, cexp (a + b) = cexp a * cexp b)
    (d t₁ t₂ x : R) : cexp (t₂ * d) * (cexp (t₁ * d) * x) = cexp ((t₁ + t₂) * d) * x := by
  have : (t₁ + t₂) * d = t₂ * d + t₁ * d := by ring
  rw [this, hexp]; ring

end C02
