/-
  Props/C04.lean — property theorems for C04 (accelerated and reference paths agree).

  Where the two paths run *different* algorithms, the Model has two definitions and they are proved
  equal for all inputs:
   * `make_mapping_each` masks: Python skips creator indices that are also annihilator indices, C sets
     all creator bits and clears the annihilator bits afterwards                      : C04_dag_mask
     hence the two `make_mapping_each` models produce identical tables                 : C04_make_mapping_each
   * C bit helpers (generated from bitstring.h) = Python bit helpers on 64-bit words   : C05.C05_c_* (imported)
   * marshalling: a 64-bit mask passed through a C `int` is preserved iff it is below 2^31; through
     `uint64_t` always (the `int` marshalling of `evaluate_map_each` was a genuine defect, repaired
     by a fix: commit)                                                                   : C04_marshal_int, C04_marshal_u64
  All other pairs (string generation, tables, apply, RDMs, qubit conversion) are decided by the exact
  cross-run of the same calls on both paths.
-/
import FqeVerif.Lemmas.Bits
import FqeVerif.Model.Maps
namespace C04
open Model

theorem testBit_foldl_setBit (l : List Nat) : ∀ (m r : Nat),
    (l.foldl setBit m).testBit r = (m.testBit r || decide (r ∈ l)) := by
  induction l with
  | nil => intro m r; simp
  | cons a t ih =>
    intro m r
    rw [List.foldl_cons, ih, testBit_setBit]
    by_cases h : a = r
    · subst h; simp
    · have : ¬ r = a := fun e => h e.symm
      simp [h, this]

theorem testBit_foldl_unsetBit (l : List Nat) : ∀ (m r : Nat),
    (l.foldl unsetBit m).testBit r = (m.testBit r && !decide (r ∈ l)) := by
  induction l with
  | nil => intro m r; simp
  | cons a t ih =>
    intro m r
    rw [List.foldl_cons, ih, testBit_unsetBit]
    by_cases h : a = r
    · subst h; simp
    · have : ¬ r = a := fun e => h e.symm
      simp [h, this]

theorem testBit_dagMaskPy (dag undag : List Nat) : ∀ (m r : Nat),
    (dag.foldl (fun m i => if undag.contains i then m else setBit m i) m).testBit r =
      (m.testBit r || (decide (r ∈ dag) && !decide (r ∈ undag))) := by
  induction dag with
  | nil => intro m r; simp
  | cons a t ih =>
    intro m r
    rw [List.foldl_cons, ih]
    by_cases hc : undag.contains a = true
    · have hm : a ∈ undag := by simpa using hc
      simp only [hc, if_true]
      by_cases h : r = a
      · subst h; simp [hm]
      · simp [h]
    · have hm : a ∉ undag := by simpa using hc
      simp only [hc, Bool.false_eq_true, if_false, testBit_setBit]
      by_cases h : r = a
      · subst h; simp [hm]
      · have : ¬ a = r := fun e => h e.symm
        simp [h, this]

/-- the Python and the C construction of the "must be empty" mask coincide for all index lists -/
theorem C04_dag_mask (dag undag : List Nat) : dagMaskPy dag undag = dagMaskC dag undag := by
  apply Nat.eq_of_testBit_eq
  intro r
  unfold dagMaskPy dagMaskC
  rw [testBit_dagMaskPy, testBit_foldl_unsetBit, testBit_foldl_setBit]
  simp

/-- hence both paths' operator-string tables are the same table -/
theorem C04_make_mapping_each (strings dag undag : List Nat) :
    makeMappingEachPy strings dag undag = makeMappingEachC strings dag undag := by
  unfold makeMappingEachPy makeMappingEachC
  rw [C04_dag_mask]

/-- a value handed to C through `int` (ctypes `c_int`) and widened back to `uint64_t`:
    truncation to 32 bits, then sign extension -/
def marshalInt (mask : Nat) : Nat :=
  let low := mask % 2 ^ 32
  if low < 2 ^ 31 then low else low + (2 ^ 64 - 2 ^ 32)

/-- handed through `uint64_t` (ctypes `c_uint64`) -/
def marshalU64 (mask : Nat) : Nat := mask % 2 ^ 64

theorem C04_marshal_u64 (mask : Nat) (h : mask < 2 ^ 64) : marshalU64 mask = mask :=
  Nat.mod_eq_of_lt h

/-- `int` marshalling preserves a 64-bit mask exactly when no bit ≥ 31 is set (orbital indices up to 30)
    or when *all* bits 31…63 are set (sign extension restores them) — the second disjunct was forced
    by the proof -/
theorem C04_marshal_int (mask : Nat) (h : mask < 2 ^ 64) :
    marshalInt mask = mask ↔ (mask < 2 ^ 31 ∨ 2 ^ 64 - 2 ^ 31 ≤ mask) := by
  unfold marshalInt
  simp only
  constructor
  · intro e
    by_cases hl : mask % 2 ^ 32 < 2 ^ 31
    · simp only [hl, if_true] at e
      omega
    · simp only [hl, if_false] at e
      omega
  · intro hlt
    rcases hlt with hlt | hge
    · have h1 : mask % 2 ^ 32 = mask := Nat.mod_eq_of_lt (by omega)
      rw [h1]
      simp [hlt]
    · have hl : ¬ mask % 2 ^ 32 < 2 ^ 31 := by omega
      simp only [hl, if_false]
      omega

/-- witness of the former defect: the mask of orbital 31 (norb = 32) does not survive `int` -/
example : marshalInt (2 ^ 31) ≠ 2 ^ 31 := by decide

end C04
