/-
  Props/C19.lean — property theorems for C19 (ACSE residuals, generalised doubles factorisation) — PARTIAL.

   * the way `get_acse_residual_fqe` combines the two overlaps per tensor element (real part through
     i(T − T†), imaginary part through T + T†) yields exactly ⟨ψ|T A|ψ⟩ − ⟨ψ|A T|ψ⟩ = ⟨ψ|[T, A]|ψ⟩ for
     Hermitian A                                                                    : C19_acse_combination
   * generalised doubles factorisation, algebra in any (non-commutative) ring: with S = U + V, D = U − V
       (S + X)² + (S − X)² = 2 S² + 2 X²                                             : C19_gdf_square_pair
       S² − D² = 2 (U V + V U)                                                        : C19_gdf_sum_diff
       (i·Y)² = −Y² for a central i with i² = −1                                       : C19_gdf_imaginary_square
     so (1/16)((op1² + op2²) − (op3² + op4²)) = (1/4)(UV + VU − U†V† − V†U†), the form the code relies on.
  That the returned operators' squares plus the one-body remainder sum back to the generator uses the SVD /
  Takagi laws (external) and the generator's symmetries: decided by the correspondence (Spec action of the
  reassembled operator vs the generator's on random states); the RDM-contraction route is compared with the
  Spec commutator expectation element by element.
-/
import Mathlib.Tactic.Ring
import Mathlib.Tactic.NoncommRing
import Mathlib.Tactic.LinearCombination
import Mathlib.Algebra.Star.Basic
namespace C19

/-- scalar algebra of the ACSE element: `a = ⟨Aψ|Tψ⟩`, `b = ⟨Aψ|T†ψ⟩`; the code forms
    `val1 = i(a − b)`, `val1' = a + b` and returns `(conj val1 − val1)/(2i) + (conj val1' − val1')/2`;
    multiplied out (by `2i`) this is `2i (conj b − a)`, i.e. the element is `conj b − a = ⟨ψ|[T,A]|ψ⟩` -/
theorem C19_acse_combination {K : Type} [CommRing K] [StarRing K] (i a b : K) (hi : i * i = -1)
    (hstar : star i = -i) :
    (star (i * (a - b)) - i * (a - b)) + i * (star (a + b) - (a + b)) = 2 * i * (star b - a) := by
  simp only [star_mul', star_sub, star_add, hstar]
  ring

variable {A : Type} [Ring A]

theorem C19_gdf_square_pair (S X : A) : (S + X) * (S + X) + (S - X) * (S - X) = 2 * (S * S) + 2 * (X * X) := by
  noncomm_ring

theorem C19_gdf_sum_diff (U V : A) :
    (U + V) * (U + V) - (U - V) * (U - V) = 2 * (U * V + V * U) := by
  noncomm_ring

theorem C19_gdf_imaginary_square (i Y : A) (hi : i * i = -1) (hc : Commute i Y) :
    (i * Y) * (i * Y) = -(Y * Y) := by
  have h : i * Y * (i * Y) = (i * i) * (Y * Y) := by
    rw [mul_assoc, ← mul_assoc Y i Y, ← hc.eq, mul_assoc i Y Y, ← mul_assoc]
  rw [h, hi]; noncomm_ring

/-- the combination the factorisation relies on, assembled from the three identities -/
theorem C19_gdf_assembly (i U V Ud Vd : A) (hi : i * i = -1)
    (hcS : Commute i (Ud + Vd)) (hcD : Commute i (Ud - Vd)) :
    ((U + V) + i * (Ud + Vd)) * ((U + V) + i * (Ud + Vd)) + ((U + V) - i * (Ud + Vd)) * ((U + V) - i * (Ud + Vd))
      - (((U - V) + i * (Ud - Vd)) * ((U - V) + i * (Ud - Vd)) + ((U - V) - i * (Ud - Vd)) * ((U - V) - i * (Ud - Vd)))
    = 4 * (U * V + V * U) - 4 * (Ud * Vd + Vd * Ud) := by
  rw [C19_gdf_square_pair, C19_gdf_square_pair, C19_gdf_imaginary_square i _ hi hcS,
    C19_gdf_imaginary_square i _ hi hcD]
  have h1 := C19_gdf_sum_diff U V
  have h2 := C19_gdf_sum_diff Ud Vd
  have e : 2 * ((U + V) * (U + V)) + 2 * -((Ud + Vd) * (Ud + Vd)) -
      (2 * ((U - V) * (U - V)) + 2 * -((Ud - Vd) * (Ud - Vd))) =
      2 * ((U + V) * (U + V) - (U - V) * (U - V)) - 2 * ((Ud + Vd) * (Ud + Vd) - (Ud - Vd) * (Ud - Vd)) := by
    noncomm_ring
  rw [e, h1, h2]; noncomm_ring

end C19
