/-
  Props/C08.lean — property theorems for C08 (wavefunction arithmetic = vector arithmetic).

   * `ax_plus_y` is refused exactly when the sector (determinant) sets differ; when admitted it is
     the pointwise `s·x + y`, same determinant list                                : C08_axpy_admit, C08_axpy_pointwise
   * `scale` is pointwise                                                           : C08_scale_pointwise
   * element write then read: the written element is read back, all others untouched : C08_set_get
   * `max_element`: the selected element has the largest magnitude and is an element  : C08_max_element
     (the model `argmaxBy` selects by magnitude; the library's earlier lexicographic selection was a
      genuine defect, repaired by a fix: commit — see known_findings.json)
   * inner product (no conjugation) is bilinear in the scaled-add                    : C08_dot_axpy
-/
import FqeVerif.Model.Arith
import Mathlib.Tactic.Ring
import Mathlib.Algebra.Ring.Defs
namespace C08
open Model

variable {R : Type}

/-- operands with different sector sets are rejected, never silently combined -/
theorem C08_axpy_admit [Add R] [Mul R] (s : R) (x y : Wfn R) :
    (axpy s x y = none) ↔ x.dets ≠ y.dets := by
  unfold axpy
  by_cases h : x.dets = y.dets <;> simp [h]

/-- admitted `ax_plus_y` is `s·x + y` coefficient by coefficient on the same determinant list -/
theorem C08_axpy_pointwise [Add R] [Mul R] (s : R) (x y r : Wfn R) (h : axpy s x y = some r)
    (i : Nat) (a b : R) (ha : x.coeff[i]? = some a) (hb : y.coeff[i]? = some b) :
    r.dets = y.dets ∧ r.coeff[i]? = some (s * a + b) := by
  unfold axpy at h
  by_cases hd : x.dets = y.dets
  · simp only [hd, if_true, Option.some.injEq] at h
    subst h
    refine ⟨rfl, ?_⟩
    simp [List.getElem?_zipWith, ha, hb]
  · simp [hd] at h

theorem C08_scale_pointwise [Mul R] (s : R) (x : Wfn R) (i : Nat) :
    (scale s x).dets = x.dets ∧ (scale s x).coeff[i]? = (x.coeff[i]?).map (fun a => s * a) := by
  simp [scale]

/-- writing one determinant's coefficient: it is read back, every other determinant keeps its value -/
theorem C08_set_get (x y : Wfn R) (k k' : Nat × Nat) (v : R)
    (hnd : x.dets.Nodup) (h : setItem x k v = some y) :
    getItem y k' = if k = k' then some v else getItem x k' := by
  unfold setItem at h
  cases hk : x.dets.idxOf? k with
  | none => simp [hk] at h
  | some i =>
    simp only [hk] at h
    by_cases hi : i < x.coeff.length
    · simp only [hi, if_true, Option.some.injEq] at h
      subst h
      unfold getItem
      simp only
      by_cases hkk : k = k'
      · subst hkk
        simp [hk, hi]
      · simp only [hkk, if_false]
        cases hk' : x.dets.idxOf? k' with
        | none => rfl
        | some j =>
          simp only
          have hij : i ≠ j := by
            intro e
            subst e
            have h1 := List.idxOf?_eq_some_iff.mp hk
            have h2 := List.idxOf?_eq_some_iff.mp hk'
            obtain ⟨hl1, he1, _⟩ := h1
            obtain ⟨_, he2, _⟩ := h2
            exact hkk (he1.symm.trans he2)
          rw [List.getElem?_set_ne hij]
    · simp [hi] at h

/-- `argmaxBy` returns an element of the list whose measure dominates every element's -/
theorem C08_max_element (f : R → Nat) (l : List R) (m : R) (h : argmaxBy f l = some m) :
    m ∈ l ∧ ∀ c ∈ l, f c ≤ f m := by
  induction l generalizing m with
  | nil => simp [argmaxBy] at h
  | cons a l ih =>
    unfold argmaxBy at h
    cases hl : argmaxBy f l with
    | none =>
      simp only [hl, Option.some.injEq] at h
      subst h
      have : l = [] := by
        cases l with
        | nil => rfl
        | cons b t =>
          unfold argmaxBy at hl
          cases ht : argmaxBy f t <;> simp [ht] at hl
          split at hl <;> cases hl
      subst this
      simp
    | some b =>
      simp only [hl] at h
      obtain ⟨hb, hall⟩ := ih b hl
      by_cases hc : f b ≤ f a
      · simp only [hc, if_true, Option.some.injEq] at h
        subst h
        refine ⟨List.mem_cons_self, ?_⟩
        intro c hcm
        rcases List.mem_cons.mp hcm with rfl | hcl
        · exact Nat.le_refl _
        · exact Nat.le_trans (hall c hcl) hc
      · simp only [hc, if_false, Option.some.injEq] at h
        subst h
        refine ⟨List.mem_cons_of_mem _ hb, ?_⟩
        intro c hcm
        rcases List.mem_cons.mp hcm with rfl | hcl
        · omega
        · exact hall c hcl

/-- the earlier library behaviour, for the record: selecting by the lexicographic complex order
    (real part first) does not give the largest magnitude; witness `[1, 0.5+5i, 0]` scaled by 2 -/
example : argmaxBy (fun (z : Int × Int) => (z.1 * z.1 + z.2 * z.2).toNat) [(2, 0), (1, 10), (0, 0)]
    = some (1, 10) := by decide

theorem dot_axpy_gen [CommRing R] (s : R) : ∀ (xs ys zs : List R) (acc1 acc2 acc3 : R),
    xs.length = ys.length → ys.length = zs.length → acc1 = s * acc2 + acc3 →
    (List.zipWith (fun a b => a * b) zs (List.zipWith (fun a b => s * a + b) xs ys)).foldl (· + ·) acc1 =
    s * (List.zipWith (fun a b => a * b) zs xs).foldl (· + ·) acc2 +
      (List.zipWith (fun a b => a * b) zs ys).foldl (· + ·) acc3 := by
  intro xs
  induction xs with
  | nil =>
    intro ys zs acc1 acc2 acc3 h1 _ hacc
    cases ys with
    | nil => simp [hacc]
    | cons y ys => simp at h1
  | cons x xs ih =>
    intro ys zs acc1 acc2 acc3 h1 h2 hacc
    cases ys with
    | nil => simp at h1
    | cons y ys =>
      cases zs with
      | nil => simp at h2
      | cons z zs =>
        simp only [List.zipWith_cons_cons, List.foldl_cons]
        apply ih
        · simpa using h1
        · simpa using h2
        · rw [hacc]; ring

/-- `dot` is linear in the scaled-add of its second argument (any commutative ring) -/
theorem C08_dot_axpy [CommRing R] (s : R) (xs ys zs : List R) (h1 : xs.length = ys.length)
    (h2 : ys.length = zs.length) :
    dot ⟨[], zs⟩ ⟨[], List.zipWith (fun a b => s * a + b) xs ys⟩ =
      s * dot ⟨[], zs⟩ ⟨[], xs⟩ + dot ⟨[], zs⟩ ⟨[], ys⟩ := by
  unfold dot
  exact dot_axpy_gen s xs ys zs 0 0 0 h1 h2 (by ring)

end C08
