/-
  Props/C15.lean — property theorems for C15 (save / read).

   * a file cut short at any byte is refused: for a deterministic reader that finishes exactly at the
     end of the intact file, every strict prefix ends in failure                      : C15_prefix
   * a failed load leaves the receiver unchanged                                      : C15_atomic
   * without a `path` argument the directory is the current one at the time of the call : C15_location
   * the shape of `Wavefunction.read` / `save` regenerated from the source on every run meets the premises of
     the theorems above: one `pickle.load`, outside any loop, before the first store into the receiver; one
     `pickle.dump`, no store into the receiver; `path` defaults to `None` and the directory is read in the body
                                                                                       : C15_shape_read, C15_shape_save
  (the earlier default `path=os.getcwd()` — evaluated at import — was a genuine defect, repaired by a
   fix: commit; the chdir histories of the correspondence replay it).
-/
import FqeVerif.Model.Persist
import FqeVerif.Generated.PersistShape
namespace C15
open Model

theorem runReader_append_none {S B : Type} (step : S → B → Step S) :
    ∀ (p : List B) (s : S) (k : Nat), runReader step s p = some k → k ≤ p.length := by
  intro p
  induction p with
  | nil => intro s k h; simp [runReader] at h
  | cons b rest ih =>
    intro s k h
    unfold runReader at h
    cases hs : step s b with
    | done => simp [hs] at h; subst h; simp
    | err => simp [hs] at h
    | cont s' =>
      simp only [hs] at h
      cases hr : runReader step s' rest with
      | none => simp [hr] at h
      | some j =>
        simp [hr] at h
        have := ih s' j hr
        subst h
        simp; omega

/-- **truncated files are refused**: if the reader consumes the whole intact file `p ++ q` (finishing
    exactly at its end) then on the strict prefix `p` (`q ≠ []`) it cannot finish -/
theorem C15_prefix {S B : Type} (step : S → B → Step S) :
    ∀ (p q : List B) (s : S), q ≠ [] → runReader step s (p ++ q) = some (p ++ q).length →
      runReader step s p = none := by
  intro p
  induction p with
  | nil => intro q s _ _; rfl
  | cons b rest ih =>
    intro q s hq h
    simp only [List.cons_append] at h
    unfold runReader at h ⊢
    cases hs : step s b with
    | done =>
      simp only [hs, List.length_cons, Option.some.injEq] at h
      have : (rest ++ q).length = 0 := by omega
      have : q = [] := by
        have := List.length_eq_zero_iff.mp this
        simp at this; exact this.2
      exact absurd this hq
    | err => rfl
    | cont s' =>
      simp only [hs] at h ⊢
      cases hr : runReader step s' (rest ++ q) with
      | none => simp [hr] at h
      | some j =>
        simp only [hr, Option.map_some, List.length_cons, Option.some.injEq] at h
        have hj : j = (rest ++ q).length := by omega
        rw [ih q s' hq (by rw [hr, hj])]
        rfl

/-- non-vacuity: a reader that stops at the first `0` byte consumes `[3,1,0]` completely and refuses
    every strict prefix -/
example : runReader (fun (_ : Unit) (b : Nat) => if b = 0 then Step.done else Step.cont ()) () [3, 1, 0] = some 3 ∧
    runReader (fun (_ : Unit) (b : Nat) => if b = 0 then Step.done else Step.cont ()) () [3, 1] = none := by
  decide

/-- a failed load leaves the receiver exactly as it was -/
theorem C15_atomic {W D : Type} (assign : W → D → W) (w : W) :
    readInto (none : Option D) assign w = (w, false) := rfl

/-- files go to the directory the caller names, else to the current directory at the time of the call
    (not the directory that was current when the library was imported) -/
theorem C15_location (path : Option String) (cwdImport cwdCall : String) :
    resolveDir path cwdImport cwdCall = (match path with | some p => p | none => cwdCall) := by
  cases path <;> rfl

/-! ### shape of the real `read` / `save` (harness/translate/persist.py) -/

/-- nesting depth of loops at each event -/
def depths : List (String × String) → Nat → List ((String × String) × Nat)
  | [], _ => []
  | e :: rest, d =>
    if e.1 = "loop{" then depths rest (d + 1)
    else if e.1 = "}" then depths rest (d - 1)
    else (e, d) :: depths rest d

/-- exactly one `load`, at loop depth 0, no store into the receiver before it, `path=None` default, and the
    current directory read in the body before the load -/
def readShapeOk (ev : List (String × String)) : Bool :=
  let ds := depths ev 0
  (ds.filter (fun x => x.1.1 == "load")).length == 1 &&
  ds.all (fun x => x.1.1 != "load" || x.2 == 0) &&
  ((ds.takeWhile (fun x => x.1.1 != "load")).all (fun x => x.1.1 != "assign")) &&
  ev.contains ("default", "path=None") && (ev.takeWhile (fun e => e.1 != "load")).contains ("cwd", "")

/-- once the first store into the receiver has happened nothing but stores follows: everything that can fail (decoding
    the archive, the loop over its sectors) is done on local data first, so an unreadable file cannot leave a partially
    updated receiver (since fix: commit of `Wavefunction.read`; before it the loop over the sectors stored as it went) -/
def storesLast (ev : List (String × String)) : Bool :=
  (ev.dropWhile (fun e => e.1 != "assign")).all (fun e => e.1 == "assign")

/-- exactly one `dump`, no store into the receiver, directory resolved at call time -/
def saveShapeOk (ev : List (String × String)) : Bool :=
  (ev.filter (fun e => e.1 == "dump")).length == 1 && ev.all (fun e => e.1 != "assign") &&
  ev.contains ("default", "path=None") && (ev.takeWhile (fun e => e.1 != "dump")).contains ("cwd", "")

/-- the source of `Wavefunction.read` as it is now: load once, then assign (the premise of `C15_atomic`), default
    directory taken from `os.getcwd()` inside the body (the premise of `C15_location`) -/
theorem C15_shape_read : readShapeOk GenPersist.readEvents = true ∧ storesLast GenPersist.readEvents = true ∧
    GenPersist.readEvents = [("default", "path=None"), ("cwd", ""), ("open", "'r+b'"), ("load", ""), ("loop{", ""), ("}", ""),
      ("assign", "self._symmetry_map"), ("assign", "self._conserved"), ("assign", "self._conserve_spin"),
      ("assign", "self._conserve_number"), ("assign", "self._norb"), ("assign", "self._civec")] := by
  decide

theorem C15_shape_save : saveShapeOk GenPersist.saveEvents = true ∧
    GenPersist.saveEvents = [("default", "path=None"), ("loop{", ""), ("}", ""), ("cwd", ""), ("open", "'w+b'"), ("dump", "")] := by
  decide

/-- the checker is not vacuous: a streamed reader (load inside a loop, stores before the last load) and a
    default evaluated at import are rejected -/
example : readShapeOk [("default", "path=None"), ("cwd", ""), ("open", "'r+b'"), ("load", ""), ("assign", "self._norb"),
      ("loop{", ""), ("load", ""), ("assign", "self._civec"), ("}", "")] = false ∧
    readShapeOk [("default", "path=os.getcwd()"), ("open", "'r+b'"), ("load", ""), ("assign", "self._norb")] = false := by decide

end C15
