/-
  Props/C15.lean — property theorems for C15 (save / read).

   * a file cut short at any byte is refused: for a deterministic reader that finishes exactly at the
     end of the intact file, every strict prefix ends in failure                      : C15_prefix
   * a failed load leaves the receiver unchanged                                      : C15_atomic
   * without a `path` argument the directory is the current one at the time of the call : C15_location
  (the earlier default `path=os.getcwd()` — evaluated at import — was a genuine defect, repaired by a
   fix: commit; the chdir histories of the correspondence replay it).
-/
import FqeVerif.Model.Persist
namespace C15
open Model

theorem runReader_append_none {S B : Type} (step : S → B → Step S) :
    ∀ (p : List B) (s : S) (k : Nat), runReader step s p = some k → k ≤ p.length := by
  intro p
  induction p with
  | nil => intro s k h; simp [runReader] at h
  | cons b rest ih =>
    intro s k h
    unfold runReader at h
    cases hs : step s b with
    | done => simp [hs] at h; subst h; simp
    | err => simp [hs] at h
    | cont s' =>
      simp only [hs] at h
      cases hr : runReader step s' rest with
      | none => simp [hr] at h
      | some j =>
        simp [hr] at h
        have := ih s' j hr
        subst h
        simp; omega

/-- **truncated files are refused**: if the reader consumes the whole intact file `p ++ q` (finishing
    exactly at its end) then on the strict prefix `p` (`q ≠ []`) it cannot finish -/
theorem C15_prefix {S B : Type} (step : S → B → Step S) :
    ∀ (p q : List B) (s : S), q ≠ [] → runReader step s (p ++ q) = some (p ++ q).length →
      runReader step s p = none := by
  intro p
  induction p with
  | nil => intro q s _ _; rfl
  | cons b rest ih =>
    intro q s hq h
    simp only [List.cons_append] at h
    unfold runReader at h ⊢
    cases hs : step s b with
    | done =>
      simp only [hs, List.length_cons, Option.some.injEq] at h
      have : (rest ++ q).length = 0 := by omega
      have : q = [] := by
        have := List.length_eq_zero_iff.mp this
        simp at this; exact this.2
      exact absurd this hq
    | err => rfl
    | cont s' =>
      simp only [hs] at h ⊢
      cases hr : runReader step s' (rest ++ q) with
      | none => simp [hr] at h
      | some j =>
        simp only [hr, Option.map_some, List.length_cons, Option.some.injEq] at h
        have hj : j = (rest ++ q).length := by omega
        rw [ih q s' hq (by rw [hr, hj])]
        rfl

/-- non-vacuity: a reader that stops at the first `0` byte consumes `[3,1,0]` completely and refuses
    every strict prefix -/
example : runReader (fun (_ : Unit) (b : Nat) => if b = 0 then Step.done else Step.cont ()) () [3, 1, 0] = some 3 ∧
    runReader (fun (_ : Unit) (b : Nat) => if b = 0 then Step.done else Step.cont ()) () [3, 1] = none := by
  decide

/-- a failed load leaves the receiver exactly as it was -/
theorem C15_atomic {W D : Type} (assign : W → D → W) (w : W) :
    readInto (none : Option D) assign w = (w, false) := rfl

/-- files go to the directory the caller names, else to the current directory at the time of the call
    (not the directory that was current when the library was imported) -/
theorem C15_location (path : Option String) (cwdImport cwdCall : String) :
    resolveDir path cwdImport cwdCall = (match path with | some p => p | none => cwdCall) := by
  cases path <;> rfl

end C15
