/-
  Props/C07.lean — property theorems for C07 (qubit export / import, Jordan–Wigner code).

   * the sign attached by the export differs from the Spec embedding ι only by a factor that depends
     on the electron counts (nα, nβ) of the determinant                           : C07_sector_sign
   * hence, for every operator string that preserves (nα, nβ) — in particular within one sector —
     "apply then export" equals "export then apply the Jordan–Wigner (Spec) image",
     sign included                                                                : C07_intertwine_partial
   * the full statement (also across sectors) is FALSE for the mirrored export: the sector factor is
     not constant; witness proved                                                  : C07_intertwine_fails
   * index: qubit `2p + spin` of the exported index is set iff that spin orbital is occupied; the index map is
     injective on strings below 2^norb and stays below 2^(2 norb) (so the export is a permutation of
     amplitudes with signs — norms and inner products are preserved)              : C07_index_bits, C07_index_injective
   * linear binary codes: the export index is the XOR of an alpha part and a beta part, and the code whose
     columns are the unit vectors is the Jordan–Wigner export                      : C07_code_split, C07_code_jw
  Round trip and sector detection are decided by the exact correspondence.
-/
import FqeVerif.Props.C01
import FqeVerif.Model.Cirq
import FqeVerif.Lemmas.Bits
import FqeVerif.Lemmas.CirqIndex
namespace C07
open Fock Model C01

/-- parity of n(n-1)/2 -/
def triN (n : Nat) : Bool := decide ((n * (n - 1) / 2) % 2 = 1)

theorem triN_succ (n : Nat) : triN (n + 1) = (triN n ^^ decide (n % 2 = 1)) := by
  unfold triN
  have h : (n + 1) * (n + 1 - 1) / 2 = n * (n - 1) / 2 + n := by
    cases n with
    | zero => rfl
    | succ m =>
      have e1 : (m + 1 + 1) * (m + 1 + 1 - 1) = (m + 1) * (m + 1 - 1) + 2 * (m + 1) := by
        simp only [Nat.add_sub_cancel]
        rw [Nat.add_mul, Nat.mul_add]
        omega
      rw [e1, Nat.add_mul_div_left _ _ (by omega : 0 < 2)]
  rw [h]
  by_cases a : (n * (n - 1) / 2) % 2 = 1 <;> by_cases b : n % 2 = 1 <;> simp [a, b] <;> omega

/-- the triangular parity of a string depends only on its electron count -/
theorem tri_eq_triN (s : Nat) : ∀ k, tri s k = triN (cnt s k) := by
  intro k
  induction k with
  | zero => simp [tri, cnt, cntIf, triN]
  | succ k ih =>
    rw [tri, ih]
    unfold cnt at *
    rw [cntIf]
    have hp := cnt_parity s k
    unfold cnt at hp
    cases hb : s.testBit k
    · simp
    · simp only [Bool.and_self, if_true, Bool.true_and, triN_succ, hp]

/-- the factor by which the export's sign differs from ι: a function of (nα, nβ) only -/
def sectorSign (norb a b : Nat) : Bool := triN (cnt a norb) ^^ triN (cnt b norb)

/-- export sign = ι sign × sector factor -/
theorem C07_sector_sign (norb a b : Nat) :
    embedSign norb a b = (cirqSign norb a b ^^ sectorSign norb a b) := by
  unfold embedSign cirqSign sectorSign
  rw [tri_eq_triN, tri_eq_triN]
  generalize cross norb a b norb = c; generalize triN (cnt a norb) = x; generalize triN (cnt b norb) = y
  cases c <;> cases x <;> cases y <;> rfl

/-- "apply in FQE, then export" expressed on signs: source export sign, kernel sign, target export sign -/
def exportTwist (norb a b : Nat) (r : Option (Bool × Nat × Nat)) : Option (Bool × Nat × Nat) :=
  r.map (fun x => (x.1 ^^ cirqSign norb a b ^^ cirqSign norb x.2.1 x.2.2, x.2.1, x.2.2))

/-- for every operator string whose action on `(a,b)` keeps the electron counts (nα, nβ) — every
    string, when the wavefunction has a single sector — exporting after applying equals applying
    the Jordan–Wigner image after exporting -/
theorem C07_intertwine_partial (norb : Nat) (t : Term) (a b : Nat) (ht : TermOk norb t)
    (hsec : ∀ r, fqeApplyTerm norb t a b = some r → sectorSign norb r.2.1 r.2.2 = sectorSign norb a b) :
    exportTwist norb a b (fqeApplyTerm norb t a b) = applyTerm t a b := by
  rw [← C01_iota_term norb t a b ht]
  unfold exportTwist twist
  cases h : fqeApplyTerm norb t a b with
  | none => rfl
  | some r =>
    have hs := hsec r h
    simp only [Option.map_some]
    rw [C07_sector_sign norb a b, C07_sector_sign norb r.2.1 r.2.2, hs]
    generalize cirqSign norb a b = c1; generalize cirqSign norb r.2.1 r.2.2 = c2
    generalize sectorSign norb a b = s; generalize r.1 = x
    cases c1 <;> cases c2 <;> cases s <;> cases x <;> rfl

/-- the unrestricted statement is false for the export as the library computes it: for
    `a†_{0β} a_{0α}` (mode 1 ← mode 0) on |α:{0,1}⟩ with two orbitals (N = 2, Sz changes) the two sides
    differ by a sign -/
theorem C07_intertwine_fails :
    exportTwist 2 0b11 0b00 (fqeApplyTerm 2 [(1, true), (0, false)] 0b11 0b00)
      ≠ applyTerm [(1, true), (0, false)] 0b11 0b00 := by
  decide

example : TermOk 2 [(1, true), (0, false)] := by
  intro f hf; simp at hf; rcases hf with rfl | rfl <;> decide

/-- each determinant sits at the index of its Jordan–Wigner bit pattern: bit `2·norb − 1 − m` of the index
    (qubit `m`, qubit 0 most significant) is the occupation of mode `m = 2p + spin` -/
theorem C07_index_bits (norb a b i : Nat) :
    (cirqIndex norb a b).testBit i =
      (decide (i < 2 * norb) &&
        (if (2 * norb - 1 - i) % 2 = 0 then a.testBit ((2 * norb - 1 - i) / 2) else b.testBit ((2 * norb - 1 - i) / 2))) :=
  testBit_cirqIndex norb a b i

/-- the export places different determinants at different indices inside the `2^(2 norb)` vector: it is an
    injection of the determinant basis into the qubit basis (with signs), hence an isometry -/
theorem C07_index_injective (norb a b a' b' : Nat) (ha : a < 2 ^ norb) (hb : b < 2 ^ norb)
    (ha' : a' < 2 ^ norb) (hb' : b' < 2 ^ norb) :
    cirqIndex norb a b < 2 ^ (2 * norb) ∧ (cirqIndex norb a b = cirqIndex norb a' b' → a = a' ∧ b = b') :=
  ⟨cirqIndex_lt norb a b, cirqIndex_injective norb a b a' b' ha hb ha' hb'⟩

/-- linear binary codes: index = (alpha part) XOR (beta part), for every encoder matrix -/
theorem C07_code_split (norb : Nat) (cols : List Nat) (a b : Nat) :
    cirqIndexCode norb cols a b = cirqIndexCode norb cols a 0 ^^^ cirqIndexCode norb cols 0 b :=
  cirqIndexCode_split norb cols a b

/-- the identity code is the Jordan–Wigner export -/
theorem C07_code_jw (norb a b : Nat) : cirqIndexCode norb (jwCols norb) a b = cirqIndex norb a b :=
  cirqIndexCode_jw norb a b

example : cirqIndex 2 0b01 0b10 = 0b1001 ∧ cirqIndexCode 2 (jwCols 2) 0b01 0b10 = 0b1001 := by decide

end C07
