/-
  Props/C05.lean — property theorems for C05 (determinant addressing and excitation tables).
  Only property statements live here; helper lemmas are in Lemmas/.

  Coverage of the property by theorems:
   * bit helpers (Python forms) = arithmetic definitions, all 64-bit words     : C05_helpers_*
   * bit helpers (C forms, *generated* from bitstring.h) = the Python forms      : C05_c_*
     and every shift they perform has a count < 64                               : C05_c_shifts
   * every single-excitation table entry is the Spec action (target and sign),
     and a string has an entry iff the action is non-zero                        : C05_single_exc, C05_number_op
   * sources / targets of one map are pairwise distinct (injectivity)           : C05_single_exc_injective
   * Z-matrix closed form; address = lexical rank; the string table = all k-subsets in lexical order,
     each exactly once                                                            : C05_zmatrix_closed, C05_address,
                                                                                    C05_string_table, C05_enumeration_reference
   * operator-string loop = descending ladder product                            : C05_opstring
   * the C string generator: the *generated* `BitVec 64` body of Gosper's hack = the `Nat` model, and
     the generator loop lists the k-subsets in increasing numeric order, for every
     norb ≤ 63 (the C cut-over) and every nele                                    : C05_c_gosper_step, C05_c_generator
   * k-fold annihilation maps between sectors (`make_mapping_each_set`): for every mask and every admitted
     source the entry is the descending ladder product over the mask's orbitals — same target, parity of the
     count = its sign; a source is admitted iff all mask orbitals are occupied     : C05_kfold_map, C05_kfold_admit
   * de-excitation table (`map_to_deexc`): the row of a target holds exactly the single-excitation entries that end
     on it, and the list of all entries has no duplicates                           : C05_deexc_row, C05_deexc_nodup
  Carried by the correspondence only (still open): the linking of the sector graphs in `FciGraphSet` (which pairs of
  sectors are connected).
-/
import FqeVerif.Lemmas.BitsC
import FqeVerif.Lemmas.Excite
import FqeVerif.Lemmas.MapEach
import FqeVerif.Lemmas.Subsets
import FqeVerif.Lemmas.Address
import FqeVerif.Lemmas.Gosper
import FqeVerif.Lemmas.MapSet
import FqeVerif.Lemmas.Deexc
import FqeVerif.Lemmas.PyInt
import FqeVerif.Lemmas.ZMatrixC
namespace C05
open Model Fock

/-- `count_bits` of a 64-bit word is its number of set bits -/
theorem C05_helpers_count (s : Nat) (h : s < 2 ^ 64) : countBits s = cnt s 64 :=
  countBits_eq_cnt 64 s h

/-- `count_bits_above s pos` = #{r | pos < r, bit r of s set}, every 64-bit word, every position -/
theorem C05_helpers_above (s pos : Nat) (h : s < 2 ^ 64) :
    countBitsAbove s pos = cntIf s (fun r => decide (pos < r)) 64 :=
  countBitsAbove_eq s pos 64 h

/-- `count_bits_below s pos` = #{r | r < pos, bit r of s set} -/
theorem C05_helpers_below (s pos : Nat) (h : s < 2 ^ 64) :
    countBitsBelow s pos = cntIf s (fun r => decide (r < pos)) 64 :=
  countBitsBelow_eq s pos 64 h

/-- `count_bits_between s p1 p2` = #{r | min < r < max, bit r set}, symmetric in the positions.
    Proved for `p1 ≠ p2` (all call sites); for equal positions see `C05_helpers_between_same`. -/
theorem C05_helpers_between_partial (s p1 p2 : Nat) (h : s < 2 ^ 64) (hne : p1 ≠ p2) :
    countBitsBetween s p1 p2 = cntIf s (fun r => decide (min p1 p2 < r ∧ r < max p1 p2)) 64 :=
  countBitsBetween_eq s p1 p2 64 h hne

/-- the excluded point of the previous theorem: with equal positions the helper returns bit `p`
    itself (1 if set), not the empty count 0 — recorded in DESIGN.md §6 as a boundary of the claim -/
theorem C05_helpers_between_same (s p : Nat) (h : s < 2 ^ 64) :
    countBitsBetween s p p = cntIf s (fun r => decide (r = p)) 64 :=
  countBitsBetween_same s p 64 h

example : countBitsBetween 0b1010 1 3 = 0 ∧ countBitsBetween 0b1110 3 1 = 1 ∧ countBitsBetween 2 1 1 = 1 := by
  decide +kernel

/-- set / unset / get act on exactly the named bit -/
theorem C05_helpers_setget (s p r : Nat) :
    (setBit s p).testBit r = (s.testBit r || decide (p = r)) ∧
    (unsetBit s p).testBit r = (s.testBit r && !decide (p = r)) ∧
    ((getBit s p ≠ 0) ↔ s.testBit p = true) :=
  ⟨testBit_setBit s p r, testBit_unsetBit s p r, getBit_ne_zero s p⟩

/-- the C helpers, as translated from `bitstring.h`, agree with the Python forms on all 64-bit
    words and all positions `< 64` (including the wrap-around of `2ull << 63`) -/
theorem C05_c_between (s : BitVec 64) (i j : Nat) (hi : i < 64) (hj : j < 64) :
    GenC.count_bits_between s i j = countBitsBetween s.toNat i j :=
  GenC.count_bits_between_eq s i j hi hj

theorem C05_c_above (s : BitVec 64) (i : Nat) (hi : i < 64) :
    GenC.count_bits_above s i = countBitsAbove s.toNat i :=
  GenC.count_bits_above_eq s i hi

theorem C05_c_setget (b : BitVec 64) (p : Nat) (hp : p < 64) :
    (GenC.set_bit b p).toNat = setBit b.toNat p ∧
    (GenC.unset_bit b p).toNat = unsetBit b.toNat p ∧
    (GenC.check_bit b p).toNat = getBit b.toNat p :=
  ⟨GenC.set_bit_eq b p hp, GenC.unset_bit_eq b p hp, GenC.check_bit_eq b p hp⟩

/-- no undefined behaviour: every shift count in the translated helpers is `< 64` whenever the
    positions are `< 64` -/
theorem C05_c_shifts (s : BitVec 64) (i j : Nat) (hi : i < 64) (hj : j < 64) :
    (∀ c ∈ GenC.count_bits_between_shifts s i j, c < 64) ∧
    (∀ c ∈ GenC.count_bits_above_shifts s i, c < 64) ∧
    (∀ c ∈ GenC.set_bit_shifts s i, c < 64) ∧
    (∀ c ∈ GenC.unset_bit_shifts s i, c < 64) ∧
    (∀ c ∈ GenC.check_bit_shifts s i, c < 64) := by
  simp [GenC.count_bits_between_shifts, GenC.count_bits_above_shifts, GenC.set_bit_shifts,
    GenC.unset_bit_shifts, GenC.check_bit_shifts, hi, hj]

/-- every entry of the single-excitation table `i <- j` (`i ≠ j`) names the target determinant and
    the fermionic sign of `a†_i a_j` acting on the string, and a string has an entry exactly when
    that action is non-zero: nothing missing, nothing spurious -/
theorem C05_single_exc (i j s : Nat) (hij : i ≠ j) :
    mappingEntry i j s = (ladder2 true i false j s).map (fun x => (s, x.2, x.1)) :=
  mappingEntry_spec i j s hij

/-- the diagonal tables are the number operators -/
theorem C05_number_op (i s : Nat) :
    mappingEntry i i s = (ladder2 true i false i s).map (fun x => (s, x.2, x.1)) :=
  mappingEntry_diag i s

example : mappingEntry 0 2 0b0110 = some (0b0110, 0b0011, true) := by decide +kernel

/-- within one table no source is listed twice and no target is hit twice: the map
    `source ↦ target` of `_build_mapping[(i,j)]` is injective (reused by C10 for the parallel
    loops over map entries) -/
theorem C05_single_exc_injective (i j s s' : Nat) (e e' : Nat × Nat × Bool)
    (h : mappingEntry i j s = some e) (h' : mappingEntry i j s' = some e') (ht : e.2.1 = e'.2.1) :
    s = s' := by
  have key : ∀ t (x : Nat × Nat × Bool), mappingEntry i j t = some x →
      x.2.1 = Fock.flip (Fock.flip t j) i := by
    intro t x hx
    by_cases hij : i = j
    · subst hij
      rw [Fock.flip_flip]
      unfold mappingEntry at hx
      split at hx
      · rename_i hc; exact absurd hc.2 hc.1
      · split at hx
        · cases hx; rfl
        · cases hx
    · rw [mappingEntry_spec i j t hij] at hx
      unfold ladder2 ladder at hx
      by_cases a : t.testBit j = false
      · simp [a] at hx
      · by_cases b : (Fock.flip t j).testBit i = true
        · simp [a, b] at hx
        · simp [a, b] at hx
          rw [← hx]
  have h1 := key s e h
  have h2 := key s' e' h'
  rw [h1, h2] at ht
  have h3 := congrArg (fun x => Fock.flip (Fock.flip x i) j) ht
  simp only [Fock.flip_flip] at h3
  exact h3

/-- **enumeration, reference side**: the two lists the string tables are compared with on every run
    (`subsetsAsc`: the generator's numeric order; `subsetsLex`: the documented lexical order of the address
    table) each contain exactly the bit patterns below `2^n` with `k` set bits, each exactly once, and the
    first one is strictly increasing — for every orbital count and electron count -/
theorem C05_enumeration_reference (n k s : Nat) :
    (s ∈ subsetsAsc n k ↔ (s < 2 ^ n ∧ cnt s n = k)) ∧ (s ∈ subsetsLex n k ↔ (s < 2 ^ n ∧ cnt s n = k)) ∧
    (subsetsAsc n k).Pairwise (· < ·) ∧ (subsetsAsc n k).Nodup ∧ (subsetsLex n k).Nodup :=
  ⟨mem_subsetsAsc n k s, mem_subsetsLex n k s, subsetsAsc_sorted n k, subsetsAsc_nodup n k, subsetsLex_nodup n k⟩

example : subsetsAsc 4 2 = [3, 5, 6, 9, 10, 12] ∧ subsetsLex 4 2 = [3, 5, 9, 6, 10, 12] := by decide

/-- **addressing**: for every orbital count and electron count the string table built by scattering the
    generated strings to their Knowles–Handy addresses (Z matrix as the library computes it) *is* the list of
    all k-subsets in the documented lexical order — each occupation pattern exactly once
    (`C05_enumeration_reference`), nothing missing, no slot left unwritten -/
theorem C05_string_table (n k : Nat) : stringTable n k = subsetsLex n k :=
  stringTable_eq_subsetsLex n k

/-- address lookup and string lookup are mutually inverse: the address of a pattern is its position in the
    table, and the table entry at that address is the pattern; distinct patterns have distinct addresses,
    all below `C(n, k)` -/
theorem C05_address (n k s : Nat) (h : s ∈ subsetsLex n k) :
    addressOf n k s = (lexIndex n k s : Int) ∧ (stringTable n k)[lexIndex n k s]? = some s ∧
    lexIndex n k s < Nat.choose n k ∧
    (∀ t ∈ subsetsLex n k, addressOf n k t = addressOf n k s → t = s) := by
  refine ⟨addressOf_eq_lexIndex n k s h, ?_, lexIndex_lt n k s h, ?_⟩
  · rw [C05_string_table]; exact getElem_lexIndex n k s h
  · intro t ht hts
    rw [addressOf_eq_lexIndex n k s h, addressOf_eq_lexIndex n k t ht] at hts
    exact lexIndex_injective n k t s ht h (by exact_mod_cast hts)

/-- the Z matrix in closed form (every admissible entry, last row included) -/
theorem C05_zmatrix_closed (norb nele r c : Nat) (hr : r < nele) (hrc : r ≤ c) (hc : c ≤ norb - nele + r)
    (hn : nele ≤ norb) :
    zEntry norb nele r c = (Nat.choose (norb - r - 1) (nele - r) : Int) - Nat.choose (norb - c - 1) (nele - r) :=
  zEntry_closed norb nele r c hr hrc hc hn

/-- **operator-string tables**: for any lists of creation and annihilation indices (any length, repeated
    indices allowed) and any string on which the operator string `a†_{dag…} a_{undag…}` acts (rightmost
    factor first, FQE's descending sign rule) with result `(sign, t)`, the loop of `make_mapping_each`
    names exactly that target and a count of that parity -/
theorem C05_opstring (norb : Nat) (dag undag : List Nat) (s : Nat) (sg : Bool) (t : Nat)
    (hs : s < 2 ^ norb) (hd : ∀ i ∈ dag, i < norb) (hu : ∀ i ∈ undag, i < norb)
    (h : descApply norb (dag.map (fun i => (i, true)) ++ undag.map (fun i => (i, false))) s = some (sg, t)) :
    ∃ p, mapEachStep dag undag s = (t, p) ∧ decide (p % 2 = 1) = sg := by
  rw [mapEachStep_eq_stepFold]
  have hb : ∀ x ∈ dag.map (fun i => (i, true)) ++ undag.map (fun i => (i, false)), x.1 < norb := by
    intro x hx
    rcases List.mem_append.mp hx with h1 | h1
    · obtain ⟨i, hi, rfl⟩ := List.mem_map.mp h1; exact hd i hi
    · obtain ⟨i, hi, rfl⟩ := List.mem_map.mp h1; exact hu i hi
  obtain ⟨k, hk, hp, _⟩ := stepFold_spec norb _ s 0 sg t hs hb h
  exact ⟨0 + k, hk, by simpa using hp⟩

/-- the descending single-string step is the alpha part of FQE's determinant-level ladder step
    (which Props/C01 proves equal to the Spec through ι) -/
theorem C05_desc_is_fqe_alpha (norb : Nat) (dg : Bool) (q a b : Nat) :
    fqeLadder norb dg false q a b = (descLadder norb dg q a).map (fun x => (x.1, x.2, b)) := by
  unfold fqeLadder descLadder
  by_cases h : a.testBit q = dg <;> simp [h]

example : mapEachStep [2] [0] 0b011 = (0b110, 1) ∧
    descApply 3 [(2, true), (0, false)] 0b011 = some (true, 0b110) := by decide +kernel

/-- the translated C step of `lexicographic_bitstring_generator` (from bitstring.c, `uint64_t` arithmetic with
    wrap-around) computes the model's step on every 64-bit word -/
theorem C05_c_gosper_step (c : BitVec 64) : (GenC.gosper_next c).toNat = gosperNext c.toNat :=
  GenC.gosper_next_toNat c

/-- start value and loop bound of the C generator -/
theorem C05_c_gosper_init (nele norb : Nat) (h1 : nele < 64) (h2 : norb < 64) :
    (GenC.gosper_init nele).toNat = 2 ^ nele - 1 ∧ (GenC.gosper_bound norb).toNat = 2 ^ norb :=
  ⟨GenC.maskBelow_toNat nele h1, GenC.one_shl_toNat norb h2⟩

/-- the C generator enumerates every `nele`-subset of `{0..norb-1}` exactly once, in increasing numeric order,
    for all `norb ≤ 63` (above which the library switches to the Python generator) and all `nele` -/
theorem C05_c_generator (norb nele : Nat) (h : norb ≤ 63) :
    stringsC norb nele = subsetsAsc norb nele ∧
    (∀ s, s ∈ stringsC norb nele ↔ (s < 2 ^ norb ∧ cnt s norb = nele)) ∧ (stringsC norb nele).Nodup := by
  rw [stringsC_eq_subsetsAsc norb nele h]
  exact ⟨rfl, mem_subsetsAsc norb nele, subsetsAsc_nodup norb nele⟩

example : stringsC 5 2 = [3, 5, 6, 9, 10, 12, 17, 18, 20, 24] := by decide

/-- k-fold annihilation maps (`make_mapping_each_set`, both builders share this loop): for every orbital count,
    every non-empty mask below `2^norb` and every source string that passes the admission test, the table entry
    `(source, target, count)` is the ladder product `a_{o_0} a_{o_1} ⋯ a_{o_{k-1}}` over the mask's orbitals
    `o_0 < o_1 < ⋯` (rightmost = highest acts first) in the kernels' "occupied above" sign convention:
    same target string, and the parity of `count` is the fermionic sign -/
theorem C05_kfold_map (norb s mask : Nat) (hs : s < 2 ^ norb) (hm : mask < 2 ^ norb) (hm0 : mask ≠ 0)
    (hadm : ((s &&& mask) ^^^ mask) = 0) :
    descApply norb ((integerIndex mask).map (fun o => (o, false))) s =
      some (decide ((mapSetEntry (integerIndex mask) s).2.2 % 2 = 1), (mapSetEntry (integerIndex mask) s).2.1) :=
  mapSetEntry_mask_spec norb s mask hs hm hm0 hadm

/-- a source has an entry exactly when every orbital of the mask is occupied in it (no entry missing, none spurious) -/
theorem C05_kfold_admit (s mask : Nat) :
    ((s &&& mask) ^^^ mask) = 0 ↔ ∀ i, mask.testBit i = true → s.testBit i = true :=
  admit_iff s mask

example : mapSetEntry [0, 2, 3] 0b1101 = (0b1101, 0, 0) ∧ mapSetEntry [0, 2] 0b10111 = (0b10111, 0b10010, 3) := by decide

/-- de-excitation rows: `(source, i·norb + j, parity)` is listed under target `t` exactly when `source` is a string of
    the table and the excitation `i ← j` takes it to `t` with that parity — nothing missing, nothing spurious -/
theorem C05_deexc_row (norb : Nat) (strings : List Nat) (t : Nat) (x : Nat × Nat × Bool) :
    x ∈ (((List.range norb).flatMap fun i => (List.range norb).flatMap fun j =>
            (buildMapping strings i j).map fun (s, t, p) => (t, s, i * norb + j, p)).filter (fun e => e.1 = t)).map
          (fun e => e.2) ↔
      ∃ i j, i < norb ∧ j < norb ∧ x.1 ∈ strings ∧ mappingEntry i j x.1 = some (x.1, t, x.2.2) ∧ x.2.1 = i * norb + j :=
  mem_mapToDeexc_row norb strings t x

/-- … and no entry is listed twice (for a string table without repetitions, which `C05_string_table` provides) -/
theorem C05_deexc_nodup (norb : Nat) (strings : List Nat) (hn : strings.Nodup) :
    ((List.range norb).flatMap fun i => (List.range norb).flatMap fun j =>
        (buildMapping strings i j).map fun (s, t, p) => (t, s, i * norb + j, p)).Nodup :=
  allEntries_nodup norb strings hn

/-! ### the Python helpers as they stand in /repo (translated on every run by `harness/translate/pyint.py`) -/

/-- the *generated* translations of `bitstring.py`'s `get_bit`, `set_bit`, `unset_bit` (Python ints as `Int` with
    two's-complement `& | ~ <<`) are the `Nat` helpers of Model/Bits.lean, for every string and position -/
theorem C05_py_setget (s p : Nat) :
    GenPy.get_bit (s : Int) (p : Int) = (getBit s p : Nat) ∧
    GenPy.set_bit (s : Int) (p : Int) = (setBit s p : Nat) ∧
    GenPy.unset_bit (s : Int) (p : Int) = (unsetBit s p : Nat) :=
  ⟨GenPy.py_get_bit s p, GenPy.py_set_bit s p, GenPy.py_unset_bit s p⟩

/-- the generated `count_bits`, `count_bits_above`, `count_bits_below`, `count_bits_between` are the model helpers,
    for every (unbounded) string and all positions -/
theorem C05_py_counts (s p q : Nat) :
    GenPy.count_bits (s : Int) = (countBits s : Nat) ∧
    GenPy.count_bits_above (s : Int) (p : Int) = (countBitsAbove s p : Nat) ∧
    GenPy.count_bits_below (s : Int) (p : Int) = (countBitsBelow s p : Nat) ∧
    GenPy.count_bits_between (s : Int) (p : Int) (q : Int) = (countBitsBetween s p q : Nat) :=
  ⟨GenPy.py_count_bits s, GenPy.py_count_bits_above s p, GenPy.py_count_bits_below s p,
   GenPy.py_count_bits_between s p q⟩

/-- the generated `reverse_integer_index` (a fold of `set_bit`) and `init_bitstring_groundstate` -/
theorem C05_py_reverse_index (occ : List Nat) (n : Nat) :
    GenPy.reverse_integer_index (occ.map (fun (k : Nat) => (k : Int))) = (reverseIntegerIndex occ : Nat) ∧
    GenPy.init_bitstring_groundstate (n : Int) = ((2 ^ n - 1 : Nat) : Int) :=
  ⟨GenPy.py_reverse_integer_index occ, GenPy.py_init_bitstring_groundstate n⟩

/-- one iteration of the Python `_build_mapping` loop *as it stands in /repo* (translated on every run) appends exactly
    `mappingEntry` — hence, by `C05_single_exc` / `C05_number_op`, the Spec action of `a†_i a_j` on the string, with
    its sign — for every (unbounded) string and every orbital pair -/
theorem C05_py_build_mapping (s i j : Nat) :
    GenPy.build_mapping_entry (s : Int) (i : Int) (j : Int) =
      (mappingEntry i j s).map (fun x => ((x.1 : Int), (x.2.1 : Int), if x.2.2 then (-1 : Int) else 1)) :=
  GenPy.py_build_mapping_entry s i j

/-- the entry the **C** table builder `build_mapping_strings` writes for one string — the loop body translated from
    fci_graph.c on every run, over `BitVec 64` — is `mappingEntry` of the Model, hence (`C05_single_exc`,
    `C05_number_op`) the Spec action of `a†_i a_j` on the string with its sign, for every 64-bit string and all
    orbitals below 64 -/
theorem C05_c_build_mapping (s : BitVec 64) (i j : Nat) (hi : i < 64) (hj : j < 64) :
    (GenC.build_mapping_entry s i j).map (fun x => (x.1.toNat, x.2.1.toNat, x.2.2)) =
      (mappingEntry i j s.toNat).map (fun x => (x.1, x.2.1, if x.2.2 then (-1 : Int) else 1)) :=
  GenC.c_build_mapping_entry s i j hi hj

/-- the **C** operator-string map kernel `make_mapping_each` (the tables behind every sparse apply and single-term
    evolution), translated from fci_graph.c on every run: for every 64-bit string and all creator / annihilator
    lists below 64 it admits exactly the strings the Model admits (C masks) and returns the Model's target and
    parity (`mapEachStep`, which `C05_opstring` identifies with the descending ladder product) -/
theorem C05_c_opstring_map (s : BitVec 64) (dag undag : List Nat) (hd : ∀ x ∈ dag, x < 64) (hu : ∀ x ∈ undag, x < 64) :
    (GenC.mme_entry s dag undag).map (fun r => (r.1.toNat, r.2)) =
      (if (s.toNat &&& dagMaskC dag undag) = 0 ∧ ((s.toNat &&& undagMask undag) ^^^ undagMask undag) = 0 then
        some ((mapEachStep dag undag s.toNat).1, (mapEachStep dag undag s.toNat).2 % 2) else none) :=
  GenC.c_mme_entry s dag undag hd hu

example : GenC.mme_entry 0b0110#64 [0] [2] = some (0b0011#64, 1) := by decide

/-- the **reference-path** operator-string map kernel (`FciGraph.make_mapping_each`, Python branch, translated from
    fci_graph.py on every run over Python ints): admission with the Python masks (a creator index is masked only if it is
    not also an annihilator index) and the Model's target and parity; with `C05_c_opstring_map` and the mask identity
    `dagMaskPy = dagMaskC` (Props/C04) the two paths build the same table entry -/
theorem C05_py_opstring_map (s : Nat) (dag undag : List Nat) :
    GenPy.mme_entry (s : Int) (GenPy.castL dag) (GenPy.castL undag) =
      (if (s &&& dagMaskPy dag undag) = 0 ∧ ((s &&& undagMask undag) ^^^ undagMask undag) = 0 then
        some ((((mapEachStep dag undag s).1 : Nat) : Int), (((mapEachStep dag undag s).2 % 2 : Nat) : Int)) else none) :=
  GenPy.py_mme_entry s dag undag

/-- the **C** k-fold annihilation map kernel `make_mapping_each_set` (the maps that link sectors differing by `dn`
    electrons), translated from fci_graph.c on every run: for every 64-bit source and mask and every occupation list
    below 64 it admits exactly the sources that contain the mask and returns the Model's target and parity count
    (`mapSetEntry`, which `C05_kfold_map` identifies with the ladder product over the mask's orbitals) -/
theorem C05_c_kfold_map (source mask : BitVec 64) (occ : List Nat) (h : ∀ x ∈ occ, x < 64) :
    (GenC.mmes_entry source mask occ occ.length).map (fun r => (r.1.toNat, r.2)) =
      (if ((source.toNat &&& mask.toNat) ^^^ mask.toNat) = 0 then
        some ((mapSetEntry occ source.toNat).2.1, (mapSetEntry occ source.toNat).2.2) else none) :=
  GenC.c_mmes_entry source mask occ h

/-- the **reference-path** k-fold annihilation map kernel (`make_mapping_each_set` of fci_graph_set.py, translated on
    every run over Python ints) is the Model's `mapSetEntry` as well: both paths fill the same `(target, parity)` -/
theorem C05_py_kfold_map (source mask : Nat) (ops : List Nat) :
    GenPy.mmes_entry (source : Int) (mask : Int) (GenPy.castL ops) =
      (if ((source &&& mask) ^^^ mask) = 0 then
        some ((((mapSetEntry ops source).2.1 : Nat) : Int), (((mapSetEntry ops source).2.2 : Nat) : Int)) else none) :=
  GenPy.py_mmes_entry source mask ops

/-- the reference-path Z matrix: the two loop nests of `_get_Z_matrix` *as they stand in /repo* (ranges, index and
    value expressions translated on every run; `math.comb` = PyPrelude.pyBinom) assign
    at every index they name the Model's `zEntry`, and an index they never name has `zEntry = 0` (`numpy.zeros`).
    With `C05_zmatrix_closed` and `C05_address` the addresses computed from the *source* matrix are the lexical ranks. -/
theorem C05_py_zmatrix (norb nele : Nat) (hn : nele ≤ norb) (r c : Nat) :
    (∀ k ∈ GenPy.z1_rows (norb : Int) (nele : Int), ∀ ll ∈ GenPy.z1_cols (norb : Int) (nele : Int) k,
        GenPy.z1_index (norb : Int) (nele : Int) k ll = ((r : Int), (c : Int)) →
        GenPy.z1_value (norb : Int) (nele : Int) k ll = zEntry norb nele r c) ∧
    (∀ ll ∈ GenPy.z2_cols (norb : Int) (nele : Int),
        GenPy.z2_index (norb : Int) (nele : Int) (GenPy.z2_k norb nele) ll = ((r : Int), (c : Int)) →
        GenPy.z2_value (norb : Int) (nele : Int) (GenPy.z2_k norb nele) ll = zEntry norb nele r c) ∧
    ((∀ k ∈ GenPy.z1_rows (norb : Int) (nele : Int), ∀ ll ∈ GenPy.z1_cols (norb : Int) (nele : Int) k,
        GenPy.z1_index (norb : Int) (nele : Int) k ll ≠ ((r : Int), (c : Int))) →
     (∀ ll ∈ GenPy.z2_cols (norb : Int) (nele : Int),
        GenPy.z2_index (norb : Int) (nele : Int) (GenPy.z2_k norb nele) ll ≠ ((r : Int), (c : Int))) →
     zEntry norb nele r c = 0) :=
  GenPy.py_z_matrix norb nele hn r c

example : GenPy.z1_value 6 3 1 2 = zEntry 6 3 0 1 ∧ zEntry 6 3 0 1 = 6 ∧ (2 : Int) ∈ GenPy.z1_cols 6 3 1 := by decide +kernel

/-- the reference-path string address `FciGraph._build_string_address` *as it stands in /repo* (shape checked and
    translated on every run), evaluated on the Model's Z matrix (which `C05_py_zmatrix` shows the translated
    `_get_Z_matrix` to build), is the Model's `addressOf` — by `C05_address` the lexical rank — for every string with
    `nele` occupied orbitals -/
theorem C05_py_string_address (norb nele s : Nat) (h : (integerIndex s).length = nele) :
    GenPy.string_address (fun i o => zEntry norb nele i.toNat o.toNat) (nele : Int) (norb : Int) (GenPy.castL (integerIndex s)) =
      some (addressOf norb nele s) :=
  GenPy.py_string_address norb nele s h

/-- the accelerated-path Z matrix: the loops of `calculate_Z_matrix` (fci_graph.c) and the literal binomial table of
    `initialize_binom` (binom.h), both read from /repo on every run, for every norb ≤ 64 (the size of the table):
    the first nest visits exactly the (k, ll) of the Model's first branch, every table entry it reads was initialised,
    the accumulated value is `zEntry`, and it is stored at the row-major position; the second nest stores the last
    row.  With `C05_py_zmatrix` both paths build the same matrix; with `C05_address` its addresses are lexical ranks. -/
theorem C05_c_zmatrix (norb nele : Nat) (hN : norb ≤ 64) (hn : nele ≤ norb) :
    (∀ km llm : Int, 0 ≤ km → km < GenC.cz_km_bound norb nele → 0 ≤ llm → llm < GenC.cz_llm_bound norb nele →
        ∃ r c : Nat, GenC.cz_k km = (r : Int) + 1 ∧ GenC.cz_ll llm (GenC.cz_k km) = (c : Int) + 1 ∧ r + 1 < nele ∧ r ≤ c ∧
          c ≤ norb - nele + r ∧
          GenC.czValue (norb : Int) (nele : Int) (GenC.cz_k km) (GenC.cz_ll llm (GenC.cz_k km)) = some (zEntry norb nele r c) ∧
          GenC.cz_out1 norb (GenC.cz_k km) (GenC.cz_ll llm (GenC.cz_k km)) = ((c + norb * r : Nat) : Int)) ∧
    (∀ r c : Nat, r + 1 < nele → r ≤ c → c ≤ norb - nele + r →
        ∃ km llm : Int, 0 ≤ km ∧ km < GenC.cz_km_bound norb nele ∧ 0 ≤ llm ∧ llm < GenC.cz_llm_bound norb nele ∧
          GenC.cz_k km = (r : Int) + 1 ∧ GenC.cz_ll llm (GenC.cz_k km) = (c : Int) + 1) ∧
    (∀ ll : Int, GenC.cz2_lo norb nele ≤ ll → ll < GenC.cz2_hi norb nele → 0 < nele →
        ∃ c : Nat, ll = (c : Int) + 1 ∧ nele ≤ c + 1 ∧ c + 1 ≤ norb ∧
          GenC.cz2_val nele ll = zEntry norb nele (nele - 1) c ∧
          GenC.cz2_out norb (GenC.cz2_k norb nele) ll = ((c + norb * (nele - 1) : Nat) : Int)) :=
  GenC.c_z_matrix norb nele hN hn

/-- the literal table of binom.h is Pascal's triangle up to row 64; the rest of a row is never initialised -/
theorem C05_c_binom_table (n k : Nat) (hn : n ≤ 64) :
    (k ≤ n → GenC.tabRead ((k : Int) + 65 * (n : Int)) = some (Nat.choose n k)) ∧
    (n < k → k < 65 → GenC.tabRead ((k : Int) + 65 * (n : Int)) = none) := by
  refine ⟨fun hk => GenC.tabRead_spec n k hn hk, fun h1 h2 => ?_⟩
  unfold GenC.tabRead
  have h0 : ¬ ((k : Int) + 65 * (n : Int) < 0) := by omega
  have e1 : ((k : Int) + 65 * (n : Int)).toNat = n * 65 + k := by omega
  have e2 : (n * 65 + k) / 65 = n := by omega
  have e3 : (n * 65 + k) % 65 = k := by omega
  rw [if_neg h0, e1, e2, e3, GenC.binomRows_eq]
  simp only [List.getElem?_map, List.getElem?_range (show n < 65 by omega), Option.map_some, Option.bind_some]
  rw [List.getElem?_eq_none (by simp; omega)]
  rfl

example : GenC.czValue 6 3 1 2 = some 6 ∧ zEntry 6 3 0 1 = 6 := by decide +kernel

end C05
