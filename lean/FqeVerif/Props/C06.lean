/-
  Props/C06.lean — property theorems for C06 (operator expression → Hamiltonian object).

   * `reverse_bubble_list`, the routine by which both the sparse gathering
     (`gather_nbody_spin_sectors`) and the dense conversion (`fermionops_tomatrix`) reorder the
     factors of a term while counting swaps, yields exactly the fermionic sign: the sorted string
     acts as (-1)^swaps times the original, in any context, whenever the modes are distinct
     (as they are in a non-vanishing normal-ordered term's creator / annihilator groups)   : C06_bubble_sign
   * the normal-ordering steps (swap, contraction) preserve the Spec action             : C06_normal_order_swap / _contract
   * interleaved (OpenFermion) ↔ block (alpha block, beta block) index maps are mutually inverse,
     so index interleaving changes representation only                                      : C06_block_index
   * the identity term acts as the identity: constants may be moved to the scalar `e_0`    : C06_scalar
  Which class is selected, its flags and that the selected object *acts* as the source expression
  is decided by the exact correspondence (apply of the built object vs Spec on the source).
-/
import FqeVerif.Lemmas.Bubble
namespace C06
open Fock Model

theorem C06_bubble_sign (key : (Nat × Bool) → Nat) (fuel : Nat) (t pre post : Term) (a b : Nat)
    (h : ModesNodup t) :
    applyTerm (pre ++ (bubbleDesc key fuel t).1 ++ post) a b =
      negPow (bubbleDesc key fuel t).2 (applyTerm (pre ++ t ++ post) a b) :=
  bubbleDesc_sign key fuel t pre post a b h

/-- non-vacuity: sorting `a†_0 a†_3 a†_1` by descending mode takes two swaps -/
example : bubbleDesc (fun f => f.1) 3 [(0, true), (3, true), (1, true)] = ([(3, true), (1, true), (0, true)], 2)
    ∧ ModesNodup [(0, true), (3, true), (1, true)] := by
  constructor
  · decide
  · unfold ModesNodup; decide

theorem C06_normal_order_swap (pre post : Term) (d1 d2 : Bool) (m1 m2 a b : Nat) (h : m1 ≠ m2) :
    applyTerm (pre ++ [(m1, d1), (m2, d2)] ++ post) a b =
      negRes (applyTerm (pre ++ [(m2, d2), (m1, d1)] ++ post) a b) :=
  term_swap pre post d1 d2 m1 m2 a b h

theorem C06_normal_order_contract (pre post : Term) (m a b : Nat) :
    (applyTerm (pre ++ [(m, false), (m, true)] ++ post) a b = applyTerm (pre ++ post) a b ∧
      applyTerm (pre ++ [(m, true), (m, false)] ++ post) a b = none) ∨
    (applyTerm (pre ++ [(m, false), (m, true)] ++ post) a b = none ∧
      applyTerm (pre ++ [(m, true), (m, false)] ++ post) a b = applyTerm (pre ++ post) a b) :=
  term_contract pre post m a b

/-- OpenFermion mode → FQE block index (alpha orbitals first, then beta) -/
def blockIndex (norb m : Nat) : Nat := m / 2 + norb * (m % 2)
/-- FQE block index → OpenFermion mode -/
def modeOfBlock (norb p : Nat) : Nat := if p < norb then 2 * p else 2 * (p - norb) + 1

theorem C06_block_index (norb m p : Nat) (hm : m < 2 * norb) (hp : p < 2 * norb) :
    modeOfBlock norb (blockIndex norb m) = m ∧ blockIndex norb m < 2 * norb ∧
    blockIndex norb (modeOfBlock norb p) = p ∧ modeOfBlock norb p < 2 * norb := by
  unfold modeOfBlock blockIndex
  rcases Nat.mod_two_eq_zero_or_one m with h | h
  · have e1 : m / 2 + norb * (m % 2) = m / 2 := by rw [h]; omega
    have e2 : m / 2 < norb := by omega
    rw [e1]
    by_cases hpn : p < norb
    · simp only [e2, hpn, if_true]
      refine ⟨by omega, by omega, ?_, by omega⟩
      have : (2 * p) % 2 = 0 := by omega
      rw [this]; omega
    · simp only [e2, hpn, if_true, if_false]
      refine ⟨by omega, by omega, ?_, by omega⟩
      have : (2 * (p - norb) + 1) % 2 = 1 := by omega
      rw [this]; omega
  · have e1 : m / 2 + norb * (m % 2) = m / 2 + norb := by rw [h]; omega
    have e2 : ¬ m / 2 + norb < norb := by omega
    rw [e1]
    by_cases hpn : p < norb
    · simp only [e2, hpn, if_true, if_false]
      refine ⟨by omega, by omega, ?_, by omega⟩
      have : (2 * p) % 2 = 0 := by omega
      rw [this]; omega
    · simp only [e2, hpn, if_false]
      refine ⟨by omega, by omega, ?_, by omega⟩
      have : (2 * (p - norb) + 1) % 2 = 1 := by omega
      rw [this]; omega

theorem C06_scalar (a b : Nat) : applyTerm [] a b = some (false, a, b) := rfl

end C06
