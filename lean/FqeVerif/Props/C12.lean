/-
  Props/C12.lean — property theorems for C12 (orbital rotation) — PARTIAL.

  `transform` factorises the (conjugated, pivoted) rotation into elementary column operations and
  applies each as `ψ ← ψ + Σ_i w_i a†_i a_c ψ` *in place*, using the single-excitation tables
  `(i ← c)`.  Proved here, for every string and all orbitals:
   * every entry of the table `i ← c` reads a determinant in which `c` is occupied, and for `i ≠ c`
     writes a determinant in which `c` is empty: so within one column step no amplitude that is
     written is read again — updating in place is safe                               : C12_column_reads_occupied,
                                                                                        C12_column_writes_empty
   * the diagonal entry `c ← c` maps a determinant to itself (a pure scaling)           : C12_column_diagonal
  Not proved (stated in DESIGN.md): that the ordered product of the column factors is Γ((R·P)†)
  — this needs multiplicativity of Γ (Cauchy–Binet), unavailable in Mathlib v4.33.  The full statement
  is decided numerically against `Spec/Rotate.lean` (Γ by exact minors) by the correspondence.
-/
import FqeVerif.Lemmas.Excite
namespace C12
open Model Fock

theorem C12_column_reads_occupied (i c s : Nat) (e : Nat × Nat × Bool)
    (h : mappingEntry i c s = some e) : s.testBit c = true ∧ e.1 = s := by
  unfold mappingEntry at h
  split at h
  · rename_i hc
    simp only [Option.some.injEq] at h
    subst h
    exact ⟨(getBit_ne_zero s c).1 hc.1, rfl⟩
  · split at h
    · rename_i hc
      simp only [Option.some.injEq] at h
      subst h
      obtain ⟨hic, hb⟩ := hc
      subst hic
      exact ⟨(getBit_ne_zero s i).1 hb, rfl⟩
    · cases h

theorem C12_column_writes_empty (i c s : Nat) (e : Nat × Nat × Bool) (hic : i ≠ c)
    (h : mappingEntry i c s = some e) : e.2.1.testBit c = false ∧ e.2.1.testBit i = true := by
  have hs := (C12_column_reads_occupied i c s e h).1
  have ht := mappingEntry_target i c s e h
  have hsi : s.testBit i = false := by
    unfold mappingEntry at h
    split at h
    · rename_i hc
      by_cases g : s.testBit i = true
      · exact absurd hc.2 ((getBit_ne_zero s i).2 g)
      · simpa using g
    · split at h
      · rename_i hc; exact absurd hc.1 hic
      · cases h
  rw [ht, testBit_flip, testBit_flip, testBit_flip, testBit_flip, hs, hsi]
  have hci : decide (c = i) = false := by simp; omega
  have hic' : decide (i = c) = false := by simp; omega
  simp [hci, hic']

theorem C12_column_diagonal (c s : Nat) (e : Nat × Nat × Bool) (h : mappingEntry c c s = some e) :
    e = (s, s, false) := by
  unfold mappingEntry at h
  split at h
  · rename_i hc; exact absurd hc.2 hc.1
  · split at h
    · simp only [Option.some.injEq] at h; exact h.symm
    · cases h

example : mappingEntry 2 0 0b011 = some (0b011, 0b110, true) := by decide +kernel

end C12
