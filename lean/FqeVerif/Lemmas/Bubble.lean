/-
  Lemmas/Bubble.lean — sorting the factors of an operator string by adjacent swaps changes the Spec
  action exactly by (-1)^(number of swaps), provided no two factors address the same mode.
-/
import FqeVerif.Model.Hamil
import FqeVerif.Lemmas.TermAlgebra
namespace Model
open Fock

/-- multiply a result's sign by `(-1)^n` -/
def negPow (n : Nat) (r : Option (Bool × Nat × Nat)) : Option (Bool × Nat × Nat) :=
  r.map (fun x => (x.1 ^^ decide (n % 2 = 1), x.2))

theorem negPow_zero (r : Option (Bool × Nat × Nat)) : negPow 0 r = r := by
  unfold negPow; cases r <;> simp

theorem negPow_succ (n : Nat) (r : Option (Bool × Nat × Nat)) : negPow (n + 1) r = negRes (negPow n r) := by
  unfold negPow negRes
  cases r with
  | none => rfl
  | some x =>
    simp only [Option.map_some]
    by_cases h : n % 2 = 1
    · have : ¬ (n + 1) % 2 = 1 := by omega
      simp [h, this]
    · have : (n + 1) % 2 = 1 := by omega
      simp [h, this]

theorem negPow_add (n m : Nat) (r : Option (Bool × Nat × Nat)) : negPow (n + m) r = negPow n (negPow m r) := by
  induction n with
  | zero => simp [negPow_zero]
  | succ n ih =>
    have : n + 1 + m = (n + m) + 1 := by omega
    rw [this, negPow_succ, ih, negPow_succ]

theorem negPow_negRes (n : Nat) (r : Option (Bool × Nat × Nat)) : negPow n (negRes r) = negRes (negPow n r) := by
  unfold negPow negRes
  cases r with
  | none => rfl
  | some x => simp only [Option.map_some]; cases x.1 <;> cases decide (n % 2 = 1) <;> rfl

/-- all modes of a term are pairwise distinct -/
def ModesNodup (t : Term) : Prop := (t.map (·.1)).Nodup

theorem bubbleGo_perm {α : Type} (key : α → Nat) : ∀ (l : List α) (a : α), (bubbleGo key a l).1.Perm (a :: l) := by
  intro l
  induction l with
  | nil => intro a; simp [bubbleGo]
  | cons b rest ih =>
    intro a
    unfold bubbleGo
    by_cases h : key a < key b
    · simp only [h, if_true]
      exact (List.Perm.cons b (ih a)).trans (List.Perm.swap a b rest)
    · simp only [h, if_false]
      exact List.Perm.cons a (ih b)

theorem bubblePass_perm {α : Type} (key : α → Nat) : ∀ (l : List α), (bubblePass key l).1.Perm l := by
  intro l
  cases l with
  | nil => simp [bubblePass]
  | cons a rest => exact bubbleGo_perm key rest a

theorem bubbleGo_sign (key : (Nat × Bool) → Nat) :
    ∀ (l : Term) (x : Nat × Bool) (pre post : Term) (a b : Nat), ModesNodup (x :: l) →
      applyTerm (pre ++ (bubbleGo key x l).1 ++ post) a b =
        negPow (bubbleGo key x l).2 (applyTerm (pre ++ x :: l ++ post) a b) := by
  intro l
  induction l with
  | nil => intro x pre post a b _; simp [bubbleGo, negPow_zero]
  | cons y rest ih =>
    intro x pre post a b hnd
    unfold bubbleGo
    by_cases h : key x < key y
    · simp only [h, if_true]
      have hxy : x.1 ≠ y.1 := by
        unfold ModesNodup at hnd
        simp only [List.map_cons, List.nodup_cons, List.mem_cons, not_or] at hnd
        exact hnd.1.1
      have hnd' : ModesNodup (x :: rest) := by
        unfold ModesNodup at hnd ⊢
        simp only [List.map_cons, List.nodup_cons, List.mem_cons, not_or] at hnd ⊢
        exact ⟨hnd.1.2, hnd.2.2⟩
      have e1 : pre ++ y :: (bubbleGo key x rest).1 ++ post = (pre ++ [y]) ++ (bubbleGo key x rest).1 ++ post := by simp
      rw [e1, ih x (pre ++ [y]) post a b hnd', negPow_succ]
      have e2 : pre ++ [y] ++ x :: rest ++ post = pre ++ [(y.1, y.2), (x.1, x.2)] ++ (rest ++ post) := by simp
      have e3 : pre ++ x :: y :: rest ++ post = pre ++ [(x.1, x.2), (y.1, y.2)] ++ (rest ++ post) := by simp
      rw [e2, e3, term_swap pre (rest ++ post) y.2 x.2 y.1 x.1 a b (Ne.symm hxy)]
      exact negPow_negRes _ _
    · simp only [h, if_false]
      have hnd' : ModesNodup (y :: rest) := by
        unfold ModesNodup at hnd ⊢
        simp only [List.map_cons, List.nodup_cons, List.mem_cons, not_or] at hnd ⊢
        exact ⟨hnd.2.1, hnd.2.2⟩
      have e1 : pre ++ x :: (bubbleGo key y rest).1 ++ post = (pre ++ [x]) ++ (bubbleGo key y rest).1 ++ post := by simp
      have e2 : pre ++ x :: y :: rest ++ post = (pre ++ [x]) ++ (y :: rest) ++ post := by simp
      rw [e1, e2]
      exact ih y (pre ++ [x]) post a b hnd'

/-- one bubble pass over the factors of a string, inside any context -/
theorem bubblePass_sign (key : (Nat × Bool) → Nat) :
    ∀ (t : Term) (pre post : Term) (a b : Nat), ModesNodup t →
      applyTerm (pre ++ (bubblePass key t).1 ++ post) a b =
        negPow (bubblePass key t).2 (applyTerm (pre ++ t ++ post) a b) := by
  intro t pre post a b hnd
  cases t with
  | nil => simp [bubblePass, negPow_zero]
  | cons x l => exact bubbleGo_sign key l x pre post a b hnd

theorem modesNodup_perm (t t' : Term) (h : t'.Perm t) (hn : ModesNodup t) : ModesNodup t' := by
  unfold ModesNodup at *
  exact (List.Perm.nodup_iff (List.Perm.map _ h)).2 hn

/-- **`reverse_bubble_list` computes the right sign**: sorting the factors of a string whose modes are
    pairwise distinct, inside any context, multiplies the Spec action by `(-1)^swaps` -/
theorem bubbleDesc_sign (key : (Nat × Bool) → Nat) : ∀ (fuel : Nat) (t pre post : Term) (a b : Nat),
    ModesNodup t →
      applyTerm (pre ++ (bubbleDesc key fuel t).1 ++ post) a b =
        negPow (bubbleDesc key fuel t).2 (applyTerm (pre ++ t ++ post) a b) := by
  intro fuel
  induction fuel with
  | zero => intro t pre post a b _; simp [bubbleDesc, negPow_zero]
  | succ fuel ih =>
    intro t pre post a b hnd
    unfold bubbleDesc
    have hp := bubblePass_sign key t pre post a b hnd
    have hperm := bubblePass_perm key t
    cases hbp : bubblePass key t with
    | mk l' n =>
      rw [hbp] at hp hperm
      simp only at hp hperm
      simp only
      by_cases hn : n = 0
      · simp only [hn, if_true]
        rw [hp, hn]
      · simp only [hn, if_false]
        have hnd' := modesNodup_perm t l' hperm hnd
        have := ih l' pre post a b hnd'
        cases hbd : bubbleDesc key fuel l' with
        | mk l'' m =>
          rw [hbd] at this
          simp only at this ⊢
          rw [this, hp, Nat.add_comm, negPow_add]

end Model
