/-
  Lemmas/Wick.lean — soundness of the Wick driver (Model/Wick.lean): under every assignment of orbitals to the
  labels, the signed sum over the work list of `Π δ · ⟨f| remaining operators |a,b⟩` is unchanged by a rewriting
  step, by a pass, and by the whole normalisation; entries of a finished list are normal ordered.
-/
import FqeVerif.Model.Wick
import FqeVerif.Lemmas.TermAlgebra
namespace Model
open Fock

/-- operators of an entry with the labels replaced by modes -/
def itemTerm (ρ : Nat → Nat) (it : WItem) : Term := it.ops.map (fun o => (ρ o.1, o.2))

def deltasOk (ρ : Nat → Nat) (ds : List (Nat × Nat)) : Bool := ds.all (fun d => ρ d.1 == ρ d.2)

/-- contribution of one entry to the matrix element `⟨f| pattern |a,b⟩` -/
def evalItem (ρ : Nat → Nat) (f : Nat → Nat → Int) (a b : Nat) (it : WItem) : Int :=
  if deltasOk ρ it.deltas then
    (if it.neg then - evalRes f (applyTerm (itemTerm ρ it) a b) else evalRes f (applyTerm (itemTerm ρ it) a b))
  else 0

def evalList (ρ : Nat → Nat) (f : Nat → Nat → Int) (a b : Nat) (l : List WItem) : Int :=
  (l.map (evalItem ρ f a b)).sum

theorem splitPair_spec : ∀ (ops : List (Nat × Bool)) (pre : List (Nat × Bool)) (x y : Nat) (post : List (Nat × Bool)),
    splitPair ops = some (pre, x, y, post) → ops = pre ++ [(x, false), (y, true)] ++ post := by
  intro ops
  induction ops with
  | nil => intro pre x y post h; simp [splitPair] at h
  | cons o rest ih =>
    intro pre x y post h
    cases rest with
    | nil => simp [splitPair] at h
    | cons o2 post0 =>
      obtain ⟨x0, dx⟩ := o
      obtain ⟨y0, dy⟩ := o2
      rw [splitPair] at h
      by_cases hc : dx = false ∧ dy = true
      · simp only [hc, and_self, if_true, Option.some.injEq, Prod.mk.injEq] at h
        obtain ⟨h1, h2, h3, h4⟩ := h
        subst h1; subst h2; subst h3; subst h4
        obtain ⟨e1, e2⟩ := hc
        subst e1; subst e2
        rfl
      · simp only [hc, if_false] at h
        cases hr : splitPair ((y0, dy) :: post0) with
        | none => rw [hr] at h; simp at h
        | some r =>
          rw [hr] at h
          obtain ⟨p1, x1, y1, q1⟩ := r
          simp only [Option.map_some, Option.some.injEq, Prod.mk.injEq] at h
          obtain ⟨h1, h2, h3, h4⟩ := h
          subst h1; subst h2; subst h3; subst h4
          have := ih p1 x1 y1 q1 hr
          rw [this]
          rfl

theorem evalRes_none (f : Nat → Nat → Int) : evalRes f none = 0 := rfl

theorem deltasOk_append (ρ : Nat → Nat) (ds : List (Nat × Nat)) (x y : Nat) :
    deltasOk ρ (ds ++ [(x, y)]) = (deltasOk ρ ds && (ρ x == ρ y)) := by
  unfold deltasOk
  simp [List.all_append]

theorem map_split (ρ : Nat → Nat) (pre post : List (Nat × Bool)) (mid : List (Nat × Bool)) :
    (pre ++ mid ++ post).map (fun o => (ρ o.1, o.2)) =
      pre.map (fun o => (ρ o.1, o.2)) ++ mid.map (fun o => (ρ o.1, o.2)) ++ post.map (fun o => (ρ o.1, o.2)) := by
  simp [List.map_append]

/-- one rewriting step preserves the matrix element, for every orbital assignment, bra functional and determinant -/
theorem wstep_sound (ρ : Nat → Nat) (f : Nat → Nat → Int) (a b : Nat) (it : WItem) :
    evalList ρ f a b (wstep it) = evalItem ρ f a b it := by
  unfold wstep
  cases hs : splitPair it.ops with
  | none => simp [evalList]
  | some r =>
    obtain ⟨pre, x, y, post⟩ := r
    have hops := splitPair_spec it.ops pre x y post hs
    simp only [evalList, List.map_cons, List.map_nil, List.sum_cons, List.sum_nil, Int.add_zero]
    unfold evalItem itemTerm
    simp only [deltasOk_append]
    rw [hops]
    by_cases hd : deltasOk ρ it.deltas = true
    · simp only [hd, if_true, Bool.true_and]
      rw [map_split, map_split ρ pre post [(x, false), (y, true)], List.map_append]
      simp only [List.map_cons, List.map_nil]
      generalize pre.map (fun o => (ρ o.1, o.2)) = P
      generalize post.map (fun o => (ρ o.1, o.2)) = Q
      by_cases hxy : ρ x = ρ y
      · have hb : (ρ x == ρ y) = true := by simp [hxy]
        simp only [hb, if_true]
        rw [hxy]
        rcases term_contract P Q (ρ y) a b with ⟨h1, h2⟩ | ⟨h1, h2⟩
        · rw [h1, h2, evalRes_none]
          cases it.neg <;> simp
        · rw [h1, h2, evalRes_none]
          generalize evalRes f (applyTerm (P ++ Q) a b) = v
          cases it.neg <;> simp <;> omega
      · have hb : (ρ x == ρ y) = false := by simp [hxy]
        simp only [hb, Bool.false_eq_true, if_false, Int.add_zero]
        rw [term_swap P Q false true (ρ x) (ρ y) a b hxy, evalRes_negRes]
        cases it.neg <;> simp
    · have hd' : deltasOk ρ it.deltas = false := by simpa using hd
      simp [hd']

theorem evalList_append (ρ : Nat → Nat) (f : Nat → Nat → Int) (a b : Nat) (l1 l2 : List WItem) :
    evalList ρ f a b (l1 ++ l2) = evalList ρ f a b l1 + evalList ρ f a b l2 := by
  unfold evalList
  rw [List.map_append, List.sum_append]

/-- one pass over the work list preserves the matrix element -/
theorem processOne_sound (ρ : Nat → Nat) (f : Nat → Nat → Int) (a b : Nat) (l : List WItem) :
    evalList ρ f a b (processOne l).1 = evalList ρ f a b l := by
  unfold processOne
  simp only []
  induction l with
  | nil => rfl
  | cons it rest ih =>
    rw [List.flatMap_cons, evalList_append, ih, wstep_sound]
    unfold evalList
    rw [List.map_cons, List.sum_cons]

/-- the whole normalisation preserves the matrix element (any fuel) -/
theorem wnormalize_sound (ρ : Nat → Nat) (f : Nat → Nat → Int) (a b : Nat) : ∀ (fuel : Nat) (l : List WItem),
    evalList ρ f a b (wnormalize fuel l) = evalList ρ f a b l := by
  intro fuel
  induction fuel with
  | zero => intro l; rfl
  | succ n ih =>
    intro l
    rw [wnormalize]
    by_cases h : (processOne l).2 = true
    · simp only [h, if_true]
      rw [ih, processOne_sound]
    · simp only [h, Bool.false_eq_true, if_false]
      exact processOne_sound ρ f a b l

/-- creators first, then annihilators -/
def isNormal : List (Nat × Bool) → Bool
  | [] => true
  | (_, true) :: rest => isNormal rest
  | (_, false) :: rest => rest.all (fun o => !o.2)

theorem splitPair_none_normal : ∀ (ops : List (Nat × Bool)), splitPair ops = none → isNormal ops = true := by
  intro ops
  induction ops with
  | nil => intro _; rfl
  | cons o rest ih =>
    intro h
    cases rest with
    | nil => obtain ⟨x, dx⟩ := o; cases dx <;> rfl
    | cons o2 post =>
      obtain ⟨x, dx⟩ := o
      obtain ⟨y, dy⟩ := o2
      rw [splitPair] at h
      by_cases hc : dx = false ∧ dy = true
      · simp [hc] at h
      · simp only [hc, if_false, Option.map_eq_none_iff] at h
        have ihn := ih h
        cases dx with
        | true => exact ihn
        | false =>
          have hdy : dy = false := by
            cases dy with
            | false => rfl
            | true => exact absurd ⟨rfl, rfl⟩ hc
          subst hdy
          simp only [isNormal] at ihn ⊢
          simp [ihn]

/-- a pass that reports "nothing rewritten" leaves a list of normal-ordered entries -/
theorem processOne_done (l : List WItem) (h : (processOne l).2 = false) :
    ∀ it ∈ (processOne l).1, isNormal it.ops = true := by
  unfold processOne at h ⊢
  simp only [] at h ⊢
  rw [List.any_eq_false] at h
  intro it hit
  rw [List.mem_flatMap] at hit
  obtain ⟨src, hsrc, hmem⟩ := hit
  have hn : splitPair src.ops = none := by
    have := h src hsrc
    cases hs : splitPair src.ops with
    | none => rfl
    | some r => rw [hs] at this; simp at this
  unfold wstep at hmem
  rw [hn] at hmem
  simp at hmem
  subst hmem
  exact splitPair_none_normal _ hn

end Model

/-! ### termination: the fuel of `wickNormalForm` suffices, so its result is normal ordered -/
namespace Model

/-- number of daggered operators -/
def nDag (ops : List (Nat × Bool)) : Nat := (ops.filter (fun o => o.2)).length
/-- number of undaggered operators -/
def nUndag (ops : List (Nat × Bool)) : Nat := (ops.filter (fun o => !o.2)).length

/-- number of inversions: pairs (undaggered operator, later daggered operator) -/
def inv : List (Nat × Bool) → Nat
  | [] => 0
  | (_, true) :: rest => inv rest
  | (_, false) :: rest => nDag rest + inv rest

theorem nDag_append (l1 l2 : List (Nat × Bool)) : nDag (l1 ++ l2) = nDag l1 + nDag l2 := by
  unfold nDag; rw [List.filter_append, List.length_append]

theorem nUndag_append (l1 l2 : List (Nat × Bool)) : nUndag (l1 ++ l2) = nUndag l1 + nUndag l2 := by
  unfold nUndag; rw [List.filter_append, List.length_append]

theorem inv_append (l1 l2 : List (Nat × Bool)) : inv (l1 ++ l2) = inv l1 + inv l2 + nUndag l1 * nDag l2 := by
  induction l1 with
  | nil => simp [inv, nUndag]
  | cons o rest ih =>
    obtain ⟨x, d⟩ := o
    cases d with
    | true =>
      rw [List.cons_append, inv, inv, ih]
      simp [nUndag]
    | false =>
      rw [List.cons_append, inv, inv, ih, nDag_append]
      have : nUndag ((x, false) :: rest) = nUndag rest + 1 := by simp [nUndag]
      rw [this, Nat.add_mul]
      omega

theorem inv_swap (pre post : List (Nat × Bool)) (x y : Nat) :
    inv (pre ++ [(y, true), (x, false)] ++ post) + 1 = inv (pre ++ [(x, false), (y, true)] ++ post) := by
  simp only [List.append_assoc, inv_append, nDag_append, nUndag_append]
  simp [inv, nDag, nUndag]
  omega

theorem inv_remove (pre post : List (Nat × Bool)) (x y : Nat) :
    inv (pre ++ post) + 1 ≤ inv (pre ++ [(x, false), (y, true)] ++ post) := by
  simp only [List.append_assoc, inv_append, nDag_append, nUndag_append]
  simp [inv, nDag, nUndag]
  have : (List.filter (fun o => !o.2) pre).length * (List.filter (fun o => o.2) post).length ≤
      (List.filter (fun o => !o.2) pre).length * (1 + (List.filter (fun o => o.2) post).length) :=
    Nat.mul_le_mul_left _ (by omega)
  omega

theorem inv_zero_of_normal : ∀ (ops : List (Nat × Bool)), isNormal ops = true → inv ops = 0 := by
  intro ops
  induction ops with
  | nil => intro _; rfl
  | cons o rest ih =>
    intro h
    obtain ⟨x, d⟩ := o
    cases d with
    | true => exact ih h
    | false =>
      simp only [isNormal] at h
      rw [inv]
      have hall : ∀ o ∈ rest, o.2 = false := by
        intro o ho
        have := List.all_eq_true.1 h o ho
        simpa using this
      have h1 : nDag rest = 0 := by
        unfold nDag
        rw [List.length_eq_zero_iff, List.filter_eq_nil_iff]
        intro o ho; simp [hall o ho]
      have h2 : isNormal rest = true := by
        cases rest with
        | nil => rfl
        | cons o2 r2 =>
          obtain ⟨x2, d2⟩ := o2
          have := hall (x2, d2) List.mem_cons_self
          simp only at this
          subst this
          simp only [isNormal]
          apply List.all_eq_true.2
          intro o ho
          simp [hall o (List.mem_cons_of_mem _ ho)]
      rw [h1, ih h2]

theorem normal_of_inv_zero : ∀ (ops : List (Nat × Bool)), inv ops = 0 → isNormal ops = true := by
  intro ops h
  cases hs : splitPair ops with
  | none => exact splitPair_none_normal ops hs
  | some r =>
    obtain ⟨pre, x, y, post⟩ := r
    have := splitPair_spec ops pre x y post hs
    have hr := inv_remove pre post x y
    rw [← this] at hr
    omega

/-- every entry produced by one step has at most `inv − 1` inversions when the entry was rewritten -/
theorem wstep_inv (it : WItem) (k : Nat) (h : inv it.ops ≤ k + 1) : ∀ c ∈ wstep it, inv c.ops ≤ k := by
  intro c hc
  unfold wstep at hc
  cases hs : splitPair it.ops with
  | none =>
    rw [hs] at hc
    simp at hc
    subst hc
    have := inv_zero_of_normal _ (splitPair_none_normal _ hs)
    omega
  | some r =>
    obtain ⟨pre, x, y, post⟩ := r
    rw [hs] at hc
    have hops := splitPair_spec it.ops pre x y post hs
    simp only [List.mem_cons, List.mem_nil_iff, or_false] at hc
    rcases hc with rfl | rfl
    · simp only
      have := inv_swap pre post x y
      rw [← hops] at this
      omega
    · simp only
      have := inv_remove pre post x y
      rw [← hops] at this
      omega

theorem processOne_inv (l : List WItem) (k : Nat) (h : ∀ it ∈ l, inv it.ops ≤ k + 1) :
    ∀ c ∈ (processOne l).1, inv c.ops ≤ k := by
  intro c hc
  unfold processOne at hc
  simp only [] at hc
  rw [List.mem_flatMap] at hc
  obtain ⟨it, hit, hmem⟩ := hc
  exact wstep_inv it k (h it hit) c hmem

/-- with fuel above the inversion bound the loop ends on normal-ordered entries -/
theorem wnormalize_normal : ∀ (fuel : Nat) (l : List WItem), (∀ it ∈ l, inv it.ops ≤ fuel) →
    ∀ c ∈ wnormalize fuel l, isNormal c.ops = true := by
  intro fuel
  induction fuel with
  | zero =>
    intro l h c hc
    rw [wnormalize] at hc
    exact normal_of_inv_zero _ (by have := h c hc; omega)
  | succ n ih =>
    intro l h c hc
    rw [wnormalize] at hc
    by_cases hp : (processOne l).2 = true
    · simp only [hp, if_true] at hc
      exact ih _ (processOne_inv l n h) c hc
    · simp only [hp, Bool.false_eq_true, if_false] at hc
      exact processOne_done l (by simpa using hp) c hc

theorem inv_le_sq : ∀ (ops : List (Nat × Bool)), inv ops ≤ ops.length * ops.length := by
  intro ops
  induction ops with
  | nil => simp [inv]
  | cons o rest ih =>
    obtain ⟨x, d⟩ := o
    have hd : nDag rest ≤ rest.length := List.length_filter_le _ _
    have hsq : rest.length * rest.length + rest.length ≤ (rest.length + 1) * (rest.length + 1) := by
      rw [Nat.add_mul, Nat.mul_add]; omega
    cases d with
    | true => rw [inv, List.length_cons]; omega
    | false => rw [inv, List.length_cons]; omega

/-- **the normal form is normal ordered**, for every pattern -/
theorem wickNormalForm_normal (pattern : List (Nat × Bool)) :
    ∀ c ∈ wickNormalForm pattern, isNormal c.ops = true := by
  unfold wickNormalForm
  apply wnormalize_normal
  intro it hit
  simp at hit
  subst hit
  have := inv_le_sq pattern
  simp only
  omega

end Model
