/-
  Lemmas/BitsC.lean — the translated C helpers (Generated/BitsC.lean, `BitVec 64`) equal the
  Python-form helpers of Model/Bits on 64-bit words and positions `< 64`, including the
  wrap-around of `2ull << 63`.
-/
import FqeVerif.Generated.BitsC
import FqeVerif.Lemmas.Bits
import FqeVerif.Model.Strings
import FqeVerif.Model.Maps
namespace GenC
open Model

theorem one_shl_toNat (i : Nat) (h : i < 64) : (1#64 <<< i).toNat = 2 ^ i := by
  have hp : 2 ^ i < 2 ^ 64 := Nat.pow_lt_pow_right (by omega) h
  rw [BitVec.toNat_shiftLeft]
  simp [Nat.shiftLeft_eq, Nat.mod_eq_of_lt hp]

theorem maskBelow_toNat (i : Nat) (h : i < 64) : ((1#64 <<< i) - 1#64).toNat = 2 ^ i - 1 := by
  have hp : 2 ^ i < 2 ^ 64 := Nat.pow_lt_pow_right (by omega) h
  rw [BitVec.toNat_sub, one_shl_toNat i h]
  have hpos : 0 < 2 ^ i := Nat.two_pow_pos i
  simp
  omega

theorem maskBelow_getLsbD (i r : Nat) (h : i < 64) :
    ((1#64 <<< i) - 1#64).getLsbD r = decide (r < i) := by
  rw [BitVec.getLsbD, maskBelow_toNat i h, Nat.testBit_two_pow_sub_one]

/-- `(2ull << i) - 1`, including the wrap-around at `i = 63` -/
theorem maskUpTo_getLsbD (i r : Nat) (h : i < 64) (hr : r < 64) :
    ((2#64 <<< i) - 1#64).getLsbD r = decide (r < i + 1) := by
  by_cases h63 : i = 63
  · subst h63
    have : (2#64 <<< 63) - 1#64 = BitVec.allOnes 64 := by decide
    rw [this, BitVec.getLsbD_allOnes]
  · have hi : i + 1 < 64 := by omega
    have : (2#64 <<< i) = (1#64 <<< (i + 1)) := by
      apply BitVec.eq_of_toNat_eq
      have hp : 2 ^ (i+1) < 2 ^ 64 := Nat.pow_lt_pow_right (by omega) hi
      rw [BitVec.toNat_shiftLeft, BitVec.toNat_shiftLeft]
      simp [Nat.shiftLeft_eq, Nat.pow_succ, Nat.mul_comm]
    rw [this, maskBelow_getLsbD (i+1) r hi]

theorem one_shl_getLsbD (i r : Nat) (h : i < 64) : (1#64 <<< i).getLsbD r = decide (i = r) := by
  rw [BitVec.getLsbD, one_shl_toNat i h, Nat.testBit_two_pow]

theorem popcount_eq (x : BitVec 64) : popcount x = cnt x.toNat 64 := by
  unfold popcount
  exact countBits_eq_cnt 64 _ x.isLt

theorem countBits_toNat (s : BitVec 64) (m : Nat) : countBits (s.toNat &&& m) = cnt (s.toNat &&& m) 64 :=
  countBits_eq_cnt 64 _ (and_lt_two_pow _ _ _ s.isLt)

theorem count_bits_between_eq (s : BitVec 64) (i j : Nat) (hi : i < 64) (hj : j < 64) :
    count_bits_between s i j = countBitsBetween s.toNat i j := by
  unfold count_bits_between countBitsBetween
  simp only []
  rw [popcount_eq, countBits_toNat]
  unfold cnt
  apply cntIf_congr
  intro r hr
  simp only [Bool.and_true]
  simp only [Nat.testBit_and, Nat.testBit_xor, testBit_mask]
  simp only [BitVec.testBit_toNat, BitVec.getLsbD_and, BitVec.getLsbD_xor,
    maskBelow_getLsbD i r hi, maskBelow_getLsbD j r hj, maskUpTo_getLsbD i r hi hr,
    maskUpTo_getLsbD j r hj hr, Bool.and_assoc]

theorem count_bits_above_eq (s : BitVec 64) (i : Nat) (hi : i < 64) :
    count_bits_above s i = countBitsAbove s.toNat i := by
  unfold count_bits_above countBitsAbove
  simp only []
  rw [popcount_eq, countBits_eq_cnt 64 _ (andNot_lt_two_pow _ _ _ s.isLt)]
  unfold cnt
  apply cntIf_congr
  intro r hr
  simp only [Bool.and_true]
  rw [testBit_andNot, testBit_mask]
  simp only [BitVec.testBit_toNat, BitVec.getLsbD_and, BitVec.getLsbD_not, maskUpTo_getLsbD i r hi hr, hr,
    decide_true, Bool.true_and]

theorem set_bit_eq (b : BitVec 64) (p : Nat) (hp : p < 64) : (set_bit b p).toNat = setBit b.toNat p := by
  unfold set_bit setBit
  rw [BitVec.toNat_or, one_shl_toNat p hp, one_shiftLeft_eq]

theorem check_bit_eq (b : BitVec 64) (p : Nat) (hp : p < 64) : (check_bit b p).toNat = getBit b.toNat p := by
  unfold check_bit getBit
  rw [BitVec.toNat_and, one_shl_toNat p hp, one_shiftLeft_eq]

theorem unset_bit_eq (b : BitVec 64) (p : Nat) (hp : p < 64) :
    (unset_bit b p).toNat = unsetBit b.toNat p := by
  apply Nat.eq_of_testBit_eq
  intro r
  rw [testBit_unsetBit]
  unfold unset_bit
  by_cases hr : r < 64
  · simp only [BitVec.testBit_toNat, BitVec.getLsbD_and, BitVec.getLsbD_not, one_shl_getLsbD p r hp, hr,
      decide_true, Bool.true_and]
  · have h1 : b.toNat.testBit r = false :=
      Nat.testBit_lt_two_pow (Nat.lt_of_lt_of_le b.isLt (Nat.pow_le_pow_right (by omega) (by omega)))
    have h2 : ∀ x : BitVec 64, x.getLsbD r = false := fun x => BitVec.getLsbD_of_ge x r (by omega)
    rw [BitVec.testBit_toNat, h2, h1]; rfl

end GenC

namespace GenC
open Model

theorem and_not_toNat (c y : Nat) (hc : c < 2 ^ 64) : c &&& (2 ^ 64 - 1 - y % 2 ^ 64) = andNot c (y % 2 ^ 64) := by
  apply Nat.eq_of_testBit_eq
  intro i
  have hy : y % 2 ^ 64 < 2 ^ 64 := Nat.mod_lt _ (Nat.two_pow_pos 64)
  have e : 2 ^ 64 - 1 - y % 2 ^ 64 = 2 ^ 64 - (y % 2 ^ 64 + 1) := by omega
  rw [testBit_andNot, Nat.testBit_and, e, Nat.testBit_two_pow_sub_succ hy]
  by_cases h : i < 64
  · simp [h]
  · have : c.testBit i = false :=
      Nat.testBit_lt_two_pow (Nat.lt_of_lt_of_le hc (Nat.pow_le_pow_right (by omega) (by omega)))
    simp [this]

/-- the translated body of the C generator step equals the `Nat` model of `Model/Strings.lean` -/
theorem gosper_next_toNat (c : BitVec 64) : (gosper_next c).toNat = gosperNext c.toNat := by
  unfold gosper_next gosperNext
  simp only [BitVec.toNat_or, BitVec.toNat_ushiftRight, BitVec.toNat_udiv, BitVec.toNat_and, BitVec.toNat_add,
    BitVec.toNat_neg, BitVec.toNat_not]
  rw [← and_not_toNat _ _ c.isLt]

end GenC

namespace GenC
open Model

theorem check_bit_zero_iff (b : BitVec 64) (p : Nat) (hp : p < 64) :
    ((check_bit b p) == 0#64) = decide (getBit b.toNat p = 0) := by
  have h := check_bit_eq b p hp
  by_cases hz : getBit b.toNat p = 0
  · have : check_bit b p = 0#64 := by
      apply BitVec.eq_of_toNat_eq
      rw [h, hz]; rfl
    simp [this, hz]
  · have : check_bit b p ≠ 0#64 := by
      intro e
      apply hz
      rw [← h, e]; rfl
    simp [this, hz]

/-- the entry the C table builder writes for one string (translated from fci_graph.c on every run) is `mappingEntry`
    of the Model — hence the Spec action of a†_i a_j with its sign — for every 64-bit string and all orbitals < 64 -/
theorem c_build_mapping_entry (s : BitVec 64) (i j : Nat) (hi : i < 64) (hj : j < 64) :
    (build_mapping_entry s i j).map (fun x => (x.1.toNat, x.2.1.toNat, x.2.2)) =
      (mappingEntry i j s.toNat).map (fun x => (x.1, x.2.1, if x.2.2 then (-1 : Int) else 1)) := by
  unfold build_mapping_entry mappingEntry
  rw [check_bit_zero_iff s j hj, check_bit_zero_iff s i hi]
  by_cases h1 : getBit s.toNat j = 0
  · by_cases hij : i = j
    · subst hij
      simp [h1]
    · simp [h1, hij]
  · by_cases h2 : getBit s.toNat i = 0
    · simp only [h1, h2, decide_false, decide_true, Bool.not_false, Bool.not_true, Bool.and_self, if_true,
        ne_eq, not_false_eq_true, and_self, Option.map_some]
      have e1 : (unset_bit (set_bit s i) j).toNat = unsetBit (setBit s.toNat i) j := by
        rw [unset_bit_eq _ j hj, set_bit_eq s i hi]
      rw [e1, count_bits_between_eq s i j hi hj]
      by_cases hp : countBitsBetween s.toNat i j % 2 = 1
      · have : ¬ countBitsBetween s.toNat i j % 2 = 0 := by omega
        simp [hp, this]
      · have : countBitsBetween s.toNat i j % 2 = 0 := by omega
        simp [hp, this]
    · by_cases hij : i = j
      · subst hij
        simp [h1]
      · simp [h1, h2, hij]


end GenC

namespace GenC
open Model

theorem fold_set_toNat : ∀ (l : List Nat) (m : BitVec 64), (∀ x ∈ l, x < 64) →
    (l.foldl (fun dag_mask x => set_bit dag_mask x) m).toNat = l.foldl setBit m.toNat := by
  intro l
  induction l with
  | nil => intro m _; rfl
  | cons x xs ih =>
    intro m h
    simp only [List.foldl_cons]
    rw [ih _ (fun y hy => h y (by simp [hy])), set_bit_eq m x (h x (by simp))]

theorem fold_masks_toNat : ∀ (l : List Nat) (a b : BitVec 64), (∀ x ∈ l, x < 64) →
    ((l.foldl (fun (st : BitVec 64 × BitVec 64) x => (unset_bit st.1 x, set_bit st.2 x)) (a, b)).1.toNat =
        l.foldl unsetBit a.toNat) ∧
    ((l.foldl (fun (st : BitVec 64 × BitVec 64) x => (unset_bit st.1 x, set_bit st.2 x)) (a, b)).2.toNat =
        l.foldl setBit b.toNat) := by
  intro l
  induction l with
  | nil => intro a b _; exact ⟨rfl, rfl⟩
  | cons x xs ih =>
    intro a b h
    simp only [List.foldl_cons]
    have hx := h x (by simp)
    obtain ⟨i1, i2⟩ := ih (unset_bit a x) (set_bit b x) (fun y hy => h y (by simp [hy]))
    rw [i1, i2, unset_bit_eq a x hx, set_bit_eq b x hx]
    exact ⟨rfl, rfl⟩

theorem mme_masks_toNat (dag undag : List Nat) (hd : ∀ x ∈ dag, x < 64) (hu : ∀ x ∈ undag, x < 64) :
    (mme_masks dag undag).1.toNat = dagMaskC dag undag ∧ (mme_masks dag undag).2.toNat = undagMask undag := by
  unfold mme_masks dagMaskC undagMask
  simp only []
  obtain ⟨i1, i2⟩ := fold_masks_toNat undag (dag.foldl (fun dag_mask x => set_bit dag_mask x) 0#64) 0#64 hu
  rw [i1, i2, fold_set_toNat dag 0#64 hd]
  exact ⟨rfl, rfl⟩

theorem fold_unset_step : ∀ (l : List Nat) (c : BitVec 64) (p : Nat), (∀ x ∈ l, x < 64) →
    ((l.foldl (fun (st : BitVec 64 × Nat) x => (unset_bit st.1 x, st.2 + count_bits_above st.1 x)) (c, p)).1.toNat,
     (l.foldl (fun (st : BitVec 64 × Nat) x => (unset_bit st.1 x, st.2 + count_bits_above st.1 x)) (c, p)).2) =
      l.foldl (fun (cp : Nat × Nat) i => (unsetBit cp.1 i, cp.2 + countBitsAbove cp.1 i)) (c.toNat, p) := by
  intro l
  induction l with
  | nil => intro c p _; rfl
  | cons x xs ih =>
    intro c p h
    simp only [List.foldl_cons]
    have hx := h x (by simp)
    rw [ih _ _ (fun y hy => h y (by simp [hy])), unset_bit_eq c x hx, count_bits_above_eq c x hx]

theorem fold_set_step : ∀ (l : List Nat) (c : BitVec 64) (p : Nat), (∀ x ∈ l, x < 64) →
    ((l.foldl (fun (st : BitVec 64 × Nat) x => (set_bit st.1 x, st.2 + count_bits_above st.1 x)) (c, p)).1.toNat,
     (l.foldl (fun (st : BitVec 64 × Nat) x => (set_bit st.1 x, st.2 + count_bits_above st.1 x)) (c, p)).2) =
      l.foldl (fun (cp : Nat × Nat) i => (setBit cp.1 i, cp.2 + countBitsAbove cp.1 i)) (c.toNat, p) := by
  intro l
  induction l with
  | nil => intro c p _; rfl
  | cons x xs ih =>
    intro c p h
    simp only [List.foldl_cons]
    have hx := h x (by simp)
    rw [ih _ _ (fun y hy => h y (by simp [hy])), set_bit_eq c x hx, count_bits_above_eq c x hx]

theorem beq_zero_iff (x : BitVec 64) : (x == 0#64) = decide (x.toNat = 0) := by
  by_cases h : x = 0#64
  · subst h; simp
  · have : x.toNat ≠ 0 := fun e => h (BitVec.eq_of_toNat_eq (by simpa using e))
    simp [h, this]

/-- the C operator-string map kernel, as translated from fci_graph.c on every run, admits a string and computes its
    target and parity exactly as the Model does (`makeMappingEachC`: masks, admission test, `mapEachStep`), for every
    64-bit string and all index lists below 64 -/
theorem c_mme_entry (s : BitVec 64) (dag undag : List Nat) (hd : ∀ x ∈ dag, x < 64) (hu : ∀ x ∈ undag, x < 64) :
    (mme_entry s dag undag).map (fun r => (r.1.toNat, r.2)) =
      (if (s.toNat &&& dagMaskC dag undag) = 0 ∧ ((s.toNat &&& undagMask undag) ^^^ undagMask undag) = 0 then
        some ((mapEachStep dag undag s.toNat).1, (mapEachStep dag undag s.toNat).2 % 2) else none) := by
  unfold mme_entry
  simp only []
  obtain ⟨m1, m2⟩ := mme_masks_toNat dag undag hd hu
  rw [beq_zero_iff, beq_zero_iff]
  simp only [BitVec.toNat_and, BitVec.toNat_xor, m1, m2]
  by_cases h1 : (s.toNat &&& dagMaskC dag undag) = 0
  · by_cases h2 : ((s.toNat &&& undagMask undag) ^^^ undagMask undag) = 0
    · simp only [h1, h2, decide_true, Bool.and_self, if_true, and_self, Option.map_some]
      have hur : ∀ x ∈ undag.reverse, x < 64 := fun x hx => hu x (by simpa using hx)
      have hdr : ∀ x ∈ dag.reverse, x < 64 := fun x hx => hd x (by simpa using hx)
      have e1 := fold_unset_step undag.reverse s 0 hur
      generalize hA : undag.reverse.foldl (fun (st : BitVec 64 × Nat) x => (unset_bit st.1 x, st.2 + count_bits_above st.1 x)) (s, 0) = A at e1 ⊢
      have e2 := fold_set_step dag.reverse A.1 A.2 hdr
      unfold mapEachStep
      rw [← e1]
      simp only []
      rw [← e2]
    · simp [h1, h2]
  · simp [h1]


end GenC

namespace GenC
open Model

theorem getD_lt64 : ∀ (occ : List Nat), (∀ x ∈ occ, x < 64) → ∀ (d : Nat), occ.getD d 0 < 64 := by
  intro occ
  induction occ with
  | nil => intro _ d; simp
  | cons x xs ih =>
    intro h d
    cases d with
    | zero => simpa using h x (by simp)
    | succ d => simpa using ih (fun y hy => h y (by simp [hy])) d

theorem mmes_fold (source : BitVec 64) (occ : List Nat) (h : ∀ x ∈ occ, x < 64) :
    ∀ (ds : List Nat) (t : BitVec 64) (p : Nat),
    ((ds.foldl (fun (st : BitVec 64 × Nat) d =>
        (unset_bit st.1 (occ.getD d 0), st.2 + (d + 1) * count_bits_between source (occ.getD d 0) (occ.getD (d + 1) 0))) (t, p)).1.toNat,
     (ds.foldl (fun (st : BitVec 64 × Nat) d =>
        (unset_bit st.1 (occ.getD d 0), st.2 + (d + 1) * count_bits_between source (occ.getD d 0) (occ.getD (d + 1) 0))) (t, p)).2) =
      ds.foldl (fun (tp : Nat × Nat) iop =>
        (unsetBit tp.1 (occ.getD iop 0),
         tp.2 + (iop + 1) * countBitsBetween source.toNat (occ.getD iop 0) (occ.getD (iop + 1) 0))) (t.toNat, p) := by
  intro ds
  induction ds with
  | nil => intro t p; rfl
  | cons d rest ih =>
    intro t p
    simp only [List.foldl_cons]
    rw [ih, unset_bit_eq t _ (getD_lt64 occ h d),
      count_bits_between_eq source _ _ (getD_lt64 occ h d) (getD_lt64 occ h (d + 1))]

/-- the C k-fold annihilation map kernel, as translated from fci_graph.c on every run, admits a source and computes
    its target and parity count exactly as the Model's `mapSetEntry` (which `C05_kfold_map` identifies with the ladder
    product over the mask's orbitals), for every 64-bit source and mask and occupation list below 64 -/
theorem c_mmes_entry (source mask : BitVec 64) (occ : List Nat) (h : ∀ x ∈ occ, x < 64) :
    (mmes_entry source mask occ occ.length).map (fun r => (r.1.toNat, r.2)) =
      (if ((source.toNat &&& mask.toNat) ^^^ mask.toNat) = 0 then
        some ((mapSetEntry occ source.toNat).2.1, (mapSetEntry occ source.toNat).2.2) else none) := by
  unfold mmes_entry
  rw [beq_zero_iff]
  simp only [BitVec.toNat_and, BitVec.toNat_xor]
  by_cases hadm : ((source.toNat &&& mask.toNat) ^^^ mask.toNat) = 0
  · simp only [hadm, decide_true, if_true, Option.map_some]
    have hl := getD_lt64 occ h (occ.length - 1)
    have hc := count_bits_above_eq source _ hl
    have hu := unset_bit_eq source _ hl
    rw [hc]
    have e := mmes_fold source occ h (List.range (occ.length - 1)).reverse
      (unset_bit source (occ.getD (occ.length - 1) 0)) (countBitsAbove source.toNat (occ.getD (occ.length - 1) 0) * occ.length)
    rw [hu] at e
    unfold mapSetEntry
    simp only []
    rw [← e]
  · simp [hadm]


end GenC
