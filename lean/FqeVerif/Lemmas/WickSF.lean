/-
  Lemmas/WickSF.lean — soundness of the spin-free variant of the Wick driver (Model/Wick.lean, `spinfree = True`):
  the rewriting loop preserves the spin-summed matrix element (a contraction inside one slot doubles, a contraction
  between two slots merges them), the loop ends on normal-ordered balanced entries, and the closing spin sort only
  permutes operators of one kind with the matching sign.
-/
import FqeVerif.Lemmas.Wick
import Mathlib.Algebra.BigOperators.Group.Finset.Basic
import Mathlib.Tactic.Ring
import Mathlib.Algebra.BigOperators.Ring.Finset
import FqeVerif.Lemmas.Car
namespace Model
open Fock

/-- mode of a spin-free operator under an orbital assignment `ρ` of the labels and a spin assignment `m` of the
    slots (bit `s` of `m` = spin of slot `s`) -/
def modeSF (ρ : Nat → Nat) (m : Nat) (o : Nat × Bool × Nat) : Nat × Bool :=
  (2 * ρ o.1 + (if m.testBit o.2.2 then 1 else 0), o.2.1)

def termSF (ρ : Nat → Nat) (m : Nat) (ops : List (Nat × Bool × Nat)) : Term := ops.map (modeSF ρ m)

/-- `⟨f| ops |a,b⟩` for one spin assignment -/
def opsVal (ρ : Nat → Nat) (f : Nat → Nat → Int) (a b : Nat) (ops : List (Nat × Bool × Nat)) (m : Nat) : Int :=
  evalRes f (applyTerm (termSF ρ m ops) a b)

/-- sum over all spin assignments of `R` slots -/
def spinSum (R : Nat) (F : Nat → Int) : Int := ∑ m ∈ Finset.range (2 ^ R), F m

theorem splitPairSF_spec : ∀ (ops pre : List (Nat × Bool × Nat)) (x y : Nat × Bool × Nat) (post : List (Nat × Bool × Nat)),
    splitPairSF ops = some (pre, x, y, post) → ops = pre ++ [x, y] ++ post ∧ x.2.1 = false ∧ y.2.1 = true := by
  intro ops
  induction ops with
  | nil => intro pre x y post h; simp [splitPairSF] at h
  | cons o rest ih =>
    intro pre x y post h
    cases rest with
    | nil => simp [splitPairSF] at h
    | cons o2 post0 =>
      rw [splitPairSF] at h
      by_cases hc : o.2.1 = false ∧ o2.2.1 = true
      · simp only [hc, and_self, if_true, Option.some.injEq, Prod.mk.injEq] at h
        obtain ⟨h1, h2, h3, h4⟩ := h
        subst h1; subst h2; subst h3; subst h4
        exact ⟨rfl, hc.1, hc.2⟩
      · simp only [hc, if_false] at h
        cases hr : splitPairSF (o2 :: post0) with
        | none => rw [hr] at h; simp at h
        | some r =>
          rw [hr] at h
          obtain ⟨p1, x1, y1, q1⟩ := r
          simp only [Option.map_some, Option.some.injEq, Prod.mk.injEq] at h
          obtain ⟨h1, h2, h3, h4⟩ := h
          subst h1; subst h2; subst h3; subst h4
          obtain ⟨e, hx, hy⟩ := ih p1 x1 y1 q1 hr
          rw [e]
          exact ⟨rfl, hx, hy⟩

theorem termSF_append (ρ : Nat → Nat) (m : Nat) (l1 l2 : List (Nat × Bool × Nat)) :
    termSF ρ m (l1 ++ l2) = termSF ρ m l1 ++ termSF ρ m l2 := by
  unfold termSF; rw [List.map_append]

/-- for one spin assignment: `… a_x a†_y … = − … a†_y a_x … + [same mode] … …` -/
theorem opsVal_step (ρ : Nat → Nat) (f : Nat → Nat → Int) (a b m : Nat) (pre post : List (Nat × Bool × Nat))
    (x y : Nat × Bool × Nat) (hx : x.2.1 = false) (hy : y.2.1 = true) :
    opsVal ρ f a b (pre ++ [x, y] ++ post) m =
      - opsVal ρ f a b (pre ++ [y, x] ++ post) m +
        (if ρ x.1 = ρ y.1 ∧ m.testBit x.2.2 = m.testBit y.2.2 then opsVal ρ f a b (pre ++ post) m else 0) := by
  unfold opsVal
  simp only [termSF_append]
  generalize termSF ρ m pre = P
  generalize termSF ρ m post = Q
  have ex : termSF ρ m [x, y] = [(2 * ρ x.1 + (if m.testBit x.2.2 then 1 else 0), false),
      (2 * ρ y.1 + (if m.testBit y.2.2 then 1 else 0), true)] := by
    simp [termSF, modeSF, hx, hy]
  have ey : termSF ρ m [y, x] = [(2 * ρ y.1 + (if m.testBit y.2.2 then 1 else 0), true),
      (2 * ρ x.1 + (if m.testBit x.2.2 then 1 else 0), false)] := by
    simp [termSF, modeSF, hx, hy]
  rw [ex, ey]
  generalize hmx : 2 * ρ x.1 + (if m.testBit x.2.2 then 1 else 0) = mx
  generalize hmy : 2 * ρ y.1 + (if m.testBit y.2.2 then 1 else 0) = my
  have hiff : (ρ x.1 = ρ y.1 ∧ m.testBit x.2.2 = m.testBit y.2.2) ↔ mx = my := by
    rw [← hmx, ← hmy]
    cases m.testBit x.2.2 <;> cases m.testBit y.2.2 <;> simp <;> omega
  by_cases hm : mx = my
  · have hc : ρ x.1 = ρ y.1 ∧ m.testBit x.2.2 = m.testBit y.2.2 := hiff.2 hm
    simp only [hc, and_self, if_true]
    rw [hm]
    rcases term_contract P Q my a b with ⟨h1, h2⟩ | ⟨h1, h2⟩
    · rw [h1, h2, evalRes_none]; simp
    · rw [h1, h2, evalRes_none]; simp
  · have hc : ¬ (ρ x.1 = ρ y.1 ∧ m.testBit x.2.2 = m.testBit y.2.2) := fun h => hm (hiff.1 h)
    simp only [hc, if_false, Int.add_zero]
    rw [term_swap P Q false true mx my a b hm, evalRes_negRes]

/-- set the spin of slot `sy` to the spin of slot `sx` -/
def reassign (sx sy m : Nat) : Nat := if m.testBit sx = m.testBit sy then m else m ^^^ 2 ^ sy

theorem testBit_reassign (sx sy m s : Nat) (hne : sx ≠ sy) :
    (reassign sx sy m).testBit s = if s = sy then m.testBit sx else m.testBit s := by
  unfold reassign
  by_cases h : m.testBit sx = m.testBit sy
  · simp only [h, if_true]
    by_cases hs : s = sy
    · subst hs; simp
    · simp [hs]
  · simp only [h, if_false, Nat.testBit_xor, Nat.testBit_two_pow]
    by_cases hs : s = sy
    · subst hs
      simp only [decide_true, Bool.xor_true, if_true]
      cases hx : m.testBit sx <;> cases hy : m.testBit s <;> simp_all
    · have : ¬ sy = s := fun e => hs e.symm
      simp [hs, this]

theorem xor_pow_lt (R sy m : Nat) (hm : m < 2 ^ R) (hs : sy < R) : m ^^^ 2 ^ sy < 2 ^ R :=
  Nat.xor_lt_two_pow hm (Nat.pow_lt_pow_right (by omega) hs)

/-- summing `H ∘ reassign` over all spin assignments counts every assignment with equal spins on the two slots
    twice -/
theorem spinSum_reassign (R sx sy : Nat) (hne : sx ≠ sy) (hy : sy < R) (H : Nat → Int) :
    spinSum R (fun m => H (reassign sx sy m)) =
      2 * spinSum R (fun m => if m.testBit sx = m.testBit sy then H m else 0) := by
  unfold spinSum
  rw [← Finset.sum_filter_add_sum_filter_not (Finset.range (2 ^ R)) (fun m => m.testBit sx = m.testBit sy)]
  have hA : ∑ m ∈ Finset.filter (fun m => m.testBit sx = m.testBit sy) (Finset.range (2 ^ R)), H (reassign sx sy m) =
      ∑ m ∈ Finset.filter (fun m => m.testBit sx = m.testBit sy) (Finset.range (2 ^ R)), H m := by
    apply Finset.sum_congr rfl
    intro m hm
    rw [Finset.mem_filter] at hm
    unfold reassign
    simp [hm.2]
  have hB : ∑ m ∈ Finset.filter (fun m => ¬ m.testBit sx = m.testBit sy) (Finset.range (2 ^ R)), H (reassign sx sy m) =
      ∑ m ∈ Finset.filter (fun m => m.testBit sx = m.testBit sy) (Finset.range (2 ^ R)), H m := by
    apply Finset.sum_nbij' (fun m => m ^^^ 2 ^ sy) (fun m => m ^^^ 2 ^ sy)
    · intro m hm
      simp only [Finset.mem_filter, Finset.mem_range] at hm ⊢
      refine ⟨xor_pow_lt R sy m hm.1 hy, ?_⟩
      have := hm.2
      simp only [Nat.testBit_xor, Nat.testBit_two_pow]
      have e1 : decide (sy = sx) = false := by simp; omega
      simp only [e1, decide_true, Bool.xor_false, Bool.xor_true]
      cases hx : m.testBit sx <;> cases hyy : m.testBit sy <;> simp_all
    · intro m hm
      simp only [Finset.mem_filter, Finset.mem_range] at hm ⊢
      refine ⟨xor_pow_lt R sy m hm.1 hy, ?_⟩
      have := hm.2
      simp only [Nat.testBit_xor, Nat.testBit_two_pow]
      have e1 : decide (sy = sx) = false := by simp; omega
      simp only [e1, decide_true, Bool.xor_false, Bool.xor_true]
      cases hx : m.testBit sx <;> cases hyy : m.testBit sy <;> simp_all
    · intro m _
      rw [Nat.xor_assoc, Nat.xor_self, Nat.xor_zero]
    · intro m _
      rw [Nat.xor_assoc, Nat.xor_self, Nat.xor_zero]
    · intro m hm
      simp only [Finset.mem_filter] at hm
      unfold reassign
      simp [hm.2]
  rw [hA, hB]
  simp only []
  rw [← Finset.sum_filter]
  ring

theorem opsVal_relabel (ρ : Nat → Nat) (f : Nat → Nat → Int) (a b m sx sy : Nat) (hne : sx ≠ sy)
    (rest : List (Nat × Bool × Nat)) :
    opsVal ρ f a b (rest.map (fun o => if o.2.2 = sy then (o.1, o.2.1, sx) else o)) m =
      opsVal ρ f a b rest (reassign sx sy m) := by
  unfold opsVal termSF
  rw [List.map_map]
  congr 2
  apply List.map_congr_left
  intro o _
  simp only [Function.comp]
  unfold modeSF
  by_cases h : o.2.2 = sy
  · simp [h, testBit_reassign sx sy m sy hne]
  · simp [h, testBit_reassign sx sy m o.2.2 hne]

/-- well-formed entry for `R` slots: two operators leave per delta, slots are below `R` -/
def wfSF (R : Nat) (it : WItemSF) : Prop :=
  it.ops.length + 2 * it.deltas.length = 2 * R ∧ ∀ o ∈ it.ops, o.2.2 < R

/-- contribution of one entry, scaled by `2^R`: sign · 2^twos · 2^(R − #deltas) · Σ_spins ⟨f| ops |a,b⟩
    (every contraction leaves one slot without operators; the sum over its spin is the factor 2 that
    `2^(R − #deltas)` takes out again) -/
def evalItemSF (ρ : Nat → Nat) (f : Nat → Nat → Int) (a b R : Nat) (it : WItemSF) : Int :=
  if deltasOk ρ it.deltas then
    (if it.neg then -1 else 1) * (2 ^ it.twos * 2 ^ (R - it.deltas.length)) * spinSum R (opsVal ρ f a b it.ops)
  else 0

def evalListSF (ρ : Nat → Nat) (f : Nat → Nat → Int) (a b R : Nat) (l : List WItemSF) : Int :=
  (l.map (evalItemSF ρ f a b R)).sum

theorem spinSum_add (R : Nat) (F G : Nat → Int) : spinSum R (fun m => F m + G m) = spinSum R F + spinSum R G := by
  unfold spinSum; rw [Finset.sum_add_distrib]

theorem spinSum_neg (R : Nat) (F : Nat → Int) : spinSum R (fun m => - F m) = - spinSum R F := by
  unfold spinSum; rw [Finset.sum_neg_distrib]

theorem spinSum_congr (R : Nat) (F G : Nat → Int) (h : ∀ m, F m = G m) : spinSum R F = spinSum R G := by
  unfold spinSum; exact Finset.sum_congr rfl (fun m _ => h m)

/-- one rewriting step of the spin-free driver preserves the (scaled) spin-summed matrix element and the
    well-formedness of the entries -/
theorem wstepSF_sound (ρ : Nat → Nat) (f : Nat → Nat → Int) (a b R : Nat) (it : WItemSF) (hwf : wfSF R it) :
    evalListSF ρ f a b R (wstepSF it) = evalItemSF ρ f a b R it := by
  unfold wstepSF
  cases hs : splitPairSF it.ops with
  | none => simp [evalListSF]
  | some r =>
    obtain ⟨pre, x, y, post⟩ := r
    obtain ⟨hops, hx, hy⟩ := splitPairSF_spec it.ops pre x y post hs
    obtain ⟨hlen, hslots⟩ := hwf
    have hxR : x.2.2 < R := hslots x (by rw [hops]; simp)
    have hyR : y.2.2 < R := hslots y (by rw [hops]; simp)
    have hd : it.deltas.length + 1 ≤ R := by
      rw [hops] at hlen
      simp only [List.length_append, List.length_cons, List.length_nil] at hlen
      omega
    have hpow : (2 : Int) ^ (R - it.deltas.length) = 2 * 2 ^ (R - (it.deltas.length + 1)) := by
      have : R - it.deltas.length = (R - (it.deltas.length + 1)) + 1 := by omega
      rw [this, pow_succ]; ring
    -- the spin sum of the entry, term by term
    have hsum : spinSum R (opsVal ρ f a b it.ops) =
        - spinSum R (opsVal ρ f a b (pre ++ [y, x] ++ post)) +
          spinSum R (fun m => if ρ x.1 = ρ y.1 ∧ m.testBit x.2.2 = m.testBit y.2.2 then
            opsVal ρ f a b (pre ++ post) m else 0) := by
      rw [hops, ← spinSum_neg, ← spinSum_add]
      exact spinSum_congr R _ _ (fun m => opsVal_step ρ f a b m pre post x y hx hy)
    simp only [evalListSF, List.map_cons, List.map_nil, List.sum_cons, List.sum_nil, add_zero]
    by_cases hdo : deltasOk ρ it.deltas = true
    · by_cases hxy : ρ x.1 = ρ y.1
      · have hb : (ρ x.1 == ρ y.1) = true := by simp [hxy]
        by_cases hsl : y.2.2 = x.2.2
        · -- contraction inside one slot
          simp only [hsl, if_true]
          unfold evalItemSF
          simp only [deltasOk_append, hdo, hb, Bool.and_self, if_true, List.length_append, List.length_cons,
            List.length_nil, zero_add]
          rw [hsum, hpow]
          have : spinSum R (fun m => if ρ x.1 = ρ y.1 ∧ m.testBit x.2.2 = m.testBit y.2.2 then
              opsVal ρ f a b (pre ++ post) m else 0) = spinSum R (opsVal ρ f a b (pre ++ post)) := by
            apply spinSum_congr
            intro m
            simp [hxy, hsl]
          rw [this]
          cases it.neg <;> simp <;> ring
        · -- contraction between two slots: they are merged
          have hne : x.2.2 ≠ y.2.2 := fun e => hsl e.symm
          simp only [hsl, if_false]
          unfold evalItemSF
          simp only [deltasOk_append, hdo, hb, Bool.and_self, if_true, List.length_append, List.length_cons,
            List.length_nil, zero_add]
          rw [hsum, hpow]
          have h1 : spinSum R (opsVal ρ f a b ((pre ++ post).map
              (fun o => if o.2.2 = y.2.2 then (o.1, o.2.1, x.2.2) else o))) =
              2 * spinSum R (fun m => if m.testBit x.2.2 = m.testBit y.2.2 then opsVal ρ f a b (pre ++ post) m else 0) := by
            rw [← spinSum_reassign R x.2.2 y.2.2 hne hyR]
            exact spinSum_congr R _ _ (fun m => opsVal_relabel ρ f a b m x.2.2 y.2.2 hne (pre ++ post))
          have h2 : spinSum R (fun m => if ρ x.1 = ρ y.1 ∧ m.testBit x.2.2 = m.testBit y.2.2 then
              opsVal ρ f a b (pre ++ post) m else 0) =
              spinSum R (fun m => if m.testBit x.2.2 = m.testBit y.2.2 then opsVal ρ f a b (pre ++ post) m else 0) := by
            apply spinSum_congr
            intro m
            simp [hxy]
          rw [h1, h2]
          cases it.neg <;> simp <;> ring
      · have hb : (ρ x.1 == ρ y.1) = false := by simp [hxy]
        have hz : spinSum R (fun m => if ρ x.1 = ρ y.1 ∧ m.testBit x.2.2 = m.testBit y.2.2 then
            opsVal ρ f a b (pre ++ post) m else 0) = 0 := by
          unfold spinSum
          apply Finset.sum_eq_zero
          intro m _
          simp [hxy]
        by_cases hsl : y.2.2 = x.2.2
        · simp only [hsl, if_true]
          unfold evalItemSF
          simp only [deltasOk_append, hdo, hb, Bool.and_false, Bool.false_eq_true, if_false, if_true, add_zero]
          rw [hsum, hz]
          cases it.neg <;> simp
        · simp only [hsl, if_false]
          unfold evalItemSF
          simp only [deltasOk_append, hdo, hb, Bool.and_false, Bool.false_eq_true, if_false, if_true, add_zero]
          rw [hsum, hz]
          cases it.neg <;> simp
    · have hdo' : deltasOk ρ it.deltas = false := by simpa using hdo
      by_cases hsl : y.2.2 = x.2.2
      · simp only [hsl, if_true]
        unfold evalItemSF
        simp [deltasOk_append, hdo']
      · simp only [hsl, if_false]
        unfold evalItemSF
        simp [deltasOk_append, hdo']

theorem wstepSF_wf (R : Nat) (it : WItemSF) (hwf : wfSF R it) : ∀ c ∈ wstepSF it, wfSF R c := by
  unfold wstepSF
  cases hs : splitPairSF it.ops with
  | none => intro c hc; simp at hc; rw [hc]; exact hwf
  | some r =>
    obtain ⟨pre, x, y, post⟩ := r
    obtain ⟨hops, _, _⟩ := splitPairSF_spec it.ops pre x y post hs
    obtain ⟨hlen, hslots⟩ := hwf
    rw [hops] at hlen hslots
    simp only [List.length_append, List.length_cons, List.length_nil] at hlen
    have hxR : x.2.2 < R := hslots x (by simp)
    intro c hc
    simp only [List.mem_cons, List.mem_nil_iff, or_false] at hc
    rcases hc with hc | hc
    · subst hc
      refine ⟨?_, ?_⟩
      · simp only [List.length_append, List.length_cons, List.length_nil]; omega
      · intro o ho
        apply hslots o
        simp only [List.mem_append, List.mem_cons, List.mem_nil_iff, or_false] at ho ⊢
        tauto
    · subst hc
      by_cases hsl : y.2.2 = x.2.2
      · simp only [hsl, if_true]
        refine ⟨?_, ?_⟩
        · simp only [List.length_append, List.length_cons, List.length_nil]; omega
        · intro o ho
          apply hslots o
          simp only [List.mem_append, List.mem_cons, List.mem_nil_iff, or_false] at ho ⊢
          tauto
      · simp only [hsl, if_false]
        refine ⟨?_, ?_⟩
        · simp only [List.length_append, List.length_cons, List.length_nil, List.length_map]; omega
        · intro o ho
          simp only [List.mem_map] at ho
          obtain ⟨o', ho', rfl⟩ := ho
          by_cases h : o'.2.2 = y.2.2
          · simp only [h, if_true]; exact hxR
          · simp only [h, if_false]
            apply hslots o'
            simp only [List.mem_append, List.mem_cons, List.mem_nil_iff, or_false] at ho' ⊢
            tauto

theorem evalListSF_append (ρ : Nat → Nat) (f : Nat → Nat → Int) (a b R : Nat) (l1 l2 : List WItemSF) :
    evalListSF ρ f a b R (l1 ++ l2) = evalListSF ρ f a b R l1 + evalListSF ρ f a b R l2 := by
  unfold evalListSF
  rw [List.map_append, List.sum_append]

theorem passSF_sound (ρ : Nat → Nat) (f : Nat → Nat → Int) (a b R : Nat) (l : List WItemSF)
    (hwf : ∀ it ∈ l, wfSF R it) :
    evalListSF ρ f a b R (l.flatMap wstepSF) = evalListSF ρ f a b R l ∧ ∀ c ∈ l.flatMap wstepSF, wfSF R c := by
  induction l with
  | nil => exact ⟨rfl, by simp⟩
  | cons it rest ih =>
    have h1 := hwf it (by simp)
    obtain ⟨e, w⟩ := ih (fun x hx => hwf x (by simp [hx]))
    refine ⟨?_, ?_⟩
    · rw [List.flatMap_cons, evalListSF_append, e, wstepSF_sound ρ f a b R it h1]
      unfold evalListSF
      rw [List.map_cons, List.sum_cons]
    · intro c hc
      rw [List.flatMap_cons, List.mem_append] at hc
      rcases hc with hc | hc
      · exact wstepSF_wf R it h1 c hc
      · exact w c hc

/-- the whole rewriting loop of the spin-free driver preserves the scaled spin-summed matrix element (any fuel) -/
theorem wnormalizeSF_sound (ρ : Nat → Nat) (f : Nat → Nat → Int) (a b R : Nat) : ∀ (fuel : Nat) (l : List WItemSF),
    (∀ it ∈ l, wfSF R it) →
    evalListSF ρ f a b R (wnormalizeSF fuel l) = evalListSF ρ f a b R l ∧ ∀ c ∈ wnormalizeSF fuel l, wfSF R c := by
  intro fuel
  induction fuel with
  | zero => intro l h; exact ⟨rfl, h⟩
  | succ n ih =>
    intro l h
    obtain ⟨e, w⟩ := passSF_sound ρ f a b R l h
    rw [wnormalizeSF]
    by_cases hc : (l.any fun it => (splitPairSF it.ops).isSome) = true
    · simp only [hc, if_true]
      obtain ⟨e2, w2⟩ := ih _ w
      exact ⟨by rw [e2, e], w2⟩
    · simp only [hc, Bool.false_eq_true, if_false]
      exact ⟨e, w⟩

theorem term_square (pre post : Term) (d : Bool) (m a b : Nat) :
    applyTerm (pre ++ [(m, d), (m, d)] ++ post) a b = none := by
  simp only [List.append_assoc, applyTerm_append]
  cases hp : applyTerm post a b with
  | none => simp [thenApply]
  | some r =>
    obtain ⟨s, a', b'⟩ := r
    have : thenApply [(m, d), (m, d)] (some (s, a', b')) = none := by
      unfold thenApply; simp only; rw [applyTerm_pair, spec_car_square]; rfl
    rw [this]
    simp [thenApply]

/-- exchanging two adjacent operators of the same kind (both creators or both annihilators) flips the sign, for
    every spin assignment (on the same mode both orders vanish) -/
theorem opsVal_swap_same (ρ : Nat → Nat) (f : Nat → Nat → Int) (a b m : Nat) (P Q : List (Nat × Bool × Nat))
    (o1 o2 : Nat × Bool × Nat) (h : o1.2.1 = o2.2.1) :
    opsVal ρ f a b (P ++ [o1, o2] ++ Q) m = - opsVal ρ f a b (P ++ [o2, o1] ++ Q) m := by
  unfold opsVal
  simp only [termSF_append]
  generalize termSF ρ m P = P'
  generalize termSF ρ m Q = Q'
  have e1 : termSF ρ m [o1, o2] = [((modeSF ρ m o1).1, o1.2.1), ((modeSF ρ m o2).1, o1.2.1)] := by
    simp [termSF, modeSF, h]
  have e2 : termSF ρ m [o2, o1] = [((modeSF ρ m o2).1, o1.2.1), ((modeSF ρ m o1).1, o1.2.1)] := by
    simp [termSF, modeSF, h]
  rw [e1, e2]
  generalize (modeSF ρ m o1).1 = m1
  generalize (modeSF ρ m o2).1 = m2
  by_cases hm : m1 = m2
  · subst hm
    rw [term_square, evalRes_none]; simp
  · rw [term_swap P' Q' o1.2.1 o1.2.1 m1 m2 a b hm, evalRes_negRes]

def sgnI (p : Bool) : Int := if p then -1 else 1

theorem sweepCarry_sound (ρ : Nat → Nat) (f : Nat → Nat → Int) (a b m : Nat) (d : Bool) :
    ∀ (t : List (Nat × Bool × Nat)) (c : Nat × Bool × Nat) (P Q : List (Nat × Bool × Nat)),
      c.2.1 = d → (∀ o ∈ t, o.2.1 = d) →
      (opsVal ρ f a b (P ++ (c :: t) ++ Q) m = sgnI (sweepCarry c t).2 * opsVal ρ f a b (P ++ (sweepCarry c t).1 ++ Q) m) ∧
      (∀ o ∈ (sweepCarry c t).1, o.2.1 = d) ∧ (sweepCarry c t).1.length = t.length + 1 := by
  intro t
  induction t with
  | nil =>
    intro c P Q hc _
    simp [sweepCarry, sgnI, hc]
  | cons b0 t ih =>
    intro c P Q hc ht
    have hb : b0.2.1 = d := ht b0 (by simp)
    have ht' : ∀ o ∈ t, o.2.1 = d := fun o ho => ht o (by simp [ho])
    rw [sweepCarry]
    by_cases hgt : c.2.2 > b0.2.2
    · simp only [hgt, if_true]
      obtain ⟨e, fl, ln⟩ := ih c (P ++ [b0]) Q hc ht'
      refine ⟨?_, ?_, ?_⟩
      · have : P ++ c :: b0 :: t ++ Q = P ++ [c, b0] ++ (t ++ Q) := by simp
        rw [this, opsVal_swap_same ρ f a b m P (t ++ Q) c b0 (by rw [hc, hb])]
        have : P ++ [b0, c] ++ (t ++ Q) = (P ++ [b0]) ++ (c :: t) ++ Q := by simp
        rw [this, e]
        have : P ++ b0 :: (sweepCarry c t).1 ++ Q = (P ++ [b0]) ++ (sweepCarry c t).1 ++ Q := by simp
        rw [this]
        unfold sgnI
        cases (sweepCarry c t).2 <;> simp
      · intro o ho
        simp only [List.mem_cons] at ho
        rcases ho with rfl | ho
        · exact hb
        · exact fl o ho
      · simp [ln]
    · simp only [hgt, if_false]
      obtain ⟨e, fl, ln⟩ := ih b0 (P ++ [c]) Q hb ht'
      refine ⟨?_, ?_, ?_⟩
      · have : P ++ c :: b0 :: t ++ Q = (P ++ [c]) ++ (b0 :: t) ++ Q := by simp
        rw [this, e]
        have : P ++ c :: (sweepCarry b0 t).1 ++ Q = (P ++ [c]) ++ (sweepCarry b0 t).1 ++ Q := by simp
        rw [this]
      · intro o ho
        simp only [List.mem_cons] at ho
        rcases ho with rfl | ho
        · exact hc
        · exact fl o ho
      · simp [ln]

theorem sweep_sound (ρ : Nat → Nat) (f : Nat → Nat → Int) (a b m : Nat) (d : Bool)
    (l P Q : List (Nat × Bool × Nat)) (hl : ∀ o ∈ l, o.2.1 = d) :
    (opsVal ρ f a b (P ++ l ++ Q) m = sgnI (sweep l).2 * opsVal ρ f a b (P ++ (sweep l).1 ++ Q) m) ∧
    (∀ o ∈ (sweep l).1, o.2.1 = d) ∧ (sweep l).1.length = l.length := by
  cases l with
  | nil => simp [sweep, sgnI]
  | cons c t =>
    rw [sweep]
    obtain ⟨e, fl, ln⟩ := sweepCarry_sound ρ f a b m d t c P Q (hl c (by simp)) (fun o ho => hl o (by simp [ho]))
    exact ⟨e, fl, by simp [ln]⟩

theorem sgnI_xor (p q : Bool) : sgnI (p ^^ q) = sgnI p * sgnI q := by
  cases p <;> cases q <;> simp [sgnI]

theorem sweeps_sound (ρ : Nat → Nat) (f : Nat → Nat → Int) (a b m : Nat) (d : Bool) (P Q : List (Nat × Bool × Nat)) :
    ∀ (k : Nat) (l : List (Nat × Bool × Nat)), (∀ o ∈ l, o.2.1 = d) →
    (opsVal ρ f a b (P ++ l ++ Q) m = sgnI (sweeps k l).2 * opsVal ρ f a b (P ++ (sweeps k l).1 ++ Q) m) ∧
    (∀ o ∈ (sweeps k l).1, o.2.1 = d) ∧ (sweeps k l).1.length = l.length := by
  intro k
  induction k with
  | zero =>
    intro l hl
    refine ⟨?_, hl, rfl⟩
    simp [sweeps, sgnI]
  | succ k ih =>
    intro l hl
    obtain ⟨e1, f1, l1⟩ := sweep_sound ρ f a b m d l P Q hl
    obtain ⟨e2, f2, l2⟩ := ih (sweep l).1 f1
    rw [sweeps]
    refine ⟨?_, f2, by rw [l2, l1]⟩
    simp only []
    rw [e1, e2, sgnI_xor]
    ring

theorem sgnI_sq (p : Bool) : sgnI p * sgnI p = 1 := by cases p <;> simp [sgnI]

/-- the closing spin sort preserves the contribution of an entry whose first half consists of operators of one kind
    and whose second half of operators of one kind (the shape of a normal-ordered number-conserving entry: creators,
    then annihilators) -/
theorem finishSF_sound (ρ : Nat → Nat) (f : Nat → Nat → Int) (a b R : Nat) (it : WItemSF) (d1 d2 : Bool)
    (h1 : ∀ o ∈ it.ops.take (it.ops.length / 2), o.2.1 = d1)
    (h2 : ∀ o ∈ it.ops.drop (it.ops.length / 2), o.2.1 = d2) :
    evalItemSF ρ f a b R (finishSF it) = evalItemSF ρ f a b R it := by
  unfold evalItemSF finishSF
  simp only []
  generalize hn : it.ops.length / 2 = n at h1 h2
  have key : ∀ m, opsVal ρ f a b it.ops m =
      sgnI (sweeps n (it.ops.take n)).2 * sgnI (sweeps n (it.ops.drop n)).2 *
        opsVal ρ f a b ((sweeps n (it.ops.take n)).1 ++ (sweeps n (it.ops.drop n)).1) m := by
    intro m
    obtain ⟨e1, _, _⟩ := sweeps_sound ρ f a b m d1 [] (it.ops.drop n) n (it.ops.take n) h1
    obtain ⟨e2, _, _⟩ := sweeps_sound ρ f a b m d2 (sweeps n (it.ops.take n)).1 [] n (it.ops.drop n) h2
    have e0 : it.ops = [] ++ it.ops.take n ++ it.ops.drop n := by simp
    rw [e0, e1]
    simp only [List.nil_append, List.append_nil] at e2 ⊢
    rw [List.take_append_drop] 
    rw [e2]
    ring
  by_cases hd : deltasOk ρ it.deltas = true
  · simp only [hd, if_true]
    have hs : spinSum R (opsVal ρ f a b it.ops) =
        sgnI (sweeps n (it.ops.take n)).2 * sgnI (sweeps n (it.ops.drop n)).2 *
          spinSum R (opsVal ρ f a b ((sweeps n (it.ops.take n)).1 ++ (sweeps n (it.ops.drop n)).1)) := by
      unfold spinSum
      rw [Finset.mul_sum]
      exact Finset.sum_congr rfl (fun m _ => key m)
    rw [hs]
    have gen : ∀ (x p q : Bool) (S K : Int), (if (x ^^ p ^^ q) = true then -1 else 1) * K * S =
        (if x = true then -1 else 1) * K * (sgnI p * sgnI q * S) := by
      intro x p q S K
      cases x <;> cases p <;> cases q <;> simp [sgnI]
    exact gen _ _ _ _ _
  · have hd' : deltasOk ρ it.deltas = false := by simpa using hd
    simp [hd']

/-! ### the loop of the spin-free driver ends on normal-ordered, balanced entries -/

/-- forget the slots -/
def fg (ops : List (Nat × Bool × Nat)) : List (Nat × Bool) := ops.map (fun o => (o.1, o.2.1))

theorem fg_append (l1 l2 : List (Nat × Bool × Nat)) : fg (l1 ++ l2) = fg l1 ++ fg l2 := by
  unfold fg; rw [List.map_append]

theorem fg_relabel (l : List (Nat × Bool × Nat)) (sx sy : Nat) :
    fg (l.map (fun o => if o.2.2 = sy then (o.1, o.2.1, sx) else o)) = fg l := by
  unfold fg
  rw [List.map_map]
  apply List.map_congr_left
  intro o _
  simp only [Function.comp]
  split <;> rfl

theorem splitPairSF_none : ∀ (ops : List (Nat × Bool × Nat)), splitPairSF ops = none → splitPair (fg ops) = none := by
  intro ops
  induction ops with
  | nil => intro _; rfl
  | cons o rest ih =>
    intro h
    cases rest with
    | nil => rfl
    | cons o2 post =>
      rw [splitPairSF] at h
      by_cases hc : o.2.1 = false ∧ o2.2.1 = true
      · simp [hc] at h
      · simp only [hc, if_false, Option.map_eq_none_iff] at h
        have := ih h
        simp only [fg, List.map_cons] at this ⊢
        rw [splitPair]
        simp only [hc, if_false, this, Option.map_none]

theorem fg_split (pre post : List (Nat × Bool × Nat)) (x y : Nat × Bool × Nat) (hx : x.2.1 = false) (hy : y.2.1 = true) :
    fg (pre ++ [x, y] ++ post) = fg pre ++ [(x.1, false), (y.1, true)] ++ fg post ∧
    fg (pre ++ [y, x] ++ post) = fg pre ++ [(y.1, true), (x.1, false)] ++ fg post := by
  simp [fg_append, fg, hx, hy]

/-- measure and balance through one step -/
theorem wstepSF_inv (it : WItemSF) (k : Nat) (h : inv (fg it.ops) ≤ k + 1) (hb : nDag (fg it.ops) = nUndag (fg it.ops)) :
    ∀ c ∈ wstepSF it, inv (fg c.ops) ≤ k ∧ nDag (fg c.ops) = nUndag (fg c.ops) := by
  intro c hc
  unfold wstepSF at hc
  cases hs : splitPairSF it.ops with
  | none =>
    rw [hs] at hc
    simp at hc
    subst hc
    have := inv_zero_of_normal _ (splitPair_none_normal _ (splitPairSF_none _ hs))
    exact ⟨by omega, hb⟩
  | some r =>
    obtain ⟨pre, x, y, post⟩ := r
    rw [hs] at hc
    obtain ⟨hops, hx, hy⟩ := splitPairSF_spec it.ops pre x y post hs
    obtain ⟨f1, f2⟩ := fg_split pre post x y hx hy
    rw [hops, f1] at h hb
    have hbal : nDag (fg pre ++ fg post) = nUndag (fg pre ++ fg post) := by
      simp only [List.append_assoc, nDag_append, nUndag_append] at hb ⊢
      simp [nDag, nUndag] at hb ⊢
      omega
    simp only [List.mem_cons, List.mem_nil_iff, or_false] at hc
    rcases hc with rfl | rfl
    · simp only
      rw [f2]
      have := inv_swap (fg pre) (fg post) x.1 y.1
      refine ⟨by omega, ?_⟩
      simp only [List.append_assoc, nDag_append, nUndag_append] at hb ⊢
      simp [nDag, nUndag] at hb ⊢
      omega
    · have := inv_remove (fg pre) (fg post) x.1 y.1
      by_cases hsl : y.2.2 = x.2.2
      · simp only [hsl, if_true]
        rw [fg_append]
        exact ⟨by omega, hbal⟩
      · simp only [hsl, if_false]
        rw [fg_relabel, fg_append]
        exact ⟨by omega, hbal⟩

theorem passSF_done (l : List WItemSF) (h : (l.any fun it => (splitPairSF it.ops).isSome) = false) :
    l.flatMap wstepSF = l := by
  induction l with
  | nil => rfl
  | cons it rest ih =>
    simp only [List.any_cons, Bool.or_eq_false_iff] at h
    rw [List.flatMap_cons, ih h.2]
    have : splitPairSF it.ops = none := by
      cases hs : splitPairSF it.ops with
      | none => rfl
      | some r => rw [hs] at h; simp at h
    unfold wstepSF
    rw [this]
    rfl

theorem wnormalizeSF_normal : ∀ (fuel : Nat) (l : List WItemSF),
    (∀ it ∈ l, inv (fg it.ops) ≤ fuel ∧ nDag (fg it.ops) = nUndag (fg it.ops)) →
    ∀ c ∈ wnormalizeSF fuel l, isNormal (fg c.ops) = true ∧ nDag (fg c.ops) = nUndag (fg c.ops) := by
  intro fuel
  induction fuel with
  | zero =>
    intro l h c hc
    rw [wnormalizeSF] at hc
    exact ⟨normal_of_inv_zero _ (by have := (h c hc).1; omega), (h c hc).2⟩
  | succ n ih =>
    intro l h c hc
    rw [wnormalizeSF] at hc
    have hstep : ∀ c ∈ l.flatMap wstepSF, inv (fg c.ops) ≤ n ∧ nDag (fg c.ops) = nUndag (fg c.ops) := by
      intro c hc
      rw [List.mem_flatMap] at hc
      obtain ⟨it, hit, hmem⟩ := hc
      exact wstepSF_inv it n (h it hit).1 (h it hit).2 c hmem
    by_cases hp : (l.any fun it => (splitPairSF it.ops).isSome) = true
    · simp only [hp, if_true] at hc
      exact ih _ hstep c hc
    · simp only [hp, Bool.false_eq_true, if_false] at hc
      have hp' : (l.any fun it => (splitPairSF it.ops).isSome) = false := by simpa using hp
      rw [passSF_done l hp'] at hc
      have hnone : splitPairSF c.ops = none := by
        cases hs : splitPairSF c.ops with
        | none => rfl
        | some r =>
          have : (l.any fun it => (splitPairSF it.ops).isSome) = true := by
            rw [List.any_eq_true]; exact ⟨c, hc, by rw [hs]; rfl⟩
          rw [this] at hp'; cases hp'
      exact ⟨splitPair_none_normal _ (splitPairSF_none _ hnone), (h c hc).2⟩

/-- a normal-ordered list is its creators followed by its annihilators -/
theorem normal_take_drop : ∀ (l : List (Nat × Bool)), isNormal l = true →
    (∀ o ∈ l.take (nDag l), o.2 = true) ∧ (∀ o ∈ l.drop (nDag l), o.2 = false) := by
  intro l
  induction l with
  | nil => intro _; simp
  | cons o rest ih =>
    obtain ⟨x, d⟩ := o
    cases d with
    | true =>
      intro h
      rw [isNormal] at h
      obtain ⟨i1, i2⟩ := ih h
      have e : nDag ((x, true) :: rest) = nDag rest + 1 := by simp [nDag]
      rw [e]
      refine ⟨?_, ?_⟩
      · intro o ho
        simp only [List.take_succ_cons, List.mem_cons] at ho
        rcases ho with rfl | ho
        · rfl
        · exact i1 o ho
      · intro o ho
        simp only [List.drop_succ_cons] at ho
        exact i2 o ho
    | false =>
      intro h
      rw [isNormal] at h
      have hall : ∀ o ∈ rest, o.2 = false := by
        intro o ho
        have := List.all_eq_true.1 h o ho
        simpa using this
      have e : nDag ((x, false) :: rest) = 0 := by
        simp only [nDag, List.filter_cons, Bool.false_eq_true, if_false]
        rw [List.length_eq_zero_iff, List.filter_eq_nil_iff]
        intro o ho
        simp [hall o ho]
      rw [e]
      refine ⟨by simp, ?_⟩
      intro o ho
      simp only [List.drop_zero, List.mem_cons] at ho
      rcases ho with rfl | ho
      · rfl
      · exact hall o ho

theorem nDag_add_nUndag (l : List (Nat × Bool)) : nDag l + nUndag l = l.length := by
  induction l with
  | nil => rfl
  | cons o rest ih =>
    obtain ⟨x, d⟩ := o
    cases d <;> simp [nDag, nUndag] at ih ⊢ <;> omega

/-- a normal-ordered balanced spin-free entry: first half creators, second half annihilators -/
theorem normal_balanced_halves (ops : List (Nat × Bool × Nat)) (hn : isNormal (fg ops) = true)
    (hb : nDag (fg ops) = nUndag (fg ops)) :
    (∀ o ∈ ops.take (ops.length / 2), o.2.1 = true) ∧ (∀ o ∈ ops.drop (ops.length / 2), o.2.1 = false) := by
  have hlen : (fg ops).length = ops.length := by simp [fg]
  have hk : nDag (fg ops) = ops.length / 2 := by
    have := nDag_add_nUndag (fg ops)
    omega
  obtain ⟨h1, h2⟩ := normal_take_drop (fg ops) hn
  rw [hk] at h1 h2
  refine ⟨?_, ?_⟩
  · intro o ho
    have : (o.1, o.2.1) ∈ (fg ops).take (ops.length / 2) := by
      unfold fg; rw [← List.map_take]; exact List.mem_map_of_mem ho
    exact h1 _ this
  · intro o ho
    have : (o.1, o.2.1) ∈ (fg ops).drop (ops.length / 2) := by
      unfold fg; rw [← List.map_drop]; exact List.mem_map_of_mem ho
    exact h2 _ this

theorem fg_initSF (pattern : List (Nat × Bool)) : fg (initSF pattern).ops = pattern := by
  unfold fg initSF
  simp only [List.map_map]
  have : ((fun (o : Nat × Bool × Nat) => (o.1, o.2.1)) ∘ fun (x : (Nat × Bool) × Nat) =>
      (x.1.1, x.1.2, if pattern.length / 2 = 0 then 0 else x.2 % (pattern.length / 2))) = Prod.fst := by
    funext x; rfl
  rw [this]
  exact List.zipIdx_map_fst 0 pattern

theorem wf_initSF (pattern : List (Nat × Bool)) (R : Nat) (hR : 0 < R) (hlen : pattern.length = 2 * R) :
    wfSF R (initSF pattern) := by
  have hr : pattern.length / 2 = R := by omega
  refine ⟨?_, ?_⟩
  · simp [initSF, hlen]
  · intro o ho
    simp only [initSF, List.mem_map] at ho
    obtain ⟨⟨o', i⟩, _, rfl⟩ := ho
    simp only [hr]
    have : ¬ R = 0 := by omega
    simp only [this, if_false]
    exact Nat.mod_lt _ hR

/-- **soundness of the spin-free Wick driver.**  For every number-conserving pattern of `2R` operators (slot =
    position mod `R`), every assignment `ρ` of orbitals to the labels, every bra functional `f` and every determinant
    `(a, b)`: the work list the driver ends with — after the rewriting loop and the closing spin sort — carries the
    spin-summed matrix element of the pattern,
        Σ_entries ± 2^twos · [deltas] · 2^(R − #deltas) · Σ_spins ⟨f| remaining operators |a,b⟩
            =  2^R · Σ_spins ⟨f| pattern |a,b⟩,
    the sums running over the spins of all `R` slots (a slot whose operators have been contracted away contributes
    the factor 2 that `2^(R − #deltas)` removes, so each entry is `2^R` times `± 2^twos · δ…δ ·` the spin-free
    lower-rank element over its live slots — the quantity `wickfill` takes from the lower-rank RDM). -/
theorem wickNormalFormSF_sound (ρ : Nat → Nat) (f : Nat → Nat → Int) (a b R : Nat) (pattern : List (Nat × Bool))
    (hR : 0 < R) (hlen : pattern.length = 2 * R) (hbal : nDag pattern = nUndag pattern) :
    evalListSF ρ f a b R (wickNormalFormSF pattern) =
      2 ^ R * spinSum R (opsVal ρ f a b (initSF pattern).ops) := by
  unfold wickNormalFormSF
  have hwf : ∀ it ∈ [initSF pattern], wfSF R it := by
    intro it hit; simp at hit; subst hit; exact wf_initSF pattern R hR hlen
  obtain ⟨e, _⟩ := wnormalizeSF_sound ρ f a b R (pattern.length * pattern.length + 1) [initSF pattern] hwf
  have hn := wnormalizeSF_normal (pattern.length * pattern.length + 1) [initSF pattern] (by
    intro it hit; simp at hit; subst hit
    rw [fg_initSF]
    exact ⟨by have := inv_le_sq pattern; omega, hbal⟩)
  have hfin : evalListSF ρ f a b R ((wnormalizeSF (pattern.length * pattern.length + 1) [initSF pattern]).map finishSF) =
      evalListSF ρ f a b R (wnormalizeSF (pattern.length * pattern.length + 1) [initSF pattern]) := by
    unfold evalListSF
    rw [List.map_map]
    congr 1
    apply List.map_congr_left
    intro c hc
    obtain ⟨n1, n2⟩ := hn c hc
    obtain ⟨h1, h2⟩ := normal_balanced_halves c.ops n1 n2
    exact finishSF_sound ρ f a b R c true false h1 h2
  rw [hfin, e]
  simp [evalListSF, evalItemSF, deltasOk, initSF]

end Model
