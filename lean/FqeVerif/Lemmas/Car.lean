/-
  Lemmas/Car.lean — the canonical anticommutation relations for the Spec ladder operators
  `specLadder` on determinants (pairs of masks), i.e. Spec is a representation of the CAR.
-/
import FqeVerif.Spec.Fock
namespace Fock

/-- composite of two Spec ladder steps (`m2` acts first) -/
def specLadder2 (d1 : Bool) (m1 : Nat) (d2 : Bool) (m2 : Nat) (a b : Nat) : Option (Bool × Nat × Nat) :=
  match specLadder d2 m2 a b with
  | none => none
  | some (s, a', b') => match specLadder d1 m1 a' b' with
    | none => none
    | some (s', a'', b'') => some (s ^^ s', a'', b'')

theorem lt_flip_bool (p q : Nat) (h : p ≠ q) : decide (q < p) = !decide (p < q) := by
  by_cases h1 : p < q
  · have : ¬ q < p := by omega
    simp [h1, this]
  · have : q < p := by omega
    simp [h1, this]

/-- CAR for distinct modes: any two ladder operators anticommute on every determinant -/
theorem spec_car_offdiag (d1 d2 : Bool) (m1 m2 a b : Nat) (h : m1 ≠ m2) :
    (specLadder2 d1 m1 d2 m2 a b).map (fun x => (!x.1, x.2)) = specLadder2 d2 m2 d1 m1 a b := by
  unfold specLadder2 specLadder parModes
  by_cases e1 : m1 % 2 = 0 <;> by_cases e2 : m2 % 2 = 0
  · -- both alpha
    have hne : m1 / 2 ≠ m2 / 2 := by omega
    have k1 : (m1 + 1) / 2 = m1 / 2 := by omega
    have k2 : (m2 + 1) / 2 = m2 / 2 := by omega
    have hpq : decide (m2 / 2 = m1 / 2) = false := by simp; omega
    have hqp : decide (m1 / 2 = m2 / 2) = false := by simp; omega
    simp only [e1, e2, if_true, k1, k2]
    by_cases x : a.testBit (m2 / 2) = d2 <;> by_cases y : a.testBit (m1 / 2) = d1 <;>
      simp [x, y, testBit_flip, par_flip, hpq, hqp, flip_comm a (m1 / 2) (m2 / 2)]
    · rw [lt_flip_bool (m1 / 2) (m2 / 2) hne]
      generalize par a (m2 / 2) = u; generalize par a (m1 / 2) = v; generalize par b (m2 / 2) = w
      generalize par b (m1 / 2) = z; generalize decide (m1 / 2 < m2 / 2) = t
      cases u <;> cases v <;> cases w <;> cases z <;> cases t <;> rfl
  · -- m1 alpha, m2 beta
    have k1 : (m1 + 1) / 2 = m1 / 2 := by omega
    have k2 : (m2 + 1) / 2 = m2 / 2 + 1 := by omega
    simp only [e1, e2, if_true, if_false, k1, k2]
    by_cases x : b.testBit (m2 / 2) = d2 <;> by_cases y : a.testBit (m1 / 2) = d1 <;>
      simp [x, y, testBit_flip, par_flip]
    · have hd : decide (m1 / 2 < m2 / 2 + 1) = !decide (m2 / 2 < m1 / 2) := by
        by_cases h1 : m2 / 2 < m1 / 2
        · have : ¬ m1 / 2 < m2 / 2 + 1 := by omega
          simp [h1, this]
        · have : m1 / 2 < m2 / 2 + 1 := by omega
          simp [h1, this]
      rw [hd]
      generalize par a (m2 / 2 + 1) = u; generalize par a (m1 / 2) = v; generalize par b (m2 / 2) = w
      generalize par b (m1 / 2) = z; generalize decide (m2 / 2 < m1 / 2) = t
      cases u <;> cases v <;> cases w <;> cases z <;> cases t <;> rfl
  · -- m1 beta, m2 alpha
    have k1 : (m1 + 1) / 2 = m1 / 2 + 1 := by omega
    have k2 : (m2 + 1) / 2 = m2 / 2 := by omega
    simp only [e1, e2, if_true, if_false, k1, k2]
    by_cases x : a.testBit (m2 / 2) = d2 <;> by_cases y : b.testBit (m1 / 2) = d1 <;>
      simp [x, y, testBit_flip, par_flip]
    · have hd : decide (m2 / 2 < m1 / 2 + 1) = !decide (m1 / 2 < m2 / 2) := by
        by_cases h1 : m1 / 2 < m2 / 2
        · have : ¬ m2 / 2 < m1 / 2 + 1 := by omega
          simp [h1, this]
        · have : m2 / 2 < m1 / 2 + 1 := by omega
          simp [h1, this]
      rw [hd]
      generalize par a (m1 / 2 + 1) = u; generalize par a (m2 / 2) = v; generalize par b (m1 / 2) = w
      generalize par b (m2 / 2) = z; generalize decide (m1 / 2 < m2 / 2) = t
      cases u <;> cases v <;> cases w <;> cases z <;> cases t <;> rfl
  · -- both beta
    have hne : m1 / 2 ≠ m2 / 2 := by omega
    have k1 : (m1 + 1) / 2 = m1 / 2 + 1 := by omega
    have k2 : (m2 + 1) / 2 = m2 / 2 + 1 := by omega
    have hpq : decide (m2 / 2 = m1 / 2) = false := by simp; omega
    have hqp : decide (m1 / 2 = m2 / 2) = false := by simp; omega
    simp only [e1, e2, if_false, k1, k2]
    by_cases x : b.testBit (m2 / 2) = d2 <;> by_cases y : b.testBit (m1 / 2) = d1 <;>
      simp [x, y, testBit_flip, par_flip, hpq, hqp, flip_comm b (m1 / 2) (m2 / 2)]
    · rw [lt_flip_bool (m1 / 2) (m2 / 2) hne]
      generalize par a (m2 / 2 + 1) = u; generalize par a (m1 / 2 + 1) = v; generalize par b (m2 / 2) = w
      generalize par b (m1 / 2) = z; generalize decide (m1 / 2 < m2 / 2) = t
      cases u <;> cases v <;> cases w <;> cases z <;> cases t <;> rfl

/-- CAR, same mode: `a_m a_m† + a_m† a_m = 1` on every determinant -/
theorem spec_car_diag (m a b : Nat) :
    (specLadder2 false m true m a b = some (false, a, b) ∧ specLadder2 true m false m a b = none) ∨
    (specLadder2 false m true m a b = none ∧ specLadder2 true m false m a b = some (false, a, b)) := by
  unfold specLadder2 specLadder parModes
  by_cases e : m % 2 = 0
  · have k : (m + 1) / 2 = m / 2 := by omega
    simp only [e, if_true, k]
    cases x : a.testBit (m / 2) <;> simp [x, testBit_flip, par_flip, flip_flip]
  · have k : (m + 1) / 2 = m / 2 + 1 := by omega
    simp only [e, if_false, k]
    cases x : b.testBit (m / 2) <;> simp [x, testBit_flip, par_flip, flip_flip]

/-- `a_m a_m = 0 = a_m† a_m†` -/
theorem spec_car_square (d : Bool) (m a b : Nat) : specLadder2 d m d m a b = none := by
  unfold specLadder2 specLadder
  by_cases e : m % 2 = 0
  · simp only [e, if_true]
    cases x : a.testBit (m / 2) <;> cases d <;> simp [x, testBit_flip]
  · simp only [e, if_false]
    cases x : b.testBit (m / 2) <;> cases d <;> simp [x, testBit_flip]

end Fock
