/-
  Lemmas/PyPrelude.lean — the meaning the translator `harness/translate/pyint.py` gives to Python's integer
  operators.  `int` is `Int`; the bitwise operators are Mathlib's two's-complement operations on `Int`, which is what
  Python's unbounded ints implement.
-/
import Mathlib.Data.Int.Bitwise
import FqeVerif.Model.Bits
import FqeVerif.Model.Strings
namespace PyPrelude

/-- `a & b` -/
def pyAnd (a b : Int) : Int := Int.land a b
/-- `a | b` -/
def pyOr (a b : Int) : Int := Int.lor a b
/-- `a ^ b` -/
def pyXor (a b : Int) : Int := Int.xor a b
/-- `~a` -/
def pyNot (a : Int) : Int := Int.lnot a
/-- `a << b` (Python raises for `b < 0`; every translated caller passes a position) -/
def pyShl (a b : Int) : Int := a <<< b
/-- `a >> b` -/
def pyShr (a b : Int) : Int := a >>> b
/-- `a // b` -/
def pyFloorDiv (a b : Int) : Int := Int.fdiv a b
/-- `a % b` -/
def pyMod (a b : Int) : Int := Int.fmod a b
/-- `abs(a)` -/
def pyAbs (a : Int) : Int := (a.natAbs : Int)
def pyMin (a b : Int) : Int := if a ≤ b then a else b
def pyMax (a b : Int) : Int := if a ≥ b then a else b
/-- `bin(x).count('1')`: the set bits of `|x|` (`bin(-5) = '-0b101'`) -/
def pyBinCountOnes (a : Int) : Int := (Model.countBits a.natAbs : Nat)
/-- `range(a, b)` as a list -/
def pyRange (a b : Int) : List Int := (List.range (b - a).toNat).map (fun (k : Nat) => a + (k : Int))
/-- `sum(f(m) for m in l)` -/
def pySum (l : List Int) (f : Int → Int) : Int := l.foldl (fun acc m => acc + f m) 0
/-- `math.comb(n, k)` on non-negative integers (exact; Python raises for negative arguments — the translated caller
    passes none, see `py_z_matrix`) -/
def pyBinom (n k : Int) : Int := (Model.binom n.toNat k.toNat : Nat)

end PyPrelude
