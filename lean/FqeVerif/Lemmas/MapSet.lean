/-
  Lemmas/MapSet.lean — the k-fold annihilation maps between sectors (`make_mapping_each_set`,
  Model.mapSetEntry): target and parity count of one entry are those of the descending ladder
  product `a_{o_0} a_{o_1} … a_{o_{n-1}}` (highest orbital first) on the source string.
-/
import FqeVerif.Lemmas.MapEach
import FqeVerif.Lemmas.Address
import Mathlib.Tactic.Ring
namespace Model
open Fock

/-! ### counting lemmas -/

/-- removing an occupied bit `q` lowers a count by one exactly when `q` is counted -/
theorem cntIf_unsetBit (s q : Nat) (p : Nat → Bool) (n : Nat) :
    cntIf (unsetBit s q) p n + (if q < n ∧ p q = true ∧ s.testBit q = true then 1 else 0) = cntIf s p n := by
  induction n with
  | zero => simp [cntIf]
  | succ n ih =>
    rw [cntIf, cntIf, testBit_unsetBit]
    by_cases hq : q = n
    · subst hq
      have h0 : ¬ (q < q) := by omega
      simp only [h0, false_and, if_false, Nat.add_zero] at ih
      rw [ih]
      by_cases a : p q = true <;> by_cases b : s.testBit q = true <;> simp [a, b]
    · have h1 : decide (q = n) = false := by simp [hq]
      by_cases hlt : q < n
      · have h2 : q < n + 1 := by omega
        simp only [hlt, true_and] at ih
        simp only [h2, true_and, h1, Bool.not_false, Bool.and_true]
        omega
      · have h2 : ¬ q < n + 1 := by omega
        simp only [hlt, false_and, if_false, Nat.add_zero] at ih
        simp only [h2, false_and, if_false, Nat.add_zero, h1, Bool.not_false, Bool.and_true]
        omega

/-- the set bits above `o0` = those strictly between `o0` and `o1`, bit `o1`, and those above `o1` -/
theorem cntIf_above_split (s o0 o1 n : Nat) (h : o0 < o1) :
    cntIf s (fun r => decide (o0 < r)) n =
      cntIf s (fun r => decide (o0 < r) && decide (r < o1)) n + (if o1 < n ∧ s.testBit o1 = true then 1 else 0) +
        cntIf s (fun r => decide (o1 < r)) n := by
  induction n with
  | zero => simp [cntIf]
  | succ n ih =>
    rw [cntIf, cntIf, cntIf, ih]
    generalize cntIf s (fun r => decide (o0 < r) && decide (r < o1)) n = X
    generalize cntIf s (fun r => decide (o1 < r)) n = Y
    by_cases t : s.testBit n = true
    · by_cases a : o1 < n
      · have a' : o1 < n + 1 := by omega
        have b1 : o0 < n := by omega
        have b3 : ¬ n < o1 := by omega
        simp only [a, a', true_and, b1, decide_true, Bool.and_true, b3, decide_false, Bool.and_false, t]
        simp only [Bool.false_eq_true, if_false, if_true]
        omega
      · by_cases e : o1 = n
        · subst e
          have a' : o1 < o1 + 1 := by omega
          simp only [a, false_and, if_false, a', true_and, h, decide_true, Bool.and_true, decide_false,
            Bool.and_false, t, if_true, Bool.false_eq_true]
          omega
        · have a' : ¬ o1 < n + 1 := by omega
          have b3 : n < o1 := by omega
          simp only [a, false_and, if_false, a', decide_false, Bool.and_false, Nat.add_zero, b3, decide_true,
            Bool.and_true, t, Bool.true_and, Bool.false_eq_true]
          by_cases b1 : o0 < n
          · simp only [b1, decide_true, if_true]; omega
          · simp only [b1, decide_false, Bool.false_eq_true, if_false]; omega
    · have t' : s.testBit n = false := by simpa using t
      by_cases a : o1 < n
      · have a' : o1 < n + 1 := by omega
        simp only [a, a', true_and, t', Bool.false_and, Bool.false_eq_true, if_false, Nat.add_zero]
      · by_cases e : o1 = n
        · subst e
          simp only [t', Bool.false_and, Bool.false_eq_true, if_false, and_false, Nat.add_zero]
        · have a' : ¬ o1 < n + 1 := by omega
          simp only [a, a', false_and, t', Bool.false_and, Bool.false_eq_true, if_false, Nat.add_zero]

/-! ### the count functions of the library on strings below `2^N` -/

theorem unsetBit_lt (s q N : Nat) (h : s < 2 ^ N) : unsetBit s q < 2 ^ N := andNot_lt_two_pow _ _ _ h

/-- orbitals above `o0`: those strictly between `o0` and `o1`, orbital `o1` itself, those above `o1` -/
theorem above_split (s o0 o1 N : Nat) (hs : s < 2 ^ N) (h : o0 < o1) (hN : o1 < N) (ho : s.testBit o1 = true) :
    countBitsAbove s o0 = countBitsBetween s o0 o1 + 1 + countBitsAbove s o1 := by
  rw [countBitsAbove_eq s o0 N hs, countBitsAbove_eq s o1 N hs, countBitsBetween_eq s o0 o1 N hs (by omega),
    cntIf_above_split s o0 o1 N h]
  have e : cntIf s (fun r => decide (min o0 o1 < r ∧ r < max o0 o1)) N =
      cntIf s (fun r => decide (o0 < r) && decide (r < o1)) N := by
    apply cntIf_congr
    intro r _
    have e1 : min o0 o1 = o0 := by omega
    have e2 : max o0 o1 = o1 := by omega
    rw [e1, e2]
    by_cases a : o0 < r <;> by_cases b : r < o1 <;> simp [a, b]
  rw [e]
  simp [hN, ho]

/-- removing an occupied orbital `q` above `o` lowers "occupied above `o`" by one -/
theorem above_unset (s q o N : Nat) (hs : s < 2 ^ N) (hq : q < N) (hoq : o < q) (hb : s.testBit q = true) :
    countBitsAbove (unsetBit s q) o + 1 = countBitsAbove s o := by
  rw [countBitsAbove_eq _ o N (unsetBit_lt s q N hs), countBitsAbove_eq s o N hs]
  have := cntIf_unsetBit s q (fun r => decide (o < r)) N
  simp only [hq, hoq, decide_true, hb, and_self, if_true] at this
  exact this

/-! ### closed form of the model's loop -/

/-- `Σ_{m<k} w m` -/
def rsum : Nat → (Nat → Nat) → Nat
  | 0, _ => 0
  | k+1, w => rsum k w + w k

theorem rsum_congr (k : Nat) (w w' : Nat → Nat) (h : ∀ m, m < k → w m = w' m) : rsum k w = rsum k w' := by
  induction k with
  | zero => rfl
  | succ k ih =>
    rw [rsum, rsum, ih (fun m hm => h m (by omega)), h k (by omega)]

/-- `Σ_{m≤k} (m+1)·g m = Σ_{m≤k} g m + Σ_{m<k} (m+1)·g (m+1)` -/
theorem rsum_weight_shift (g : Nat → Nat) : ∀ k,
    rsum (k + 1) (fun m => (m + 1) * g m) = rsum (k + 1) g + rsum k (fun m => (m + 1) * g (m + 1)) := by
  intro k
  induction k with
  | zero => simp [rsum]
  | succ k ih =>
    have e1 : rsum (k + 1 + 1) (fun m => (m + 1) * g m) =
        rsum (k + 1) (fun m => (m + 1) * g m) + (k + 1 + 1) * g (k + 1) := rfl
    have e2 : rsum (k + 1 + 1) g = rsum (k + 1) g + g (k + 1) := rfl
    have e3 : rsum (k + 1) (fun m => (m + 1) * g (m + 1)) =
        rsum k (fun m => (m + 1) * g (m + 1)) + (k + 1) * g (k + 1) := rfl
    have e4 : (k + 1 + 1) * g (k + 1) = (k + 1) * g (k + 1) + g (k + 1) := Nat.succ_mul _ _
    rw [e1, ih, e2, e3, e4]
    omega

theorem rsum_shift (g : Nat → Nat) : ∀ k, rsum (k + 1) g = g 0 + rsum k (fun m => g (m + 1)) := by
  intro k
  induction k with
  | zero => simp [rsum]
  | succ k ih => rw [rsum, ih, rsum]; omega

/-- string after removing the orbitals of the list, highest (last) first -/
def removeDesc : List Nat → Nat → Nat
  | [], s => s
  | o :: rest, s => unsetBit (removeDesc rest s) o

/-- the unsets performed by `k` loop passes (`iop = k-1 … 0`) -/
def remK (ops : List Nat) : Nat → Nat → Nat
  | 0, t => t
  | k+1, t => remK ops k (unsetBit t (ops.getD k 0))

theorem remK_cons (o0 : Nat) (rest : List Nat) : ∀ (k t : Nat),
    remK (o0 :: rest) (k + 1) t = unsetBit (remK rest k t) o0 := by
  intro k
  induction k with
  | zero => intro t; simp [remK]
  | succ k ih =>
    intro t
    rw [remK, ih]
    simp only [List.getD_cons_succ]
    rfl

theorem remK_removeDesc : ∀ (ops : List Nat) (t : Nat), remK ops ops.length t = removeDesc ops t := by
  intro ops
  induction ops with
  | nil => intro t; rfl
  | cons o rest ih => intro t; rw [List.length_cons, remK_cons, ih]; rfl

/-- the loop of `mapSetEntry` in closed form -/
theorem setLoop_closed (source : Nat) (ops : List Nat) : ∀ (k : Nat) (acc : Nat × Nat),
    (List.range k).reverse.foldl
      (fun (tp : Nat × Nat) iop =>
        (unsetBit tp.1 (ops.getD iop 0),
         tp.2 + (iop + 1) * countBitsBetween source (ops.getD iop 0) (ops.getD (iop + 1) 0))) acc =
    (remK ops k acc.1,
     acc.2 + rsum k (fun m => (m + 1) * countBitsBetween source (ops.getD m 0) (ops.getD (m + 1) 0))) := by
  intro k
  induction k with
  | zero => intro acc; simp [remK, rsum]
  | succ k ih =>
    intro acc
    rw [List.range_succ, List.reverse_append, List.reverse_singleton, List.singleton_append, List.foldl_cons, ih]
    simp only [remK, rsum]
    congr 1
    omega

/-- `between(source, o_m, o_{m+1})` along the list -/
def gap (source : Nat) (ops : List Nat) (m : Nat) : Nat :=
  countBitsBetween source (ops.getD m 0) (ops.getD (m + 1) 0)

/-- occupied orbitals above the lowest orbital of the list once the others are removed, as the model counts it -/
def chainC (source : Nat) (ops : List Nat) : Nat :=
  countBitsAbove source (ops.getD (ops.length - 1) 0) + rsum (ops.length - 1) (gap source ops)

/-- the honest parity count: sum over the ladder steps, highest orbital first -/
def setPar (source : Nat) : List Nat → Nat
  | [] => 0
  | o :: rest => setPar source rest + chainC source (o :: rest)

theorem mapSetEntry_closed (ops : List Nat) (source : Nat) (h : ops ≠ []) :
    mapSetEntry ops source = (source, removeDesc ops source, setPar source ops) := by
  induction ops with
  | nil => exact absurd rfl h
  | cons o0 rest ih =>
    cases rest with
    | nil =>
      simp [mapSetEntry, removeDesc, setPar, chainC, rsum]
    | cons o1 r =>
      have ih' := ih (by simp)
      -- unfold both sides to closed form
      unfold mapSetEntry at ih' ⊢
      simp only [setLoop_closed] at ih' ⊢
      simp only [List.length_cons, Nat.add_sub_cancel] at ih' ⊢
      -- rest = o1 :: r has length r.length + 1
      have hlast : (o0 :: o1 :: r).getD (r.length + 1) 0 = (o1 :: r).getD r.length 0 := by
        simp [List.getD_cons_succ]
      rw [hlast]
      simp only [Prod.mk.injEq, true_and] at ih' ⊢
      obtain ⟨iht, ihp⟩ := ih'
      constructor
      · rw [remK_cons, iht]; rfl
      · rw [setPar, ← ihp, chainC]
        simp only [List.length_cons, Nat.add_sub_cancel]
        rw [hlast]
        have hw : rsum (r.length + 1)
            (fun m => (m + 1) * countBitsBetween source ((o0 :: o1 :: r).getD m 0) ((o0 :: o1 :: r).getD (m + 1) 0)) =
            rsum (r.length + 1) (gap source (o0 :: o1 :: r)) +
              rsum r.length (fun m => (m + 1) * countBitsBetween source ((o1 :: r).getD m 0) ((o1 :: r).getD (m + 1) 0)) := by
          have := rsum_weight_shift (gap source (o0 :: o1 :: r)) r.length
          unfold gap at this ⊢
          rw [this]
          congr 1
        rw [hw]
        ring

/-! ### the honest ladder product -/

theorem testBit_removeDesc : ∀ (l : List Nat) (s q : Nat),
    (removeDesc l s).testBit q = (s.testBit q && !decide (q ∈ l)) := by
  intro l
  induction l with
  | nil => intro s q; simp [removeDesc]
  | cons o rest ih =>
    intro s q
    rw [removeDesc, testBit_unsetBit, ih]
    by_cases h1 : o = q
    · subst h1; simp
    · have : ¬ q = o := fun e => h1 e.symm
      by_cases h2 : q ∈ rest <;> simp [h1, h2, this]

theorem removeDesc_lt (N : Nat) : ∀ (l : List Nat) (s : Nat), s < 2 ^ N → removeDesc l s < 2 ^ N := by
  intro l
  induction l with
  | nil => intro s h; exact h
  | cons o rest ih => intro s h; exact unsetBit_lt _ _ _ (ih s h)

/-- (B1) removing occupied orbitals that all lie above `o0` -/
theorem above_removeDesc (N s o0 : Nat) (hs : s < 2 ^ N) : ∀ (rest : List Nat),
    rest.Pairwise (· < ·) → (∀ o ∈ rest, o0 < o ∧ o < N ∧ s.testBit o = true) →
    countBitsAbove s o0 = countBitsAbove (removeDesc rest s) o0 + rest.length := by
  intro rest
  induction rest with
  | nil => intro _ _; rfl
  | cons o1 r ih =>
    intro hp ho
    rw [List.pairwise_cons] at hp
    obtain ⟨h1, h2, h3⟩ := ho o1 List.mem_cons_self
    have hnot : ¬ o1 ∈ r := fun hm => Nat.lt_irrefl _ (hp.1 o1 hm)
    have hb : (removeDesc r s).testBit o1 = true := by
      rw [testBit_removeDesc, h3]; simp [hnot]
    have := above_unset (removeDesc r s) o1 o0 N (removeDesc_lt N r s hs) h2 h1 hb
    rw [removeDesc, List.length_cons, ih hp.2 (fun o hm => ho o (List.mem_cons_of_mem _ hm))]
    omega

theorem chainC_cons (s o0 o1 : Nat) (r : List Nat) :
    chainC s (o0 :: o1 :: r) = countBitsBetween s o0 o1 + chainC s (o1 :: r) := by
  unfold chainC
  simp only [List.length_cons, Nat.add_sub_cancel]
  have hlast : (o0 :: o1 :: r).getD (r.length + 1) 0 = (o1 :: r).getD r.length 0 := by simp
  rw [hlast, rsum_shift]
  have e : rsum r.length (fun m => gap s (o0 :: o1 :: r) (m + 1)) = rsum r.length (gap s (o1 :: r)) := by
    apply rsum_congr; intro m _; unfold gap; simp
  have e0 : gap s (o0 :: o1 :: r) 0 = countBitsBetween s o0 o1 := by unfold gap; simp
  rw [e, e0]
  omega

/-- (B2) the model's chain count for the lowest orbital -/
theorem above_chainC (N s : Nat) (hs : s < 2 ^ N) : ∀ (rest : List Nat) (o0 : Nat),
    (o0 :: rest).Pairwise (· < ·) → (∀ o ∈ rest, o < N ∧ s.testBit o = true) →
    countBitsAbove s o0 = chainC s (o0 :: rest) + rest.length := by
  intro rest
  induction rest with
  | nil => intro o0 _ _; simp [chainC, rsum]
  | cons o1 r ih =>
    intro o0 hp ho
    rw [List.pairwise_cons] at hp
    obtain ⟨h2, h3⟩ := ho o1 List.mem_cons_self
    have h01 : o0 < o1 := hp.1 o1 List.mem_cons_self
    rw [chainC_cons, above_split s o0 o1 N hs h01 h2 h3,
      ih o1 hp.2 (fun o hm => ho o (List.mem_cons_of_mem _ hm)), List.length_cons]
    omega

/-- the bookkeeping of `make_mapping_each` run on pure annihilation strings = removal + honest count -/
theorem stepFold_annihilators (N s : Nat) (hs : s < 2 ^ N) : ∀ (ops : List Nat),
    ops.Pairwise (· < ·) → (∀ o ∈ ops, o < N ∧ s.testBit o = true) →
    stepFold (ops.map (fun o => (o, false))) (s, 0) = (removeDesc ops s, setPar s ops) := by
  intro ops
  induction ops with
  | nil => intro _ _; rfl
  | cons o0 rest ih =>
    intro hp ho
    have hp' := hp
    rw [List.pairwise_cons] at hp'
    have hrest : ∀ o ∈ rest, o < N ∧ s.testBit o = true := fun o hm => ho o (List.mem_cons_of_mem _ hm)
    rw [List.map_cons, stepFold_cons, ih hp'.2 hrest]
    unfold mapStep
    simp only [Bool.false_eq_true, if_false]
    rw [removeDesc, setPar]
    congr 1
    congr 1
    have b1 := above_removeDesc N s o0 hs rest hp'.2
      (fun o hm => ⟨hp'.1 o hm, (hrest o hm).1, (hrest o hm).2⟩)
    have b2 := above_chainC N s hs rest o0 hp hrest
    omega

/-- the ladder product is defined on a string in which all the orbitals are occupied -/
theorem descApply_annihilators (N s : Nat) : ∀ (ops : List Nat),
    ops.Pairwise (· < ·) → (∀ o ∈ ops, s.testBit o = true) →
    ∃ sg, descApply N (ops.map (fun o => (o, false))) s = some (sg, removeDesc ops s) := by
  intro ops
  induction ops with
  | nil => intro _ _; exact ⟨false, rfl⟩
  | cons o0 rest ih =>
    intro hp ho
    rw [List.pairwise_cons] at hp
    obtain ⟨sg, hsg⟩ := ih hp.2 (fun o hm => ho o (List.mem_cons_of_mem _ hm))
    have hnot : ¬ o0 ∈ rest := fun hm => Nat.lt_irrefl _ (hp.1 o0 hm)
    have hb : (removeDesc rest s).testBit o0 = true := by
      rw [testBit_removeDesc, ho o0 List.mem_cons_self]; simp [hnot]
    refine ⟨sg ^^ parAbove N (removeDesc rest s) o0, ?_⟩
    rw [List.map_cons, descApply, hsg]
    unfold descLadder
    simp only [hb, Bool.true_eq_false, if_false]
    rw [removeDesc, unsetBit_eq_flip _ _ hb]

/-- **k-fold annihilation maps**: for every source string in which the orbitals `ops` (ascending) are occupied, the
    entry `(source, target, parity count)` of `make_mapping_each_set` is the descending ladder product
    `a_{o_0} ⋯ a_{o_{n-1}}` (highest orbital acts first) on the source: same target, parity of the count = its sign -/
theorem mapSetEntry_spec (norb s : Nat) (ops : List Nat) (hs : s < 2 ^ norb) (hne : ops ≠ [])
    (hsorted : ops.Pairwise (· < ·)) (hocc : ∀ o ∈ ops, o < norb ∧ s.testBit o = true) :
    descApply norb (ops.map (fun o => (o, false))) s =
      some (decide ((mapSetEntry ops s).2.2 % 2 = 1), (mapSetEntry ops s).2.1) := by
  obtain ⟨sg, hsg⟩ := descApply_annihilators norb s ops hsorted (fun o hm => (hocc o hm).2)
  have hl : ∀ x ∈ ops.map (fun o => (o, false)), x.1 < norb := by
    intro x hx
    obtain ⟨o, ho, rfl⟩ := List.mem_map.1 hx
    exact (hocc o ho).1
  obtain ⟨k, hk, hpar, _⟩ := stepFold_spec norb _ s 0 sg _ hs hl hsg
  rw [stepFold_annihilators norb s hs ops hsorted hocc] at hk
  rw [mapSetEntry_closed ops s hne, hsg]
  simp only [Prod.mk.injEq] at hk
  have : k = setPar s ops := by omega
  rw [← this, hpar]

/-! ### the occupation list of a mask and the admission test of `make_mapping_each_set` -/

theorem mem_occN : ∀ (n w idx o : Nat), o ∈ occN n w idx ↔ (idx ≤ o ∧ o < idx + n ∧ w.testBit (o - idx) = true) := by
  intro n
  induction n with
  | zero => intro w idx o; simp [occN]; omega
  | succ n ih =>
    intro w idx o
    rw [occN, List.mem_append, ih]
    by_cases h0 : o = idx
    · subst h0
      have hb : w.testBit 0 = decide (w % 2 = 1) := Nat.testBit_zero w
      by_cases hw : w % 2 = 1
      · simp [hw, hb]
      · simp [hw, hb]
    · constructor
      · rintro (h | ⟨h1, h2, h3⟩)
        · by_cases hw : w % 2 = 1
          · simp [hw] at h; exact absurd h h0
          · simp [hw] at h
        · refine ⟨by omega, by omega, ?_⟩
          have e : o - idx = (o - (idx + 1)) + 1 := by omega
          rw [e, Nat.testBit_succ]; exact h3
      · rintro ⟨h1, h2, h3⟩
        right
        refine ⟨by omega, by omega, ?_⟩
        have e : o - idx = (o - (idx + 1)) + 1 := by omega
        rw [e, Nat.testBit_succ] at h3; exact h3

theorem occN_sorted : ∀ (n w idx : Nat), (occN n w idx).Pairwise (· < ·) := by
  intro n
  induction n with
  | zero => intro w idx; simp [occN]
  | succ n ih =>
    intro w idx
    rw [occN, List.pairwise_append]
    refine ⟨?_, ih _ _, ?_⟩
    · by_cases hw : w % 2 = 1 <;> simp [hw]
    · intro a ha b hb
      have hb' := (mem_occN n (w / 2) (idx + 1) b).1 hb
      by_cases hw : w % 2 = 1
      · simp [hw] at ha; omega
      · simp [hw] at ha

/-- the admission test `(source & mask) ^ mask == 0` holds exactly when every orbital of the mask is occupied -/
theorem admit_iff (s mask : Nat) : ((s &&& mask) ^^^ mask) = 0 ↔ ∀ i, mask.testBit i = true → s.testBit i = true := by
  constructor
  · intro h i hi
    have := congrArg (fun x => x.testBit i) h
    simp only [Nat.testBit_xor, Nat.testBit_and, hi, Nat.zero_testBit, Bool.and_true] at this
    cases hs : s.testBit i with
    | true => rfl
    | false => rw [hs] at this; simp at this
  · intro h
    apply Nat.eq_of_testBit_eq
    intro i
    rw [Nat.testBit_xor, Nat.testBit_and, Nat.zero_testBit]
    cases hm : mask.testBit i with
    | false => simp
    | true => rw [h i hm]; simp

/-- the k-fold map entry of an admitted source, stated on the mask itself -/
theorem mapSetEntry_mask_spec (norb s mask : Nat) (hs : s < 2 ^ norb) (hm : mask < 2 ^ norb) (hm0 : mask ≠ 0)
    (hadm : ((s &&& mask) ^^^ mask) = 0) :
    descApply norb ((integerIndex mask).map (fun o => (o, false))) s =
      some (decide ((mapSetEntry (integerIndex mask) s).2.2 % 2 = 1), (mapSetEntry (integerIndex mask) s).2.1) := by
  rw [integerIndex_eq_occN norb mask hm]
  have hocc : ∀ o ∈ occN norb mask 0, o < norb ∧ s.testBit o = true := by
    intro o ho
    have := (mem_occN norb mask 0 o).1 ho
    refine ⟨by omega, ?_⟩
    apply (admit_iff s mask).1 hadm
    simpa using this.2.2
  apply mapSetEntry_spec norb s _ hs _ (occN_sorted _ _ _) hocc
  intro he
  apply hm0
  apply Nat.eq_of_testBit_eq
  intro i
  rw [Nat.zero_testBit]
  cases hb : mask.testBit i with
  | false => rfl
  | true =>
    have hi : i < norb := by
      apply Nat.lt_of_not_le
      intro hge
      have := Nat.testBit_lt_two_pow (Nat.lt_of_lt_of_le hm (Nat.pow_le_pow_right (by omega) hge))
      rw [this] at hb; cases hb
    have : i ∈ occN norb mask 0 := (mem_occN norb mask 0 i).2 ⟨by omega, by omega, by simpa using hb⟩
    rw [he] at this
    cases this

end Model
