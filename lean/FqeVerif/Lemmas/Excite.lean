/-
  Lemmas/Excite.lean — single-excitation table entries are the Spec ladder action.
-/
import FqeVerif.Lemmas.Bits
import FqeVerif.Model.Maps
import FqeVerif.Spec.Embed
namespace Model
open Fock

theorem parity_succ (c : Nat) : decide ((c + 1) % 2 = 1) = !decide (c % 2 = 1) := by
  by_cases h : c % 2 = 1 <;> simp [h] <;> omega

/-- parity of the number of set bits in a half-open window -/
theorem cntIf_window_parity (s lo hi : Nat) (h : lo ≤ hi) (n : Nat) :
    decide (cntIf s (fun r => decide (lo ≤ r ∧ r < hi)) n % 2 = 1) =
      (par s (min hi n) ^^ par s (min lo n)) := by
  induction n with
  | zero => simp [cntIf, par]
  | succ n ih =>
    rw [cntIf]
    by_cases h1 : n < lo
    · have e1 : min hi (n + 1) = n + 1 := by omega
      have e2 : min lo (n + 1) = n + 1 := by omega
      have e3 : min hi n = n := by omega
      have e4 : min lo n = n := by omega
      have : ¬ (lo ≤ n ∧ n < hi) := by omega
      rw [e3, e4] at ih
      rw [e1, e2]
      simp only [this, decide_false, Bool.and_false]
      simp at ih ⊢
      omega
    · by_cases h2 : n < hi
      · have e1 : min hi (n + 1) = n + 1 := by omega
        have e2 : min lo (n + 1) = lo := by omega
        have e3 : min hi n = n := by omega
        have e4 : min lo n = lo := by omega
        have : (lo ≤ n ∧ n < hi) := by omega
        rw [e3, e4] at ih
        have hd : decide (lo ≤ n ∧ n < hi) = true := by simp [this]
        rw [e1, e2, par_succ, hd]
        cases hb : s.testBit n
        · simpa using ih
        · simp only [Bool.and_self, if_true, parity_succ, ih]
          cases par s n <;> cases par s lo <;> rfl
      · have e1 : min hi (n + 1) = hi := by omega
        have e2 : min lo (n + 1) = lo := by omega
        have e3 : min hi n = hi := by omega
        have e4 : min lo n = lo := by omega
        have : ¬ (lo ≤ n ∧ n < hi) := by omega
        rw [e3, e4] at ih
        rw [e1, e2, ← ih]
        simp only [this, decide_false, Bool.and_false]
        simp

/-- parity of `count_bits_between` in terms of `par` (positions distinct) -/
theorem countBitsBetween_parity (s p1 p2 : Nat) (hne : p1 ≠ p2) :
    decide (countBitsBetween s p1 p2 % 2 = 1) = (par s (max p1 p2) ^^ par s (min p1 p2 + 1)) := by
  have hs : s < 2 ^ (s + p1 + p2 + 1) :=
    Nat.lt_of_lt_of_le Nat.lt_two_pow_self (Nat.pow_le_pow_right (by omega) (by omega))
  rw [countBitsBetween_eq s p1 p2 _ hs hne]
  have hle : min p1 p2 + 1 ≤ max p1 p2 := by omega
  have := cntIf_window_parity s (min p1 p2 + 1) (max p1 p2) hle (s + p1 + p2 + 1)
  have e1 : min (max p1 p2) (s + p1 + p2 + 1) = max p1 p2 := by omega
  have e2 : min (min p1 p2 + 1) (s + p1 + p2 + 1) = min p1 p2 + 1 := by omega
  rw [e1, e2] at this
  rw [← this]
  have key : cntIf s (fun r => decide (min p1 p2 < r ∧ r < max p1 p2)) (s + p1 + p2 + 1) =
      cntIf s (fun r => decide (min p1 p2 + 1 ≤ r ∧ r < max p1 p2)) (s + p1 + p2 + 1) := by
    apply cntIf_congr
    intro r _
    have : decide (min p1 p2 < r ∧ r < max p1 p2) = decide (min p1 p2 + 1 ≤ r ∧ r < max p1 p2) := by
      simp only [decide_eq_decide]; omega
    rw [this]
  rw [key]

/-- parity of `count_bits_above` in terms of `par`, for a string with orbitals `< norb` -/
theorem countBitsAbove_parity (s pos norb : Nat) (hs : s < 2 ^ norb) (hp : pos < norb) :
    decide (countBitsAbove s pos % 2 = 1) = parAbove norb s pos := by
  rw [countBitsAbove_eq s pos norb hs]
  have := cntIf_window_parity s (pos + 1) norb (by omega) norb
  have e1 : min norb norb = norb := by omega
  have e2 : min (pos + 1) norb = pos + 1 := by omega
  rw [e1, e2] at this
  unfold parAbove
  rw [← this]
  have key : cntIf s (fun r => decide (pos < r)) norb =
      cntIf s (fun r => decide (pos + 1 ≤ r ∧ r < norb)) norb := by
    apply cntIf_congr
    intro r hr
    have : decide (pos < r) = decide (pos + 1 ≤ r ∧ r < norb) := by
      simp only [decide_eq_decide]; omega
    rw [this]
  rw [key]

theorem unset_set_eq_flip (s i j : Nat) (hj : s.testBit j = true) (hi : s.testBit i = false) :
    unsetBit (setBit s i) j = flip (flip s j) i := by
  apply Nat.eq_of_testBit_eq
  intro r
  rw [testBit_unsetBit, testBit_setBit, testBit_flip, testBit_flip]
  by_cases a : i = r <;> by_cases b : j = r
  · subst a; subst b; rw [hj] at hi; cases hi
  · subst a; simp [hi, b]
  · subst b; simp [hj, a]
  · simp [a, b]

/-- every entry of `_build_mapping[(i,j)]`, `i ≠ j`, is the Spec action of `a†_i a_j` on the string:
    same target, same sign; and a string has an entry iff the Spec action is non-zero -/
theorem mappingEntry_spec (i j s : Nat) (hij : i ≠ j) :
    mappingEntry i j s = (ladder2 true i false j s).map (fun x => (s, x.2, x.1)) := by
  unfold mappingEntry ladder2 ladder
  by_cases hj : s.testBit j = true
  · by_cases hi : s.testBit i = true
    · have g1 : getBit s j ≠ 0 := (getBit_ne_zero s j).2 hj
      have g2 : getBit s i ≠ 0 := (getBit_ne_zero s i).2 hi
      have hji : decide (j = i) = false := by simp; omega
      simp [g2, hij, hj, hi, testBit_flip, hji]
    · have hi' : s.testBit i = false := by simpa using hi
      have g1 : getBit s j ≠ 0 := (getBit_ne_zero s j).2 hj
      have g2 : getBit s i = 0 := by
        by_cases g : getBit s i = 0
        · exact g
        · have := (getBit_ne_zero s i).1 g; rw [hi'] at this; cases this
      have hji : decide (j = i) = false := by simp; omega
      simp only [g1, g2, ne_eq, not_false_eq_true, and_self, if_true, hj, Bool.true_eq_false, if_false,
        testBit_flip, hi', hji, Bool.xor_false, Option.map_some]
      rw [unset_set_eq_flip s i j hj hi', countBitsBetween_parity s i j hij, par_flip]
      congr 2
      rcases Nat.lt_or_gt_of_ne hij with h | h
      · have e1 : max i j = j := by omega
        have e2 : min i j = i := by omega
        have e3 : decide (j < i) = false := by simp; omega
        rw [e1, e2, e3, par_succ, hi']
      · have e1 : max i j = i := by omega
        have e2 : min i j = j := by omega
        have e3 : decide (j < i) = true := by simp; omega
        rw [e1, e2, e3, par_succ, hj]
        cases par s i <;> cases par s j <;> rfl
  · have hj' : s.testBit j = false := by simpa using hj
    have g1 : getBit s j = 0 := by
      by_cases g : getBit s j = 0
      · exact g
      · have := (getBit_ne_zero s j).1 g; rw [hj'] at this; cases this
    simp [g1, hij, hj']

/-- the diagonal entries `i = j` are the number operator: entry `(s, s, +)` iff orbital `i` is occupied -/
theorem mappingEntry_diag (i s : Nat) :
    mappingEntry i i s = (ladder2 true i false i s).map (fun x => (s, x.2, x.1)) := by
  unfold mappingEntry ladder2 ladder
  by_cases hi : s.testBit i = true
  · have g : getBit s i ≠ 0 := (getBit_ne_zero s i).2 hi
    simp [g, hi, testBit_flip, Fock.flip_flip, par_flip]
  · have hi' : s.testBit i = false := by simpa using hi
    have g : getBit s i = 0 := by
      by_cases g : getBit s i = 0
      · exact g
      · have := (getBit_ne_zero s i).1 g; rw [hi'] at this; cases this
    simp [g, hi']

/-- the target of a table entry is the source with bit `j` cleared and bit `i` set -/
theorem mappingEntry_target (i j t : Nat) (x : Nat × Nat × Bool) (hx : mappingEntry i j t = some x) :
    x.2.1 = Fock.flip (Fock.flip t j) i := by
  by_cases hij : i = j
  · subst hij
    rw [Fock.flip_flip]
    unfold mappingEntry at hx
    split at hx
    · rename_i hc; exact absurd hc.2 hc.1
    · split at hx
      · cases hx; rfl
      · cases hx
  · rw [mappingEntry_spec i j t hij] at hx
    unfold ladder2 ladder at hx
    by_cases a : t.testBit j = false
    · simp [a] at hx
    · by_cases b : (Fock.flip t j).testBit i = true
      · simp [a, b] at hx
      · simp [a, b] at hx
        rw [← hx]

end Model
