/-
  Lemmas/Binom.lean — the multiplicative binomial of Model/Strings is `Nat.choose`; the Z-matrix entries
  have the closed form  Z[k-1][o] = C(n-k, K-k+1) - C(n-o-1, K-k+1)  (uniformly, last row included).
-/
import FqeVerif.Model.Strings
import Mathlib.Data.Nat.Choose.Basic
namespace Model

theorem binom_fold (n : Nat) : ∀ j, j ≤ n →
    (List.range j).foldl (fun acc i => acc * (n - i) / (i + 1)) 1 = Nat.choose n j := by
  intro j
  induction j with
  | zero => intro _; simp
  | succ j ih =>
    intro hj
    rw [List.range_succ, List.foldl_append, ih (by omega)]
    simp only [List.foldl_cons, List.foldl_nil]
    have h := Nat.choose_succ_right_eq n j
    -- choose n (j+1) * (j+1) = choose n j * (n - j)
    rw [← h]
    exact Nat.mul_div_cancel _ (by omega)

theorem binom_eq_choose (n k : Nat) : binom n k = Nat.choose n k := by
  unfold binom
  by_cases h : k > n
  · simp [h, Nat.choose_eq_zero_of_lt h]
  · simp only [h, if_false]
    exact binom_fold n k (by omega)

/-- Σ_{x=a}^{a+len-1} f x as a fold (the shape of the Z-matrix loop after filtering) -/
def sumRange' (f : Nat → Int) (a len : Nat) : Int := (List.range' a len).foldl (fun acc m => acc + f m) 0

theorem foldl_add_init (f : Nat → Int) (l : List Nat) (c : Int) :
    l.foldl (fun acc m => acc + f m) c = c + l.foldl (fun acc m => acc + f m) 0 := by
  induction l generalizing c with
  | nil => simp
  | cons a t ih => simp only [List.foldl_cons]; rw [ih (c + f a), ih (0 + f a)]; omega

theorem sumRange'_succ (f : Nat → Int) (a len : Nat) :
    sumRange' f a (len + 1) = sumRange' f a len + f (a + len) := by
  unfold sumRange'
  rw [List.range'_concat, List.foldl_append]
  simp [Nat.mul_one]

/-- hockey stick: Σ_{x=a}^{a+len-1} C(x, j) = C(a+len, j+1) − C(a, j+1) -/
theorem hockey (j a len : Nat) :
    sumRange' (fun x => (Nat.choose x j : Int)) a len = (Nat.choose (a + len) (j + 1) : Int) - Nat.choose a (j + 1) := by
  induction len with
  | zero => simp [sumRange']
  | succ len ih =>
    rw [sumRange'_succ, ih]
    have : Nat.choose (a + (len + 1)) (j + 1) = Nat.choose (a + len) j + Nat.choose (a + len) (j + 1) := by
      rw [← Nat.add_assoc, Nat.choose_succ_succ']
    rw [this]
    push_cast
    omega

theorem filter_range_ge (a b : Nat) (h : a ≤ b + 1) :
    (List.range (b + 1)).filter (fun m => decide (a ≤ m)) = List.range' a (b + 1 - a) := by
  induction b with
  | zero =>
    have : a = 0 ∨ a = 1 := by omega
    rcases this with rfl | rfl <;> simp [List.range_succ]
  | succ b ih =>
    rw [List.range_succ, List.filter_append]
    by_cases hab : a ≤ b + 1
    · rw [ih hab]
      have e : b + 1 + 1 - a = (b + 1 - a) + 1 := by omega
      rw [e, List.range'_concat]
      have : a + (b + 1 - a) = b + 1 := by omega
      simp [hab, this]
    · have ha : a = b + 2 := by omega
      subst ha
      have hnone : (List.range (b + 1)).filter (fun m => decide (b + 2 ≤ m)) = [] := by
        rw [List.filter_eq_nil_iff]
        intro m hm
        have := List.mem_range.mp hm
        simp; omega
      rw [hnone]
      simp

theorem sumRange'_congr (f g : Nat → Int) (a len : Nat) (h : ∀ x, a ≤ x → x < a + len → f x = g x) :
    sumRange' f a len = sumRange' g a len := by
  induction len with
  | zero => rfl
  | succ len ih =>
    rw [sumRange'_succ, sumRange'_succ, ih (fun x h1 h2 => h x h1 (by omega)), h (a + len) (by omega) (by omega)]

theorem sumRange'_shift (f : Nat → Int) (a len : Nat) :
    sumRange' (fun x => f (x + 1)) a len = sumRange' f (a + 1) len := by
  induction len with
  | zero => rfl
  | succ len ih =>
    rw [sumRange'_succ, sumRange'_succ, ih]
    have : a + 1 + len = a + len + 1 := by omega
    rw [this]

/-- closed form of the Z-matrix entry of row `r` (0-based) and orbital `c` (0-based), for every admissible
    orbital of that row: `Z[r][c] = C(n-r-1, K-r) - C(n-c-1, K-r)` — the same formula for the last row -/
theorem zEntry_closed (norb nele r c : Nat) (hr : r < nele) (hrc : r ≤ c) (hc : c ≤ norb - nele + r)
    (hn : nele ≤ norb) :
    zEntry norb nele r c = (Nat.choose (norb - r - 1) (nele - r) : Int) - Nat.choose (norb - c - 1) (nele - r) := by
  unfold zEntry
  simp only
  by_cases hk : r + 1 < nele
  · have hcond : r + 1 ≤ c + 1 ∧ c + 1 ≤ norb - nele + (r + 1) := by omega
    simp only [hk, if_true, hcond, and_self]
    rw [filter_range_ge (norb - (c + 1) + 1) (norb - (r + 1)) (by omega)]
    have hlen : norb - (r + 1) + 1 - (norb - (c + 1) + 1) = c - r := by omega
    rw [hlen]
    -- the summand is C(m-1, j) with j = nele - (r+1)
    have hsum : (List.range' (norb - (c + 1) + 1) (c - r)).foldl
        (fun acc m => acc + ((binom m (nele - (r + 1)) : Int) - (binom (m - 1) (nele - (r + 1) - 1) : Int))) 0 =
        sumRange' (fun m => (Nat.choose (m - 1) (nele - (r + 1)) : Int)) (norb - (c + 1) + 1) (c - r) := by
      have := sumRange'_congr
        (fun m => ((binom m (nele - (r + 1)) : Int) - (binom (m - 1) (nele - (r + 1) - 1) : Int)))
        (fun m => (Nat.choose (m - 1) (nele - (r + 1)) : Int)) (norb - (c + 1) + 1) (c - r) (by
          intro x hx1 _
          rw [binom_eq_choose, binom_eq_choose]
          obtain ⟨y, rfl⟩ : ∃ y, x = y + 1 := ⟨x - 1, by omega⟩
          obtain ⟨j, hj⟩ : ∃ j, nele - (r + 1) = j + 1 := ⟨nele - (r + 1) - 1, by omega⟩
          rw [hj, Nat.choose_succ_succ']
          simp only [Nat.add_sub_cancel]
          push_cast
          omega)
      unfold sumRange' at this
      exact this
    rw [hsum]
    have hshift := sumRange'_shift (fun m => (Nat.choose (m - 1) (nele - (r + 1)) : Int)) (norb - (c + 1)) (c - r)
    simp only [Nat.add_sub_cancel] at hshift
    rw [← hshift, hockey]
    have e1 : norb - (c + 1) + (c - r) = norb - r - 1 := by omega
    have e2 : nele - (r + 1) + 1 = nele - r := by omega
    have e3 : norb - (c + 1) = norb - c - 1 := by omega
    rw [e1, e2, e3]
  · have hk2 : r + 1 = nele := by omega
    have hnlt : ¬ r + 1 < nele := by omega
    have hcond : nele ≤ c + 1 ∧ c + 1 ≤ norb := by omega
    simp only [hnlt, if_false, hk2, if_true, hcond, and_self]
    have e : nele - r = 1 := by omega
    rw [e, Nat.choose_one_right, Nat.choose_one_right]
    omega

end Model
