/-
  Lemmas/Address.lean — Knowles–Handy addressing: the address computed from the Z matrix is the position
  of the string in the lexical order of ascending occupation tuples (`subsetsLex`).
-/
import FqeVerif.Lemmas.Binom
import FqeVerif.Lemmas.Subsets
import Mathlib.Data.List.Nodup
namespace Model

/-- occupied positions of the `n` low bits of `w`, offset by `idx` -/
def occN : Nat → Nat → Nat → List Nat
  | 0, _, _ => []
  | n+1, w, idx => (if w % 2 = 1 then [idx] else []) ++ occN n (w / 2) (idx + 1)

theorem occN_zero (n idx : Nat) : occN n 0 idx = [] := by
  induction n generalizing idx with
  | zero => rfl
  | succ n ih => simp [occN, ih]

theorem occAux_eq_occN : ∀ (fuel w idx : Nat), w < 2 ^ fuel → occAux fuel w idx = occN fuel w idx := by
  intro fuel
  induction fuel with
  | zero => intro w idx _; rfl
  | succ f ih =>
    intro w idx h
    unfold occAux occN
    by_cases hw : w = 0
    · subst hw; simp [occN_zero]
    · simp only [hw, if_false]
      rw [ih (w / 2) (idx + 1) (by rw [Nat.pow_succ] at h; omega)]

theorem occN_stable (n w idx : Nat) (h : w < 2 ^ n) : ∀ j, occN (n + j) w idx = occN n w idx := by
  induction n generalizing w idx with
  | zero =>
    intro j
    have : w = 0 := by simpa using h
    subst this
    simp [occN_zero, occN]
  | succ n ih =>
    intro j
    have e : n + 1 + j = (n + j) + 1 := by omega
    rw [e, occN, occN, ih (w / 2) (idx + 1) (by rw [Nat.pow_succ] at h; omega) j]

theorem integerIndex_eq_occN (n s : Nat) (h : s < 2 ^ n) : integerIndex s = occN n s 0 := by
  unfold integerIndex
  rw [occAux_eq_occN (s + 1) s 0 (Nat.lt_of_lt_of_le Nat.lt_two_pow_self (Nat.pow_le_pow_right (by omega) (by omega)))]
  rcases Nat.le_total n (s + 1) with hle | hle
  · obtain ⟨j, hj⟩ := Nat.exists_eq_add_of_le hle
    rw [hj]; exact occN_stable n s 0 h j
  · obtain ⟨j, hj⟩ := Nat.exists_eq_add_of_le hle
    rw [hj]
    exact (occN_stable (s + 1) s 0
      (Nat.lt_of_lt_of_le Nat.lt_two_pow_self (Nat.pow_le_pow_right (by omega) (by omega))) j).symm

theorem occN_shift (n w idx : Nat) : occN n w (idx + 1) = (occN n w idx).map (· + 1) := by
  induction n generalizing w idx with
  | zero => rfl
  | succ n ih =>
    rw [occN, occN, ih (w / 2) (idx + 1)]
    by_cases h : w % 2 = 1 <;> simp [h]

theorem occN_odd (n t : Nat) : occN (n + 1) (2 * t + 1) 0 = 0 :: (occN n t 0).map (· + 1) := by
  rw [occN]
  have h1 : (2 * t + 1) % 2 = 1 := by omega
  have h2 : (2 * t + 1) / 2 = t := by omega
  rw [h2, occN_shift]
  simp [h1]

theorem occN_even (n t : Nat) : occN (n + 1) (2 * t) 0 = (occN n t 0).map (· + 1) := by
  rw [occN]
  have h1 : ¬ (2 * t) % 2 = 1 := by omega
  have h2 : (2 * t) / 2 = t := by omega
  rw [h2, occN_shift]
  simp [h1]

/-- address as a running sum over the occupation list -/
def addrFrom (norb nele : Nat) : Nat → List Nat → Int
  | _, [] => 0
  | i, o :: os => zEntry norb nele i o + addrFrom norb nele (i + 1) os

theorem foldl_zip_addr (norb nele : Nat) : ∀ (occ : List Nat) (i : Nat) (acc : Int),
    (List.zip (List.range' i occ.length) occ).foldl (fun a (p : Nat × Nat) => a + zEntry norb nele p.1 p.2) acc =
      acc + addrFrom norb nele i occ := by
  intro occ
  induction occ with
  | nil => intro i acc; simp [addrFrom]
  | cons o os ih =>
    intro i acc
    simp only [List.length_cons, List.range'_succ, List.zip_cons_cons, List.foldl_cons, addrFrom]
    rw [ih (i + 1) (acc + zEntry norb nele i o)]
    omega

theorem addressOf_eq (norb nele s : Nat) : addressOf norb nele s = addrFrom norb nele 0 (integerIndex s) := by
  unfold addressOf
  simp only
  have := foldl_zip_addr norb nele (integerIndex s) 0 0
  rw [List.range_eq_range']
  simpa using this

/-- the occupation list from position `i` on is admissible for the Z-matrix rows `i, i+1, …`: the `t`-th
    occupied orbital `o` satisfies `t ≤ o` and `o + K ≤ n + t`, and the list ends exactly at row `K` -/
def Adm (n K : Nat) : Nat → List Nat → Prop
  | i, [] => i = K
  | i, o :: os => i ≤ o ∧ o + K ≤ n + i ∧ i < K ∧ Adm n K (i + 1) os

theorem adm_shift_both (n K : Nat) : ∀ (l : List Nat) (i : Nat), Adm n K i l →
    Adm (n + 1) (K + 1) (i + 1) (l.map (· + 1)) := by
  intro l
  induction l with
  | nil => intro i h; simp only [Adm, List.map_nil] at *; omega
  | cons o os ih =>
    intro i h
    obtain ⟨h1, h2, h3, h4⟩ := h
    simp only [List.map_cons, Adm]
    exact ⟨by omega, by omega, by omega, ih (i + 1) h4⟩

theorem adm_shift_orb (n K : Nat) : ∀ (l : List Nat) (i : Nat), Adm n K i l →
    Adm (n + 1) K i (l.map (· + 1)) := by
  intro l
  induction l with
  | nil => intro i h; simpa [Adm] using h
  | cons o os ih =>
    intro i h
    obtain ⟨h1, h2, h3, h4⟩ := h
    simp only [List.map_cons, Adm]
    exact ⟨by omega, by omega, h3, ih (i + 1) h4⟩

/-- every `k`-subset's occupation list is admissible -/
theorem adm_of_mem : ∀ (n k t : Nat), t ∈ subsetsLex n k → Adm n k 0 (occN n t 0) := by
  intro n
  induction n with
  | zero =>
    intro k t h
    cases k with
    | zero => simp [Adm, occN]
    | succ k => simp [subsetsLex] at h
  | succ n ih =>
    intro k t h
    cases k with
    | zero =>
      have : t = 0 := by simpa [subsetsLex] using h
      subst this
      simp [occN_zero, Adm]
    | succ k =>
      unfold subsetsLex at h
      by_cases hnk : n < k
      · simp [hnk] at h
      · simp only [hnk, if_false, List.mem_append, List.mem_map] at h
        rcases h with ⟨u, hu, rfl⟩ | ⟨u, hu, rfl⟩
        · rw [occN_odd]
          exact ⟨Nat.le_refl _, by omega, by omega, adm_shift_both n k _ 0 (ih k u hu)⟩
        · rw [occN_even]
          have hk1 : k + 1 ≤ n := by
            have := (mem_subsetsLex n (k + 1) u).1 hu
            have := cnt_le u n
            omega
          exact adm_shift_orb n (k + 1) _ 0 (ih (k + 1) u hu)

theorem zEntry_shift_both (n K i o : Nat) (h1 : i ≤ o) (h2 : o + K ≤ n + i) (h3 : i < K) (hK : K ≤ n) :
    zEntry (n + 1) (K + 1) (i + 1) (o + 1) = zEntry n K i o := by
  rw [zEntry_closed (n + 1) (K + 1) (i + 1) (o + 1) (by omega) (by omega) (by omega) (by omega),
    zEntry_closed n K i o h3 h1 (by omega) hK]
  have e1 : n + 1 - (i + 1) - 1 = n - i - 1 := by omega
  have e2 : K + 1 - (i + 1) = K - i := by omega
  have e3 : n + 1 - (o + 1) - 1 = n - o - 1 := by omega
  rw [e1, e2, e3]

theorem addrFrom_shift_both (n K : Nat) (hK : K ≤ n) : ∀ (l : List Nat) (i : Nat), Adm n K i l →
    addrFrom (n + 1) (K + 1) (i + 1) (l.map (· + 1)) = addrFrom n K i l := by
  intro l
  induction l with
  | nil => intro i _; rfl
  | cons o os ih =>
    intro i h
    obtain ⟨h1, h2, h3, h4⟩ := h
    simp only [List.map_cons, addrFrom]
    rw [zEntry_shift_both n K i o h1 h2 h3 hK, ih (i + 1) h4]

/-- Σ_{t=i}^{K-1} C(n-1-t, K-1-t): what the even branch adds -/
def diagSum (n K : Nat) : Nat → Nat → Int
  | _, 0 => 0
  | i, len+1 => (Nat.choose (n - 1 - i) (K - 1 - i) : Int) + diagSum n K (i + 1) len

theorem zEntry_shift_orb (n K i o : Nat) (h1 : i ≤ o) (h2 : o + K ≤ n + i) (h3 : i < K) (hK : K ≤ n) :
    zEntry (n + 1) K i (o + 1) = zEntry n K i o + (Nat.choose (n - 1 - i) (K - 1 - i) : Int) := by
  rw [zEntry_closed (n + 1) K i (o + 1) h3 (by omega) (by omega) (by omega),
    zEntry_closed n K i o h3 h1 (by omega) hK]
  have e3 : n + 1 - (o + 1) - 1 = n - o - 1 := by omega
  have e1 : n + 1 - i - 1 = (n - i - 1) + 1 := by omega
  have e2 : K - i = (K - 1 - i) + 1 := by omega
  rw [e3, e1, e2, Nat.choose_succ_succ']
  have e4 : n - i - 1 = n - 1 - i := by omega
  rw [e4]
  push_cast
  omega

theorem addrFrom_shift_orb (n K : Nat) (hK : K ≤ n) : ∀ (l : List Nat) (i : Nat), Adm n K i l →
    addrFrom (n + 1) K i (l.map (· + 1)) = addrFrom n K i l + diagSum n K i l.length := by
  intro l
  induction l with
  | nil => intro i _; simp [addrFrom, diagSum]
  | cons o os ih =>
    intro i h
    obtain ⟨h1, h2, h3, h4⟩ := h
    simp only [List.map_cons, addrFrom, List.length_cons, diagSum]
    rw [zEntry_shift_orb n K i o h1 h2 h3 hK, ih (i + 1) h4]
    omega

theorem adm_length (n K : Nat) : ∀ (l : List Nat) (i : Nat), Adm n K i l → i + l.length = K := by
  intro l
  induction l with
  | nil => intro i h; simpa [Adm] using h
  | cons o os ih =>
    intro i h
    have := ih (i + 1) h.2.2.2
    simp only [List.length_cons]; omega

/-- Σ_{t=0}^{K-1} C(n-1-t, K-1-t) = C(n, K-1) for K ≤ n (a diagonal hockey stick) -/
theorem diagSum_total : ∀ (K n : Nat), K ≤ n → 0 < K → diagSum n K 0 K = (Nat.choose n (K - 1) : Int) := by
  -- generalise the start: Σ_{t=i}^{K-1} C(n-1-t, K-1-t) = C(n-i, K-1-i)
  have gen : ∀ (len n K i : Nat), i + len = K → K ≤ n →
      diagSum n K i len = (if len = 0 then 0 else (Nat.choose (n - i) (K - 1 - i) : Int)) := by
    intro len
    induction len with
    | zero => intro n K i _ _; simp [diagSum]
    | succ len ih =>
      intro n K i hi hK
      rw [diagSum, ih n K (i + 1) (by omega) hK]
      by_cases hl : len = 0
      · subst hl
        have e : K - 1 - i = 0 := by omega
        simp [e]
      · simp only [hl, if_false, Nat.add_eq_zero_iff, false_and, and_false]
        have e1 : n - i = (n - 1 - i) + 1 := by omega
        have e2 : K - 1 - i = (K - 1 - (i + 1)) + 1 := by omega
        have e3 : n - (i + 1) = n - 1 - i := by omega
        rw [e1, e2, Nat.choose_succ_succ', e3]
        push_cast
        omega
  intro K n hK hpos
  have := gen K n K 0 (by omega) hK
  have hne : ¬ K = 0 := by omega
  simpa [hne] using this

/-- position of a k-subset in the lexical order: recursion on the lowest orbital -/
def lexIndex : Nat → Nat → Nat → Nat
  | 0, _, _ => 0
  | _+1, 0, _ => 0
  | n+1, k+1, s => if s % 2 = 1 then lexIndex n k (s / 2) else Nat.choose n k + lexIndex n (k + 1) (s / 2)

theorem length_subsetsLex : ∀ (n k : Nat), (subsetsLex n k).length = Nat.choose n k := by
  intro n
  induction n with
  | zero => intro k; cases k <;> simp [subsetsLex]
  | succ n ih =>
    intro k
    cases k with
    | zero => simp [subsetsLex]
    | succ k =>
      unfold subsetsLex
      by_cases hnk : n < k
      · simp only [hnk, if_true, List.length_nil]
        exact (Nat.choose_eq_zero_of_lt (by omega)).symm
      · simp only [hnk, if_false, List.length_append, List.length_map]
        rw [ih k, ih (k + 1), Nat.choose_succ_succ']

/-- the string at position `lexIndex` of the lexically ordered list is the string itself -/
theorem getElem_lexIndex : ∀ (n k s : Nat), s ∈ subsetsLex n k → (subsetsLex n k)[lexIndex n k s]? = some s := by
  intro n
  induction n with
  | zero =>
    intro k s h
    cases k with
    | zero =>
      have : s = 0 := by simpa [subsetsLex] using h
      subst this
      simp [subsetsLex, lexIndex]
    | succ k => simp [subsetsLex] at h
  | succ n ih =>
    intro k s h
    cases k with
    | zero =>
      have : s = 0 := by simpa [subsetsLex] using h
      subst this
      simp [subsetsLex, lexIndex]
    | succ k =>
      unfold subsetsLex at h ⊢
      by_cases hnk : n < k
      · simp [hnk] at h
      · simp only [hnk, if_false, List.mem_append, List.mem_map] at h ⊢
        unfold lexIndex
        rcases h with ⟨u, hu, rfl⟩ | ⟨u, hu, rfl⟩
        · have e1 : (2 * u + 1) % 2 = 1 := by omega
          have e2 : (2 * u + 1) / 2 = u := by omega
          simp only [e1, if_true, e2]
          have hlt : lexIndex n k u < ((subsetsLex n k).map (fun t => 2 * t + 1)).length := by
            have := ih k u hu
            rw [List.length_map]
            exact (List.getElem?_eq_some_iff.mp this).1
          rw [List.getElem?_append_left hlt, List.getElem?_map, ih k u hu]
          rfl
        · have e1 : ¬ (2 * u) % 2 = 1 := by omega
          have e2 : (2 * u) / 2 = u := by omega
          simp only [e1, if_false, e2]
          have hlen : ((subsetsLex n k).map (fun t => 2 * t + 1)).length = Nat.choose n k := by
            rw [List.length_map, length_subsetsLex]
          rw [List.getElem?_append_right (by omega), hlen, Nat.add_sub_cancel_left, List.getElem?_map,
            ih (k + 1) u hu]
          rfl

/-- **address = lexical rank** for every orbital count, electron count and occupation pattern -/
theorem addressOf_eq_lexIndex : ∀ (n k s : Nat), s ∈ subsetsLex n k → addressOf n k s = (lexIndex n k s : Int) := by
  intro n k s h
  have hs := ((mem_subsetsLex n k s).1 h).1
  rw [addressOf_eq, integerIndex_eq_occN n s hs]
  clear hs
  induction n generalizing k s with
  | zero =>
    cases k with
    | zero => simp [occN, addrFrom, lexIndex]
    | succ k => simp [subsetsLex] at h
  | succ n ih =>
    cases k with
    | zero =>
      have : s = 0 := by simpa [subsetsLex] using h
      subst this
      simp [occN_zero, addrFrom, lexIndex]
    | succ k =>
      have h' := h
      unfold subsetsLex at h
      by_cases hnk : n < k
      · simp [hnk] at h
      · simp only [hnk, if_false, List.mem_append, List.mem_map] at h
        have hkn : k ≤ n := by omega
        unfold lexIndex
        rcases h with ⟨u, hu, rfl⟩ | ⟨u, hu, rfl⟩
        · have e1 : (2 * u + 1) % 2 = 1 := by omega
          have e2 : (2 * u + 1) / 2 = u := by omega
          simp only [e1, if_true, e2]
          rw [occN_odd, addrFrom]
          have hz : zEntry (n + 1) (k + 1) 0 0 = 0 := by
            rw [zEntry_closed (n + 1) (k + 1) 0 0 (by omega) (by omega) (by omega) (by omega)]
            omega
          rw [hz, addrFrom_shift_both n k hkn _ 0 (adm_of_mem n k u hu), ih k u hu]
          omega
        · have e1 : ¬ (2 * u) % 2 = 1 := by omega
          have e2 : (2 * u) / 2 = u := by omega
          simp only [e1, if_false, e2]
          have hk1 : k + 1 ≤ n := by
            have := (mem_subsetsLex n (k + 1) u).1 hu
            have := cnt_le u n
            omega
          have hadm := adm_of_mem n (k + 1) u hu
          rw [occN_even, addrFrom_shift_orb n (k + 1) hk1 _ 0 hadm, ih (k + 1) u hu]
          have hlen := adm_length n (k + 1) _ 0 hadm
          rw [Nat.zero_add] at hlen
          rw [hlen, diagSum_total (k + 1) n hk1 (by omega)]
          simp only [Nat.add_sub_cancel]
          push_cast
          omega

/-! ### the scatter `string_list[address] = wbit` produces the lexically ordered table -/

theorem scatter_untouched {α : Type} (f : α → Nat) : ∀ (l : List α) (init : Array (Option α)) (p : Nat),
    (∀ y ∈ l, f y ≠ p) →
    (l.foldl (fun (arr : Array (Option α)) x => arr.setIfInBounds (f x) (some x)) init)[p]? = init[p]? := by
  intro l
  induction l with
  | nil => intro init p _; rfl
  | cons x t ih =>
    intro init p h
    rw [List.foldl_cons, ih _ p (fun y hy => h y (List.mem_cons_of_mem _ hy))]
    have hx : f x ≠ p := h x List.mem_cons_self
    rw [Array.getElem?_setIfInBounds_ne hx]

theorem scatter_size {α : Type} (f : α → Nat) : ∀ (l : List α) (init : Array (Option α)),
    (l.foldl (fun (arr : Array (Option α)) x => arr.setIfInBounds (f x) (some x)) init).size = init.size := by
  intro l
  induction l with
  | nil => intro init; rfl
  | cons x t ih => intro init; rw [List.foldl_cons, ih]; simp

theorem scatter_touched {α : Type} (f : α → Nat) : ∀ (l : List α) (init : Array (Option α)),
    (l.map f).Nodup → (∀ y ∈ l, f y < init.size) →
    ∀ x ∈ l, (l.foldl (fun (arr : Array (Option α)) x => arr.setIfInBounds (f x) (some x)) init)[f x]? = some (some x) := by
  intro l
  induction l with
  | nil => intro init _ _ x hx; cases hx
  | cons a t ih =>
    intro init hnd hb x hx
    rw [List.map_cons, List.nodup_cons] at hnd
    rw [List.foldl_cons]
    rcases List.mem_cons.mp hx with rfl | hxt
    · rw [scatter_untouched f t _ (f x) (fun y hy hfy => hnd.1 (hfy ▸ List.mem_map_of_mem hy))]
      rw [Array.getElem?_setIfInBounds_self_of_lt (hb x List.mem_cons_self)]
    · exact ih _ hnd.2 (fun y hy => by simpa using hb y (List.mem_cons_of_mem _ hy)) x hxt

theorem lexIndex_lt (n k s : Nat) (h : s ∈ subsetsLex n k) : lexIndex n k s < Nat.choose n k := by
  have := getElem_lexIndex n k s h
  rw [← length_subsetsLex]
  exact (List.getElem?_eq_some_iff.mp this).1

theorem lexIndex_injective (n k s t : Nat) (hs : s ∈ subsetsLex n k) (ht : t ∈ subsetsLex n k)
    (h : lexIndex n k s = lexIndex n k t) : s = t := by
  have h1 := getElem_lexIndex n k s hs
  have h2 := getElem_lexIndex n k t ht
  rw [h] at h1
  rw [h1] at h2
  exact Option.some.inj h2

/-- **the string table is in the documented lexical order** (and therefore enumerates every occupation
    pattern exactly once; address lookup and string lookup are mutually inverse) -/
theorem stringTable_eq_subsetsLex (n k : Nat) : stringTable n k = subsetsLex n k := by
  unfold stringTable buildStrings
  simp only
  -- rewrite the model's guarded scatter as the plain scatter by lexIndex
  have hfold : ∀ (l : List Nat) (init : Array (Option Nat)), (∀ s ∈ l, s ∈ subsetsLex n k) →
      l.foldl (fun (arr : Array (Option Nat)) s =>
        let ad := addressOf n k s
        if ad < 0 then arr else arr.setIfInBounds ad.toNat (some s)) init =
      l.foldl (fun (arr : Array (Option Nat)) s => arr.setIfInBounds (lexIndex n k s) (some s)) init := by
    intro l
    induction l with
    | nil => intro init _; rfl
    | cons a t ih =>
      intro init hm
      rw [List.foldl_cons, List.foldl_cons]
      have ha := addressOf_eq_lexIndex n k a (hm a List.mem_cons_self)
      simp only [ha]
      have hnn : ¬ ((lexIndex n k a : Int) < 0) := by omega
      simp only [hnn, if_false, Int.toNat_natCast]
      exact ih _ (fun s hs => hm s (List.mem_cons_of_mem _ hs))
  have hmemAsc : ∀ s ∈ subsetsAsc n k, s ∈ subsetsLex n k := fun s hs =>
    (mem_subsetsLex n k s).2 ((mem_subsetsAsc n k s).1 hs)
  rw [hfold (subsetsAsc n k) _ hmemAsc]
  apply List.ext_getElem?
  intro p
  rw [List.getElem?_map, Array.getElem?_toList]
  by_cases hp : p < Nat.choose n k
  · -- the element of the lexical list at position p
    have hlen : p < (subsetsLex n k).length := by rw [length_subsetsLex]; exact hp
    obtain ⟨s, hs⟩ : ∃ s, (subsetsLex n k)[p]? = some s := ⟨(subsetsLex n k)[p], List.getElem?_eq_getElem hlen⟩
    have hsmem : s ∈ subsetsLex n k := List.mem_of_getElem? hs
    have hidx : lexIndex n k s = p := by
      have h1 := getElem_lexIndex n k s hsmem
      have hnd := subsetsLex_nodup n k
      have hl1 := (List.getElem?_eq_some_iff.mp h1)
      have hl2 := (List.getElem?_eq_some_iff.mp hs)
      exact (List.Nodup.getElem_inj_iff hnd).mp (hl1.2.trans hl2.2.symm)
    have hsAsc : s ∈ subsetsAsc n k := (mem_subsetsAsc n k s).2 ((mem_subsetsLex n k s).1 hsmem)
    have hnd : ((subsetsAsc n k).map (lexIndex n k)).Nodup := by
      rw [List.nodup_map_iff_inj_on (subsetsAsc_nodup n k)]
      intro a ha b hb hab
      exact lexIndex_injective n k a b (hmemAsc a ha) (hmemAsc b hb) hab
    have hb : ∀ y ∈ subsetsAsc n k, lexIndex n k y < (Array.replicate (binom n k) (none : Option Nat)).size := by
      intro y hy
      rw [Array.size_replicate, binom_eq_choose]
      exact lexIndex_lt n k y (hmemAsc y hy)
    have := scatter_touched (lexIndex n k) (subsetsAsc n k) _ hnd hb s hsAsc
    rw [hidx] at this
    rw [this, hs]
    rfl
  · have h1 : (subsetsLex n k)[p]? = none := by
      rw [List.getElem?_eq_none_iff, length_subsetsLex]; omega
    rw [h1]
    have hsz := scatter_size (lexIndex n k) (subsetsAsc n k) (Array.replicate (binom n k) (none : Option Nat))
    rw [Array.size_replicate] at hsz
    have hbc := binom_eq_choose n k
    have : (List.foldl (fun (arr : Array (Option Nat)) s => arr.setIfInBounds (lexIndex n k s) (some s))
        (Array.replicate (binom n k) none) (subsetsAsc n k))[p]? = none := by
      rw [Array.getElem?_eq_none_iff, hsz]; omega
    rw [this]; rfl

end Model
