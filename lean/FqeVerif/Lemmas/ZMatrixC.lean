/-
  Lemmas/ZMatrixC.lean — the accelerated-path Z matrix: the loops of `calculate_Z_matrix` (fci_graph.c) and the
  literal binomial table of `initialize_binom` (binom.h), both read from /repo on every run by cbits.py
  (Generated/BitsC.lean), compute the Model's `zEntry`.

  * `binomRows_eq` / `tabRead_spec`: the literal table is Pascal's triangle up to row 64 (2145 entries, `decide +kernel`);
  * `c_z1_value`: the accumulator of the inner loop reads initialised entries only and ends on `zEntry`;
  * `c_z_matrix`: stores, indices (row-major `ll - 1 + norb (k - 1)`) and loop ranges of both nests.
  Modelled, not verified: C `int` / `int64_t` arithmetic as `Int` (all intermediate values are below C(64,32) < 2^63)
  and the final narrowing `(int32_t)tmp` as the identity (true while the sector has fewer than 2^31 strings).
-/
import FqeVerif.Generated.BitsC
import FqeVerif.Lemmas.PyInt
import Mathlib.Tactic.Ring
namespace GenC
open Model PyPrelude

/-- a read of the table at a flat index `i` = row `i / 65`, column `i % 65`; an entry `initialize_binom` never assigned
    is uninitialised memory: `none` -/
def tabRead (i : Int) : Option Nat :=
  if i < 0 then none else (binomRows[i.toNat / 65]?).bind (fun row => row[i.toNat % 65]?)

set_option maxRecDepth 100000 in
theorem binomRows_eq : binomRows = (List.range 65).map (fun n => (List.range (n + 1)).map (fun k => binom n k)) := by
  decide +kernel

theorem tabRead_spec (n k : Nat) (hn : n ≤ 64) (hk : k ≤ n) : tabRead ((k : Int) + 65 * (n : Int)) = some (Nat.choose n k) := by
  unfold tabRead
  have h0 : ¬ ((k : Int) + 65 * (n : Int) < 0) := by omega
  have h1 : ((k : Int) + 65 * (n : Int)).toNat = n * 65 + k := by omega
  have h2 : (n * 65 + k) / 65 = n := by omega
  have h3 : (n * 65 + k) % 65 = k := by omega
  rw [if_neg h0, h1, h2, h3, binomRows_eq]
  simp only [List.getElem?_map, List.getElem?_range (show n < 65 by omega), Option.map_some, Option.bind_some,
    List.getElem?_range (show k < n + 1 by omega)]
  rw [binom_eq_choose]

/-- the accumulator `tmp` after the inner loop over `m`; `none` = a read of an entry that was never initialised -/
def czValue (norb nele k ll : Int) : Option Int :=
  (pyRange (cz_m_lo norb nele k ll) (cz_m_hi norb nele k ll)).foldl
    (fun acc m => match acc, tabRead (cz_idx_plus nele k m), tabRead (cz_idx_minus nele k m) with
      | some a, some x, some y => some (a + ((x : Int) - (y : Int)))
      | _, _, _ => none) (some 0)

theorem fold_reads (l : List Int) (F : Int → Int) (rd1 rd2 : Int → Option Nat)
    (h : ∀ m ∈ l, ∃ x y, rd1 m = some x ∧ rd2 m = some y ∧ F m = (x : Int) - (y : Int)) (a : Int) :
    l.foldl (fun acc m => match acc, rd1 m, rd2 m with
      | some a, some x, some y => some (a + ((x : Int) - (y : Int)))
      | _, _, _ => none) (some a) = some (l.foldl (fun acc m => acc + F m) a) := by
  induction l generalizing a with
  | nil => rfl
  | cons m rest ih =>
    obtain ⟨x, y, h1, h2, h3⟩ := h m (List.mem_cons_self)
    simp only [List.foldl_cons, h1, h2]
    rw [ih (fun m' hm' => h m' (List.mem_cons_of_mem _ hm')), h3]

/-- the value the first loop nest stores for (k, ll) = (r+1, c+1): every table read is initialised and the sum is the
    Model's entry (for all norb ≤ 64, the size of the table) -/
theorem c_z1_value (norb nele r c : Nat) (hN : norb ≤ 64) (hn : nele ≤ norb) (hr : r + 1 < nele) (hrc : r ≤ c)
    (hc : c ≤ norb - nele + r) :
    czValue (norb : Int) (nele : Int) ((r : Int) + 1) ((c : Int) + 1) = some (zEntry norb nele r c) := by
  rw [← GenPy.py_z1_value norb nele r c hr hrc hc hn]
  unfold czValue GenPy.z1_value pySum cz_m_lo cz_m_hi
  apply fold_reads
  intro m hm
  rw [GenPy.mem_pyRange] at hm
  obtain ⟨mm, rfl⟩ : ∃ mm : Nat, m = (mm : Int) := ⟨m.toNat, by omega⟩
  have hm1 : nele - (r + 1) + 1 ≤ mm := by omega
  have hm2 : mm ≤ norb - (r + 1) := by omega
  refine ⟨Nat.choose mm (nele - (r + 1)), Nat.choose (mm - 1) (nele - (r + 1) - 1), ?_, ?_, ?_⟩
  · unfold cz_idx_plus
    have e : (nele : Int) - ((r : Int) + 1) + (65 : Int) * (mm : Int) = ((nele - (r + 1) : Nat) : Int) + 65 * (mm : Int) := by omega
    rw [e]
    exact tabRead_spec mm (nele - (r + 1)) (by omega) (by omega)
  · unfold cz_idx_minus
    have e : (nele : Int) - ((r : Int) + 1) - (1 : Int) + (65 : Int) * ((mm : Int) - (1 : Int)) =
        ((nele - (r + 1) - 1 : Nat) : Int) + 65 * ((mm - 1 : Nat) : Int) := by omega
    rw [e]
    exact tabRead_spec (mm - 1) (nele - (r + 1) - 1) (by omega) (by omega)
  · unfold pyBinom
    have a1 : ((nele : Int) - ((r : Int) + 1)).toNat = nele - (r + 1) := by omega
    have a2 : (((nele : Int) - ((r : Int) + 1)) - (1 : Int)).toNat = nele - (r + 1) - 1 := by omega
    have a3 : ((mm : Int) - (1 : Int)).toNat = mm - 1 := by omega
    rw [a1, a2, a3, Int.toNat_natCast, binom_eq_choose, binom_eq_choose]

/-- **the accelerated Z matrix is the Model's**: for every norb ≤ 64 —
    (1) the loop variables (km, llm) of the first nest run over exactly the pairs (k, ll) = (r+1, c+1) of the Model's
        first branch, the value stored is `zEntry`, at the row-major position of (r, c);
    (2) the second nest stores `zEntry` of the last row at the row-major position;  -/
theorem c_z_matrix (norb nele : Nat) (hN : norb ≤ 64) (hn : nele ≤ norb) :
    (∀ km llm : Int, 0 ≤ km → km < cz_km_bound norb nele → 0 ≤ llm → llm < cz_llm_bound norb nele →
        ∃ r c : Nat, cz_k km = (r : Int) + 1 ∧ cz_ll llm (cz_k km) = (c : Int) + 1 ∧ r + 1 < nele ∧ r ≤ c ∧ c ≤ norb - nele + r ∧
          czValue (norb : Int) (nele : Int) (cz_k km) (cz_ll llm (cz_k km)) = some (zEntry norb nele r c) ∧
          cz_out1 norb (cz_k km) (cz_ll llm (cz_k km)) = ((c + norb * r : Nat) : Int)) ∧
    (∀ r c : Nat, r + 1 < nele → r ≤ c → c ≤ norb - nele + r →
        ∃ km llm : Int, 0 ≤ km ∧ km < cz_km_bound norb nele ∧ 0 ≤ llm ∧ llm < cz_llm_bound norb nele ∧
          cz_k km = (r : Int) + 1 ∧ cz_ll llm (cz_k km) = (c : Int) + 1) ∧
    (∀ ll : Int, cz2_lo norb nele ≤ ll → ll < cz2_hi norb nele → 0 < nele →
        ∃ c : Nat, ll = (c : Int) + 1 ∧ nele ≤ c + 1 ∧ c + 1 ≤ norb ∧
          cz2_val nele ll = zEntry norb nele (nele - 1) c ∧
          cz2_out norb (cz2_k norb nele) ll = ((c + norb * (nele - 1) : Nat) : Int)) := by
  refine ⟨?_, ?_, ?_⟩
  · intro km llm h1 h2 h3 h4
    unfold cz_km_bound at h2
    unfold cz_llm_bound at h4
    obtain ⟨r, rfl⟩ : ∃ r : Nat, km = (r : Int) := ⟨km.toNat, by omega⟩
    obtain ⟨d, rfl⟩ : ∃ d : Nat, llm = (d : Int) := ⟨llm.toNat, by omega⟩
    refine ⟨r, r + d, ?_, ?_, by omega, by omega, by omega, ?_, ?_⟩
    · unfold cz_k; rfl
    · unfold cz_ll cz_k; push_cast; omega
    · have e1 : cz_k (r : Int) = (r : Int) + 1 := by unfold cz_k; rfl
      have e2 : cz_ll (d : Int) ((r : Int) + 1) = ((r + d : Nat) : Int) + 1 := by unfold cz_ll; push_cast; omega
      rw [e1, e2]
      exact c_z1_value norb nele r (r + d) hN hn (by omega) (by omega) (by omega)
    · unfold cz_out1 cz_ll cz_k
      push_cast
      ring
  · intro r c h1 h2 h3
    refine ⟨(r : Int), ((c - r : Nat) : Int), by omega, ?_, by omega, ?_, ?_, ?_⟩
    · unfold cz_km_bound; omega
    · unfold cz_llm_bound; omega
    · unfold cz_k; rfl
    · unfold cz_ll cz_k; omega
  · intro ll h1 h2 h0
    unfold cz2_lo at h1
    unfold cz2_hi at h2
    obtain ⟨c, rfl⟩ : ∃ c : Nat, ll = (c : Int) + 1 := ⟨(ll - 1).toNat, by omega⟩
    refine ⟨c, rfl, by omega, by omega, ?_, ?_⟩
    · rw [← GenPy.py_z2_value norb nele c (by omega) (by omega) h0]
      unfold cz2_val GenPy.z2_value
      rfl
    · unfold cz2_out cz2_k
      have : ((nele - 1 : Nat) : Int) = (nele : Int) - 1 := by omega
      push_cast
      rw [this]
      ring

end GenC
