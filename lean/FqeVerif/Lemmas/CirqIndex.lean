/-
  Lemmas/CirqIndex.lean — the qubit index of a determinant under the Jordan–Wigner code:
  qubit `m = 2p + spin` (bit `2·norb − 1 − m` of the index) is set exactly when orbital `p` of that spin
  is occupied.  Hence the index map is injective on strings below `2^norb`, stays below `2^(2 norb)`,
  and the generic linear-code export with the identity code is the Jordan–Wigner export.
-/
import FqeVerif.Model.Cirq
import FqeVerif.Lemmas.Bits
namespace Model

/-- a number whose `m` low bits vanish is a multiple of `2^m` -/
theorem eq_mul_of_low_zero (x m : Nat) (h : ∀ i, i < m → x.testBit i = false) : x = 2 ^ m * (x / 2 ^ m) := by
  have hmod : x % 2 ^ m = 0 := by
    apply Nat.eq_of_testBit_eq
    intro i
    rw [Nat.testBit_mod_two_pow, Nat.zero_testBit]
    by_cases hi : i < m
    · simp [hi, h i hi]
    · simp [hi]
  have := Nat.div_add_mod x (2 ^ m)
  omega

/-- bits of one spin part after `p` orbitals: bit `i` is set iff `i` is the position of an occupied
    orbital `q < p` of that spin -/
theorem testBit_cirqPart (norb spin s : Nat) (hspin : spin ≤ 1) : ∀ (p : Nat), p ≤ norb → ∀ i,
    (cirqPart norb spin s p).testBit i =
      (decide (i < 2 * norb) && decide ((2 * norb - 1 - i) % 2 = spin) && decide ((2 * norb - 1 - i) / 2 < p) &&
        s.testBit ((2 * norb - 1 - i) / 2)) := by
  intro p
  induction p with
  | zero => intro _ i; simp [cirqPart]
  | succ p ih =>
    intro hp i
    have ihp := ih (by omega)
    rw [cirqPart]
    -- all bits of the accumulated part lie at positions > k
    have hk : 2 * p + spin ≤ 2 * norb - 1 := by omega
    have hlow : ∀ j, j < 2 * norb - 1 - (2 * p + spin) + 1 → (cirqPart norb spin s p).testBit j = false := by
      intro j hj
      rw [ihp]
      by_cases c1 : j < 2 * norb
      · by_cases c2 : (2 * norb - 1 - j) % 2 = spin
        · have c3 : ¬ (2 * norb - 1 - j) / 2 < p := by omega
          simp [c1, c2, c3]
        · simp [c1, c2]
      · simp [c1]
    have hmul := eq_mul_of_low_zero _ _ hlow
    by_cases hb : s.testBit p = true
    · simp only [hb, if_true]
      rw [hmul, Nat.testBit_two_pow_mul_add _ (Nat.pow_lt_pow_right (by omega) (by omega)), Nat.testBit_two_pow]
      by_cases c0 : i < 2 * norb - 1 - (2 * p + spin) + 1
      · simp only [c0, if_true]
        by_cases c1 : 2 * norb - 1 - (2 * p + spin) = i
        · have e1 : i < 2 * norb := by omega
          have e2 : (2 * norb - 1 - i) % 2 = spin := by omega
          have e3 : (2 * norb - 1 - i) / 2 = p := by omega
          simp [c1, e1, e2, e3, hb]
        · have : ¬ ((2 * norb - 1 - i) % 2 = spin ∧ (2 * norb - 1 - i) / 2 < p + 1) := by omega
          by_cases e2 : (2 * norb - 1 - i) % 2 = spin
          · have e3 : ¬ (2 * norb - 1 - i) / 2 < p + 1 := by omega
            simp [c1, e2, e3]
          · simp [c1, e2]
      · simp only [c0, if_false]
        have hold := ihp i
        rw [hmul, show 2 ^ (2 * norb - 1 - (2 * p + spin) + 1) * (cirqPart norb spin s p / 2 ^ (2 * norb - 1 - (2 * p + spin) + 1)) =
          2 ^ (2 * norb - 1 - (2 * p + spin) + 1) * (cirqPart norb spin s p / 2 ^ (2 * norb - 1 - (2 * p + spin) + 1)) + 0 from rfl,
          Nat.testBit_two_pow_mul_add _ (Nat.two_pow_pos _)] at hold
        simp only [c0, if_false] at hold
        rw [hold]
        by_cases e1 : i < 2 * norb
        · by_cases e2 : (2 * norb - 1 - i) % 2 = spin
          · have e3 : ((2 * norb - 1 - i) / 2 < p) ↔ ((2 * norb - 1 - i) / 2 < p + 1) := by omega
            by_cases e4 : (2 * norb - 1 - i) / 2 < p
            · simp [e1, e2, e4, e3.1 e4]
            · have e5 : ¬ (2 * norb - 1 - i) / 2 < p + 1 := fun h => e4 (e3.2 h)
              simp [e1, e2, e4, e5]
          · simp [e1, e2]
        · simp [e1]
    · have hb' : s.testBit p = false := by simpa using hb
      simp only [hb', Bool.false_eq_true, if_false, Nat.add_zero]
      rw [ihp i]
      by_cases e1 : i < 2 * norb
      · by_cases e2 : (2 * norb - 1 - i) % 2 = spin
        · by_cases e4 : (2 * norb - 1 - i) / 2 < p
          · have e5 : (2 * norb - 1 - i) / 2 < p + 1 := by omega
            simp [e1, e2, e4, e5]
          · by_cases e6 : (2 * norb - 1 - i) / 2 = p
            · simp [e1, e2, e6, hb']
            · have e5 : ¬ (2 * norb - 1 - i) / 2 < p + 1 := by omega
              simp [e1, e2, e4, e5]
        · simp [e1, e2]
      · simp [e1]

/-- the qubit of mode `m = 2p + spin` is set in the index iff the orbital is occupied -/
theorem testBit_cirqIndex (norb a b i : Nat) :
    (cirqIndex norb a b).testBit i =
      (decide (i < 2 * norb) &&
        (if (2 * norb - 1 - i) % 2 = 0 then a.testBit ((2 * norb - 1 - i) / 2) else b.testBit ((2 * norb - 1 - i) / 2))) := by
  unfold cirqIndex
  rw [Nat.testBit_xor, testBit_cirqPart norb 0 a (by omega) norb (Nat.le_refl _),
    testBit_cirqPart norb 1 b (by omega) norb (Nat.le_refl _)]
  by_cases e1 : i < 2 * norb
  · have e3 : (2 * norb - 1 - i) / 2 < norb := by omega
    by_cases e2 : (2 * norb - 1 - i) % 2 = 0
    · have e2' : ¬ (2 * norb - 1 - i) % 2 = 1 := by omega
      simp [e1, e2, e2', e3]
    · have e2' : (2 * norb - 1 - i) % 2 = 1 := by omega
      simp [e1, e2, e2', e3]
  · simp [e1]

theorem cirqIndex_lt (norb a b : Nat) : cirqIndex norb a b < 2 ^ (2 * norb) := by
  apply Nat.lt_pow_two_of_testBit
  intro i hi
  rw [testBit_cirqIndex]
  have : ¬ i < 2 * norb := by omega
  simp [this]

/-- different determinants sit at different indices -/
theorem cirqIndex_injective (norb a b a' b' : Nat) (ha : a < 2 ^ norb) (hb : b < 2 ^ norb)
    (ha' : a' < 2 ^ norb) (hb' : b' < 2 ^ norb) (h : cirqIndex norb a b = cirqIndex norb a' b') :
    a = a' ∧ b = b' := by
  have key : ∀ i, (cirqIndex norb a b).testBit i = (cirqIndex norb a' b').testBit i := by intro i; rw [h]
  have high : ∀ (x : Nat), x < 2 ^ norb → ∀ p, norb ≤ p → x.testBit p = false := by
    intro x hx p hp
    exact Nat.testBit_lt_two_pow (Nat.lt_of_lt_of_le hx (Nat.pow_le_pow_right (by omega) hp))
  constructor
  · apply Nat.eq_of_testBit_eq
    intro p
    by_cases hp : p < norb
    · have := key (2 * norb - 1 - 2 * p)
      rw [testBit_cirqIndex, testBit_cirqIndex] at this
      have e1 : 2 * norb - 1 - 2 * p < 2 * norb := by omega
      have e2 : (2 * norb - 1 - (2 * norb - 1 - 2 * p)) % 2 = 0 := by omega
      have e3 : (2 * norb - 1 - (2 * norb - 1 - 2 * p)) / 2 = p := by omega
      simpa [e1, e2, e3] using this
    · rw [high a ha p (by omega), high a' ha' p (by omega)]
  · apply Nat.eq_of_testBit_eq
    intro p
    by_cases hp : p < norb
    · have := key (2 * norb - 1 - (2 * p + 1))
      rw [testBit_cirqIndex, testBit_cirqIndex] at this
      have e1 : 2 * norb - 1 - (2 * p + 1) < 2 * norb := by omega
      have e2 : ¬ (2 * norb - 1 - (2 * norb - 1 - (2 * p + 1))) % 2 = 0 := by omega
      have e3 : (2 * norb - 1 - (2 * norb - 1 - (2 * p + 1))) / 2 = p := by omega
      simpa [e1, e2, e3] using this
    · rw [high b hb p (by omega), high b' hb' p (by omega)]

/-- the Jordan–Wigner code as a linear binary code: mode `m` ↦ qubit `m` -/
def jwCols (norb : Nat) : List Nat := (List.range (2 * norb)).map (fun m => 2 ^ (2 * norb - 1 - m))

theorem jwCols_getD (norb m : Nat) (h : m < 2 * norb) : (jwCols norb).getD m 0 = 2 ^ (2 * norb - 1 - m) := by
  unfold jwCols
  simp [List.getD_eq_getElem?_getD, List.getElem?_map, List.getElem?_range, h]

/-- occupation of mode `m` in the determinant `(a, b)` -/
def occMode (a b m : Nat) : Bool := if m % 2 = 0 then a.testBit (m / 2) else b.testBit (m / 2)

theorem code_fold_jw (norb a b : Nat) : ∀ k, k ≤ 2 * norb → ∀ i,
    ((List.range k).foldl (fun acc m =>
        if occMode a b m then acc ^^^ (jwCols norb).getD m 0 else acc) 0).testBit i =
      (decide (i < 2 * norb) && decide (2 * norb - 1 - i < k) && occMode a b (2 * norb - 1 - i)) := by
  intro k
  induction k with
  | zero => intro _ i; simp
  | succ k ih =>
    intro hk i
    rw [List.range_succ, List.foldl_append, List.foldl_cons, List.foldl_nil]
    have ihk := ih (by omega) i
    by_cases ho : occMode a b k = true
    · simp only [ho, if_true]
      rw [Nat.testBit_xor, ihk, jwCols_getD norb k (by omega), Nat.testBit_two_pow]
      by_cases e1 : i < 2 * norb
      · by_cases e2 : 2 * norb - 1 - k = i
        · have e3 : 2 * norb - 1 - i = k := by omega
          have e4 : ¬ k < k := by omega
          simp [e1, e2, e3, e4, ho]
        · by_cases e5 : 2 * norb - 1 - i < k
          · have e6 : 2 * norb - 1 - i < k + 1 := by omega
            simp [e1, e2, e5, e6]
          · have e6 : ¬ 2 * norb - 1 - i < k + 1 := by omega
            simp [e1, e2, e5, e6]
      · have e2 : ¬ 2 * norb - 1 - k = i := by omega
        simp [e1, e2]
    · have ho' : occMode a b k = false := by simpa using ho
      simp only [ho', Bool.false_eq_true, if_false]
      rw [ihk]
      by_cases e1 : i < 2 * norb
      · by_cases e5 : 2 * norb - 1 - i < k
        · have e6 : 2 * norb - 1 - i < k + 1 := by omega
          simp [e1, e5, e6]
        · by_cases e7 : 2 * norb - 1 - i = k
          · simp [e1, e7, ho']
          · have e6 : ¬ 2 * norb - 1 - i < k + 1 := by omega
            simp [e1, e5, e6]
      · simp [e1]

/-- the generic linear-code export with the Jordan–Wigner columns is the Jordan–Wigner export -/
theorem cirqIndexCode_jw (norb a b : Nat) : cirqIndexCode norb (jwCols norb) a b = cirqIndex norb a b := by
  apply Nat.eq_of_testBit_eq
  intro i
  have h := code_fold_jw norb a b (2 * norb) (Nat.le_refl _) i
  unfold cirqIndexCode
  unfold occMode at h
  rw [h, testBit_cirqIndex]
  by_cases e1 : i < 2 * norb
  · have e2 : 2 * norb - 1 - i < 2 * norb := by omega
    simp [e1, e2]
  · simp [e1]

/-- the code export of a determinant is the XOR of the export of its alpha string and of its beta string
    (the library tabulates the two parts per string and XORs them per determinant) -/
theorem cirqIndexCode_split (norb : Nat) (cols : List Nat) (a b : Nat) :
    cirqIndexCode norb cols a b = cirqIndexCode norb cols a 0 ^^^ cirqIndexCode norb cols 0 b := by
  unfold cirqIndexCode
  generalize 2 * norb = n
  induction n with
  | zero => simp
  | succ k ih =>
    rw [List.range_succ, List.foldl_append, List.foldl_append, List.foldl_append, ih]
    simp only [List.foldl_cons, List.foldl_nil, Nat.zero_testBit]
    by_cases hk : k % 2 = 0
    · simp only [hk, if_true, Bool.false_eq_true, if_false]
      by_cases ha : a.testBit (k / 2) = true
      · simp only [ha, if_true]
        rw [Nat.xor_assoc, Nat.xor_comm _ (cols.getD k 0), ← Nat.xor_assoc]
      · simp [ha]
    · simp only [hk, if_false, Bool.false_eq_true]
      by_cases hb : b.testBit (k / 2) = true
      · simp only [hb, if_true]
        rw [Nat.xor_assoc]
      · simp [hb]

end Model
