/-
  Lemmas/Bits.lean — the Python bit helpers of Model/Bits equal their arithmetic definitions.
-/
import FqeVerif.Model.Bits
import FqeVerif.Spec.Fock
namespace Model
open Fock

/-- number of positions `r < n` with `s.testBit r` and `p r` -/
def cntIf (s : Nat) (p : Nat → Bool) : Nat → Nat
  | 0 => 0
  | n+1 => cntIf s p n + (if s.testBit n && p n then 1 else 0)

/-- number of set bits below position `n` -/
def cnt (s n : Nat) : Nat := cntIf s (fun _ => true) n

theorem cntIf_shift (s : Nat) (p : Nat → Bool) (n : Nat) :
    cntIf s p (n + 1) = (if s.testBit 0 && p 0 then 1 else 0) + cntIf (s / 2) (fun r => p (r + 1)) n := by
  induction n with
  | zero => simp [cntIf]
  | succ n ih =>
    rw [cntIf, ih, cntIf]
    have : (s / 2).testBit n = s.testBit (n + 1) := by
      rw [Nat.testBit_succ]
    rw [this]; omega

theorem countBitsAux_zero (f : Nat) : countBitsAux f 0 = 0 := by
  cases f <;> simp [countBitsAux]

theorem countBitsAux_succ (f s : Nat) : countBitsAux (f + 1) s = s % 2 + countBitsAux f (s / 2) := by
  rw [countBitsAux]
  by_cases h : s = 0
  · subst h; simp [countBitsAux_zero]
  · simp [h]

theorem countBitsAux_eq_cnt (f : Nat) : ∀ s, s < 2 ^ f → countBitsAux f s = cnt s f := by
  induction f with
  | zero =>
    intro s h
    have : s = 0 := by simpa using h
    subst this; simp [countBitsAux, cnt, cntIf]
  | succ n ih =>
    intro s h
    unfold cnt
    rw [cntIf_shift, countBitsAux_succ]
    have hs : s / 2 < 2 ^ n := by
      rw [Nat.pow_succ] at h; omega
    have := ih (s / 2) hs
    unfold cnt at this
    rw [← this]
    have : s.testBit 0 = decide (s % 2 = 1) := by rw [Nat.testBit_zero]
    rw [this]
    by_cases h2 : s % 2 = 1 <;> simp [h2] <;> omega

theorem cnt_stable (s n : Nat) (h : s < 2 ^ n) (k : Nat) : cnt s (n + k) = cnt s n := by
  induction k with
  | zero => rfl
  | succ k ih =>
    unfold cnt at *
    rw [← Nat.add_assoc, cntIf, ih]
    have : s.testBit (n + k) = false :=
      Nat.testBit_lt_two_pow (Nat.lt_of_lt_of_le h (Nat.pow_le_pow_right (by omega) (by omega)))
    simp [this]

theorem countBits_eq_cnt (n : Nat) (s : Nat) (h : s < 2 ^ n) : countBits s = cnt s n := by
  unfold countBits
  rw [countBitsAux_eq_cnt s s Nat.lt_two_pow_self]
  rcases Nat.le_total s n with hle | hle
  · obtain ⟨k, hk⟩ := Nat.exists_eq_add_of_le hle
    rw [hk]
    exact (cnt_stable s s Nat.lt_two_pow_self k).symm
  · obtain ⟨k, hk⟩ := Nat.exists_eq_add_of_le hle
    have := cnt_stable s n h k
    rw [← hk] at this
    exact this

/-- parity of `cntIf` with the constant-true predicate is `par` -/
theorem cnt_parity (s n : Nat) : decide (cnt s n % 2 = 1) = par s n := by
  induction n with
  | zero => simp [cnt, cntIf, par]
  | succ n ih =>
    unfold cnt at *
    rw [cntIf, par, ← ih]
    cases hb : s.testBit n <;> simp <;> by_cases h : cntIf s (fun _ => true) n % 2 = 1 <;> simp [h] <;> omega

theorem one_shiftLeft_eq (p : Nat) : 1 <<< p = 2 ^ p := by simp [Nat.shiftLeft_eq]

theorem testBit_mask (p r : Nat) : ((1 <<< p) - 1).testBit r = decide (r < p) := by
  rw [one_shiftLeft_eq, Nat.testBit_two_pow_sub_one]

theorem testBit_andNot (s m r : Nat) : (andNot s m).testBit r = (s.testBit r && !m.testBit r) := by
  unfold andNot
  rw [Nat.testBit_xor, Nat.testBit_and]
  cases s.testBit r <;> cases m.testBit r <;> rfl

/-- `cntIf` only depends on the bits -/
theorem cntIf_congr (s t : Nat) (p q : Nat → Bool) (n : Nat)
    (h : ∀ r, r < n → (s.testBit r && p r) = (t.testBit r && q r)) : cntIf s p n = cntIf t q n := by
  induction n with
  | zero => rfl
  | succ n ih =>
    rw [cntIf, cntIf, ih (fun r hr => h r (by omega)), h n (by omega)]

theorem cnt_and (s m n : Nat) : cnt (s &&& m) n = cntIf s (fun r => m.testBit r) n := by
  unfold cnt
  apply cntIf_congr
  intro r _
  rw [Nat.testBit_and]; simp

theorem and_lt_two_pow (s m n : Nat) (h : s < 2 ^ n) : s &&& m < 2 ^ n :=
  Nat.lt_of_le_of_lt Nat.and_le_left h

theorem andNot_lt_two_pow (s m n : Nat) (h : s < 2 ^ n) : andNot s m < 2 ^ n := by
  apply Nat.lt_pow_two_of_testBit
  intro i hi
  rw [testBit_andNot]
  have : s.testBit i = false := Nat.testBit_lt_two_pow (Nat.lt_of_lt_of_le h (Nat.pow_le_pow_right (by omega) hi))
  simp [this]

/-- `count_bits_below` counts exactly the set bits at positions `< pos` -/
theorem countBitsBelow_eq (s pos n : Nat) (h : s < 2 ^ n) :
    countBitsBelow s pos = cntIf s (fun r => decide (r < pos)) n := by
  unfold countBitsBelow
  rw [countBits_eq_cnt n _ (and_lt_two_pow _ _ _ h), cnt_and]
  apply cntIf_congr; intro r _; rw [testBit_mask]

/-- `count_bits_above` counts exactly the set bits at positions `> pos` -/
theorem countBitsAbove_eq (s pos n : Nat) (h : s < 2 ^ n) :
    countBitsAbove s pos = cntIf s (fun r => decide (pos < r)) n := by
  unfold countBitsAbove
  rw [countBits_eq_cnt n _ (andNot_lt_two_pow _ _ _ h)]
  unfold cnt
  apply cntIf_congr; intro r _
  rw [testBit_andNot, testBit_mask]
  by_cases h1 : r < pos + 1
  · have : ¬ pos < r := by omega
    simp [h1, this]
  · have : pos < r := by omega
    simp [h1, this]

theorem between_mask (r p1 p2 : Nat) (hne : p1 ≠ p2) :
    ((decide (r < p1) ^^ decide (r < p2 + 1)) && (decide (r < p2) ^^ decide (r < p1 + 1))) =
      decide (min p1 p2 < r ∧ r < max p1 p2) := by
  rw [Nat.min_def, Nat.max_def]
  by_cases h : p1 ≤ p2
  · simp only [h, if_true]
    by_cases a : r < p1 <;> by_cases b : r < p2 + 1 <;> by_cases c : r < p2 <;> by_cases d : r < p1 + 1 <;>
      simp [a, b, c, d] <;> omega
  · simp only [h, if_false]
    by_cases a : r < p1 <;> by_cases b : r < p2 + 1 <;> by_cases c : r < p2 <;> by_cases d : r < p1 + 1 <;>
      simp [a, b, c, d] <;> omega

/-- `count_bits_between` counts exactly the set bits strictly between the two positions,
    whichever is larger.  The hypothesis `p1 ≠ p2` is forced by the proof: for `p1 = p2` the mask
    is the single bit `p1` (see `countBitsBetween_same`), not the empty set. -/
theorem countBitsBetween_eq (s p1 p2 n : Nat) (h : s < 2 ^ n) (hne : p1 ≠ p2) :
    countBitsBetween s p1 p2 =
      cntIf s (fun r => decide (min p1 p2 < r ∧ r < max p1 p2)) n := by
  unfold countBitsBetween
  simp only []
  rw [countBits_eq_cnt n _ (and_lt_two_pow _ _ _ h), cnt_and]
  apply cntIf_congr; intro r _
  rw [Nat.testBit_and, Nat.testBit_xor, Nat.testBit_xor, testBit_mask, testBit_mask, testBit_mask,
    testBit_mask, between_mask _ _ _ hne]

/-- the excluded point: with equal positions the source's mask selects bit `p` itself -/
theorem countBitsBetween_same (s p n : Nat) (h : s < 2 ^ n) :
    countBitsBetween s p p = cntIf s (fun r => decide (r = p)) n := by
  unfold countBitsBetween
  simp only []
  rw [countBits_eq_cnt n _ (and_lt_two_pow _ _ _ h), cnt_and]
  apply cntIf_congr; intro r _
  rw [Nat.testBit_and, Nat.testBit_xor, testBit_mask, testBit_mask]
  congr 1
  by_cases a : r < p <;> by_cases b : r < p + 1 <;> simp [a, b] <;> omega

/-- bit-level meaning of the setters/getters -/
theorem testBit_setBit (s p r : Nat) : (setBit s p).testBit r = (s.testBit r || decide (p = r)) := by
  unfold setBit
  rw [Nat.testBit_or, one_shiftLeft_eq, Nat.testBit_two_pow]

theorem testBit_unsetBit (s p r : Nat) : (unsetBit s p).testBit r = (s.testBit r && !decide (p = r)) := by
  unfold unsetBit
  rw [testBit_andNot, one_shiftLeft_eq, Nat.testBit_two_pow]

theorem getBit_ne_zero (s p : Nat) : (getBit s p ≠ 0) ↔ s.testBit p = true := by
  unfold getBit
  rw [one_shiftLeft_eq]
  constructor
  · intro h
    by_cases hb : s.testBit p = true
    · exact hb
    · exfalso; apply h
      apply Nat.eq_of_testBit_eq
      intro i
      rw [Nat.testBit_and, Nat.testBit_two_pow, Nat.zero_testBit]
      by_cases hi : p = i
      · subst hi; simp at hb; simp [hb]
      · simp [hi]
  · intro hb h
    have : (s &&& 2 ^ p).testBit p = true := by
      rw [Nat.testBit_and, Nat.testBit_two_pow, hb]; simp
    rw [h] at this; simp at this

end Model
