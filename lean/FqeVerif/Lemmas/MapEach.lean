/-
  Lemmas/MapEach.lean — `make_mapping_each`'s inner loops (Model.mapEachStep) compute the action of the
  operator string on one spin string in FQE's descending convention: every factor is a ladder step with
  sign "occupied orbitals above", rightmost factor first.
-/
import FqeVerif.Lemmas.Excite
namespace Model
open Fock

/-- one ladder step on a single spin string, descending convention -/
def descLadder (norb : Nat) (dagf : Bool) (q s : Nat) : Option (Bool × Nat) :=
  if s.testBit q = dagf then none else some (parAbove norb s q, Fock.flip s q)

/-- a product of ladder factors `(orbital, dagger)` on one spin string; rightmost acts first -/
def descApply (norb : Nat) : List (Nat × Bool) → Nat → Option (Bool × Nat)
  | [], s => some (false, s)
  | (q, dg) :: rest, s =>
    match descApply norb rest s with
    | none => none
    | some (sg, t) =>
      match descLadder norb dg q t with
      | none => none
      | some (sg', t') => some (sg ^^ sg', t')

/-- the bookkeeping step of `make_mapping_each` for one factor -/
def mapStep (cp : Nat × Nat) (x : Nat × Bool) : Nat × Nat :=
  (if x.2 then setBit cp.1 x.1 else unsetBit cp.1 x.1, cp.2 + countBitsAbove cp.1 x.1)

/-- process the factors from the right end -/
def stepFold (l : List (Nat × Bool)) (cp : Nat × Nat) : Nat × Nat := l.reverse.foldl mapStep cp

theorem stepFold_cons (x : Nat × Bool) (l : List (Nat × Bool)) (cp : Nat × Nat) :
    stepFold (x :: l) cp = mapStep (stepFold l cp) x := by
  unfold stepFold
  rw [List.reverse_cons, List.foldl_append]
  rfl

theorem mapEachStep_eq_stepFold (dag undag : List Nat) (s : Nat) :
    mapEachStep dag undag s = stepFold (dag.map (fun i => (i, true)) ++ undag.map (fun i => (i, false))) (s, 0) := by
  unfold mapEachStep stepFold
  rw [List.reverse_append, List.foldl_append]
  have hu : ∀ (l : List Nat) (cp : Nat × Nat),
      l.foldl (fun (cp : Nat × Nat) i => (unsetBit cp.1 i, cp.2 + countBitsAbove cp.1 i)) cp =
      (l.map (fun i => (i, false))).foldl mapStep cp := by
    intro l
    induction l with
    | nil => intro cp; rfl
    | cons a t ih => intro cp; simp only [List.foldl_cons, List.map_cons]; rw [ih]; rfl
  have hd : ∀ (l : List Nat) (cp : Nat × Nat),
      l.foldl (fun (cp : Nat × Nat) i => (setBit cp.1 i, cp.2 + countBitsAbove cp.1 i)) cp =
      (l.map (fun i => (i, true))).foldl mapStep cp := by
    intro l
    induction l with
    | nil => intro cp; rfl
    | cons a t ih => intro cp; simp only [List.foldl_cons, List.map_cons]; rw [ih]; rfl
  rw [← List.map_reverse, ← List.map_reverse, ← hu, ← hd]

theorem setBit_eq_flip (s q : Nat) (h : s.testBit q = false) : setBit s q = Fock.flip s q := by
  apply Nat.eq_of_testBit_eq
  intro r
  rw [testBit_setBit, testBit_flip]
  by_cases e : q = r
  · subst e; simp [h]
  · simp [e]

theorem unsetBit_eq_flip (s q : Nat) (h : s.testBit q = true) : unsetBit s q = Fock.flip s q := by
  apply Nat.eq_of_testBit_eq
  intro r
  rw [testBit_unsetBit, testBit_flip]
  by_cases e : q = r
  · subst e; simp [h]
  · simp [e]

theorem flip_lt_two_pow (s q n : Nat) (hs : s < 2 ^ n) (hq : q < n) : Fock.flip s q < 2 ^ n := by
  apply Nat.lt_pow_two_of_testBit
  intro i hi
  rw [testBit_flip]
  have h1 : s.testBit i = false := Nat.testBit_lt_two_pow (Nat.lt_of_lt_of_le hs (Nat.pow_le_pow_right (by omega) hi))
  have h2 : decide (q = i) = false := by simp; omega
  simp [h1, h2]

/-- **`make_mapping_each` is the descending-convention ladder product**: whenever the operator string
    acts (rightmost factor first) on string `s` with result `(sign, t)`, the bookkeeping loop reaches the
    same target `t` and its accumulated count has the parity `sign` -/
theorem stepFold_spec (norb : Nat) : ∀ (l : List (Nat × Bool)) (s p0 : Nat) (sg : Bool) (t : Nat),
    s < 2 ^ norb → (∀ x ∈ l, x.1 < norb) → descApply norb l s = some (sg, t) →
    ∃ k, stepFold l (s, p0) = (t, p0 + k) ∧ decide (k % 2 = 1) = sg ∧ t < 2 ^ norb := by
  intro l
  induction l with
  | nil =>
    intro s p0 sg t hs _ h
    simp only [descApply, Option.some.injEq, Prod.mk.injEq] at h
    obtain ⟨h1, h2⟩ := h
    subst h1; subst h2
    exact ⟨0, by simp [stepFold], by simp, hs⟩
  | cons x rest ih =>
    intro s p0 sg t hs hb h
    obtain ⟨q, dg⟩ := x
    have hq : q < norb := hb (q, dg) List.mem_cons_self
    have hb' : ∀ y ∈ rest, y.1 < norb := fun y hy => hb y (List.mem_cons_of_mem _ hy)
    unfold descApply at h
    cases hr : descApply norb rest s with
    | none => simp [hr] at h
    | some r =>
      obtain ⟨sg1, t1⟩ := r
      simp only [hr] at h
      obtain ⟨k1, hk1, hp1, ht1⟩ := ih s p0 sg1 t1 hs hb' hr
      unfold descLadder at h
      by_cases hbit : t1.testBit q = dg
      · simp [hbit] at h
      · simp only [hbit, if_false, Option.some.injEq, Prod.mk.injEq] at h
        obtain ⟨hsg, ht⟩ := h
        rw [stepFold_cons, hk1]
        unfold mapStep
        simp only
        have hpar := countBitsAbove_parity t1 q norb ht1 hq
        refine ⟨k1 + countBitsAbove t1 q, ?_, ?_, ?_⟩
        · have htgt : (if dg = true then setBit t1 q else unsetBit t1 q) = t := by
            cases dg with
            | true =>
              have : t1.testBit q = false := by
                cases hv : t1.testBit q
                · rfl
                · exact absurd hv hbit
              simp only [if_true]
              rw [setBit_eq_flip t1 q this]; exact ht
            | false =>
              have : t1.testBit q = true := by
                cases hv : t1.testBit q
                · exact absurd hv hbit
                · rfl
              simp only [Bool.false_eq_true, if_false]
              rw [unsetBit_eq_flip t1 q this]; exact ht
          rw [htgt, Nat.add_assoc]
        · rw [← hsg, ← hp1, ← hpar]
          by_cases a : k1 % 2 = 1 <;> by_cases b : countBitsAbove t1 q % 2 = 1 <;> simp [a, b] <;> omega
        · rw [← ht]; exact flip_lt_two_pow t1 q norb ht1 hq

end Model
