/-
  Lemmas/Gosper.lean — Gosper's hack (`lexicographic_bitstring_generator`, C) enumerates the
  k-subsets of {0..n-1} in increasing numeric order, for every n ≤ 63 and every k.

  Shape of a positive word: `[A] 0 1^r 0^t` (`r ≥ 1`).  One Gosper step turns it into
  `[A] 1 0^(t+1) 1^(r-1)`.  Consecutive elements of `subsetsAsc n k` are related by exactly this
  step (induction on n over the recursive structure of the list), hence the loop reproduces the list.
-/
import FqeVerif.Model.Strings
import FqeVerif.Lemmas.Bits
import FqeVerif.Lemmas.Subsets
import Mathlib.Tactic.Ring
import FqeVerif.Lemmas.Binom
namespace Model

/-- the word `[A] 0 1^r 0^t` -/
def shape (A r t : Nat) : Nat := 2 ^ (t + r + 1) * A + 2 ^ t * (2 ^ r - 1)

/-- the word `[A] 1 0^(t+1) 1^(r-1)` -/
def shapeNext (A r t : Nat) : Nat := 2 ^ (t + r) * (2 * A + 1) + (2 ^ (r - 1) - 1)

theorem two_pow_pred_succ (r : Nat) : 2 ^ r - 1 + 1 = 2 ^ r := Nat.sub_add_cancel Nat.one_le_two_pow

theorem run_lt (r t : Nat) : 2 ^ t * (2 ^ r - 1) < 2 ^ (t + r) := by
  rw [Nat.pow_add]
  apply Nat.mul_lt_mul_of_pos_left _ (Nat.two_pow_pos t)
  have := two_pow_pred_succ r
  omega

/-- lowest set bit: `w & -w` on 64-bit words, for `w = 2^t (2B+1)` -/
theorem lowbit (B t : Nat) (h : 2 ^ t * (2 * B + 1) < 2 ^ 64) :
    (2 ^ t * (2 * B + 1)) &&& (2 ^ 64 - 2 ^ t * (2 * B + 1)) = 2 ^ t := by
  have hpos : 0 < 2 ^ t * (2 * B + 1) := Nat.mul_pos (Nat.two_pow_pos t) (by omega)
  have e : 2 ^ 64 - 2 ^ t * (2 * B + 1) = 2 ^ 64 - ((2 ^ t * (2 * B + 1) - 1) + 1) := by omega
  have hlt : 2 ^ t * (2 * B + 1) - 1 < 2 ^ 64 := by omega
  have hm1 : 2 ^ t * (2 * B + 1) - 1 = 2 ^ t * (2 * B) + (2 ^ t - 1) := by
    have := Nat.two_pow_pos t
    rw [Nat.mul_add, Nat.mul_one]
    omega
  apply Nat.eq_of_testBit_eq
  intro i
  rw [Nat.testBit_and, e, Nat.testBit_two_pow_sub_succ hlt, hm1, Nat.testBit_two_pow]
  have hx : (2 ^ t * (2 * B + 1)).testBit i = (2 ^ t * (2 * B + 1) + 0).testBit i := rfl
  rw [hx, Nat.testBit_two_pow_mul_add _ (Nat.two_pow_pos t),
    Nat.testBit_two_pow_mul_add _ (by have := Nat.two_pow_pos t; omega : 2 ^ t - 1 < 2 ^ t)]
  by_cases h1 : i < t
  · have : ¬ t = i := by omega
    simp [h1, this]
  · by_cases h2 : i = t
    · subst h2
      have h64 : i < 64 := by
        apply Nat.lt_of_not_le
        intro hge
        have : 2 ^ 64 ≤ 2 ^ i := Nat.pow_le_pow_right (by omega) hge
        have : 2 ^ i ≤ 2 ^ i * (2 * B + 1) := Nat.le_mul_of_pos_right _ (by omega)
        omega
      simp [h64]
    · have h3 : ¬ t = i := by omega
      simp only [h1, if_false, h3, decide_false]
      obtain ⟨j, hj⟩ : ∃ j, i - t = j + 1 := ⟨i - t - 1, by omega⟩
      rw [hj, Nat.testBit_succ, Nat.testBit_succ]
      have e1 : (2 * B + 1) / 2 = B := by omega
      have e2 : (2 * B) / 2 = B := by omega
      rw [e1, e2]
      cases B.testBit j <;> simp

theorem testBit_run (r t i : Nat) : (2 ^ t * (2 ^ r - 1)).testBit i = (decide (t ≤ i) && decide (i < t + r)) := by
  have hx : (2 ^ t * (2 ^ r - 1)).testBit i = (2 ^ t * (2 ^ r - 1) + 0).testBit i := rfl
  rw [hx, Nat.testBit_two_pow_mul_add _ (Nat.two_pow_pos t)]
  by_cases h : i < t
  · have : ¬ t ≤ i := by omega
    simp [h, this]
  · have h' : t ≤ i := by omega
    simp only [h, if_false, Nat.testBit_two_pow_sub_one, h', decide_true, Bool.true_and]
    congr 1
    simp only [eq_iff_iff]
    omega

theorem testBit_shape (A r t i : Nat) :
    (shape A r t).testBit i =
      if i < t + r + 1 then (decide (t ≤ i) && decide (i < t + r)) else A.testBit (i - (t + r + 1)) := by
  unfold shape
  rw [Nat.testBit_two_pow_mul_add _ (Nat.lt_trans (run_lt r t) (Nat.pow_lt_pow_right (by omega) (by omega))),
    testBit_run]

theorem carry_eq (A r t : Nat) : 2 ^ (t + r) * (2 * A + 1) = 2 ^ (t + r + 1) * A + 2 ^ (t + r) := by
  rw [Nat.pow_succ]; ring

theorem testBit_carry (A r t i : Nat) :
    (2 ^ (t + r) * (2 * A + 1)).testBit i =
      if i < t + r + 1 then decide (t + r = i) else A.testBit (i - (t + r + 1)) := by
  rw [carry_eq, Nat.testBit_two_pow_mul_add _ (Nat.pow_lt_pow_right (by omega) (by omega)), Nat.testBit_two_pow]

/-- `combo & ~y` isolates the lowest run of ones -/
theorem andNot_shape (A r t : Nat) :
    andNot (shape A r t) (2 ^ (t + r) * (2 * A + 1)) = 2 ^ t * (2 ^ r - 1) := by
  apply Nat.eq_of_testBit_eq
  intro i
  rw [testBit_andNot, testBit_shape, testBit_carry, testBit_run]
  by_cases h : i < t + r + 1
  · simp only [h, if_true]
    by_cases h2 : t + r = i
    · have : ¬ i < t + r := by omega
      simp [h2, this]
    · simp [h2]
  · have h3 : ¬ i < t + r := by omega
    simp only [h, if_false, h3, decide_false, Bool.and_false]
    cases A.testBit (i - (t + r + 1)) <;> rfl

theorem shape_add_low (A r t : Nat) : shape A r t + 2 ^ t = 2 ^ (t + r) * (2 * A + 1) := by
  unfold shape
  have h := two_pow_pred_succ r
  rw [carry_eq, Nat.add_assoc]
  congr 1
  calc 2 ^ t * (2 ^ r - 1) + 2 ^ t = 2 ^ t * (2 ^ r - 1 + 1) := by ring
    _ = 2 ^ (t + r) := by rw [h, Nat.pow_add]

theorem shape_odd_form (A r t : Nat) (hr : 1 ≤ r) :
    shape A r t = 2 ^ t * (2 * (2 ^ r * A + (2 ^ (r - 1) - 1)) + 1) := by
  obtain ⟨r', rfl⟩ : ∃ r', r = r' + 1 := ⟨r - 1, by omega⟩
  unfold shape
  have h1 := two_pow_pred_succ r'
  have e : 2 ^ (r' + 1) - 1 = 2 * (2 ^ r' - 1) + 1 := by
    rw [Nat.pow_succ]; omega
  rw [e, Nat.add_sub_cancel]
  rw [show t + (r' + 1) + 1 = t + (r' + 1) + 1 from rfl, Nat.pow_succ, Nat.pow_add]
  ring

/-- one step of Gosper's hack on a word of shape `[A] 0 1^r 0^t` (no 64-bit overflow) -/
theorem gosper_formula (A r t : Nat) (hr : 1 ≤ r) (hx : shape A r t + 2 ^ t < 2 ^ 64) :
    gosperNext (shape A r t) = shapeNext A r t := by
  have hodd := shape_odd_form A r t hr
  have hlt : shape A r t < 2 ^ 64 := Nat.lt_of_le_of_lt (Nat.le_add_right _ _) hx
  have hpos : 0 < shape A r t := by
    rw [hodd]; exact Nat.mul_pos (Nat.two_pow_pos t) (by omega)
  have hlow : shape A r t &&& ((2 ^ 64 - shape A r t) % 2 ^ 64) = 2 ^ t := by
    rw [Nat.mod_eq_of_lt (by omega)]
    have := lowbit (2 ^ r * A + (2 ^ (r - 1) - 1)) t (by rw [← hodd]; exact hlt)
    rw [← hodd] at this
    exact this
  unfold gosperNext
  simp only []
  rw [hlow, Nat.mod_eq_of_lt hx, shape_add_low, andNot_shape, Nat.mul_div_cancel_left _ (Nat.two_pow_pos t)]
  obtain ⟨r', rfl⟩ : ∃ r', r = r' + 1 := ⟨r - 1, by omega⟩
  have hhalf : (2 ^ (r' + 1) - 1) >>> 1 = 2 ^ r' - 1 := by
    rw [Nat.shiftRight_eq_div_pow, Nat.pow_succ]
    have := Nat.two_pow_pos r'
    omega
  rw [hhalf, Nat.or_comm]
  unfold shapeNext
  rw [Nat.add_sub_cancel]
  refine (Nat.two_pow_add_eq_or_of_lt ?_ _).symm
  have h1 : 2 ^ r' ≤ 2 ^ (t + (r' + 1)) := Nat.pow_le_pow_right (by omega) (by omega)
  have := Nat.two_pow_pos r'
  omega

/-! ### consecutive elements of `subsetsAsc` -/

/-- `v` is the Gosper successor of `u`, with the run of `u` (and the zero above it) inside the low `n` bits -/
def GStep (n u v : Nat) : Prop :=
  ∃ A r t, 1 ≤ r ∧ t + r + 1 ≤ n ∧ u = shape A r t ∧ v = shapeNext A r t

def GConsec (R : Nat → Nat → Prop) : List Nat → Prop
  | [] => True
  | [_] => True
  | a :: b :: l => R a b ∧ GConsec R (b :: l)

theorem consec_mono {R R' : Nat → Nat → Prop} (h : ∀ a b, R a b → R' a b) :
    ∀ l, GConsec R l → GConsec R' l
  | [], _ => trivial
  | [_], _ => trivial
  | a :: b :: l, hc => ⟨h a b hc.1, consec_mono h (b :: l) hc.2⟩

theorem consec_map {R R' : Nat → Nat → Prop} (f : Nat → Nat) (h : ∀ a b, R a b → R' (f a) (f b)) :
    ∀ l, GConsec R l → GConsec R' (l.map f)
  | [], _ => trivial
  | [_], _ => trivial
  | a :: b :: l, hc => ⟨h a b hc.1, consec_map f h (b :: l) hc.2⟩

theorem consec_append {R : Nat → Nat → Prop} :
    ∀ (l1 l2 : List Nat), GConsec R l1 → GConsec R l2 →
      (∀ a b, l1.getLast? = some a → l2.head? = some b → R a b) → GConsec R (l1 ++ l2)
  | [], l2, _, h2, _ => by simpa using h2
  | [a], [], _, _, _ => trivial
  | [a], b :: l2, _, h2, hb => ⟨hb a b rfl rfl, h2⟩
  | a :: a' :: l1, l2, h1, h2, hb => by
    refine ⟨h1.1, ?_⟩
    have := consec_append (a' :: l1) l2 h1.2 h2 (by
      intro x y hx hy
      apply hb x y _ hy
      rw [List.getLast?_cons_cons]; exact hx)
    exact this

theorem subsetsAsc_nil (n k : Nat) (h : n < k) : subsetsAsc n k = [] := by
  cases n with
  | zero =>
    cases k with
    | zero => omega
    | succ k => simp [subsetsAsc]
  | succ n =>
    cases k with
    | zero => omega
    | succ k =>
      unfold subsetsAsc
      simp [show n < k by omega]

theorem subsetsAsc_ends : ∀ (n k : Nat), k ≤ n →
    (subsetsAsc n k).head? = some (2 ^ k - 1) ∧ (subsetsAsc n k).getLast? = some (2 ^ (n - k) * (2 ^ k - 1)) := by
  intro n
  induction n with
  | zero =>
    intro k hk
    have : k = 0 := by omega
    subst this
    simp [subsetsAsc]
  | succ n ih =>
    intro k hk
    cases k with
    | zero => simp [subsetsAsc]
    | succ k =>
      unfold subsetsAsc
      have hnk : ¬ n < k := by omega
      simp only [hnk, if_false]
      obtain ⟨h2h, h2l⟩ := ih k (by omega)
      have hne2 : subsetsAsc n k ≠ [] := by
        intro e; rw [e] at h2h; simp at h2h
      constructor
      · by_cases hk1 : k + 1 ≤ n
        · obtain ⟨h1h, _⟩ := ih (k + 1) hk1
          have hne1 : subsetsAsc n (k + 1) ≠ [] := by
            intro e; rw [e] at h1h; simp at h1h
          rw [List.head?_append, h1h]; rfl
        · have hkn : k = n := by omega
          subst hkn
          rw [subsetsAsc_nil k (k + 1) (by omega), List.nil_append, List.head?_map, h2h]
          simp only [Option.map_some, Option.some.injEq]
          have := Nat.two_pow_pos k
          rw [Nat.pow_succ]; omega
      · have hne2' : (subsetsAsc n k).map (· + 2 ^ n) ≠ [] := by simpa using hne2
        rw [List.getLast?_append, List.getLast?_map, h2l]
        have e1 : n + 1 - (k + 1) = n - k := by omega
        rw [e1]
        have hp := two_pow_pred_succ k
        have e2 : 2 ^ (k + 1) - 1 = (2 ^ k - 1) + 2 ^ k := by rw [Nat.pow_succ]; omega
        rw [e2, Nat.mul_add, ← Nat.pow_add, Nat.sub_add_cancel (by omega : k ≤ n)]
        rfl

theorem step_mono (n u v : Nat) (h : GStep n u v) : GStep (n + 1) u v := by
  obtain ⟨A, r, t, h1, h2, h3, h4⟩ := h
  exact ⟨A, r, t, h1, by omega, h3, h4⟩

theorem step_lift (n u v : Nat) (h : GStep n u v) : GStep (n + 1) (u + 2 ^ n) (v + 2 ^ n) := by
  obtain ⟨A, r, t, h1, h2, h3, h4⟩ := h
  refine ⟨A + 2 ^ (n - (t + r + 1)), r, t, h1, by omega, ?_, ?_⟩
  · rw [h3]; unfold shape
    have e : 2 ^ (t + r + 1) * 2 ^ (n - (t + r + 1)) = 2 ^ n := by
      rw [← Nat.pow_add]; congr 1; omega
    rw [Nat.mul_add, e]; ring
  · rw [h4]; unfold shapeNext
    have e : 2 ^ (t + r) * (2 * 2 ^ (n - (t + r + 1))) = 2 ^ n := by
      rw [← Nat.pow_succ', ← Nat.pow_add]; congr 1; omega
    have e2 : 2 * (A + 2 ^ (n - (t + r + 1))) + 1 = (2 * A + 1) + 2 * 2 ^ (n - (t + r + 1)) := by ring
    have e3 : 2 ^ (t + r) * ((2 * A + 1) + 2 * 2 ^ (n - (t + r + 1))) = 2 ^ (t + r) * (2 * A + 1) + 2 ^ n := by
      rw [Nat.mul_add, e]
    rw [e2, e3]; ring

theorem consec_subsetsAsc : ∀ (n k : Nat), GConsec (GStep n) (subsetsAsc n k) := by
  intro n
  induction n with
  | zero => intro k; cases k <;> simp [subsetsAsc, GConsec]
  | succ n ih =>
    intro k
    cases k with
    | zero => simp [subsetsAsc, GConsec]
    | succ k =>
      unfold subsetsAsc
      by_cases hnk : n < k
      · simp [hnk, GConsec]
      · simp only [hnk, if_false]
        apply consec_append
        · exact consec_mono (step_mono n) _ (ih (k + 1))
        · exact consec_map (· + 2 ^ n) (step_lift n) _ (ih k)
        · intro a b ha hb
          have hk1 : k + 1 ≤ n := by
            apply Nat.le_of_not_lt
            intro hlt
            rw [subsetsAsc_nil n (k + 1) (by omega)] at ha
            simp at ha
          obtain ⟨_, h1l⟩ := subsetsAsc_ends n (k + 1) hk1
          obtain ⟨h2h, _⟩ := subsetsAsc_ends n k (by omega)
          rw [h1l] at ha
          rw [List.head?_map, h2h] at hb
          simp only [Option.some.injEq, Option.map_some] at ha hb
          refine ⟨0, k + 1, n - (k + 1), by omega, by omega, ?_, ?_⟩
          · rw [← ha]; unfold shape; simp
          · rw [← hb]; unfold shapeNext
            have e : n - (k + 1) + (k + 1) = n := by omega
            rw [e]; simp; omega

theorem step_gosper (n u v : Nat) (hn : n ≤ 63) (hu : u < 2 ^ n) (h : GStep n u v) : gosperNext u = v := by
  obtain ⟨A, r, t, h1, _, h3, h4⟩ := h
  rw [h3, h4]
  apply gosper_formula A r t h1
  have hle : 2 ^ t ≤ shape A r t := by
    unfold shape
    have : 1 ≤ 2 ^ r - 1 := by
      have := Nat.pow_le_pow_right (by omega : 0 < 2) h1
      omega
    calc 2 ^ t = 2 ^ t * 1 := by rw [Nat.mul_one]
      _ ≤ 2 ^ t * (2 ^ r - 1) := Nat.mul_le_mul_left _ this
      _ ≤ _ := Nat.le_add_left _ _
  have h63 : 2 ^ n ≤ 2 ^ 63 := Nat.pow_le_pow_right (by omega) hn
  rw [← h3]
  rw [← h3] at hle
  omega

theorem gosperLoop_eq (n norb : Nat) (hn : n ≤ 63) (hnorb : norb ≤ 63) (hle : n ≤ norb) :
    ∀ (L : List Nat) (x : Nat), GConsec (GStep n) (x :: L) → (∀ y ∈ x :: L, y < 2 ^ n) →
      gosperLoop (L.length + 1) norb x = x :: L
  | [], x, _, hb => by
    have hx := hb x List.mem_cons_self
    have h64 : (1 <<< norb) % 2 ^ 64 = 2 ^ norb := by
      rw [Nat.one_shiftLeft]
      exact Nat.mod_eq_of_lt (Nat.pow_lt_pow_right (by omega) (by omega))
    have : x < 2 ^ norb := Nat.lt_of_lt_of_le hx (Nat.pow_le_pow_right (by omega) hle)
    show gosperLoop 1 norb x = [x]
    rw [gosperLoop, h64, if_pos this, gosperLoop]
  | y :: L, x, hc, hb => by
    have hx := hb x List.mem_cons_self
    have h64 : (1 <<< norb) % 2 ^ 64 = 2 ^ norb := by
      rw [Nat.one_shiftLeft]
      exact Nat.mod_eq_of_lt (Nat.pow_lt_pow_right (by omega) (by omega))
    have hxn : x < 2 ^ norb := Nat.lt_of_lt_of_le hx (Nat.pow_le_pow_right (by omega) hle)
    have hnext : gosperNext x = y := step_gosper n x y hn hx hc.1
    rw [List.length_cons, gosperLoop, h64, if_pos hxn, hnext]
    rw [gosperLoop_eq n norb hn hnorb hle L y hc.2 (fun z hz => hb z (List.mem_cons_of_mem _ hz))]

theorem length_subsetsAsc : ∀ (n k : Nat), (subsetsAsc n k).length = Nat.choose n k := by
  intro n
  induction n with
  | zero => intro k; cases k <;> simp [subsetsAsc]
  | succ n ih =>
    intro k
    cases k with
    | zero => simp [subsetsAsc]
    | succ k =>
      unfold subsetsAsc
      by_cases hnk : n < k
      · simp only [hnk, if_true, List.length_nil]
        exact (Nat.choose_eq_zero_of_lt (by omega)).symm
      · simp only [hnk, if_false, List.length_append, List.length_map]
        rw [ih k, ih (k + 1), Nat.choose_succ_succ', Nat.add_comm]

/-- the C string generator (Gosper's hack, 64-bit words, buffer of `binom norb nele` entries) produces the
    `nele`-subsets of `{0..norb-1}` in increasing numeric order, for every `norb ≤ 63` -/
theorem stringsC_eq_subsetsAsc (norb nele : Nat) (hn : norb ≤ 63) : stringsC norb nele = subsetsAsc norb nele := by
  unfold stringsC
  by_cases h0 : nele = 0
  · subst h0; cases norb <;> simp [subsetsAsc]
  · simp only [h0, if_false]
    by_cases hk : norb < nele
    · rw [subsetsAsc_nil norb nele hk, binom_eq_choose, Nat.choose_eq_zero_of_lt hk]; rfl
    · have hk' : nele ≤ norb := by omega
      obtain ⟨hh, _⟩ := subsetsAsc_ends norb nele hk'
      cases hL : subsetsAsc norb nele with
      | nil => rw [hL] at hh; simp at hh
      | cons x L =>
        rw [hL] at hh
        simp only [List.head?_cons, Option.some.injEq] at hh
        have hlen := length_subsetsAsc norb nele
        rw [hL, List.length_cons] at hlen
        rw [binom_eq_choose, ← hlen, Nat.one_shiftLeft, ← hh]
        apply gosperLoop_eq norb norb hn hn (Nat.le_refl _) L x
        · rw [← hL]; exact consec_subsetsAsc norb nele
        · intro y hy
          rw [← hL] at hy
          exact ((mem_subsetsAsc norb nele y).1 hy).1

end Model
