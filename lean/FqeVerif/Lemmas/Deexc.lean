/-
  Lemmas/Deexc.lean — the de-excitation table (`map_to_deexc`, Model.mapToDeexc): the row of a target string
  holds exactly the single-excitation entries that end on it, each once.
-/
import FqeVerif.Model.Maps
import FqeVerif.Lemmas.Excite
import Mathlib.Data.List.Nodup
namespace Model

theorem mappingEntry_source (i j s : Nat) (x : Nat × Nat × Bool) (h : mappingEntry i j s = some x) : x.1 = s := by
  unfold mappingEntry at h
  split at h
  · cases h; rfl
  · split at h
    · cases h; rfl
    · cases h

/-- an element of the flattened list of all entries -/
theorem mem_allEntries (norb : Nat) (strings : List Nat) (e : Nat × Nat × Nat × Bool) :
    e ∈ ((List.range norb).flatMap fun i => (List.range norb).flatMap fun j =>
          (buildMapping strings i j).map fun (s, t, p) => (t, s, i * norb + j, p)) ↔
      ∃ i j, i < norb ∧ j < norb ∧ e.2.1 ∈ strings ∧
        mappingEntry i j e.2.1 = some (e.2.1, e.1, e.2.2.2) ∧ e.2.2.1 = i * norb + j := by
  constructor
  · intro h
    rw [List.mem_flatMap] at h
    obtain ⟨i, hi, h⟩ := h
    rw [List.mem_flatMap] at h
    obtain ⟨j, hj, h⟩ := h
    rw [List.mem_map] at h
    obtain ⟨x, hx, he⟩ := h
    unfold buildMapping at hx
    rw [List.mem_filterMap] at hx
    obtain ⟨s, hs, hm⟩ := hx
    have hsrc := mappingEntry_source i j s x hm
    obtain ⟨xs, xt, xp⟩ := x
    simp only at hsrc he
    subst hsrc
    subst he
    exact ⟨i, j, List.mem_range.1 hi, List.mem_range.1 hj, hs, hm, rfl⟩
  · rintro ⟨i, j, hi, hj, hs, hm, he⟩
    rw [List.mem_flatMap]
    refine ⟨i, List.mem_range.2 hi, ?_⟩
    rw [List.mem_flatMap]
    refine ⟨j, List.mem_range.2 hj, ?_⟩
    rw [List.mem_map]
    refine ⟨(e.2.1, e.1, e.2.2.2), ?_, ?_⟩
    · unfold buildMapping
      rw [List.mem_filterMap]
      exact ⟨e.2.1, hs, hm⟩
    · obtain ⟨t, s, k, p⟩ := e
      simp only at he ⊢
      rw [he]

/-- **rows of the de-excitation table**: `(source, i·norb + j, parity)` is in the row of target `t` exactly when
    `source` is a string of the table and the single excitation `i ← j` maps it to `t` with that parity -/
theorem mem_mapToDeexc_row (norb : Nat) (strings : List Nat) (t : Nat) (x : Nat × Nat × Bool) :
    x ∈ (((List.range norb).flatMap fun i => (List.range norb).flatMap fun j =>
            (buildMapping strings i j).map fun (s, t, p) => (t, s, i * norb + j, p)).filter (fun e => e.1 = t)).map
          (fun e => e.2) ↔
      ∃ i j, i < norb ∧ j < norb ∧ x.1 ∈ strings ∧ mappingEntry i j x.1 = some (x.1, t, x.2.2) ∧ x.2.1 = i * norb + j := by
  constructor
  · intro h
    rw [List.mem_map] at h
    obtain ⟨e, he, hx⟩ := h
    rw [List.mem_filter] at he
    obtain ⟨hmem, ht⟩ := he
    obtain ⟨i, j, hi, hj, hs, hm, hk⟩ := (mem_allEntries norb strings e).1 hmem
    have ht' : e.1 = t := by simpa using ht
    subst hx
    exact ⟨i, j, hi, hj, hs, by rw [← ht']; exact hm, hk⟩
  · rintro ⟨i, j, hi, hj, hs, hm, hk⟩
    rw [List.mem_map]
    refine ⟨(t, x.1, x.2.1, x.2.2), ?_, rfl⟩
    rw [List.mem_filter]
    refine ⟨(mem_allEntries norb strings _).2 ⟨i, j, hi, hj, hs, hm, hk⟩, by simp⟩

end Model

namespace Model

theorem buildMapping_nodup (strings : List Nat) (hn : strings.Nodup) (i j : Nat) : (buildMapping strings i j).Nodup := by
  unfold buildMapping
  induction strings with
  | nil => simp
  | cons s rest ih =>
    rw [List.nodup_cons] at hn
    rw [List.filterMap_cons]
    cases hm : mappingEntry i j s with
    | none => exact ih hn.2
    | some x =>
      simp only
      rw [List.nodup_cons]
      refine ⟨?_, ih hn.2⟩
      intro hx
      rw [List.mem_filterMap] at hx
      obtain ⟨s', hs', hm'⟩ := hx
      have e1 := mappingEntry_source i j s x hm
      have e2 := mappingEntry_source i j s' x hm'
      rw [e1] at e2
      subst e2
      exact hn.1 hs'

/-- no entry is listed twice: the flattened list of all `(target, source, i·norb + j, parity)` has no duplicates -/
theorem allEntries_nodup (norb : Nat) (strings : List Nat) (hn : strings.Nodup) :
    ((List.range norb).flatMap fun i => (List.range norb).flatMap fun j =>
        (buildMapping strings i j).map fun (s, t, p) => (t, s, i * norb + j, p)).Nodup := by
  rw [List.nodup_flatMap]
  refine ⟨?_, ?_⟩
  · intro i hi
    rw [List.nodup_flatMap]
    refine ⟨?_, ?_⟩
    · intro j _
      refine List.Nodup.map ?_ (buildMapping_nodup strings hn i j)
      intro a b hab
      obtain ⟨a1, a2, a3⟩ := a
      obtain ⟨b1, b2, b3⟩ := b
      simp only [Prod.mk.injEq] at hab
      obtain ⟨h1, h2, _, h4⟩ := hab
      subst h1; subst h2; subst h4; rfl
    · refine List.Pairwise.imp_of_mem ?_ (List.nodup_range.pairwise_of_forall_ne (fun _ _ _ _ h => h) |> fun h => h)
      intro j j' hj hj' hne
      rw [Function.onFun, List.disjoint_left]
      intro e he he'
      rw [List.mem_map] at he he'
      obtain ⟨x, _, hx⟩ := he
      obtain ⟨y, _, hy⟩ := he'
      rw [← hy] at hx
      obtain ⟨x1, x2, x3⟩ := x
      obtain ⟨y1, y2, y3⟩ := y
      simp only [Prod.mk.injEq] at hx
      have := hx.2.2.1
      exact hne (by omega)
  · refine List.Pairwise.imp_of_mem ?_ (List.nodup_range.pairwise_of_forall_ne (fun _ _ _ _ h => h) |> fun h => h)
    intro i i' hi hi' hne
    rw [Function.onFun, List.disjoint_left]
    intro e he he'
    rw [List.mem_flatMap] at he he'
    obtain ⟨j, hj, he⟩ := he
    obtain ⟨j', hj', he'⟩ := he'
    rw [List.mem_map] at he he'
    obtain ⟨x, _, hx⟩ := he
    obtain ⟨y, _, hy⟩ := he'
    rw [← hy] at hx
    obtain ⟨x1, x2, x3⟩ := x
    obtain ⟨y1, y2, y3⟩ := y
    simp only [Prod.mk.injEq] at hx
    have hk := hx.2.2.1
    have hjn := List.mem_range.1 hj
    have hjn' := List.mem_range.1 hj'
    apply hne
    -- i * norb + j = i' * norb + j' with j, j' < norb
    have : i = i' := by
      have h1 : (i * norb + j) / norb = i := by
        rw [Nat.mul_comm, Nat.mul_add_div (by omega), Nat.div_eq_of_lt hjn]; omega
      have h2 : (i' * norb + j') / norb = i' := by
        rw [Nat.mul_comm, Nat.mul_add_div (by omega), Nat.div_eq_of_lt hjn']; omega
      rw [← h1, ← h2, hk]
    exact this

end Model
