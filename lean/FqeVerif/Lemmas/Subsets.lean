/-
  Lemmas/Subsets.lean — the reference enumerations of k-subsets (`subsetsAsc`: increasing numeric order,
  `subsetsLex`: lexical order of ascending occupation tuples) list each occupation pattern exactly once.
-/
import FqeVerif.Lemmas.Bits
import FqeVerif.Model.Strings
namespace Model

theorem cnt_succ (s n : Nat) : cnt s (n + 1) = cnt s n + (if s.testBit n then 1 else 0) := by
  unfold cnt; rw [cntIf]; simp

theorem cnt_le (s n : Nat) : cnt s n ≤ n := by
  induction n with
  | zero => simp [cnt, cntIf]
  | succ n ih => rw [cnt_succ]; split <;> omega

theorem testBit_of_lt (s n : Nat) (h : s < 2 ^ n) : s.testBit n = false :=
  Nat.testBit_lt_two_pow h

theorem cnt_add_two_pow (t n : Nat) (h : t < 2 ^ n) : cnt (t + 2 ^ n) n = cnt t n := by
  unfold cnt
  apply cntIf_congr
  intro r hr
  rw [Nat.add_comm, Nat.testBit_two_pow_add_gt hr]

theorem testBit_add_two_pow (t n : Nat) (h : t < 2 ^ n) : (t + 2 ^ n).testBit n = true := by
  rw [Nat.add_comm, Nat.testBit_two_pow_add_eq, testBit_of_lt t n h]; rfl

theorem cnt_pos_of_testBit (s i : Nat) (hb : s.testBit i = true) : ∀ m, i < m → 0 < cnt s m := by
  intro m hm
  induction m with
  | zero => omega
  | succ m ihm =>
    rw [cnt_succ]
    by_cases e : i = m
    · subst e; simp [hb]
    · have := ihm (by omega); omega

theorem mem_subsetsAsc : ∀ (n k s : Nat), s ∈ subsetsAsc n k ↔ (s < 2 ^ n ∧ cnt s n = k) := by
  intro n
  induction n with
  | zero =>
    intro k s
    cases k with
    | zero => simp [subsetsAsc, cnt, cntIf]
    | succ k =>
      simp only [subsetsAsc, List.not_mem_nil, false_iff]
      intro ⟨h1, h2⟩
      simp [cnt, cntIf] at h2
  | succ n ih =>
    intro k s
    cases k with
    | zero =>
      simp only [subsetsAsc, List.mem_singleton]
      constructor
      · intro h; subst h
        refine ⟨Nat.two_pow_pos _, ?_⟩
        unfold cnt
        have : ∀ m, cntIf 0 (fun _ => true) m = 0 := by
          intro m; induction m with
          | zero => rfl
          | succ m ihm => rw [cntIf, ihm]; simp
        exact this _
      · intro ⟨h1, h2⟩
        -- all bits below n+1 are clear and s < 2^(n+1)
        apply Nat.eq_of_testBit_eq
        intro i
        rw [Nat.zero_testBit]
        by_cases hi : i < n + 1
        · -- a set bit would make the count positive
          cases hb : s.testBit i with
          | false => rfl
          | true =>
            have := cnt_pos_of_testBit s i hb (n + 1) hi
            omega
        · exact Nat.testBit_lt_two_pow (Nat.lt_of_lt_of_le h1 (Nat.pow_le_pow_right (by omega) (by omega)))
    | succ k =>
      unfold subsetsAsc
      by_cases hnk : n < k
      · simp only [hnk, if_true, List.not_mem_nil, false_iff]
        intro ⟨_, h2⟩
        have := cnt_le s (n + 1)
        omega
      · simp only [hnk, if_false, List.mem_append, List.mem_map]
        rw [ih (k + 1) s]
        constructor
        · intro h
          rcases h with ⟨h1, h2⟩ | ⟨t, ht, rfl⟩
          · refine ⟨by rw [Nat.pow_succ]; omega, ?_⟩
            rw [cnt_succ, testBit_of_lt s n h1, h2]; simp
          · obtain ⟨ht1, ht2⟩ := (ih k t).1 ht
            refine ⟨by rw [Nat.pow_succ]; omega, ?_⟩
            rw [cnt_succ, testBit_add_two_pow t n ht1, cnt_add_two_pow t n ht1, ht2]; simp
        · intro ⟨h1, h2⟩
          rw [cnt_succ] at h2
          by_cases hb : s.testBit n = true
          · right
            simp only [hb, if_true] at h2
            have hge : 2 ^ n ≤ s := Nat.ge_two_pow_of_testBit hb
            refine ⟨s - 2 ^ n, (ih k (s - 2 ^ n)).2 ⟨by rw [Nat.pow_succ] at h1; omega, ?_⟩, by omega⟩
            have hlt : s - 2 ^ n < 2 ^ n := by rw [Nat.pow_succ] at h1; omega
            have := cnt_add_two_pow (s - 2 ^ n) n hlt
            have e : s - 2 ^ n + 2 ^ n = s := by omega
            rw [e] at this
            omega
          · left
            have hb' : s.testBit n = false := by simpa using hb
            simp only [hb', Bool.false_eq_true, if_false, Nat.add_zero] at h2
            refine ⟨?_, h2⟩
            apply Nat.lt_pow_two_of_testBit
            intro i hi
            by_cases e : i = n
            · subst e; exact hb'
            · exact Nat.testBit_lt_two_pow (Nat.lt_of_lt_of_le h1 (Nat.pow_le_pow_right (by omega) (by omega)))

theorem subsetsAsc_sorted : ∀ (n k : Nat), (subsetsAsc n k).Pairwise (· < ·) := by
  intro n
  induction n with
  | zero => intro k; cases k <;> simp [subsetsAsc]
  | succ n ih =>
    intro k
    cases k with
    | zero => simp [subsetsAsc]
    | succ k =>
      unfold subsetsAsc
      by_cases hnk : n < k
      · simp [hnk]
      · simp only [hnk, if_false]
        rw [List.pairwise_append]
        refine ⟨ih (k + 1), ?_, ?_⟩
        · rw [List.pairwise_map]
          exact (ih k).imp (fun h => by omega)
        · intro a ha b hb
          obtain ⟨t, _, rfl⟩ := List.mem_map.mp hb
          have := ((mem_subsetsAsc n (k + 1) a).1 ha).1
          omega

theorem subsetsAsc_nodup (n k : Nat) : (subsetsAsc n k).Nodup :=
  (subsetsAsc_sorted n k).imp (fun h => by omega)

theorem cnt_shift (s n : Nat) : cnt s (n + 1) = (if s.testBit 0 then 1 else 0) + cnt (s / 2) n := by
  unfold cnt
  rw [cntIf_shift]
  simp

theorem mem_subsetsLex : ∀ (n k s : Nat), s ∈ subsetsLex n k ↔ (s < 2 ^ n ∧ cnt s n = k) := by
  intro n
  induction n with
  | zero =>
    intro k s
    cases k with
    | zero => simp [subsetsLex, cnt, cntIf]
    | succ k =>
      simp only [subsetsLex, List.not_mem_nil, false_iff]
      intro ⟨h1, h2⟩
      simp [cnt, cntIf] at h2
  | succ n ih =>
    intro k s
    cases k with
    | zero =>
      rw [← mem_subsetsAsc]
      simp [subsetsLex, subsetsAsc]
    | succ k =>
      unfold subsetsLex
      by_cases hnk : n < k
      · simp only [hnk, if_true, List.not_mem_nil, false_iff]
        intro ⟨_, h2⟩
        have := cnt_le s (n + 1)
        omega
      · simp only [hnk, if_false, List.mem_append, List.mem_map]
        rw [cnt_shift]
        constructor
        · intro h
          rcases h with ⟨t, ht, rfl⟩ | ⟨t, ht, rfl⟩
          · obtain ⟨ht1, ht2⟩ := (ih k t).1 ht
            have e1 : (2 * t + 1).testBit 0 = true := by rw [Nat.testBit_zero]; simp
            have e2 : (2 * t + 1) / 2 = t := by omega
            refine ⟨by rw [Nat.pow_succ]; omega, ?_⟩
            rw [e1, e2, ht2]; simp; omega
          · obtain ⟨ht1, ht2⟩ := (ih (k + 1) t).1 ht
            have e1 : (2 * t).testBit 0 = false := by rw [Nat.testBit_zero]; simp
            have e2 : (2 * t) / 2 = t := by omega
            refine ⟨by rw [Nat.pow_succ]; omega, ?_⟩
            rw [e1, e2, ht2]; simp
        · intro ⟨h1, h2⟩
          have hhalf : s / 2 < 2 ^ n := by rw [Nat.pow_succ] at h1; omega
          by_cases hb : s.testBit 0 = true
          · left
            simp only [hb, if_true] at h2
            have hodd : s % 2 = 1 := by rw [Nat.testBit_zero] at hb; simpa using hb
            exact ⟨s / 2, (ih k (s / 2)).2 ⟨hhalf, by omega⟩, by omega⟩
          · right
            have hb' : s.testBit 0 = false := by simpa using hb
            simp only [hb', Bool.false_eq_true, if_false, Nat.zero_add] at h2
            have heven : s % 2 = 0 := by
              rw [Nat.testBit_zero] at hb'
              have : ¬ s % 2 = 1 := by simpa using hb'
              omega
            exact ⟨s / 2, (ih (k + 1) (s / 2)).2 ⟨hhalf, h2⟩, by omega⟩

theorem subsetsLex_nodup : ∀ (n k : Nat), (subsetsLex n k).Nodup := by
  intro n
  induction n with
  | zero => intro k; cases k <;> simp [subsetsLex]
  | succ n ih =>
    intro k
    cases k with
    | zero => simp [subsetsLex]
    | succ k =>
      unfold subsetsLex
      by_cases hnk : n < k
      · simp [hnk]
      · simp only [hnk, if_false]
        rw [List.nodup_append]
        refine ⟨?_, ?_, ?_⟩
        · exact List.Pairwise.map (fun t => 2 * t + 1) (fun a b h => by omega) (ih k)
        · exact List.Pairwise.map (fun t => 2 * t) (fun a b h => by omega) (ih (k + 1))
        · intro a ha b hb
          obtain ⟨t, _, rfl⟩ := List.mem_map.mp ha
          obtain ⟨u, _, rfl⟩ := List.mem_map.mp hb
          omega

end Model
